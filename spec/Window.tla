------------------------------- MODULE Window -------------------------------
(***************************************************************************)
(* Sliding-window statistics of sentinel-golang (core/stat/base).          *)
(*                                                                         *)
(* Two layers over the same history:                                       *)
(*                                                                         *)
(*  - the REFERENCE (property level, C08): `ref' maps the start of every   *)
(*    parent bucket that received an event to the totals of those events;  *)
(*    a read is *defined* as an aggregate over the bucket-aligned window   *)
(*    ending at the current bucket.  Everything a user can read (sums,     *)
(*    QPS, previous-window QPS, min/avg RT, peak concurrency, max single   *)
(*    bucket, per-second items, whole-array counts) is an operator over    *)
(*    `ref'.  These operators are what recorded executions of the real     *)
(*    code are validated against (Window_Trace).                           *)
(*                                                                         *)
(*  - the IMPLEMENTATION-SHAPED layer: the circular array of               *)
(*    BucketWrap{start, counters}, with the lazy reset on write / refresh  *)
(*    on whole-array reads, the deprecation test and the start-range       *)
(*    predicate of the read-only views, including the unsigned wrap-around *)
(*    behaviour for time stamps near zero.                                 *)
(*                                                                         *)
(* TLC checks that every read of the implementation layer equals the read  *)
(* of the reference (invariants ArrayOK, ViewOK, PrevOK, CondOK, MaxBOK).  *)
(***************************************************************************)
EXTENDS WindowRef, TLC

CONSTANTS
    PN,         \* parent sample count (number of slots)
    PBL,        \* parent bucket length (ticks)
    T0Set,      \* creation times of the array
    Steps,      \* clock increments
    Kinds,      \* summed event kinds that are exercised ("pass", "rt", ...)
    Amounts,    \* amounts of one event
    Concs,      \* concurrency values for UpdateConcurrency
    MaxOps,     \* bound on the number of write operations
    MaxT        \* bound on the clock

P     == PN * PBL       \* parent interval

VARIABLES
    now,        \* current time (> 0)
    ref,        \* reference: bucketStart -> [sum : [Kinds -> Nat], minrt, maxc]
    slots,      \* implementation: 0..PN-1 -> [start, sum, minrt, maxc]
    nops,       \* number of write operations so far
    h           \* history of operations (scenario for the conformance driver; hidden by VIEW)

vars == <<now, ref, slots, nops, h>>
view == <<now, ref, slots, nops>>

EmptySum     == [k \in Kinds |-> 0]
EmptyRec     == [sum |-> EmptySum, minrt |-> MaxRt, maxc |-> 0]

---------------------------------------------------------------------------
(* Views.  A view [vn, vbl] (vn buckets of length vbl) is constructible    *)
(* over the parent iff it tiles the parent buckets exactly.                *)

Views == { v \in [vn : 1..PN, vbl : {PBL * m : m \in 1..PN}] :
             CodeAccepts(v.vn, v.vn * v.vbl, PN, P) }
VI(v) == v.vn * v.vbl
\* previous-window reads are only meaningful for views shorter than the array by one view bucket
HasPrev(v) == VI(v) + v.vbl <= P

---------------------------------------------------------------------------
(* IMPLEMENTATION layer                                                    *)

Idx(t) == (t \div PBL) % PN

\* NewAtomicBucketWrapArrayWithTime: slot of `t0' holds its bucket, the following slots hold
\* the FUTURE buckets in circular order.
InitSlots(t0) ==
    [i \in 0..(PN-1) |->
        [start |-> Align(t0, PBL) + ((i - Idx(t0) + PN) % PN) * PBL,
         sum   |-> EmptySum, minrt |-> MaxRt, maxc |-> 0]]

\* currentBucketOfTime: reset the slot if it holds an older bucket.  (bs < start only with PN = 1
\* under concurrency; unreachable with a monotone clock.)
Refreshed(t) ==
    LET i == Idx(t)  bs == Align(t, PBL) IN
    IF bs > slots[i].start
      THEN [slots EXCEPT ![i] = [start |-> bs, sum |-> EmptySum, minrt |-> MaxRt, maxc |-> 0]]
      ELSE slots

\* isBucketDeprecated with unsigned arithmetic: (t - ws) wraps to a huge number when ws > t
Deprecated(sl, t, ws) == IF ws > t THEN TRUE ELSE t - ws >= P

\* buckets returned by ValuesConditional(t, pred): NOT refreshed
CondSlots(sl, t, Pred(_)) == IF t <= 0 THEN {}    \* "if now <= 0 return empty"
                             ELSE { i \in 0..(PN-1) : ~Deprecated(sl, t, sl[i].start) /\ Pred(sl[i].start) }
\* start-range predicate of a view (after "fix: clamp start of range at zero")
InRange(t, I, ws) == ws >= Max2(0, Align(t, PBL) - I + PBL) /\ ws <= Align(t, PBL)
ViewSlots(sl, t, I) == CondSlots(sl, t, LAMBDA ws : InRange(t, I, ws))

RECURSIVE ISum(_, _, _)
ISum(sl, S, k) == IF S = {} THEN 0
                  ELSE LET i == CHOOSE x \in S : TRUE IN sl[i].sum[k] + ISum(sl, S \ {i}, k)
RECURSIVE IMin(_, _)
IMin(sl, S) == IF S = {} THEN MaxRt
               ELSE LET i == CHOOSE x \in S : TRUE IN Min2(sl[i].minrt, IMin(sl, S \ {i}))
RECURSIVE IMaxC(_, _)
IMaxC(sl, S) == IF S = {} THEN 0
                ELSE LET i == CHOOSE x \in S : TRUE IN Max2(sl[i].maxc, IMaxC(sl, S \ {i}))
RECURSIVE IMaxB(_, _, _)
IMaxB(sl, S, k) == IF S = {} THEN 0
                   ELSE LET i == CHOOSE x \in S : TRUE IN Max2(sl[i].sum[k], IMaxB(sl, S \ {i}, k))

\* whole-array reads refresh the current bucket first
ArrSlots(t) == LET sl == Refreshed(t) IN { i \in 0..(PN-1) : ~Deprecated(sl, t, sl[i].start) }

---------------------------------------------------------------------------
(* Actions                                                                 *)

Init ==
    /\ now \in T0Set
    /\ ref = << >>
    /\ slots = InitSlots(now)
    /\ nops = 0
    /\ h = << [op |-> "new", t |-> now] >>

Add(k, n) ==
    /\ nops < MaxOps
    /\ ref' = RefAdd(ref, Kinds, PBL, now, k, n)
    /\ LET sl == Refreshed(now)  i == Idx(now) IN
       slots' = [sl EXCEPT ![i].sum[k] = @ + n,
                           ![i].minrt = IF k = "rt" THEN Min2(@, n) ELSE @]
    /\ nops' = nops + 1
    /\ h' = Append(h, [op |-> "add", k |-> k, n |-> n])
    /\ UNCHANGED now

Conc(c) ==
    /\ nops < MaxOps
    /\ ref' = RefConc(ref, Kinds, PBL, now, c)
    /\ LET sl == Refreshed(now)  i == Idx(now) IN
       slots' = [sl EXCEPT ![i].maxc = Max2(@, c)]
    /\ nops' = nops + 1
    /\ h' = Append(h, [op |-> "conc", c |-> c])
    /\ UNCHANGED now

\* a whole-array read (Count / Values): refreshes the current bucket as a side effect
ReadArr ==
    /\ slots' = Refreshed(now)
    /\ slots' # slots
    /\ h' = Append(h, [op |-> "readarr"])
    /\ UNCHANGED <<now, ref, nops>>

Tick(d) ==
    /\ now + d <= MaxT
    /\ now' = now + d
    /\ ref' = Prune(ref, PBL, P, now + d)
    /\ h' = Append(h, [op |-> "tick", d |-> d])
    /\ UNCHANGED <<slots, nops>>

Next ==
    \/ \E k \in Kinds, n \in Amounts : Add(k, n)
    \/ \E c \in Concs : Conc(c)
    \/ ReadArr
    \/ \E d \in Steps : Tick(d)

Spec == Init /\ [][Next]_vars

---------------------------------------------------------------------------
(* Properties: every implementation read equals the reference read         *)

ArrayOK ==
    LET sl == Refreshed(now)  S == ArrSlots(now) IN
    /\ \A k \in Kinds : ISum(sl, S, k) = RefSum(ref, PBL, now, P, k)
    /\ IMin(sl, S) = RefMinRt(ref, PBL, now, P)
    /\ IMaxC(sl, S) = RefMaxC(ref, PBL, now, P)

ViewOK ==
    \A v \in Views :
        LET S == ViewSlots(slots, now, VI(v)) IN
        /\ \A k \in Kinds : ISum(slots, S, k) = RefSum(ref, PBL, now, VI(v), k)
        /\ IMin(slots, S) = RefMinRt(ref, PBL, now, VI(v))
        /\ IMaxC(slots, S) = RefMaxC(ref, PBL, now, VI(v))

MaxBOK ==
    \A v \in Views : \A k \in Kinds :
        IMaxB(slots, ViewSlots(slots, now, VI(v)), k) = RefMaxB(ref, PBL, now, VI(v), k)

PrevOK ==
    \* (a previous-window read at now = vbl reads the window of time 0, which is outside the domain)
    \A v \in Views : (HasPrev(v) /\ now # v.vbl) =>
        \A k \in Kinds :
            (IF now < v.vbl THEN 0
             ELSE ISum(slots, ViewSlots(slots, now - v.vbl, VI(v)), k)) = RefPrevSum(ref, PBL, now, v.vbl, VI(v), k)

\* per-second items / MetricsOnCondition: the buckets handed out carry exactly the reference data.
\* Buckets without any event may or may not be handed out (they yield all-zero items).
CondOK ==
    \A lo \in {0, Align(now, PBL) - PBL, Align(now, PBL)} : \A hi \in {Align(now, PBL), MaxT + P} :
        LET S == CondSlots(slots, now, LAMBDA ws : ws >= lo /\ ws < hi)
            NonEmpty == { i \in S : slots[i].sum # EmptySum \/ slots[i].maxc # 0 }
        IN  /\ \A i \in NonEmpty : slots[i].start \in RefCond(ref, PBL, P, now, lo, hi)
                                   /\ slots[i].sum = ref[slots[i].start].sum
                                   /\ slots[i].maxc = ref[slots[i].start].maxc
            /\ \A s \in RefCond(ref, PBL, P, now, lo, hi) : \E i \in S : slots[i].start = s

\* a view is constructible only if it tiles the parent buckets (constant-level: checked as an assumption)
ASSUME ConstructibleOnlyIfTiles ==
    \A vn \in 1..(2*PN), vi \in 1..(2*P) : CodeAccepts(vn, vi, PN, P) => Tiles(vn, vi, PN, P)

TypeOK == now > 0 /\ nops \in 0..MaxOps
=============================================================================
