------------------------------ MODULE AdmitPath ------------------------------
(***************************************************************************)
(* k callers inside the admission path of the slot chain at the same time  *)
(* (k-callers clauses of C02 and C04).  Implementation-shaped: one action  *)
(* per atomic access to the shared cell, the program counters carry the    *)
(* names used around the yield hook "chain.checked" of                     *)
(* core/base/slot_chain.go:                                                *)
(*                                                                         *)
(*    chk : the rule-check slots read the shared cell (tokens admitted in  *)
(*          the aligned window / in-flight gauge) and decide               *)
(*    ---- vhook.Yield("chain.checked") ----                               *)
(*    rec : the statistic slots record: an admitted caller adds its batch  *)
(*          (Mode "qps") or one in-flight entry (Mode "conc")              *)
(*                                                                         *)
(* The clock does not move while the callers are inside the path.          *)
(* Properties (checked over ALL interleavings):                            *)
(*   Bound   qps : win <= max(T, w0) + (K-1) * (largest batch)             *)
(*           conc: win <= max(N, w0) +  K-1   (+1 if a zero batch is       *)
(*                 present: "in-flight + 0 <= N" admits at in-flight = N)  *)
(*   NoSpurious  a rejected caller saw  win + b > T  for a value of win    *)
(*           that is at most w0 + everything the OTHER callers add         *)
(*   Sequential  if no two callers overlap the path, nothing exceeds T     *)
(* The history h (who moved) is the schedule replayed on the real code by  *)
(* the goroutine gate; AdmitOps!PathReplay predicts the real outcomes.     *)
(***************************************************************************)
EXTENDS AdmitOps, TLC

CONSTANTS
    K,          \* number of callers
    Mode,       \* "qps" | "conc"
    Ts,         \* thresholds <<num, den>> to explore
    W0s,        \* initial contents of the shared cell
    Bs          \* batch counts

VARIABLES
    T,          \* threshold of this behaviour
    w0,         \* initial shared cell
    bs,         \* batch of every caller
    st,         \* [win, pc, dec]  (AdmitOps!PathInit / PathStep)
    h           \* schedule so far: sequence of caller ids

vars == <<T, w0, bs, st, h>>

Init ==
    /\ T \in Ts
    /\ w0 \in W0s
    /\ bs \in [1..K -> Bs]
    /\ st = PathInit(w0, K)
    /\ h = << >>

Move(i) ==
    /\ st.pc[i] # "done"
    /\ st' = PathStep(st, i, bs, T, Mode)
    /\ h' = Append(h, i)
    /\ UNCHANGED <<T, w0, bs>>

Next == \E i \in 1..K : Move(i)
Spec == Init /\ [][Next]_vars

---------------------------------------------------------------------------
MaxB   == MaxOf({bs[i] : i \in 1..K})
Slack  == IF Mode = "qps" THEN (K - 1) * MaxB
          ELSE (K - 1) + (IF \E i \in 1..K : bs[i] = 0 THEN 1 ELSE 0)

\* win <= max(T, w0) + Slack, cross-multiplied
BoundBy(s) == \/ st.win * T[2] <= T[1] + s * T[2]
              \/ st.win <= w0 + s
Bound == BoundBy(Slack)
\* the bound is tight: this one must be violated (used as a vacuity self-test, never as a property)
BoundTooTight == BoundBy(Slack - 1)

RECURSIVE AddedBy(_)
AddedBy(S) == IF S = {} THEN 0
              ELSE LET i == CHOOSE x \in S : TRUE IN
                   (IF st.dec[i] /\ st.pc[i] = "done" THEN PathInc(Mode, bs[i]) ELSE 0) + AddedBy(S \ {i})

\* a caller that has been rejected cannot have been rejected for nothing
NoSpurious ==
    \A i \in 1..K : (st.pc[i] # "chk" /\ ~st.dec[i]) =>
        Exceeds(w0 + AddedBy((1..K) \ {i}), bs[i], T)

\* the shared cell only ever contains w0 plus what admitted callers recorded
Conserved == st.win = w0 + AddedBy(1..K)

\* when callers do not overlap (each one records before the next one checks) nothing exceeds the threshold
Overlapped == \E n \in 1..(Len(h) - 1) : n % 2 = 1 /\ h[n + 1] # h[n]
Sequential == (~Overlapped /\ Mode = "qps") => (st.win * T[2] <= T[1] \/ st.win = w0)

TypeOK == /\ st.win \in Nat
          /\ \A i \in 1..K : st.pc[i] \in {"chk", "rec", "done"}
=============================================================================
