----------------------------- MODULE WindowConc -----------------------------
(***************************************************************************)
(* The lock-free sliding window (core/stat/base: currentBucketOfTime,      *)
(* ResetBucketTo, MetricBucket.addCount/AddRt/UpdateConcurrency/Get/reset, *)
(* valuesWithTime, MinRt/MaxConcurrency) at the grain of its atomic        *)
(* accesses (property C09).  Labels are the yield points of the real code: *)
(* la.load  la.trylock  la.setstart  la.reset  la.unlock  mb.add  la.scan  *)
(* mb.get  (+ "start": the goroutine has not begun).                       *)
(* A bucket holds one counter per event kind of CKinds plus a minimum (fed *)
(* by the "rt" recorders, AddRt) and a maximum (fed by the "conc"          *)
(* recorders, UpdateConcurrency); a roll-over clears ALL of them.          *)
(* Writer w records Amt[w] into the statistic WKind[w] at the clock value  *)
(* of its invocation; reader r performs a whole-array read of RKind[r]     *)
(* (refresh current bucket, scan, sum / minimum / maximum).                *)
(* The clock may not advance while that would leave a pending recorder     *)
(* stalled for more than one bucket length (assumption of the property).   *)
(***************************************************************************)
EXTENDS WindowConcProp, Sequences, TLC

CONSTANTS N, BL,          \* slots, bucket length
          Writers, Readers,
          Amt,            \* writer -> amount
          T0, MaxT,
          ResetFirst,     \* TRUE: counters are zeroed BEFORE the new start is published (the code after
                          \* "fix: reset the bucket before publishing its new start"); FALSE: pinned order
          Recheck,        \* TRUE: the decision to roll the bucket over is re-checked under the update lock (the code
                          \* after "fix: re-check the bucket start under the update lock"); FALSE: pinned code, which
                          \* resets again a bucket that another goroutine has refreshed (and written to) meanwhile
          CKinds,         \* the counters of a bucket carried by this model (event kinds: "pass" "block" "complete" "error" "rt")
          WKind,          \* writer -> the statistic it records into: a counter of CKinds (AddCount; "rt" also lowers the
                          \* bucket's minimum, AddRt) or "conc" (UpdateConcurrency: raises the bucket's maximum, no mb.add point)
          RKind,          \* reader -> the statistic it reads: a counter of CKinds (Count), "minrt" (MinRt) or "maxconc" (MaxConcurrency)
          MaxRt,          \* neutral value of the minimum (DefaultStatisticMaxRt)
          IdleKinds       \* {} : the real code, a roll-over always clears the bucket.  Non-empty (spec-level mutant): the
                          \* roll-over skips the reset of a bucket whose counters of these kinds are all zero ("nothing arrived")

Idx(t) == (t \div BL) % N
P == N * BL
InitStart(i) == Align(T0, BL) + ((i - Idx(T0) + N) % N) * BL
\* isBucketDeprecated with unsigned wrap-around (after "fix: a bucket exactly one interval old is deprecated")
Deprecated(t, ws) == IF ws > t THEN TRUE ELSE t - ws >= P
Zero == [k \in CKinds |-> 0]
Min2(a, b) == IF a < b THEN a ELSE b
Max2(a, b) == IF a > b THEN a ELSE b
SkipReset(c) == IdleKinds # {} /\ \A k \in IdleKinds : c[k] = 0

(* --algorithm WindowConc {
variables
    start = [sl \in 0..(N-1) |-> InitStart(sl)],
    cnt   = [sl \in 0..(N-1) |-> Zero],        \* counters per slot and event kind
    mn    = [sl \in 0..(N-1) |-> MaxRt],       \* minRt per slot
    mx    = [sl \in 0..(N-1) |-> 0],           \* maxConcurrency per slot
    lock  = 0,
    now   = T0,
    seq   = 0,                 \* position in the total order of invocations / returns
    ops   = {},                \* completed and pending operations (see WindowConcProp)
    pend  = [p \in Writers \cup Readers |-> [kind |-> "none"]],
    sched = << >>;

define {
    Pending == { pend[p] : p \in { q \in Writers \cup Readers : pend[q].kind # "none" } }
    AllOps  == ops \cup Pending
    NoInventionInv == NoInvention(AllOps, N, BL, MaxRt)
    ExactInv       == ExactWhenNoOverlap(AllOps, N, BL, MaxRt)
    AllDone        == \A p \in Writers \cup Readers : pc[p] = "Done"
    \* the minimum / maximum a read reports over the slots S it selected
    ExtRead(k, S)  == IF k = "minrt"
                      THEN IF S = {} THEN MaxRt ELSE CHOOSE v \in { mn[j] : j \in S } : \A j \in S : v <= mn[j]
                      ELSE IF S = {} THEN 0 ELSE CHOOSE v \in { mx[j] : j \in S } : \A j \in S : v >= mx[j]
    \* what a quiescent whole-array read at the current instant would select (it refreshes the current slot first)
    SlotIn(j)      == ~(j = Idx(now) /\ start[j] < Align(now, BL)) /\ ~Deprecated(now, start[j])
    LiveSlots      == { j \in 0..(N-1) : SlotIn(j) }
    RECURSIVE SumSlots(_, _)
    SumSlots(S, k) == IF S = {} THEN 0 ELSE LET j == CHOOSE x \in S : TRUE IN cnt[j][k] + SumSlots(S \ {j}, k)
    WinAdds(k)     == { a \in Adds(ops) : a.ev = k /\ Align(a.ts, BL) >= Lo(now, N, BL) /\ Align(a.ts, BL) <= Align(now, BL) }
    \* nothing inside the window is lost: once everybody has returned and no recorder overlapped a foreign
    \* roll-over of its own slot, the array holds exactly the recorded totals of the current window - of every statistic
    FinalExact     == (AllDone /\ Clean(ops)) =>
                        /\ \A k \in CKinds : SumSlots(LiveSlots, k) = SumN(WinAdds(k))
                        /\ ExtRead("minrt", LiveSlots) = Ext([ev |-> "minrt"], WinAdds("rt"), MaxRt)
                        /\ ExtRead("maxconc", LiveSlots) = Ext([ev |-> "maxconc"], WinAdds("conc"), MaxRt)
    \* sanity of the configuration and of the bucket contents
    TypeOK         == /\ \A j \in 0..(N-1) : mn[j] <= MaxRt /\ mx[j] >= 0 /\ \A k \in CKinds : cnt[j][k] >= 0
                      /\ \A p \in Writers : WKind[p] \in CKinds \cup {"conc"}
                      /\ \A p \in Readers : RKind[p] \in CKinds \cup ExtKinds
                      /\ IdleKinds \subseteq CKinds
}

macro Note() { sched := Append(sched, self); }
macro Return(v) {
    seq := seq + 1;
    ops := ops \cup {[pend[self] EXCEPT !.ret = seq + 1, !.retNow = now, !.val = v]};
    pend[self] := [kind |-> "none"];
}
\* a roll-over step on slot i by `self' hits every other pending add that selected slot i, and every other pending read
macro MarkOver(i) {
    pend := [p \in DOMAIN pend |->
               IF p # self /\ ((pend[p].kind = "add" /\ Idx(pend[p].ts) = i) \/ pend[p].kind = "read")
               THEN [pend[p] EXCEPT !.over = TRUE] ELSE pend[p]];
}
\* MetricBucket.reset: every counter, the minimum and the maximum (plain stores, no yield point in between)
macro ResetBucket(i) {
    if (~SkipReset(cnt[i])) { cnt[i] := Zero; mn[i] := MaxRt; mx[i] := 0; };
}
\* MetricBucket.Add / AddRt / UpdateConcurrency on the selected slot
macro Credit() {
    if (WKind[self] = "conc") { mx[idx] := Max2(mx[idx], Amt[self]); }
    else {
        cnt[idx][WKind[self]] := cnt[idx][WKind[self]] + Amt[self];
        if (WKind[self] = "rt") { mn[idx] := Min2(mn[idx], Amt[self]); };
    };
}

process (w \in Writers)
variables ts = 0, bs = 0, idx = 0;
{
  w_inv:    \* start: AddCount / UpdateConcurrency is invoked, reads the clock
    ts := now; bs := Align(now, BL); idx := Idx(now); seq := seq + 1;
    pend[self] := [kind |-> "add", ev |-> WKind[self], ts |-> now, n |-> Amt[self], inv |-> seq + 1, ret |-> 0, retNow |-> 0, val |-> 0, over |-> FALSE];
    Note();
  w_load:   \* la.load
    Note();
    if (start[idx] = bs \/ (bs < start[idx] /\ N = 1)) {
        \* UpdateConcurrency has no yield point of its own: it completes in the step that leaves currentBucketOfTime
        if (WKind[self] = "conc") { Credit(); Return(0); goto Done; } else { goto w_add; };
    }
    else if (bs > start[idx]) { goto w_try; }
    else { Return(0); goto Done; };            \* "time is behind the bucket": the amount is dropped
  w_try:    \* la.trylock
    Note();
    if (lock # 0) { goto w_load; }
    else if (Recheck /\ ~(bs > start[idx])) { goto w_load; }     \* lock, re-check fails, unlock: re-evaluate
    else { lock := self; };
  w_r1:     \* la.setstart (pinned order) / la.reset (fixed order)
    Note();
    if (ResetFirst) { ResetBucket(idx); } else { start[idx] := bs; };
    MarkOver(idx);
  w_r2:     \* la.reset (pinned order) / la.setstart (fixed order)
    Note();
    if (ResetFirst) { start[idx] := bs; } else { ResetBucket(idx); };
    MarkOver(idx);
  w_unlock: \* la.unlock
    lock := 0; Note();
    if (WKind[self] = "conc") { Credit(); Return(0); goto Done; };
  w_add:    \* mb.add
    Credit(); Note();
    Return(0);                                 \* the call returns in the same step (no further yield point)
}

process (r \in Readers)
variables rts = 0, rbs = 0, ridx = 0, si = 0, incl = {}, sum = 0;
{
  r_inv:    \* start: CountWithTime(now) / MinRt() / MaxConcurrency() is invoked
    rts := now; rbs := Align(now, BL); ridx := Idx(now); seq := seq + 1;
    pend[self] := [kind |-> "read", ev |-> RKind[self], ts |-> now, n |-> 0, inv |-> seq + 1, ret |-> 0, retNow |-> 0, val |-> 0, over |-> FALSE];
    Note();
  \* refresh the current bucket: same path as a writer, without the add
  r_load:   \* la.load
    Note();
    if (start[ridx] = rbs \/ (rbs < start[ridx])) {
        \* MinRt / MaxConcurrency take the clock a second time for the scan (LeapArray.Values())
        if (RKind[self] \in ExtKinds) { rts := now; };
        goto r_scan;
    }
    else { goto r_try; };
  r_try:    \* la.trylock
    Note();
    if (lock # 0) { goto r_load; }
    else if (Recheck /\ ~(rbs > start[ridx])) { goto r_load; }
    else { lock := self; };
  r_r1:
    Note();
    if (ResetFirst) { ResetBucket(ridx); } else { start[ridx] := rbs; };
    MarkOver(ridx);
  r_r2:
    Note();
    if (ResetFirst) { start[ridx] := rbs; } else { ResetBucket(ridx); };
    MarkOver(ridx);
  r_unlock: \* la.unlock
    lock := 0; Note();
    if (RKind[self] \in ExtKinds) { rts := now; };
  r_scan:   \* la.scan, once per slot
    Note();
    if (~Deprecated(rts, start[si])) { incl := incl \cup {si}; };
    si := si + 1;
    if (si < N) { goto r_scan; }
    \* the minimum / maximum of the selected slots is taken without a further yield point
    else if (RKind[self] \in ExtKinds) { Return(ExtRead(RKind[self], incl)); goto Done; }
    else if (incl = {}) { Return(0); goto Done; };
  r_get:    \* mb.get, once per selected slot (ascending slot order)
    Note();
    with (j = CHOOSE x \in incl : \A y \in incl : x <= y) { sum := sum + cnt[j][RKind[self]]; incl := incl \ {j}; };
    if (incl # {}) { goto r_get; } else { Return(sum); };
}

process (clock = 0)
{
  tick: while (now < MaxT) {
      \* no pending recorder may be left stalled for more than one bucket length
      await \A p \in Writers : pend[p].kind = "add" => (now + 1) - pend[p].ts <= BL;
      now := now + 1; sched := Append(sched, 0);
  }
}
} *)
\* BEGIN TRANSLATION
VARIABLES pc, start, cnt, mn, mx, lock, now, seq, ops, pend, sched

(* define statement *)
Pending == { pend[p] : p \in { q \in Writers \cup Readers : pend[q].kind # "none" } }
AllOps  == ops \cup Pending
NoInventionInv == NoInvention(AllOps, N, BL, MaxRt)
ExactInv       == ExactWhenNoOverlap(AllOps, N, BL, MaxRt)
AllDone        == \A p \in Writers \cup Readers : pc[p] = "Done"

ExtRead(k, S)  == IF k = "minrt"
                  THEN IF S = {} THEN MaxRt ELSE CHOOSE v \in { mn[j] : j \in S } : \A j \in S : v <= mn[j]
                  ELSE IF S = {} THEN 0 ELSE CHOOSE v \in { mx[j] : j \in S } : \A j \in S : v >= mx[j]

SlotIn(j)      == ~(j = Idx(now) /\ start[j] < Align(now, BL)) /\ ~Deprecated(now, start[j])
LiveSlots      == { j \in 0..(N-1) : SlotIn(j) }
RECURSIVE SumSlots(_, _)
SumSlots(S, k) == IF S = {} THEN 0 ELSE LET j == CHOOSE x \in S : TRUE IN cnt[j][k] + SumSlots(S \ {j}, k)
WinAdds(k)     == { a \in Adds(ops) : a.ev = k /\ Align(a.ts, BL) >= Lo(now, N, BL) /\ Align(a.ts, BL) <= Align(now, BL) }


FinalExact     == (AllDone /\ Clean(ops)) =>
                    /\ \A k \in CKinds : SumSlots(LiveSlots, k) = SumN(WinAdds(k))
                    /\ ExtRead("minrt", LiveSlots) = Ext([ev |-> "minrt"], WinAdds("rt"), MaxRt)
                    /\ ExtRead("maxconc", LiveSlots) = Ext([ev |-> "maxconc"], WinAdds("conc"), MaxRt)

TypeOK         == /\ \A j \in 0..(N-1) : mn[j] <= MaxRt /\ mx[j] >= 0 /\ \A k \in CKinds : cnt[j][k] >= 0
                  /\ \A p \in Writers : WKind[p] \in CKinds \cup {"conc"}
                  /\ \A p \in Readers : RKind[p] \in CKinds \cup ExtKinds
                  /\ IdleKinds \subseteq CKinds

VARIABLES ts, bs, idx, rts, rbs, ridx, si, incl, sum

vars == << pc, start, cnt, mn, mx, lock, now, seq, ops, pend, sched, ts, bs, 
           idx, rts, rbs, ridx, si, incl, sum >>

ProcSet == (Writers) \cup (Readers) \cup {0}

Init == (* Global variables *)
        /\ start = [sl \in 0..(N-1) |-> InitStart(sl)]
        /\ cnt = [sl \in 0..(N-1) |-> Zero]
        /\ mn = [sl \in 0..(N-1) |-> MaxRt]
        /\ mx = [sl \in 0..(N-1) |-> 0]
        /\ lock = 0
        /\ now = T0
        /\ seq = 0
        /\ ops = {}
        /\ pend = [p \in Writers \cup Readers |-> [kind |-> "none"]]
        /\ sched = << >>
        (* Process w *)
        /\ ts = [self \in Writers |-> 0]
        /\ bs = [self \in Writers |-> 0]
        /\ idx = [self \in Writers |-> 0]
        (* Process r *)
        /\ rts = [self \in Readers |-> 0]
        /\ rbs = [self \in Readers |-> 0]
        /\ ridx = [self \in Readers |-> 0]
        /\ si = [self \in Readers |-> 0]
        /\ incl = [self \in Readers |-> {}]
        /\ sum = [self \in Readers |-> 0]
        /\ pc = [self \in ProcSet |-> CASE self \in Writers -> "w_inv"
                                        [] self \in Readers -> "r_inv"
                                        [] self = 0 -> "tick"]

w_inv(self) == /\ pc[self] = "w_inv"
               /\ ts' = [ts EXCEPT ![self] = now]
               /\ bs' = [bs EXCEPT ![self] = Align(now, BL)]
               /\ idx' = [idx EXCEPT ![self] = Idx(now)]
               /\ seq' = seq + 1
               /\ pend' = [pend EXCEPT ![self] = [kind |-> "add", ev |-> WKind[self], ts |-> now, n |-> Amt[self], inv |-> seq' + 1, ret |-> 0, retNow |-> 0, val |-> 0, over |-> FALSE]]
               /\ sched' = Append(sched, self)
               /\ pc' = [pc EXCEPT ![self] = "w_load"]
               /\ UNCHANGED << start, cnt, mn, mx, lock, now, ops, rts, rbs, 
                               ridx, si, incl, sum >>

w_load(self) == /\ pc[self] = "w_load"
                /\ sched' = Append(sched, self)
                /\ IF start[idx[self]] = bs[self] \/ (bs[self] < start[idx[self]] /\ N = 1)
                      THEN /\ IF WKind[self] = "conc"
                                 THEN /\ IF WKind[self] = "conc"
                                            THEN /\ mx' = [mx EXCEPT ![idx[self]] = Max2(mx[idx[self]], Amt[self])]
                                                 /\ UNCHANGED << cnt, mn >>
                                            ELSE /\ cnt' = [cnt EXCEPT ![idx[self]][WKind[self]] = cnt[idx[self]][WKind[self]] + Amt[self]]
                                                 /\ IF WKind[self] = "rt"
                                                       THEN /\ mn' = [mn EXCEPT ![idx[self]] = Min2(mn[idx[self]], Amt[self])]
                                                       ELSE /\ TRUE
                                                            /\ mn' = mn
                                                 /\ mx' = mx
                                      /\ seq' = seq + 1
                                      /\ ops' = (ops \cup {[pend[self] EXCEPT !.ret = seq' + 1, !.retNow = now, !.val = 0]})
                                      /\ pend' = [pend EXCEPT ![self] = [kind |-> "none"]]
                                      /\ pc' = [pc EXCEPT ![self] = "Done"]
                                 ELSE /\ pc' = [pc EXCEPT ![self] = "w_add"]
                                      /\ UNCHANGED << cnt, mn, mx, seq, ops, 
                                                      pend >>
                      ELSE /\ IF bs[self] > start[idx[self]]
                                 THEN /\ pc' = [pc EXCEPT ![self] = "w_try"]
                                      /\ UNCHANGED << seq, ops, pend >>
                                 ELSE /\ seq' = seq + 1
                                      /\ ops' = (ops \cup {[pend[self] EXCEPT !.ret = seq' + 1, !.retNow = now, !.val = 0]})
                                      /\ pend' = [pend EXCEPT ![self] = [kind |-> "none"]]
                                      /\ pc' = [pc EXCEPT ![self] = "Done"]
                           /\ UNCHANGED << cnt, mn, mx >>
                /\ UNCHANGED << start, lock, now, ts, bs, idx, rts, rbs, ridx, 
                                si, incl, sum >>

w_try(self) == /\ pc[self] = "w_try"
               /\ sched' = Append(sched, self)
               /\ IF lock # 0
                     THEN /\ pc' = [pc EXCEPT ![self] = "w_load"]
                          /\ lock' = lock
                     ELSE /\ IF Recheck /\ ~(bs[self] > start[idx[self]])
                                THEN /\ pc' = [pc EXCEPT ![self] = "w_load"]
                                     /\ lock' = lock
                                ELSE /\ lock' = self
                                     /\ pc' = [pc EXCEPT ![self] = "w_r1"]
               /\ UNCHANGED << start, cnt, mn, mx, now, seq, ops, pend, ts, bs, 
                               idx, rts, rbs, ridx, si, incl, sum >>

w_r1(self) == /\ pc[self] = "w_r1"
              /\ sched' = Append(sched, self)
              /\ IF ResetFirst
                    THEN /\ IF ~SkipReset(cnt[idx[self]])
                               THEN /\ cnt' = [cnt EXCEPT ![idx[self]] = Zero]
                                    /\ mn' = [mn EXCEPT ![idx[self]] = MaxRt]
                                    /\ mx' = [mx EXCEPT ![idx[self]] = 0]
                               ELSE /\ TRUE
                                    /\ UNCHANGED << cnt, mn, mx >>
                         /\ start' = start
                    ELSE /\ start' = [start EXCEPT ![idx[self]] = bs[self]]
                         /\ UNCHANGED << cnt, mn, mx >>
              /\ pend' = [p \in DOMAIN pend |->
                            IF p # self /\ ((pend[p].kind = "add" /\ Idx(pend[p].ts) = idx[self]) \/ pend[p].kind = "read")
                            THEN [pend[p] EXCEPT !.over = TRUE] ELSE pend[p]]
              /\ pc' = [pc EXCEPT ![self] = "w_r2"]
              /\ UNCHANGED << lock, now, seq, ops, ts, bs, idx, rts, rbs, ridx, 
                              si, incl, sum >>

w_r2(self) == /\ pc[self] = "w_r2"
              /\ sched' = Append(sched, self)
              /\ IF ResetFirst
                    THEN /\ start' = [start EXCEPT ![idx[self]] = bs[self]]
                         /\ UNCHANGED << cnt, mn, mx >>
                    ELSE /\ IF ~SkipReset(cnt[idx[self]])
                               THEN /\ cnt' = [cnt EXCEPT ![idx[self]] = Zero]
                                    /\ mn' = [mn EXCEPT ![idx[self]] = MaxRt]
                                    /\ mx' = [mx EXCEPT ![idx[self]] = 0]
                               ELSE /\ TRUE
                                    /\ UNCHANGED << cnt, mn, mx >>
                         /\ start' = start
              /\ pend' = [p \in DOMAIN pend |->
                            IF p # self /\ ((pend[p].kind = "add" /\ Idx(pend[p].ts) = idx[self]) \/ pend[p].kind = "read")
                            THEN [pend[p] EXCEPT !.over = TRUE] ELSE pend[p]]
              /\ pc' = [pc EXCEPT ![self] = "w_unlock"]
              /\ UNCHANGED << lock, now, seq, ops, ts, bs, idx, rts, rbs, ridx, 
                              si, incl, sum >>

w_unlock(self) == /\ pc[self] = "w_unlock"
                  /\ lock' = 0
                  /\ sched' = Append(sched, self)
                  /\ IF WKind[self] = "conc"
                        THEN /\ IF WKind[self] = "conc"
                                   THEN /\ mx' = [mx EXCEPT ![idx[self]] = Max2(mx[idx[self]], Amt[self])]
                                        /\ UNCHANGED << cnt, mn >>
                                   ELSE /\ cnt' = [cnt EXCEPT ![idx[self]][WKind[self]] = cnt[idx[self]][WKind[self]] + Amt[self]]
                                        /\ IF WKind[self] = "rt"
                                              THEN /\ mn' = [mn EXCEPT ![idx[self]] = Min2(mn[idx[self]], Amt[self])]
                                              ELSE /\ TRUE
                                                   /\ mn' = mn
                                        /\ mx' = mx
                             /\ seq' = seq + 1
                             /\ ops' = (ops \cup {[pend[self] EXCEPT !.ret = seq' + 1, !.retNow = now, !.val = 0]})
                             /\ pend' = [pend EXCEPT ![self] = [kind |-> "none"]]
                             /\ pc' = [pc EXCEPT ![self] = "Done"]
                        ELSE /\ pc' = [pc EXCEPT ![self] = "w_add"]
                             /\ UNCHANGED << cnt, mn, mx, seq, ops, pend >>
                  /\ UNCHANGED << start, now, ts, bs, idx, rts, rbs, ridx, si, 
                                  incl, sum >>

w_add(self) == /\ pc[self] = "w_add"
               /\ IF WKind[self] = "conc"
                     THEN /\ mx' = [mx EXCEPT ![idx[self]] = Max2(mx[idx[self]], Amt[self])]
                          /\ UNCHANGED << cnt, mn >>
                     ELSE /\ cnt' = [cnt EXCEPT ![idx[self]][WKind[self]] = cnt[idx[self]][WKind[self]] + Amt[self]]
                          /\ IF WKind[self] = "rt"
                                THEN /\ mn' = [mn EXCEPT ![idx[self]] = Min2(mn[idx[self]], Amt[self])]
                                ELSE /\ TRUE
                                     /\ mn' = mn
                          /\ mx' = mx
               /\ sched' = Append(sched, self)
               /\ seq' = seq + 1
               /\ ops' = (ops \cup {[pend[self] EXCEPT !.ret = seq' + 1, !.retNow = now, !.val = 0]})
               /\ pend' = [pend EXCEPT ![self] = [kind |-> "none"]]
               /\ pc' = [pc EXCEPT ![self] = "Done"]
               /\ UNCHANGED << start, lock, now, ts, bs, idx, rts, rbs, ridx, 
                               si, incl, sum >>

w(self) == w_inv(self) \/ w_load(self) \/ w_try(self) \/ w_r1(self)
              \/ w_r2(self) \/ w_unlock(self) \/ w_add(self)

r_inv(self) == /\ pc[self] = "r_inv"
               /\ rts' = [rts EXCEPT ![self] = now]
               /\ rbs' = [rbs EXCEPT ![self] = Align(now, BL)]
               /\ ridx' = [ridx EXCEPT ![self] = Idx(now)]
               /\ seq' = seq + 1
               /\ pend' = [pend EXCEPT ![self] = [kind |-> "read", ev |-> RKind[self], ts |-> now, n |-> 0, inv |-> seq' + 1, ret |-> 0, retNow |-> 0, val |-> 0, over |-> FALSE]]
               /\ sched' = Append(sched, self)
               /\ pc' = [pc EXCEPT ![self] = "r_load"]
               /\ UNCHANGED << start, cnt, mn, mx, lock, now, ops, ts, bs, idx, 
                               si, incl, sum >>

r_load(self) == /\ pc[self] = "r_load"
                /\ sched' = Append(sched, self)
                /\ IF start[ridx[self]] = rbs[self] \/ (rbs[self] < start[ridx[self]])
                      THEN /\ IF RKind[self] \in ExtKinds
                                 THEN /\ rts' = [rts EXCEPT ![self] = now]
                                 ELSE /\ TRUE
                                      /\ rts' = rts
                           /\ pc' = [pc EXCEPT ![self] = "r_scan"]
                      ELSE /\ pc' = [pc EXCEPT ![self] = "r_try"]
                           /\ rts' = rts
                /\ UNCHANGED << start, cnt, mn, mx, lock, now, seq, ops, pend, 
                                ts, bs, idx, rbs, ridx, si, incl, sum >>

r_try(self) == /\ pc[self] = "r_try"
               /\ sched' = Append(sched, self)
               /\ IF lock # 0
                     THEN /\ pc' = [pc EXCEPT ![self] = "r_load"]
                          /\ lock' = lock
                     ELSE /\ IF Recheck /\ ~(rbs[self] > start[ridx[self]])
                                THEN /\ pc' = [pc EXCEPT ![self] = "r_load"]
                                     /\ lock' = lock
                                ELSE /\ lock' = self
                                     /\ pc' = [pc EXCEPT ![self] = "r_r1"]
               /\ UNCHANGED << start, cnt, mn, mx, now, seq, ops, pend, ts, bs, 
                               idx, rts, rbs, ridx, si, incl, sum >>

r_r1(self) == /\ pc[self] = "r_r1"
              /\ sched' = Append(sched, self)
              /\ IF ResetFirst
                    THEN /\ IF ~SkipReset(cnt[ridx[self]])
                               THEN /\ cnt' = [cnt EXCEPT ![ridx[self]] = Zero]
                                    /\ mn' = [mn EXCEPT ![ridx[self]] = MaxRt]
                                    /\ mx' = [mx EXCEPT ![ridx[self]] = 0]
                               ELSE /\ TRUE
                                    /\ UNCHANGED << cnt, mn, mx >>
                         /\ start' = start
                    ELSE /\ start' = [start EXCEPT ![ridx[self]] = rbs[self]]
                         /\ UNCHANGED << cnt, mn, mx >>
              /\ pend' = [p \in DOMAIN pend |->
                            IF p # self /\ ((pend[p].kind = "add" /\ Idx(pend[p].ts) = ridx[self]) \/ pend[p].kind = "read")
                            THEN [pend[p] EXCEPT !.over = TRUE] ELSE pend[p]]
              /\ pc' = [pc EXCEPT ![self] = "r_r2"]
              /\ UNCHANGED << lock, now, seq, ops, ts, bs, idx, rts, rbs, ridx, 
                              si, incl, sum >>

r_r2(self) == /\ pc[self] = "r_r2"
              /\ sched' = Append(sched, self)
              /\ IF ResetFirst
                    THEN /\ start' = [start EXCEPT ![ridx[self]] = rbs[self]]
                         /\ UNCHANGED << cnt, mn, mx >>
                    ELSE /\ IF ~SkipReset(cnt[ridx[self]])
                               THEN /\ cnt' = [cnt EXCEPT ![ridx[self]] = Zero]
                                    /\ mn' = [mn EXCEPT ![ridx[self]] = MaxRt]
                                    /\ mx' = [mx EXCEPT ![ridx[self]] = 0]
                               ELSE /\ TRUE
                                    /\ UNCHANGED << cnt, mn, mx >>
                         /\ start' = start
              /\ pend' = [p \in DOMAIN pend |->
                            IF p # self /\ ((pend[p].kind = "add" /\ Idx(pend[p].ts) = ridx[self]) \/ pend[p].kind = "read")
                            THEN [pend[p] EXCEPT !.over = TRUE] ELSE pend[p]]
              /\ pc' = [pc EXCEPT ![self] = "r_unlock"]
              /\ UNCHANGED << lock, now, seq, ops, ts, bs, idx, rts, rbs, ridx, 
                              si, incl, sum >>

r_unlock(self) == /\ pc[self] = "r_unlock"
                  /\ lock' = 0
                  /\ sched' = Append(sched, self)
                  /\ IF RKind[self] \in ExtKinds
                        THEN /\ rts' = [rts EXCEPT ![self] = now]
                        ELSE /\ TRUE
                             /\ rts' = rts
                  /\ pc' = [pc EXCEPT ![self] = "r_scan"]
                  /\ UNCHANGED << start, cnt, mn, mx, now, seq, ops, pend, ts, 
                                  bs, idx, rbs, ridx, si, incl, sum >>

r_scan(self) == /\ pc[self] = "r_scan"
                /\ sched' = Append(sched, self)
                /\ IF ~Deprecated(rts[self], start[si[self]])
                      THEN /\ incl' = [incl EXCEPT ![self] = incl[self] \cup {si[self]}]
                      ELSE /\ TRUE
                           /\ incl' = incl
                /\ si' = [si EXCEPT ![self] = si[self] + 1]
                /\ IF si'[self] < N
                      THEN /\ pc' = [pc EXCEPT ![self] = "r_scan"]
                           /\ UNCHANGED << seq, ops, pend >>
                      ELSE /\ IF RKind[self] \in ExtKinds
                                 THEN /\ seq' = seq + 1
                                      /\ ops' = (ops \cup {[pend[self] EXCEPT !.ret = seq' + 1, !.retNow = now, !.val = (ExtRead(RKind[self], incl'[self]))]})
                                      /\ pend' = [pend EXCEPT ![self] = [kind |-> "none"]]
                                      /\ pc' = [pc EXCEPT ![self] = "Done"]
                                 ELSE /\ IF incl'[self] = {}
                                            THEN /\ seq' = seq + 1
                                                 /\ ops' = (ops \cup {[pend[self] EXCEPT !.ret = seq' + 1, !.retNow = now, !.val = 0]})
                                                 /\ pend' = [pend EXCEPT ![self] = [kind |-> "none"]]
                                                 /\ pc' = [pc EXCEPT ![self] = "Done"]
                                            ELSE /\ pc' = [pc EXCEPT ![self] = "r_get"]
                                                 /\ UNCHANGED << seq, ops, 
                                                                 pend >>
                /\ UNCHANGED << start, cnt, mn, mx, lock, now, ts, bs, idx, 
                                rts, rbs, ridx, sum >>

r_get(self) == /\ pc[self] = "r_get"
               /\ sched' = Append(sched, self)
               /\ LET j == CHOOSE x \in incl[self] : \A y \in incl[self] : x <= y IN
                    /\ sum' = [sum EXCEPT ![self] = sum[self] + cnt[j][RKind[self]]]
                    /\ incl' = [incl EXCEPT ![self] = incl[self] \ {j}]
               /\ IF incl'[self] # {}
                     THEN /\ pc' = [pc EXCEPT ![self] = "r_get"]
                          /\ UNCHANGED << seq, ops, pend >>
                     ELSE /\ seq' = seq + 1
                          /\ ops' = (ops \cup {[pend[self] EXCEPT !.ret = seq' + 1, !.retNow = now, !.val = sum'[self]]})
                          /\ pend' = [pend EXCEPT ![self] = [kind |-> "none"]]
                          /\ pc' = [pc EXCEPT ![self] = "Done"]
               /\ UNCHANGED << start, cnt, mn, mx, lock, now, ts, bs, idx, rts, 
                               rbs, ridx, si >>

r(self) == r_inv(self) \/ r_load(self) \/ r_try(self) \/ r_r1(self)
              \/ r_r2(self) \/ r_unlock(self) \/ r_scan(self)
              \/ r_get(self)

tick == /\ pc[0] = "tick"
        /\ IF now < MaxT
              THEN /\ \A p \in Writers : pend[p].kind = "add" => (now + 1) - pend[p].ts <= BL
                   /\ now' = now + 1
                   /\ sched' = Append(sched, 0)
                   /\ pc' = [pc EXCEPT ![0] = "tick"]
              ELSE /\ pc' = [pc EXCEPT ![0] = "Done"]
                   /\ UNCHANGED << now, sched >>
        /\ UNCHANGED << start, cnt, mn, mx, lock, seq, ops, pend, ts, bs, idx, 
                        rts, rbs, ridx, si, incl, sum >>

clock == tick

(* Allow infinite stuttering to prevent deadlock on termination. *)
Terminating == /\ \A self \in ProcSet: pc[self] = "Done"
               /\ UNCHANGED vars

Next == clock
           \/ (\E self \in Writers: w(self))
           \/ (\E self \in Readers: r(self))
           \/ Terminating

Spec == Init /\ [][Next]_vars

Termination == <>(\A self \in ProcSet: pc[self] = "Done")

\* END TRANSLATION 
 
 
 
 
 
=============================================================================
