------------------------------- MODULE Throttle -------------------------------
(***************************************************************************)
(* flow.ThrottlingChecker.DoCheck at the grain of its atomic accesses      *)
(* (property C10).  Labels = yield points of the real code:                *)
(*   th.load1  th.cas  (pinned code also: th.load2  th.add  th.sub)  "start" *)
(* NC callers issue one request each, a clock ticks.  `last' is            *)
(* lastPassedTime.  Every request carries its OWN batch Bt[c] and its OWN  *)
(* threshold Th[c] = <<n, d>> (the threshold is an argument of each check: *)
(* MemoryAdaptive / WarmUp rules hand a different one from call to call),  *)
(* the spacing it owes is IvOwn(c) = ceil(Bt[c] * SI / Th[c]) ticks.       *)
(***************************************************************************)
EXTENDS ThrottleProp, Sequences, TLC

CONSTANTS NC,
          Bt,         \* Bt[c]: batch count of caller c's request (0 = passes without pacing)
          Th,         \* Th[c] = <<n, d>>: threshold n/d in force for caller c's request
          SI,         \* statistic interval in ticks
          MaxQ, MaxT,
          Last0,      \* initial lastPassedTime (0 = never passed)
          CasLoop,    \* TRUE: every update of lastPassedTime is a compare-and-swap from the value the decision was
                      \* based on, retried on loss (code after "fix: update lastPassedTime by compare-and-swap only");
                      \* FALSE: pinned code (idle branch CAS falling through to load / add / roll-back by subtraction),
                      \* kept as a spec-level mutant whose counterexamples are replayed on the real code
          PerCall     \* TRUE: the spacing is computed from the threshold of the request being checked;
                      \* FALSE: spec-level mutant - the per-token interval SI / threshold is derived once, from the first
                      \* request that reaches the pacing decision, and reused for every later request of the checker
Callers == 1..NC
IvOwn(c)  == Owed(Bt[c], Th[c][1], Th[c][2], SI)
BigC(c)   == Th[c][1] <= 0 \/ Bt[c] * Th[c][2] > Th[c][1]
\* the request that stands for an initial lastPassedTime > 0 (batch 1 at threshold SI: spacing 1)
Setup     == [id |-> 0, arr |-> Last0, b |-> 1, tn |-> SI, td |-> 1, res |-> "pass", w |-> 0, inv |-> 0, ret |-> 0]

(* --algorithm Throttle {
variables last = IF Last0 > 0 THEN Last0 ELSE -1000,    \* 0 = never passed: the epoch is far in the past
          now = 1, seq = 0,
          \* an initial lastPassedTime > 0 stands for an earlier request that passed at that instant
          reqs = IF Last0 > 0 THEN {Setup} ELSE {},
          frozen = <<0, 1>>,      \* mutant PerCall = FALSE only: threshold of the first paced request
          sched = << >>;

define {
    SpacingInv     == Spacing(reqs, SI)
    BoundedWaitInv == BoundedWait(reqs, MaxQ)
    NoSpuriousInv  == NoSpuriousReject(reqs, SI, MaxQ, 0)
    \* the spacing the checker applies to caller c's request
    IvOf(c)        == IF PerCall THEN IvOwn(c) ELSE Owed(Bt[c], frozen[1], frozen[2], SI)
    Rec(c, arrival, result, wait, i, r) ==
        [id |-> c, arr |-> arrival, b |-> Bt[c], tn |-> Th[c][1], td |-> Th[c][2], res |-> result, w |-> wait, inv |-> i, ret |-> r]
}
macro Note() { sched := Append(sched, self); }
macro Finish(result, wait) {
    seq := seq + 1;
    reqs := reqs \cup {Rec(self, cur, result, wait, inv, seq + 1)};
}

process (c \in Callers)
variables cur = 0, inv = 0, loaded = 0, est = 0;
{
  t_start:  \* start: DoCheck is invoked; batch 0 passes, threshold <= 0 or batch > threshold rejects (both without
            \* touching the pacing state and before the first yield point); otherwise it reads the clock
    cur := now; Note();
    if (Bt[self] = 0 \/ BigC(self)) {
        seq := seq + 2;
        reqs := reqs \cup {Rec(self, now, IF Bt[self] = 0 THEN "pass" ELSE "reject", 0, seq, seq + 1)};
        goto Done;
    } else {
        seq := seq + 1; inv := seq + 1;
        if (~PerCall /\ frozen[1] = 0) { frozen := Th[self]; };
    };
  t_load1:  \* th.load1
    loaded := last; Note();
    if (loaded + IvOf(self) > cur) {
        if (CasLoop) {
            est := loaded + IvOf(self) - cur;
            if (est > MaxQ) { Finish("reject", 0); goto Done; } else { goto t_casq; };
        } else { goto t_load2; };
    };
  t_cas:    \* th.cas (idle branch: pass now)
    Note();
    if (last = loaded) { last := cur; Finish("pass", 0); goto Done; }
    else if (CasLoop) { goto t_load1; }
    else { goto t_load2; };
  t_casq:   \* th.cas (queueing branch of the fixed code: reserve the slot loaded + interval)
    Note();
    if (last = loaded) { last := loaded + IvOf(self); Finish("pass", est); goto Done; } else { goto t_load1; };
  t_load2:  \* th.load2 (pinned code)
    est := last + IvOf(self) - cur; Note();
    if (est > MaxQ) { Finish("reject", 0); goto Done; };
  t_add:    \* th.add (pinned code)
    last := last + IvOf(self); est := last - cur; Note();   \* (reads of `last' after the assignment see the new value)
    if (est <= MaxQ) { Finish("pass", IF est > 0 THEN est ELSE 0); goto Done; };
  t_sub:    \* th.sub (pinned code)
    last := last - IvOf(self); Note(); Finish("reject", 0);
}

process (clock = 0)
{
  tick: while (now < MaxT) { now := now + 1; sched := Append(sched, 0); }
}
} *)
\* BEGIN TRANSLATION
VARIABLES pc, last, now, seq, reqs, frozen, sched

(* define statement *)
SpacingInv     == Spacing(reqs, SI)
BoundedWaitInv == BoundedWait(reqs, MaxQ)
NoSpuriousInv  == NoSpuriousReject(reqs, SI, MaxQ, 0)

IvOf(c)        == IF PerCall THEN IvOwn(c) ELSE Owed(Bt[c], frozen[1], frozen[2], SI)
Rec(c, arrival, result, wait, i, r) ==
    [id |-> c, arr |-> arrival, b |-> Bt[c], tn |-> Th[c][1], td |-> Th[c][2], res |-> result, w |-> wait, inv |-> i, ret |-> r]

VARIABLES cur, inv, loaded, est

vars == << pc, last, now, seq, reqs, frozen, sched, cur, inv, loaded, est >>

ProcSet == (Callers) \cup {0}

Init == (* Global variables *)
        /\ last = (IF Last0 > 0 THEN Last0 ELSE -1000)
        /\ now = 1
        /\ seq = 0
        /\ reqs = (IF Last0 > 0 THEN {Setup} ELSE {})
        /\ frozen = <<0, 1>>
        /\ sched = << >>
        (* Process c *)
        /\ cur = [self \in Callers |-> 0]
        /\ inv = [self \in Callers |-> 0]
        /\ loaded = [self \in Callers |-> 0]
        /\ est = [self \in Callers |-> 0]
        /\ pc = [self \in ProcSet |-> CASE self \in Callers -> "t_start"
                                        [] self = 0 -> "tick"]

t_start(self) == /\ pc[self] = "t_start"
                 /\ cur' = [cur EXCEPT ![self] = now]
                 /\ sched' = Append(sched, self)
                 /\ IF Bt[self] = 0 \/ BigC(self)
                       THEN /\ seq' = seq + 2
                            /\ reqs' = (reqs \cup {Rec(self, now, IF Bt[self] = 0 THEN "pass" ELSE "reject", 0, seq', seq' + 1)})
                            /\ pc' = [pc EXCEPT ![self] = "Done"]
                            /\ UNCHANGED << frozen, inv >>
                       ELSE /\ seq' = seq + 1
                            /\ inv' = [inv EXCEPT ![self] = seq' + 1]
                            /\ IF ~PerCall /\ frozen[1] = 0
                                  THEN /\ frozen' = Th[self]
                                  ELSE /\ TRUE
                                       /\ UNCHANGED frozen
                            /\ pc' = [pc EXCEPT ![self] = "t_load1"]
                            /\ reqs' = reqs
                 /\ UNCHANGED << last, now, loaded, est >>

t_load1(self) == /\ pc[self] = "t_load1"
                 /\ loaded' = [loaded EXCEPT ![self] = last]
                 /\ sched' = Append(sched, self)
                 /\ IF loaded'[self] + IvOf(self) > cur[self]
                       THEN /\ IF CasLoop
                                  THEN /\ est' = [est EXCEPT ![self] = loaded'[self] + IvOf(self) - cur[self]]
                                       /\ IF est'[self] > MaxQ
                                             THEN /\ seq' = seq + 1
                                                  /\ reqs' = (reqs \cup {Rec(self, cur[self], "reject", 0, inv[self], seq' + 1)})
                                                  /\ pc' = [pc EXCEPT ![self] = "Done"]
                                             ELSE /\ pc' = [pc EXCEPT ![self] = "t_casq"]
                                                  /\ UNCHANGED << seq, reqs >>
                                  ELSE /\ pc' = [pc EXCEPT ![self] = "t_load2"]
                                       /\ UNCHANGED << seq, reqs, est >>
                       ELSE /\ pc' = [pc EXCEPT ![self] = "t_cas"]
                            /\ UNCHANGED << seq, reqs, est >>
                 /\ UNCHANGED << last, now, frozen, cur, inv >>

t_cas(self) == /\ pc[self] = "t_cas"
               /\ sched' = Append(sched, self)
               /\ IF last = loaded[self]
                     THEN /\ last' = cur[self]
                          /\ seq' = seq + 1
                          /\ reqs' = (reqs \cup {Rec(self, cur[self], "pass", 0, inv[self], seq' + 1)})
                          /\ pc' = [pc EXCEPT ![self] = "Done"]
                     ELSE /\ IF CasLoop
                                THEN /\ pc' = [pc EXCEPT ![self] = "t_load1"]
                                ELSE /\ pc' = [pc EXCEPT ![self] = "t_load2"]
                          /\ UNCHANGED << last, seq, reqs >>
               /\ UNCHANGED << now, frozen, cur, inv, loaded, est >>

t_casq(self) == /\ pc[self] = "t_casq"
                /\ sched' = Append(sched, self)
                /\ IF last = loaded[self]
                      THEN /\ last' = loaded[self] + IvOf(self)
                           /\ seq' = seq + 1
                           /\ reqs' = (reqs \cup {Rec(self, cur[self], "pass", est[self], inv[self], seq' + 1)})
                           /\ pc' = [pc EXCEPT ![self] = "Done"]
                      ELSE /\ pc' = [pc EXCEPT ![self] = "t_load1"]
                           /\ UNCHANGED << last, seq, reqs >>
                /\ UNCHANGED << now, frozen, cur, inv, loaded, est >>

t_load2(self) == /\ pc[self] = "t_load2"
                 /\ est' = [est EXCEPT ![self] = last + IvOf(self) - cur[self]]
                 /\ sched' = Append(sched, self)
                 /\ IF est'[self] > MaxQ
                       THEN /\ seq' = seq + 1
                            /\ reqs' = (reqs \cup {Rec(self, cur[self], "reject", 0, inv[self], seq' + 1)})
                            /\ pc' = [pc EXCEPT ![self] = "Done"]
                       ELSE /\ pc' = [pc EXCEPT ![self] = "t_add"]
                            /\ UNCHANGED << seq, reqs >>
                 /\ UNCHANGED << last, now, frozen, cur, inv, loaded >>

t_add(self) == /\ pc[self] = "t_add"
               /\ last' = last + IvOf(self)
               /\ est' = [est EXCEPT ![self] = last' - cur[self]]
               /\ sched' = Append(sched, self)
               /\ IF est'[self] <= MaxQ
                     THEN /\ seq' = seq + 1
                          /\ reqs' = (reqs \cup {Rec(self, cur[self], "pass", (IF est'[self] > 0 THEN est'[self] ELSE 0), inv[self], seq' + 1)})
                          /\ pc' = [pc EXCEPT ![self] = "Done"]
                     ELSE /\ pc' = [pc EXCEPT ![self] = "t_sub"]
                          /\ UNCHANGED << seq, reqs >>
               /\ UNCHANGED << now, frozen, cur, inv, loaded >>

t_sub(self) == /\ pc[self] = "t_sub"
               /\ last' = last - IvOf(self)
               /\ sched' = Append(sched, self)
               /\ seq' = seq + 1
               /\ reqs' = (reqs \cup {Rec(self, cur[self], "reject", 0, inv[self], seq' + 1)})
               /\ pc' = [pc EXCEPT ![self] = "Done"]
               /\ UNCHANGED << now, frozen, cur, inv, loaded, est >>

c(self) == t_start(self) \/ t_load1(self) \/ t_cas(self) \/ t_casq(self)
              \/ t_load2(self) \/ t_add(self) \/ t_sub(self)

tick == /\ pc[0] = "tick"
        /\ IF now < MaxT
              THEN /\ now' = now + 1
                   /\ sched' = Append(sched, 0)
                   /\ pc' = [pc EXCEPT ![0] = "tick"]
              ELSE /\ pc' = [pc EXCEPT ![0] = "Done"]
                   /\ UNCHANGED << now, sched >>
        /\ UNCHANGED << last, seq, reqs, frozen, cur, inv, loaded, est >>

clock == tick

(* Allow infinite stuttering to prevent deadlock on termination. *)
Terminating == /\ \A self \in ProcSet: pc[self] = "Done"
               /\ UNCHANGED vars

Next == clock
           \/ (\E self \in Callers: c(self))
           \/ Terminating

Spec == Init /\ [][Next]_vars

Termination == <>(\A self \in ProcSet: pc[self] = "Done")

\* END TRANSLATION
=============================================================================
