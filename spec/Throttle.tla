------------------------------- MODULE Throttle -------------------------------
(***************************************************************************)
(* flow.ThrottlingChecker.DoCheck at the grain of its atomic accesses      *)
(* (property C10).  Labels = yield points of the real code:                *)
(*   th.load1  th.cas  (pinned code also: th.load2  th.add  th.sub)  "start" *)
(* NC callers issue one request each, a clock ticks.  `last' is            *)
(* lastPassedTime.  Every request carries its OWN batch Bt[c] and its OWN  *)
(* threshold Th[c] = <<n, d>> (the threshold is an argument of each check: *)
(* MemoryAdaptive / WarmUp rules hand a different one from call to call),  *)
(* the spacing it owes is ceil(Bt[c] * si / threshold) ticks.              *)
(*                                                                         *)
(* THE RULE IS REPLACED UNDER TRAFFIC: the parameters of the rule in force *)
(* - statistic interval si, maximum queueing time mq and a factor tm on    *)
(* the threshold - are STATE (`rule'), replaced by the loader process      *)
(* (flow.LoadRules / LoadRulesOfResource: action `reload', the k-th reload *)
(* loads Reloads[k]) at any point between the atomic steps of the callers. *)
(* A request takes the rule in force and the checker in use at its arrival *)
(* (the flow slot fetches the controller list once) and finishes on that   *)
(* checker even if a reload happens while it is in flight.  A reload that  *)
(* changes a parameter builds a new checker (lastPassedTime = never) with  *)
(* the new parameters; a reload that changes nothing keeps the checker and *)
(* its queue position.  `ep' counts the reloads: requests record the epoch *)
(* and the parameters in force at their arrival, the invariants (operators *)
(* of ThrottleProp) hold every request to exactly those.                   *)
(***************************************************************************)
EXTENDS ThrottleProp, Sequences, TLC

CONSTANTS NC,
          Bt,         \* Bt[c]: batch count of caller c's request (0 = passes without pacing)
          Th,         \* Th[c] = <<n, d>>: threshold n/d handed to the check of caller c's request (times rule.tm)
          SI,         \* statistic interval in ticks of the rule loaded first
          MaxQ,       \* maximum queueing time in ticks of the rule loaded first
          MaxT,
          Last0,      \* initial lastPassedTime (0 = never passed)
          CasLoop,    \* TRUE: every update of lastPassedTime is a compare-and-swap from the value the decision was
                      \* based on, retried on loss (code after "fix: update lastPassedTime by compare-and-swap only");
                      \* FALSE: pinned code (idle branch CAS falling through to load / add / roll-back by subtraction),
                      \* kept as a spec-level mutant whose counterexamples are replayed on the real code
          PerCall,    \* TRUE: the spacing is computed from the threshold of the request being checked;
                      \* FALSE: spec-level mutant - the per-token interval si / threshold is derived once, from the first
                      \* request that reaches the pacing decision, and reused for every later request of the checker
          Reloads,    \* sequence of rule parameters [si, mq, tm]: what the k-th reload loads (<< >>: the rule is never replaced)
          Stale       \* "none": a reload that changes any parameter replaces the checker;
                      \* "si" / "mq" / "tm": spec-level mutants - a reload that differs from the rule bound to the checker
                      \* in use ONLY in that parameter is taken for "unchanged": the old checker (and the old rule bound to
                      \* it) stays in force
Callers == 1..NC
NR      == Len(Reloads)
Loaders == IF NR > 0 THEN {-1} ELSE {}
Rule0   == [si |-> SI, mq |-> MaxQ, tm |-> <<1, 1>>]
\* threshold of caller c's request under rule parameters p
EffTh(c, p) == <<Th[c][1] * p.tm[1], Th[c][2] * p.tm[2]>>
IvOwn(c, p) == Owed(Bt[c], EffTh(c, p)[1], EffTh(c, p)[2], p.si)
BigC(c, p)  == EffTh(c, p)[1] <= 0 \/ Bt[c] * EffTh(c, p)[2] > EffTh(c, p)[1]
\* the spacing a checker built with parameters p applies to caller c's request (fr: mutant PerCall = FALSE only)
IvOf(c, p, fr) == IF PerCall THEN IvOwn(c, p) ELSE Owed(Bt[c], fr[1], fr[2], p.si)
\* does loading parameters new replace a checker whose bound rule has parameters old ?
SameBut(a, b, f) == \A x \in {"si", "mq", "tm"} \ {f} : a[x] = b[x]
Rebuilds(new, old) == new # old /\ ~(Stale # "none" /\ SameBut(new, old, Stale))
\* the request that stands for an initial lastPassedTime > 0 (batch 1 at threshold SI: spacing 1)
Setup     == [id |-> 0, arr |-> Last0, b |-> 1, tn |-> SI, td |-> 1, si |-> SI, mq |-> MaxQ, g |-> 0,
              res |-> "pass", w |-> 0, inv |-> 0, ret |-> 0]

(* --algorithm Throttle {
variables last = [x \in 0..NR |-> IF x = 0 /\ Last0 > 0 THEN Last0 ELSE -1000],  \* lastPassedTime of the checker built in
                                                    \* epoch x; 0 = never passed: the epoch is far in the past
          now = 1, seq = 0,
          \* an initial lastPassedTime > 0 stands for an earlier request that passed at that instant
          reqs = IF Last0 > 0 THEN {Setup} ELSE {},
          frozen = [x \in 0..NR |-> <<0, 1>>],    \* mutant PerCall = FALSE only: threshold of the first paced request
          ep = 0,             \* epoch: number of reloads so far
          rule = Rule0,       \* parameters of the rule in force (what was loaded last)
          ck = 0,             \* the checker in use: the epoch it was built in
          ckp = Rule0,        \* parameters of the rule bound to the checker in use (= rule unless Stale # "none")
          sched = << >>;

define {
    SpacingInv     == Spacing(reqs)
    BoundedWaitInv == BoundedWait(reqs)
    NoSpuriousInv  == NoSpuriousReject(reqs, 0)
    \* a request is recorded with the parameters of the rule IN FORCE at its arrival (rp), whatever the checker applied
    Rec(c, arrival, rp, e, result, wait, i, r) ==
        [id |-> c, arr |-> arrival, b |-> Bt[c], tn |-> EffTh(c, rp)[1], td |-> EffTh(c, rp)[2], si |-> rp.si, mq |-> rp.mq,
         g |-> e, res |-> result, w |-> wait, inv |-> i, ret |-> r]
}
macro Note() { sched := Append(sched, self); }
macro Finish(result, wait) {
    seq := seq + 1;
    reqs := reqs \cup {Rec(self, cur, rp, ge, result, wait, inv, seq + 1)};
}

process (c \in Callers)
variables cur = 0, inv = 0, loaded = 0, est = 0,
          ge = 0, rp = Rule0,     \* epoch and rule in force at the arrival
          k = 0, cp = Rule0;      \* the checker fetched at the arrival and the parameters it was built with
{
  t_start:  \* start: the request arrives: it takes the rule in force and the checker in use; DoCheck is invoked;
            \* batch 0 passes, threshold <= 0 or batch > threshold rejects (both without touching the pacing state
            \* and before the first yield point); otherwise it reads the clock
    cur := now; ge := ep; rp := rule; k := ck; cp := ckp; Note();
    if (Bt[self] = 0 \/ BigC(self, cp)) {
        seq := seq + 2;
        reqs := reqs \cup {Rec(self, now, rp, ge, IF Bt[self] = 0 THEN "pass" ELSE "reject", 0, seq, seq + 1)};
        goto Done;
    } else {
        seq := seq + 1; inv := seq + 1;
        if (~PerCall /\ frozen[k][1] = 0) { frozen[k] := EffTh(self, cp); };
    };
  t_load1:  \* th.load1
    loaded := last[k]; Note();
    if (loaded + IvOf(self, cp, frozen[k]) > cur) {
        if (CasLoop) {
            est := loaded + IvOf(self, cp, frozen[k]) - cur;
            if (est > cp.mq) { Finish("reject", 0); goto Done; } else { goto t_casq; };
        } else { goto t_load2; };
    };
  t_cas:    \* th.cas (idle branch: pass now)
    Note();
    if (last[k] = loaded) { last[k] := cur; Finish("pass", 0); goto Done; }
    else if (CasLoop) { goto t_load1; }
    else { goto t_load2; };
  t_casq:   \* th.cas (queueing branch of the fixed code: reserve the slot loaded + interval)
    Note();
    if (last[k] = loaded) { last[k] := loaded + IvOf(self, cp, frozen[k]); Finish("pass", est); goto Done; } else { goto t_load1; };
  t_load2:  \* th.load2 (pinned code)
    est := last[k] + IvOf(self, cp, frozen[k]) - cur; Note();
    if (est > cp.mq) { Finish("reject", 0); goto Done; };
  t_add:    \* th.add (pinned code)
    last[k] := last[k] + IvOf(self, cp, frozen[k]); est := last[k] - cur; Note();   \* (reads of `last' after the assignment see the new value)
    if (est <= cp.mq) { Finish("pass", IF est > 0 THEN est ELSE 0); goto Done; };
  t_sub:    \* th.sub (pinned code)
    last[k] := last[k] - IvOf(self, cp, frozen[k]); Note(); Finish("reject", 0);
}

process (clock = 0)
{
  tick: while (now < MaxT) { now := now + 1; sched := Append(sched, 0); }
}

process (loader \in Loaders)
variables n = 1;
{
  reload:   \* flow.LoadRules / LoadRulesOfResource with the rule Reloads[n] (atomic for the callers: the rule table is
            \* swapped under its lock).  Requests in flight keep the checker they fetched.
    while (n <= NR) {
        ep := ep + 1; rule := Reloads[n];
        if (Rebuilds(Reloads[n], ckp)) { ck := ep; ckp := Reloads[n]; };
        sched := Append(sched, -1);
        n := n + 1;
    }
}
} *)
\* BEGIN TRANSLATION
VARIABLES pc, last, now, seq, reqs, frozen, ep, rule, ck, ckp, sched

(* define statement *)
SpacingInv     == Spacing(reqs)
BoundedWaitInv == BoundedWait(reqs)
NoSpuriousInv  == NoSpuriousReject(reqs, 0)

Rec(c, arrival, rp, e, result, wait, i, r) ==
    [id |-> c, arr |-> arrival, b |-> Bt[c], tn |-> EffTh(c, rp)[1], td |-> EffTh(c, rp)[2], si |-> rp.si, mq |-> rp.mq,
     g |-> e, res |-> result, w |-> wait, inv |-> i, ret |-> r]

VARIABLES cur, inv, loaded, est, ge, rp, k, cp, n

vars == << pc, last, now, seq, reqs, frozen, ep, rule, ck, ckp, sched, cur, 
           inv, loaded, est, ge, rp, k, cp, n >>

ProcSet == (Callers) \cup {0} \cup (Loaders)

Init == (* Global variables *)
        /\ last = [x \in 0..NR |-> IF x = 0 /\ Last0 > 0 THEN Last0 ELSE -1000]
        /\ now = 1
        /\ seq = 0
        /\ reqs = (IF Last0 > 0 THEN {Setup} ELSE {})
        /\ frozen = [x \in 0..NR |-> <<0, 1>>]
        /\ ep = 0
        /\ rule = Rule0
        /\ ck = 0
        /\ ckp = Rule0
        /\ sched = << >>
        (* Process c *)
        /\ cur = [self \in Callers |-> 0]
        /\ inv = [self \in Callers |-> 0]
        /\ loaded = [self \in Callers |-> 0]
        /\ est = [self \in Callers |-> 0]
        /\ ge = [self \in Callers |-> 0]
        /\ rp = [self \in Callers |-> Rule0]
        /\ k = [self \in Callers |-> 0]
        /\ cp = [self \in Callers |-> Rule0]
        (* Process loader *)
        /\ n = [self \in Loaders |-> 1]
        /\ pc = [self \in ProcSet |-> CASE self \in Callers -> "t_start"
                                        [] self = 0 -> "tick"
                                        [] self \in Loaders -> "reload"]

t_start(self) == /\ pc[self] = "t_start"
                 /\ cur' = [cur EXCEPT ![self] = now]
                 /\ ge' = [ge EXCEPT ![self] = ep]
                 /\ rp' = [rp EXCEPT ![self] = rule]
                 /\ k' = [k EXCEPT ![self] = ck]
                 /\ cp' = [cp EXCEPT ![self] = ckp]
                 /\ sched' = Append(sched, self)
                 /\ IF Bt[self] = 0 \/ BigC(self, cp'[self])
                       THEN /\ seq' = seq + 2
                            /\ reqs' = (reqs \cup {Rec(self, now, rp'[self], ge'[self], IF Bt[self] = 0 THEN "pass" ELSE "reject", 0, seq', seq' + 1)})
                            /\ pc' = [pc EXCEPT ![self] = "Done"]
                            /\ UNCHANGED << frozen, inv >>
                       ELSE /\ seq' = seq + 1
                            /\ inv' = [inv EXCEPT ![self] = seq' + 1]
                            /\ IF ~PerCall /\ frozen[k'[self]][1] = 0
                                  THEN /\ frozen' = [frozen EXCEPT ![k'[self]] = EffTh(self, cp'[self])]
                                  ELSE /\ TRUE
                                       /\ UNCHANGED frozen
                            /\ pc' = [pc EXCEPT ![self] = "t_load1"]
                            /\ reqs' = reqs
                 /\ UNCHANGED << last, now, ep, rule, ck, ckp, loaded, est, n >>

t_load1(self) == /\ pc[self] = "t_load1"
                 /\ loaded' = [loaded EXCEPT ![self] = last[k[self]]]
                 /\ sched' = Append(sched, self)
                 /\ IF loaded'[self] + IvOf(self, cp[self], frozen[k[self]]) > cur[self]
                       THEN /\ IF CasLoop
                                  THEN /\ est' = [est EXCEPT ![self] = loaded'[self] + IvOf(self, cp[self], frozen[k[self]]) - cur[self]]
                                       /\ IF est'[self] > cp[self].mq
                                             THEN /\ seq' = seq + 1
                                                  /\ reqs' = (reqs \cup {Rec(self, cur[self], rp[self], ge[self], "reject", 0, inv[self], seq' + 1)})
                                                  /\ pc' = [pc EXCEPT ![self] = "Done"]
                                             ELSE /\ pc' = [pc EXCEPT ![self] = "t_casq"]
                                                  /\ UNCHANGED << seq, reqs >>
                                  ELSE /\ pc' = [pc EXCEPT ![self] = "t_load2"]
                                       /\ UNCHANGED << seq, reqs, est >>
                       ELSE /\ pc' = [pc EXCEPT ![self] = "t_cas"]
                            /\ UNCHANGED << seq, reqs, est >>
                 /\ UNCHANGED << last, now, frozen, ep, rule, ck, ckp, cur, 
                                 inv, ge, rp, k, cp, n >>

t_cas(self) == /\ pc[self] = "t_cas"
               /\ sched' = Append(sched, self)
               /\ IF last[k[self]] = loaded[self]
                     THEN /\ last' = [last EXCEPT ![k[self]] = cur[self]]
                          /\ seq' = seq + 1
                          /\ reqs' = (reqs \cup {Rec(self, cur[self], rp[self], ge[self], "pass", 0, inv[self], seq' + 1)})
                          /\ pc' = [pc EXCEPT ![self] = "Done"]
                     ELSE /\ IF CasLoop
                                THEN /\ pc' = [pc EXCEPT ![self] = "t_load1"]
                                ELSE /\ pc' = [pc EXCEPT ![self] = "t_load2"]
                          /\ UNCHANGED << last, seq, reqs >>
               /\ UNCHANGED << now, frozen, ep, rule, ck, ckp, cur, inv, 
                               loaded, est, ge, rp, k, cp, n >>

t_casq(self) == /\ pc[self] = "t_casq"
                /\ sched' = Append(sched, self)
                /\ IF last[k[self]] = loaded[self]
                      THEN /\ last' = [last EXCEPT ![k[self]] = loaded[self] + IvOf(self, cp[self], frozen[k[self]])]
                           /\ seq' = seq + 1
                           /\ reqs' = (reqs \cup {Rec(self, cur[self], rp[self], ge[self], "pass", est[self], inv[self], seq' + 1)})
                           /\ pc' = [pc EXCEPT ![self] = "Done"]
                      ELSE /\ pc' = [pc EXCEPT ![self] = "t_load1"]
                           /\ UNCHANGED << last, seq, reqs >>
                /\ UNCHANGED << now, frozen, ep, rule, ck, ckp, cur, inv, 
                                loaded, est, ge, rp, k, cp, n >>

t_load2(self) == /\ pc[self] = "t_load2"
                 /\ est' = [est EXCEPT ![self] = last[k[self]] + IvOf(self, cp[self], frozen[k[self]]) - cur[self]]
                 /\ sched' = Append(sched, self)
                 /\ IF est'[self] > cp[self].mq
                       THEN /\ seq' = seq + 1
                            /\ reqs' = (reqs \cup {Rec(self, cur[self], rp[self], ge[self], "reject", 0, inv[self], seq' + 1)})
                            /\ pc' = [pc EXCEPT ![self] = "Done"]
                       ELSE /\ pc' = [pc EXCEPT ![self] = "t_add"]
                            /\ UNCHANGED << seq, reqs >>
                 /\ UNCHANGED << last, now, frozen, ep, rule, ck, ckp, cur, 
                                 inv, loaded, ge, rp, k, cp, n >>

t_add(self) == /\ pc[self] = "t_add"
               /\ last' = [last EXCEPT ![k[self]] = last[k[self]] + IvOf(self, cp[self], frozen[k[self]])]
               /\ est' = [est EXCEPT ![self] = last'[k[self]] - cur[self]]
               /\ sched' = Append(sched, self)
               /\ IF est'[self] <= cp[self].mq
                     THEN /\ seq' = seq + 1
                          /\ reqs' = (reqs \cup {Rec(self, cur[self], rp[self], ge[self], "pass", (IF est'[self] > 0 THEN est'[self] ELSE 0), inv[self], seq' + 1)})
                          /\ pc' = [pc EXCEPT ![self] = "Done"]
                     ELSE /\ pc' = [pc EXCEPT ![self] = "t_sub"]
                          /\ UNCHANGED << seq, reqs >>
               /\ UNCHANGED << now, frozen, ep, rule, ck, ckp, cur, inv, 
                               loaded, ge, rp, k, cp, n >>

t_sub(self) == /\ pc[self] = "t_sub"
               /\ last' = [last EXCEPT ![k[self]] = last[k[self]] - IvOf(self, cp[self], frozen[k[self]])]
               /\ sched' = Append(sched, self)
               /\ seq' = seq + 1
               /\ reqs' = (reqs \cup {Rec(self, cur[self], rp[self], ge[self], "reject", 0, inv[self], seq' + 1)})
               /\ pc' = [pc EXCEPT ![self] = "Done"]
               /\ UNCHANGED << now, frozen, ep, rule, ck, ckp, cur, inv, 
                               loaded, est, ge, rp, k, cp, n >>

c(self) == t_start(self) \/ t_load1(self) \/ t_cas(self) \/ t_casq(self)
              \/ t_load2(self) \/ t_add(self) \/ t_sub(self)

tick == /\ pc[0] = "tick"
        /\ IF now < MaxT
              THEN /\ now' = now + 1
                   /\ sched' = Append(sched, 0)
                   /\ pc' = [pc EXCEPT ![0] = "tick"]
              ELSE /\ pc' = [pc EXCEPT ![0] = "Done"]
                   /\ UNCHANGED << now, sched >>
        /\ UNCHANGED << last, seq, reqs, frozen, ep, rule, ck, ckp, cur, inv, 
                        loaded, est, ge, rp, k, cp, n >>

clock == tick

reload(self) == /\ pc[self] = "reload"
                /\ IF n[self] <= NR
                      THEN /\ ep' = ep + 1
                           /\ rule' = Reloads[n[self]]
                           /\ IF Rebuilds(Reloads[n[self]], ckp)
                                 THEN /\ ck' = ep'
                                      /\ ckp' = Reloads[n[self]]
                                 ELSE /\ TRUE
                                      /\ UNCHANGED << ck, ckp >>
                           /\ sched' = Append(sched, -1)
                           /\ n' = [n EXCEPT ![self] = n[self] + 1]
                           /\ pc' = [pc EXCEPT ![self] = "reload"]
                      ELSE /\ pc' = [pc EXCEPT ![self] = "Done"]
                           /\ UNCHANGED << ep, rule, ck, ckp, sched, n >>
                /\ UNCHANGED << last, now, seq, reqs, frozen, cur, inv, loaded, 
                                est, ge, rp, k, cp >>

loader(self) == reload(self)

(* Allow infinite stuttering to prevent deadlock on termination. *)
Terminating == /\ \A self \in ProcSet: pc[self] = "Done"
               /\ UNCHANGED vars

Next == clock
           \/ (\E self \in Callers: c(self))
           \/ (\E self \in Loaders: loader(self))
           \/ Terminating

Spec == Init /\ [][Next]_vars

Termination == <>(\A self \in ProcSet: pc[self] = "Done")

\* END TRANSLATION
=============================================================================
