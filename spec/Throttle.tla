------------------------------- MODULE Throttle -------------------------------
(***************************************************************************)
(* flow.ThrottlingChecker.DoCheck at the grain of its atomic accesses      *)
(* (property C10).  Labels = yield points of the real code:                *)
(*   th.load1  th.cas  (pinned code also: th.load2  th.add  th.sub)  "start" *)
(* NC callers issue one request each (spacing Iv[c] ticks = ceil(batch *   *)
(* statInterval / threshold)), a clock ticks.  `last' is lastPassedTime.   *)
(***************************************************************************)
EXTENDS ThrottleProp, Sequences, TLC

CONSTANTS NC, Iv, MaxQ, MaxT,
          Last0,      \* initial lastPassedTime (0 = never passed)
          CasLoop     \* TRUE: every update of lastPassedTime is a compare-and-swap from the value the decision was
                      \* based on, retried on loss (code after "fix: update lastPassedTime by compare-and-swap only");
                      \* FALSE: pinned code (idle branch CAS falling through to load / add / roll-back by subtraction),
                      \* kept as a spec-level mutant whose counterexamples are replayed on the real code
Callers == 1..NC

(* --algorithm Throttle {
variables last = IF Last0 > 0 THEN Last0 ELSE -1000,    \* 0 = never passed: the epoch is far in the past
          now = 1, seq = 0,
          \* an initial lastPassedTime > 0 stands for an earlier request that passed at that instant
          reqs = IF Last0 > 0 THEN {[id |-> 0, arr |-> Last0, iv |-> 1, res |-> "pass", w |-> 0, inv |-> 0, ret |-> 0, big |-> FALSE]} ELSE {},
          sched = << >>;

define {
    SpacingInv     == Spacing(reqs)
    BoundedWaitInv == BoundedWait(reqs, MaxQ)
    NoSpuriousInv  == NoSpuriousReject(reqs, MaxQ, 0)
}
macro Note() { sched := Append(sched, self); }
macro Finish(result, wait) {
    seq := seq + 1;
    reqs := reqs \cup {[id |-> self, arr |-> cur, iv |-> Iv[self], res |-> result, w |-> wait, inv |-> inv, ret |-> seq + 1, big |-> FALSE]};
}

process (c \in Callers)
variables cur = 0, inv = 0, loaded = 0, est = 0;
{
  t_start:  \* start: DoCheck is invoked, reads the clock
    cur := now; seq := seq + 1; inv := seq + 1; Note();
  t_load1:  \* th.load1
    loaded := last; Note();
    if (loaded + Iv[self] > cur) {
        if (CasLoop) {
            est := loaded + Iv[self] - cur;
            if (est > MaxQ) { Finish("reject", 0); goto Done; } else { goto t_casq; };
        } else { goto t_load2; };
    };
  t_cas:    \* th.cas (idle branch: pass now)
    Note();
    if (last = loaded) { last := cur; Finish("pass", 0); goto Done; }
    else if (CasLoop) { goto t_load1; }
    else { goto t_load2; };
  t_casq:   \* th.cas (queueing branch of the fixed code: reserve the slot loaded + interval)
    Note();
    if (last = loaded) { last := loaded + Iv[self]; Finish("pass", est); goto Done; } else { goto t_load1; };
  t_load2:  \* th.load2 (pinned code)
    est := last + Iv[self] - cur; Note();
    if (est > MaxQ) { Finish("reject", 0); goto Done; };
  t_add:    \* th.add (pinned code)
    last := last + Iv[self]; est := last - cur; Note();   \* (reads of `last' after the assignment see the new value)
    if (est <= MaxQ) { Finish("pass", IF est > 0 THEN est ELSE 0); goto Done; };
  t_sub:    \* th.sub (pinned code)
    last := last - Iv[self]; Note(); Finish("reject", 0);
}

process (clock = 0)
{
  tick: while (now < MaxT) { now := now + 1; sched := Append(sched, 0); }
}
} *)
\* BEGIN TRANSLATION (chksum(pcal) = "8c964e94" /\ chksum(tla) = "c6229a61")
VARIABLES pc, last, now, seq, reqs, sched

(* define statement *)
SpacingInv     == Spacing(reqs)
BoundedWaitInv == BoundedWait(reqs, MaxQ)
NoSpuriousInv  == NoSpuriousReject(reqs, MaxQ, 0)

VARIABLES cur, inv, loaded, est

vars == << pc, last, now, seq, reqs, sched, cur, inv, loaded, est >>

ProcSet == (Callers) \cup {0}

Init == (* Global variables *)
        /\ last = (IF Last0 > 0 THEN Last0 ELSE -1000)
        /\ now = 1
        /\ seq = 0
        /\ reqs = (IF Last0 > 0 THEN {[id |-> 0, arr |-> Last0, iv |-> 1, res |-> "pass", w |-> 0, inv |-> 0, ret |-> 0, big |-> FALSE]} ELSE {})
        /\ sched = << >>
        (* Process c *)
        /\ cur = [self \in Callers |-> 0]
        /\ inv = [self \in Callers |-> 0]
        /\ loaded = [self \in Callers |-> 0]
        /\ est = [self \in Callers |-> 0]
        /\ pc = [self \in ProcSet |-> CASE self \in Callers -> "t_start"
                                        [] self = 0 -> "tick"]

t_start(self) == /\ pc[self] = "t_start"
                 /\ cur' = [cur EXCEPT ![self] = now]
                 /\ seq' = seq + 1
                 /\ inv' = [inv EXCEPT ![self] = seq' + 1]
                 /\ sched' = Append(sched, self)
                 /\ pc' = [pc EXCEPT ![self] = "t_load1"]
                 /\ UNCHANGED << last, now, reqs, loaded, est >>

t_load1(self) == /\ pc[self] = "t_load1"
                 /\ loaded' = [loaded EXCEPT ![self] = last]
                 /\ sched' = Append(sched, self)
                 /\ IF loaded'[self] + Iv[self] > cur[self]
                       THEN /\ IF CasLoop
                                  THEN /\ est' = [est EXCEPT ![self] = loaded'[self] + Iv[self] - cur[self]]
                                       /\ IF est'[self] > MaxQ
                                             THEN /\ seq' = seq + 1
                                                  /\ reqs' = (reqs \cup {[id |-> self, arr |-> cur[self], iv |-> Iv[self], res |-> "reject", w |-> 0, inv |-> inv[self], ret |-> seq' + 1, big |-> FALSE]})
                                                  /\ pc' = [pc EXCEPT ![self] = "Done"]
                                             ELSE /\ pc' = [pc EXCEPT ![self] = "t_casq"]
                                                  /\ UNCHANGED << seq, reqs >>
                                  ELSE /\ pc' = [pc EXCEPT ![self] = "t_load2"]
                                       /\ UNCHANGED << seq, reqs, est >>
                       ELSE /\ pc' = [pc EXCEPT ![self] = "t_cas"]
                            /\ UNCHANGED << seq, reqs, est >>
                 /\ UNCHANGED << last, now, cur, inv >>

t_cas(self) == /\ pc[self] = "t_cas"
               /\ sched' = Append(sched, self)
               /\ IF last = loaded[self]
                     THEN /\ last' = cur[self]
                          /\ seq' = seq + 1
                          /\ reqs' = (reqs \cup {[id |-> self, arr |-> cur[self], iv |-> Iv[self], res |-> "pass", w |-> 0, inv |-> inv[self], ret |-> seq' + 1, big |-> FALSE]})
                          /\ pc' = [pc EXCEPT ![self] = "Done"]
                     ELSE /\ IF CasLoop
                                THEN /\ pc' = [pc EXCEPT ![self] = "t_load1"]
                                ELSE /\ pc' = [pc EXCEPT ![self] = "t_load2"]
                          /\ UNCHANGED << last, seq, reqs >>
               /\ UNCHANGED << now, cur, inv, loaded, est >>

t_casq(self) == /\ pc[self] = "t_casq"
                /\ sched' = Append(sched, self)
                /\ IF last = loaded[self]
                      THEN /\ last' = loaded[self] + Iv[self]
                           /\ seq' = seq + 1
                           /\ reqs' = (reqs \cup {[id |-> self, arr |-> cur[self], iv |-> Iv[self], res |-> "pass", w |-> est[self], inv |-> inv[self], ret |-> seq' + 1, big |-> FALSE]})
                           /\ pc' = [pc EXCEPT ![self] = "Done"]
                      ELSE /\ pc' = [pc EXCEPT ![self] = "t_load1"]
                           /\ UNCHANGED << last, seq, reqs >>
                /\ UNCHANGED << now, cur, inv, loaded, est >>

t_load2(self) == /\ pc[self] = "t_load2"
                 /\ est' = [est EXCEPT ![self] = last + Iv[self] - cur[self]]
                 /\ sched' = Append(sched, self)
                 /\ IF est'[self] > MaxQ
                       THEN /\ seq' = seq + 1
                            /\ reqs' = (reqs \cup {[id |-> self, arr |-> cur[self], iv |-> Iv[self], res |-> "reject", w |-> 0, inv |-> inv[self], ret |-> seq' + 1, big |-> FALSE]})
                            /\ pc' = [pc EXCEPT ![self] = "Done"]
                       ELSE /\ pc' = [pc EXCEPT ![self] = "t_add"]
                            /\ UNCHANGED << seq, reqs >>
                 /\ UNCHANGED << last, now, cur, inv, loaded >>

t_add(self) == /\ pc[self] = "t_add"
               /\ last' = last + Iv[self]
               /\ est' = [est EXCEPT ![self] = last' - cur[self]]
               /\ sched' = Append(sched, self)
               /\ IF est'[self] <= MaxQ
                     THEN /\ seq' = seq + 1
                          /\ reqs' = (reqs \cup {[id |-> self, arr |-> cur[self], iv |-> Iv[self], res |-> "pass", w |-> (IF est'[self] > 0 THEN est'[self] ELSE 0), inv |-> inv[self], ret |-> seq' + 1, big |-> FALSE]})
                          /\ pc' = [pc EXCEPT ![self] = "Done"]
                     ELSE /\ pc' = [pc EXCEPT ![self] = "t_sub"]
                          /\ UNCHANGED << seq, reqs >>
               /\ UNCHANGED << now, cur, inv, loaded >>

t_sub(self) == /\ pc[self] = "t_sub"
               /\ last' = last - Iv[self]
               /\ sched' = Append(sched, self)
               /\ seq' = seq + 1
               /\ reqs' = (reqs \cup {[id |-> self, arr |-> cur[self], iv |-> Iv[self], res |-> "reject", w |-> 0, inv |-> inv[self], ret |-> seq' + 1, big |-> FALSE]})
               /\ pc' = [pc EXCEPT ![self] = "Done"]
               /\ UNCHANGED << now, cur, inv, loaded, est >>

c(self) == t_start(self) \/ t_load1(self) \/ t_cas(self) \/ t_casq(self)
              \/ t_load2(self) \/ t_add(self) \/ t_sub(self)

tick == /\ pc[0] = "tick"
        /\ IF now < MaxT
              THEN /\ now' = now + 1
                   /\ sched' = Append(sched, 0)
                   /\ pc' = [pc EXCEPT ![0] = "tick"]
              ELSE /\ pc' = [pc EXCEPT ![0] = "Done"]
                   /\ UNCHANGED << now, sched >>
        /\ UNCHANGED << last, seq, reqs, cur, inv, loaded, est >>

clock == tick

(* Allow infinite stuttering to prevent deadlock on termination. *)
Terminating == /\ \A self \in ProcSet: pc[self] = "Done"
               /\ UNCHANGED vars

Next == clock
           \/ (\E self \in Callers: c(self))
           \/ Terminating

Spec == Init /\ [][Next]_vars

Termination == <>(\A self \in ProcSet: pc[self] = "Done")

\* END TRANSLATION 
 
 
 
 
 
=============================================================================
