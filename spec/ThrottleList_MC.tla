---------------------------- MODULE ThrottleList_MC ----------------------------
EXTENDS ThrottleList, Json
RL(s, q, n, d) == [si |-> s, mq |-> q, tn |-> n, td |-> d]
\* (a rule with si = k * tn owes k ticks per token)
\* A: a rule that queues (2 ticks per token, limit 4) in front of a slower rule that never queues (3 ticks per token)
MCRulesA == << RL(4, 4, 2, 1), RL(6, 0, 2, 1) >>
\* B: both rules queue (1 tick per token, limit 2; 2 ticks per token, limit 2)
MCRulesB == << RL(4, 2, 4, 1), RL(4, 2, 2, 1) >>
\* C: three rules - queueing (1 tick, limit 3), never queueing (3 ticks), queueing (2 ticks, limit 1)
MCRulesC == << RL(4, 3, 4, 1), RL(6, 0, 2, 1), RL(4, 1, 2, 1) >>
\* D: a batch of 2 exceeds the threshold of the second rule (rejection that names no rule), the third has threshold 0
MCRulesD == << RL(4, 3, 4, 1), RL(3, 2, 1, 1), RL(4, 2, 0, 1) >>
\* E: the slow rule in front (never waits more than 1), the fast queueing one behind
MCRulesE == << RL(6, 1, 2, 1), RL(4, 4, 2, 1) >>
MCB1   == {1}
MCB12  == {1, 2}
MCB012 == {0, 1, 2}
MCG03  == {0, 3}
MCG013 == {0, 1, 3}
MCG012 == {0, 1, 2}
MCG0124 == {0, 1, 2, 4}
Emit == PrintT(ToJson(h'))
Leaf == Len(h') = NReq => PrintT(ToJson(h'))
================================================================================
