----------------------------- MODULE ThrottleList -----------------------------
(***************************************************************************)
(* SEVERAL throttling flow rules on ONE resource (property C10), at the    *)
(* grain of the flow slot: flow.Slot.Check walks the traffic controllers   *)
(* of the resource IN LIST ORDER; a rule that answers "wait" makes the     *)
(* request sleep AT ONCE (the clock advances), so the next rule is reached *)
(* that much later; the first rule that rejects ends the walk.  Each rule  *)
(* is a ThrottlingChecker of its own (its own lastPassedTime, statistic    *)
(* interval, threshold, queueing limit) - the sequential reading of the    *)
(* checker modelled step by step in Throttle.tla.                          *)
(* Callers are sequential (the next request arrives `gap' ticks after the  *)
(* previous call returned, i.e. after the previous caller slept its        *)
(* waits); the concurrent behaviour of ONE checker is Throttle.tla.        *)
(*                                                                         *)
(* What the model records of a request is only what an execution of the    *)
(* real code shows: arrival, batch, decision, TOTAL wait, the rule named   *)
(* by a rejection.  The invariants are the per-rule clauses of             *)
(* ThrottleProp over the records that ThrottleProp!Attribute derives from  *)
(* those observables - exactly what Throttle_Trace does with a recorded    *)
(* execution; AttrExact says that on this model the attribution recovers   *)
(* the instants and waits at every rule exactly.                           *)
(*                                                                         *)
(* Mode = "seq" is the library.  Spec-level mutants:                       *)
(*  "atarrival"  every rule of the list is checked at the ARRIVAL instant; *)
(*               the request sleeps ONCE, the longest wait asked for, when *)
(*               every rule let it through (a rejected request is not      *)
(*               delayed)                                                  *)
(*  "consultall" a rejection does not end the walk: the rules behind the   *)
(*               rejecting one are still consulted and reserve their slot  *)
(***************************************************************************)
EXTENDS ThrottleProp, TLC

CONSTANTS Rules,      \* sequence of [si, mq, tn, td]: statistic interval, queueing limit (ticks), threshold tn/td
          Bts,        \* batch counts a request may carry
          Gaps,       \* ticks between the return of a call and the next arrival
          NReq,       \* number of requests
          Mode

NR == Len(Rules)
VARIABLES now,        \* the clock
          last,       \* last[j]: lastPassedTime of rule j's checker
          obs,        \* request-level observables
          lrecs,      \* lrecs[j]: per-rule records attributed from the observables (ThrottleProp!Attribute)
          truth,      \* truth[j]: what really happened at rule j (instant reached, wait, outcome)
          h           \* the history of inputs: sequence of [gap, batch] (scenario for the driver)
vars == <<now, last, obs, lrecs, truth, h>>

MaxOf(a, b) == IF a >= b THEN a ELSE b

(* the walk of one request of batch b over rules j..NR.  a0 = arrival, t = the clock when rule j is reached,            *)
(* lst = lastPassedTime per rule, slept = what the request has been made (or will be made) to sleep,                   *)
(* steps = <<[t, w, res]>> per rule consulted, rj = the rejection so far (mutant consultall only; by = -1: none)        *)
RECURSIVE Walk(_, _, _, _, _, _, _, _)
Walk(b, a0, j, t, lst, slept, steps, rj) ==
    IF j > NR
    THEN IF rj.by >= 0 THEN [res |-> "reject", w |-> rj.w, by |-> rj.by, last |-> lst, steps |-> steps]
         ELSE [res |-> "pass", w |-> slept, by |-> 0, last |-> lst, steps |-> steps]
    ELSE LET R    == Rules[j]
             iv   == Owed(b, R.tn, R.td, R.si)
             big  == R.tn <= 0 \/ b * R.td > R.tn
             here == IF Mode = "atarrival" THEN a0 ELSE t
             est  == lst[j] + iv - here
             \* the rejection: a rejected request was delayed by the rules in front (library) or not at all (atarrival);
             \* the library names the rule unless the batch merely exceeds a positive threshold
             rej  == [w |-> IF Mode = "atarrival" THEN 0 ELSE slept, by |-> IF big /\ R.tn > 0 THEN 0 ELSE j]
             stop(st) == IF rj.by >= 0 THEN Walk(b, a0, j + 1, t, lst, slept, steps, rj)          \* (already rejected)
                         ELSE IF Mode = "consultall" THEN Walk(b, a0, j + 1, t, lst, slept, st, rej)
                         ELSE [res |-> "reject", w |-> rej.w, by |-> rej.by, last |-> lst, steps |-> st]
             note(w, res) == IF rj.by >= 0 THEN steps ELSE Append(steps, [t |-> here, w |-> w, res |-> res])
         IN IF b = 0 THEN Walk(b, a0, j + 1, t, lst, slept, note(0, "pass"), rj)
            ELSE IF big THEN stop(note(0, "reject"))
            ELSE IF est <= 0 THEN Walk(b, a0, j + 1, t, [lst EXCEPT ![j] = here], slept, note(0, "pass"), rj)
            ELSE IF est > R.mq THEN stop(note(0, "reject"))
            ELSE IF Mode = "atarrival"
                 THEN Walk(b, a0, j + 1, t, [lst EXCEPT ![j] = @ + iv], MaxOf(slept, est), note(est, "pass"), rj)
                 ELSE Walk(b, a0, j + 1, IF rj.by >= 0 THEN t ELSE t + est, [lst EXCEPT ![j] = @ + iv],
                           IF rj.by >= 0 THEN slept ELSE slept + est, note(est, "pass"), rj)

Init == /\ now = 0
        /\ last = [j \in 1..NR |-> -1000]          \* never passed: far in the past
        /\ obs = {} /\ h = << >>
        /\ lrecs = [j \in 1..NR |-> {}] /\ truth = [j \in 1..NR |-> {}]

Request(gap, b) ==
    /\ Len(h) < NReq
    /\ LET a0 == now + gap
           r  == Walk(b, a0, 1, a0, last, 0, << >>, [w |-> 0, by |-> -1])
           q  == [id |-> Len(h) + 1, arr |-> a0, b |-> b, res |-> r.res, w |-> r.w, by |-> r.by,
                  inv |-> 2 * Len(h) + 1, ret |-> 2 * Len(h) + 2]
       IN /\ now' = a0 + r.w                        \* the caller is back when it has slept what it was asked to
          /\ last' = r.last
          /\ obs' = obs \cup {q}
          /\ lrecs' = Attribute(Rules, lrecs, q, 1, a0, r.w)
          /\ truth' = [j \in 1..NR |-> IF j <= Len(r.steps)
                                       THEN truth[j] \cup {AtRule(q, Rules[j], r.steps[j].t, r.steps[j].w, r.steps[j].res)}
                                       ELSE truth[j]]
          /\ h' = Append(h, [gap |-> gap, batch |-> b])

Next == \E gap \in Gaps, b \in Bts : Request(gap, b)
Spec == Init /\ [][Next]_vars

SpacingInv     == ListSpacing(lrecs)
BoundedWaitInv == ListBoundedWait(lrecs, 0)
NoSpuriousInv  == ListNoSpurious(lrecs, 0)
RejectInv      == ListRejectOK(obs, Rules, 0)
\* on the library's walk the attribution from the observables IS what happened at every rule
AttrExact      == Mode = "seq" => lrecs = truth
=============================================================================
