------------------------------ MODULE AdmitOps ------------------------------
(***************************************************************************)
(* Constant-level operators shared by the admission specs (FlowQps,        *)
(* Isolation, AdmitPath) and by their _Trace modules:                      *)
(*  - exact comparison against a rational threshold <<num, den>>,          *)
(*  - exact arithmetic on numbers up to 2^32 and beyond, carried as two    *)
(*    16-bit limbs <<h, l>> (value = h * 65536 + l) because TLC integers   *)
(*    are 32-bit,                                                          *)
(*  - the admission path of ONE caller (check, yield "chain.checked",      *)
(*    record) as a step function over a small record, and the replay of a  *)
(*    whole schedule of k callers with it.                                 *)
(***************************************************************************)
EXTENDS Integers, Sequences, FiniteSets

MinOf(S) == CHOOSE x \in S : \A y \in S : x <= y
MaxOf(S) == CHOOSE x \in S : \A y \in S : x >= y
MaxOr0(S) == IF S = {} THEN 0 ELSE MaxOf(S)

---------------------------------------------------------------------------
(* rational thresholds: T = <<num, den>>, den > 0                          *)

\* "the tokens already in the window plus the batch exceed T"
Exceeds(sum, b, T)   == (sum + b) * T[2] > T[1]
\* the broken variant used by the spec-level mutants ( > replaced by >= )
ExceedsGe(sum, b, T) == (sum + b) * T[2] >= T[1]

---------------------------------------------------------------------------
(* 16-bit limbs: <<h, l>> stands for h * 65536 + l, 0 <= l < 65536, h >= 0 *)
(* (h itself may exceed 65535: the sum of two uint32 values is not a       *)
(* uint32, and the oracle must not wrap).                                  *)

L16 == 65536
U(h, l)      == <<h, l>>
USmall(n)    == <<n \div L16, n % L16>>                    \* 0 <= n < 2^31
UAdd(a, b)   == <<a[1] + b[1] + ((a[2] + b[2]) \div L16), (a[2] + b[2]) % L16>>
ULeq(a, b)   == a[1] < b[1] \/ (a[1] = b[1] /\ a[2] <= b[2])
UWrap32(a)   == <<a[1] % L16, a[2]>>                       \* what uint32 arithmetic keeps
UIsZero(a)   == a[1] = 0 /\ a[2] = 0
UMax32       == <<L16 - 1, L16 - 1>>                       \* 2^32 - 1

\* "in-flight entries plus the batch exceed N" with mathematical integers (cnt is a small Nat)
UOver(cnt, b, N)     == ~ULeq(UAdd(USmall(cnt), b), N)
\* the same compare as uint32 arithmetic performs it (the sum wraps)
UOverWrap(cnt, b, N) == ~ULeq(UWrap32(UAdd(USmall(cnt), b)), N)

---------------------------------------------------------------------------
(* The admission path of one caller, as the slot chain executes it:        *)
(*    chk : read the shared cell (window sum / in-flight gauge), decide    *)
(*    --- yield point "chain.checked" ---                                  *)
(*    rec : if admitted, add to the shared cell (batch tokens / one entry) *)
(* st = [win |-> shared cell, pc |-> [caller -> "chk"|"rec"|"done"],       *)
(*       dec |-> [caller -> BOOLEAN]]                                      *)
(* bs[i] is the batch of caller i, T the rational threshold; in mode "qps" *)
(* an admitted caller adds its batch, in mode "conc" it adds one entry.    *)

PathInit(w0, K) == [win |-> w0, pc |-> [i \in 1..K |-> "chk"], dec |-> [i \in 1..K |-> FALSE]]

PathInc(mode, b) == IF mode = "qps" THEN b ELSE 1

PathStep(st, i, bs, T, mode) ==
    IF st.pc[i] = "chk"
      THEN [st EXCEPT !.dec[i] = ~Exceeds(st.win, bs[i], T), !.pc[i] = "rec"]
    ELSE IF st.pc[i] = "rec"
      THEN [st EXCEPT !.win = IF st.dec[i] THEN @ + PathInc(mode, bs[i]) ELSE @, !.pc[i] = "done"]
    ELSE st

RECURSIVE PathReplay(_, _, _, _, _, _)
PathReplay(st, sched, n, bs, T, mode) ==
    IF n > Len(sched) THEN st
    ELSE PathReplay(PathStep(st, sched[n], bs, T, mode), sched, n + 1, bs, T, mode)

PathDone(st) == \A i \in DOMAIN st.pc : st.pc[i] = "done"
\* a schedule is well formed for K callers if every caller moves exactly twice
GoodSched(sched, K) == /\ Len(sched) = 2 * K
                       /\ \A i \in 1..K : Cardinality({n \in 1..Len(sched) : sched[n] = i}) = 2
=============================================================================
