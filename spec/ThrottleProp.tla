----------------------------- MODULE ThrottleProp -----------------------------
(***************************************************************************)
(* Property C10 over the request-level observables of a throttling flow    *)
(* rule: a set `reqs' of records                                           *)
(*   [id, arr, b, tn, td, si, mq, g, res : "pass"|"reject", w, inv, ret]   *)
(* arr = arrival time (clock at invocation), b = batch count, w = wait it  *)
(* was asked to sleep, inv / ret = positions of invocation / return in the *)
(* total order of the execution.                                           *)
(* EVERY PARAMETER OF THE RULE IS A PER-REQUEST QUANTITY - a request is    *)
(* owed the spacing / the limit of the rule IN FORCE AT ITS ARRIVAL:       *)
(*   tn / td  the threshold (a fraction; an argument of every single       *)
(*            check: it moves from call to call for MemoryAdaptive /       *)
(*            WarmUp rules and changes when the rule is reloaded),         *)
(*   si       the statistic interval, mq the maximum queueing time (both   *)
(*            in the time unit of the records; replaced by a rule reload), *)
(*   g        the EPOCH of the rule list: the number of reloads            *)
(*            (flow.LoadRules / LoadRulesOfResource) of the resource's     *)
(*            rule that happened before the arrival.                       *)
(* The spacing a request is entitled to demand is computed from ITS OWN    *)
(* parameters:  Iv(r) = ceil(b * si / (tn/td)).                            *)
(* passT = arr + w is the assigned pass time.                              *)
(*                                                                         *)
(* What is owed ACROSS a reload (the statement of C10 does not fix it;     *)
(* stated here once, for the model and for the judged executions):         *)
(*  * Spacing is demanded between admitted requests of the SAME epoch      *)
(*    only.  The first request after a reload owes nothing to passes       *)
(*    scheduled under the previous rule: both a checker that starts afresh *)
(*    (what the library does when the rule changed) and one that keeps the *)
(*    queue position (what it does when the reload changed nothing - that  *)
(*    it MUST then keep it is property C14, not C10) are accepted.         *)
(*  * From its second request on, an epoch is paced by the rule loaded     *)
(*    LAST: si, threshold of that rule; every wait is bounded by ITS mq.   *)
(*  * A rejection must be justified with the spacing and the limit in      *)
(*    force at the arrival of the rejected request; the admitted requests  *)
(*    it may count are those of ANY epoch (a carried-over queue position   *)
(*    is acceptable, an old interval or an old limit is not).              *)
(* Used by Throttle (model level) and Throttle_Trace (real executions).    *)
(***************************************************************************)
EXTENDS Integers, FiniteSets

CeilDiv(a, d) == (a + d - 1) \div d          \* a >= 0, d > 0
\* ceil(b * si * td / tn) without leaving 32-bit integers as long as the result fits (si = q * tn + rem)
Owed(b, tn, td, si) ==
    IF b <= 0 \/ tn <= 0 THEN 0
    ELSE LET x == b * td IN x * (si \div tn) + CeilDiv(x * (si % tn), tn)
Iv(r)         == Owed(r.b, r.tn, r.td, r.si)
\* threshold <= 0, or the batch exceeds the threshold of this request: rejected whatever the pacing state is
Big(r)        == r.tn <= 0 \/ r.b * r.td > r.tn

\* effective threshold <<n, d>> of a MemoryAdaptive rule m = [low, high, lwm, hwm] when the memory usage is mem:
\* low-memory threshold up to the low water mark, high-memory threshold from the high water mark, linear in between
MemThr(m, mem) ==
    IF mem <= m.lwm THEN <<m.low, 1>>
    ELSE IF mem >= m.hwm THEN <<m.high, 1>>
    ELSE <<m.low * (m.hwm - m.lwm) + (m.high - m.low) * (mem - m.lwm), m.hwm - m.lwm>>

PassT(r)      == r.arr + r.w
Admitted(rs)  == { r \in rs : r.res = "pass" }
\* requests with batch 0 are passed without touching the pacing state: they are outside the spacing order
Paced(rs)     == { r \in Admitted(rs) : Iv(r) > 0 }

\* consecutive pass times of one epoch are at least the later request's spacing apart (hence never equal)
Spacing(rs) ==
    \A a, b \in Paced(rs) : (a.id # b.id /\ a.g = b.g) =>
        \/ PassT(b) - PassT(a) >= Iv(b)
        \/ PassT(a) - PassT(b) >= Iv(a)
\* nobody is asked to wait longer than the maximum queueing time in force at its arrival
BoundedWait(rs) == \A r \in Admitted(rs) : r.w >= 0 /\ r.w <= r.mq
\* a rejection is justified: batch over threshold, or - even counting every admitted request invoked before the
\* rejected one returned - honouring the spacing (of the rejected request's own threshold and statistic interval)
\* would exceed the queueing limit in force at its arrival
\* (tol: slack in time units for the float rounding of the spacing in the real code; 0 at model level)
Justified(r, rs, tol) ==
    \/ Big(r)
    \/ \E a \in Paced(rs) : a.inv < r.ret /\ PassT(a) + Iv(r) + tol - r.arr > r.mq
NoSpuriousReject(rs, tol) == \A r \in rs : r.res = "reject" => Justified(r, rs, tol)
=============================================================================
