----------------------------- MODULE ThrottleProp -----------------------------
(***************************************************************************)
(* Property C10 over the request-level observables of a throttling flow    *)
(* rule: a set `reqs' of records                                           *)
(*   [id, arr, b, tn, td, res : "pass"|"reject", w, inv, ret]              *)
(* arr = arrival time (clock at invocation), b = batch count, tn / td =    *)
(* the THRESHOLD IN FORCE FOR THIS REQUEST (a fraction; it is an argument  *)
(* of every single check: constant for a Direct rule, but moving from call *)
(* to call for MemoryAdaptive / WarmUp rules), w = wait it was asked to    *)
(* sleep, inv / ret = positions of invocation / return in the total order  *)
(* of the execution.  `si' is the statistic interval of the rule in the    *)
(* time unit of the records.                                               *)
(* The spacing a request is entitled to demand is computed from ITS OWN    *)
(* threshold:  Iv(r, si) = ceil(b * si / (tn/td)).                         *)
(* passT = arr + w is the assigned pass time.                              *)
(* Used by Throttle (model level) and Throttle_Trace (real executions).    *)
(***************************************************************************)
EXTENDS Integers, FiniteSets

CeilDiv(a, d) == (a + d - 1) \div d          \* a >= 0, d > 0
\* ceil(b * si * td / tn) without leaving 32-bit integers as long as the result fits (si = q * tn + rem)
Owed(b, tn, td, si) ==
    IF b <= 0 \/ tn <= 0 THEN 0
    ELSE LET x == b * td IN x * (si \div tn) + CeilDiv(x * (si % tn), tn)
Iv(r, si)     == Owed(r.b, r.tn, r.td, si)
\* threshold <= 0, or the batch exceeds the threshold of this request: rejected whatever the pacing state is
Big(r)        == r.tn <= 0 \/ r.b * r.td > r.tn

\* effective threshold <<n, d>> of a MemoryAdaptive rule m = [low, high, lwm, hwm] when the memory usage is mem:
\* low-memory threshold up to the low water mark, high-memory threshold from the high water mark, linear in between
MemThr(m, mem) ==
    IF mem <= m.lwm THEN <<m.low, 1>>
    ELSE IF mem >= m.hwm THEN <<m.high, 1>>
    ELSE <<m.low * (m.hwm - m.lwm) + (m.high - m.low) * (mem - m.lwm), m.hwm - m.lwm>>

PassT(r)      == r.arr + r.w
Admitted(rs)  == { r \in rs : r.res = "pass" }
\* requests with batch 0 are passed without touching the pacing state: they are outside the spacing order
Paced(rs, si) == { r \in Admitted(rs) : Iv(r, si) > 0 }

\* consecutive pass times are at least the later request's spacing apart (hence never equal)
Spacing(rs, si) ==
    \A a, b \in Paced(rs, si) : a.id # b.id =>
        \/ PassT(b) - PassT(a) >= Iv(b, si)
        \/ PassT(a) - PassT(b) >= Iv(a, si)
\* nobody is asked to wait longer than the maximum queueing time
BoundedWait(rs, maxq) == \A r \in Admitted(rs) : r.w >= 0 /\ r.w <= maxq
\* a rejection is justified: batch over threshold, or - even counting every admitted request invoked before the
\* rejected one returned - honouring the spacing (of the rejected request's own threshold) would exceed the queueing limit
\* (tol: slack in time units for the float rounding of the spacing in the real code; 0 at model level)
Justified(r, rs, si, maxq, tol) ==
    \/ Big(r)
    \/ \E a \in Paced(rs, si) : a.inv < r.ret /\ PassT(a) + Iv(r, si) + tol - r.arr > maxq
NoSpuriousReject(rs, si, maxq, tol) == \A r \in rs : r.res = "reject" => Justified(r, rs, si, maxq, tol)
=============================================================================
