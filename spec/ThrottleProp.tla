----------------------------- MODULE ThrottleProp -----------------------------
(***************************************************************************)
(* Property C10 over the request-level observables of a throttling flow    *)
(* rule: a set `reqs' of records                                           *)
(*   [id, arr, b, tn, td, si, mq, g, res : "pass"|"reject", w, inv, ret]   *)
(* arr = arrival time (clock at invocation), b = batch count, w = wait it  *)
(* was asked to sleep, inv / ret = positions of invocation / return in the *)
(* total order of the execution.                                           *)
(* EVERY PARAMETER OF THE RULE IS A PER-REQUEST QUANTITY - a request is    *)
(* owed the spacing / the limit of the rule IN FORCE AT ITS ARRIVAL:       *)
(*   tn / td  the threshold (a fraction; an argument of every single       *)
(*            check: it moves from call to call for MemoryAdaptive /       *)
(*            WarmUp rules and changes when the rule is reloaded),         *)
(*   si       the statistic interval, mq the maximum queueing time (both   *)
(*            in the time unit of the records; replaced by a rule reload), *)
(*   g        the EPOCH of the rule list: the number of reloads            *)
(*            (flow.LoadRules / LoadRulesOfResource) of the resource's     *)
(*            rule that happened before the arrival.                       *)
(* The spacing a request is entitled to demand is computed from ITS OWN    *)
(* parameters:  Iv(r) = ceil(b * si / (tn/td)).                            *)
(* passT = arr + w is the assigned pass time.                              *)
(*                                                                         *)
(* What is owed ACROSS a reload (the statement of C10 does not fix it;     *)
(* stated here once, for the model and for the judged executions):         *)
(*  * Spacing is demanded between admitted requests of the SAME epoch      *)
(*    only.  The first request after a reload owes nothing to passes       *)
(*    scheduled under the previous rule: both a checker that starts afresh *)
(*    (what the library does when the rule changed) and one that keeps the *)
(*    queue position (what it does when the reload changed nothing - that  *)
(*    it MUST then keep it is property C14, not C10) are accepted.         *)
(*  * From its second request on, an epoch is paced by the rule loaded     *)
(*    LAST: si, threshold of that rule; every wait is bounded by ITS mq.   *)
(*  * A rejection must be justified with the spacing and the limit in      *)
(*    force at the arrival of the rejected request; the admitted requests  *)
(*    it may count are those of ANY epoch (a carried-over queue position   *)
(*    is acceptable, an old interval or an old limit is not).              *)
(* Used by Throttle (model level) and Throttle_Trace (real executions).    *)
(***************************************************************************)
EXTENDS Integers, FiniteSets, Sequences

CeilDiv(a, d) == (a + d - 1) \div d          \* a >= 0, d > 0
\* ceil(b * si * td / tn) without leaving 32-bit integers as long as the result fits (si = q * tn + rem)
Owed(b, tn, td, si) ==
    IF b <= 0 \/ tn <= 0 THEN 0
    ELSE LET x == b * td IN x * (si \div tn) + CeilDiv(x * (si % tn), tn)
Iv(r)         == Owed(r.b, r.tn, r.td, r.si)
\* threshold <= 0, or the batch exceeds the threshold of this request: rejected whatever the pacing state is
Big(r)        == r.tn <= 0 \/ r.b * r.td > r.tn

\* effective threshold <<n, d>> of a MemoryAdaptive rule m = [low, high, lwm, hwm] when the memory usage is mem:
\* low-memory threshold up to the low water mark, high-memory threshold from the high water mark, linear in between
MemThr(m, mem) ==
    IF mem <= m.lwm THEN <<m.low, 1>>
    ELSE IF mem >= m.hwm THEN <<m.high, 1>>
    ELSE <<m.low * (m.hwm - m.lwm) + (m.high - m.low) * (mem - m.lwm), m.hwm - m.lwm>>

PassT(r)      == r.arr + r.w
Admitted(rs)  == { r \in rs : r.res = "pass" }
\* requests with batch 0 are passed without touching the pacing state: they are outside the spacing order
Paced(rs)     == { r \in Admitted(rs) : Iv(r) > 0 }

\* consecutive pass times of one epoch are at least the later request's spacing apart (hence never equal)
Spacing(rs) ==
    \A a, b \in Paced(rs) : (a.id # b.id /\ a.g = b.g) =>
        \/ PassT(b) - PassT(a) >= Iv(b)
        \/ PassT(a) - PassT(b) >= Iv(a)
\* nobody is asked to wait longer than the maximum queueing time in force at its arrival
BoundedWait(rs) == \A r \in Admitted(rs) : r.w >= 0 /\ r.w <= r.mq
\* a rejection is justified: batch over threshold, or - even counting every admitted request invoked before the
\* rejected one returned - honouring the spacing (of the rejected request's own threshold and statistic interval)
\* would exceed the queueing limit in force at its arrival
\* (tol: slack in time units for the float rounding of the spacing in the real code; 0 at model level)
Justified(r, rs, tol) ==
    \/ Big(r)
    \/ \E a \in Paced(rs) : a.inv < r.ret /\ PassT(a) + Iv(r) + tol - r.arr > r.mq
NoSpuriousReject(rs, tol) == \A r \in rs : r.res = "reject" => Justified(r, rs, tol)

(***************************************************************************)
(* SEVERAL THROTTLING RULES ON ONE RESOURCE.  The flow slot checks the     *)
(* rules of a resource IN LIST ORDER and makes the request sleep right     *)
(* after every rule that asks it to wait, so a request reaches rule j at   *)
(* its arrival time plus the waits of the rules before j; it passes the    *)
(* resource at  arrival + SUM of the waits.  The first rule that rejects   *)
(* ends the walk: no later rule is consulted (none consumes a slot).       *)
(* The clauses of C10 hold PER RULE, with that rule's own parameters and   *)
(* the instants at which the requests reached THAT rule:                   *)
(*   Spacing      between the requests the rule admitted,                  *)
(*   BoundedWait  by the rule's own queueing limit,                        *)
(*   a rejection is justified by the rule that rejected, at the instant    *)
(*   the request reached it - and every rule in front of it could honour   *)
(*   its spacing within its limit (it is the FIRST one that cannot).       *)
(* A rule here is [si, mq, tn, td]; the observable of a request is         *)
(*   q = [id, arr, b, res, w, by, inv, ret]                                *)
(* w = the TOTAL time it was made to sleep (before passing, or before it   *)
(* was rejected), by = index of the rule named by the rejection (0: the    *)
(* rejection names no rule - the library names none when the batch exceeds *)
(* the threshold; the rejecting rule is then the first such rule).         *)
(* The per-rule instants are not observable; the spec ATTRIBUTES the total *)
(* wait to the rules in list order (Attribute):                            *)
(*  * admitted request: each rule in turn is attributed the least wait     *)
(*    that keeps ITS spacing at the instant the request reaches it, as far *)
(*    as the total goes; the last rule takes what remains.  (A total that  *)
(*    is too short therefore breaks Spacing at the first rule it does not  *)
(*    cover, and every later rule is reached correspondingly early; a      *)
(*    surplus is judged against the limit of the last rule.)               *)
(*  * rejected request: every rule in front of the rejecting one admitted  *)
(*    it and holds a reservation for it - the least wait at the instant it *)
(*    reaches that rule when it honours these waits (whether the caller is *)
(*    really delayed before it is turned away is not a clause of C10; the  *)
(*    library does delay it).  The rejection is judged at arr + w, the     *)
(*    instant the request really got to the rejecting rule.  Rules behind  *)
(*    the rejecting one get no record: a slot they consumed would show as  *)
(*    an unjustified rejection later on.                                   *)
(* For a list of one rule this is the single-rule judgement above.         *)
(***************************************************************************)
SetMax(S)   == CHOOSE x \in S : \A y \in S : y <= x
MinOf(a, b) == IF a <= b THEN a ELSE b
\* request q at rule R: reached at instant t, made to wait w there, outcome res
AtRule(q, R, t, w, res) ==
    [id |-> q.id, arr |-> t, b |-> q.b, tn |-> R.tn, td |-> R.td, si |-> R.si, mq |-> R.mq, g |-> 0,
     res |-> res, w |-> w, inv |-> q.inv, ret |-> q.ret]
\* the least wait with which p (a request at a rule, w = 0) keeps the spacing behind everything the rule admitted (rs)
LeastWait(p, rs) ==
    IF Iv(p) = 0 THEN 0 ELSE SetMax({0} \cup { PassT(a) + Iv(p) - p.arr : a \in Paced(rs) })
FirstBig(q, Rules) ==
    LET S == { j \in 1..Len(Rules) : Big(AtRule(q, Rules[j], 0, 0, "reject")) }
    IN IF S = {} THEN 0 ELSE CHOOSE j \in S : \A i \in S : j <= i
\* the rule that rejected q (0: q was admitted, or its rejection cannot be attributed to any rule)
RejBy(q, Rules) ==
    IF q.res # "reject" THEN 0
    ELSE IF q.by \in 1..Len(Rules) THEN q.by ELSE FirstBig(q, Rules)

\* recs[j] = records of rule j so far; returns them extended by request q (walk from rule j, reached at t, rem = wait
\* not yet attributed).  Start with Attribute(Rules, recs, q, 1, q.arr, q.w).
RECURSIVE Attribute(_, _, _, _, _, _)
Attribute(Rules, recs, q, j, t, rem) ==
    IF j > Len(Rules) \/ (q.res = "reject" /\ RejBy(q, Rules) = 0) THEN recs
    ELSE LET R  == Rules[j]
             lo == LeastWait(AtRule(q, R, t, 0, "pass"), recs[j])
         IN IF q.res = "reject"
            THEN IF j = RejBy(q, Rules)
                 THEN [recs EXCEPT ![j] = @ \cup {AtRule(q, R, q.arr + q.w, 0, "reject")}]
                 ELSE Attribute(Rules, [recs EXCEPT ![j] = @ \cup {AtRule(q, R, t, lo, "pass")}], q, j + 1, t + lo, rem)
            ELSE LET w == IF j = Len(Rules) THEN rem ELSE MinOf(rem, lo)
                 IN Attribute(Rules, [recs EXCEPT ![j] = @ \cup {AtRule(q, R, t, w, "pass")}], q, j + 1, t + w, rem - w)

RECURSIVE SumMq(_, _)
SumMq(Rules, k) == IF k <= 0 THEN 0 ELSE Rules[k].mq + SumMq(Rules, k - 1)

\* the clauses per rule.  tol = slack per rule in front (float rounding of a spacing in the real code moves the instant
\* a later rule is reached by that much); 0 at model level, and no slack at all for the first rule
ListSpacing(recs)          == \A j \in DOMAIN recs : Spacing(recs[j])
ListBoundedWait(recs, tol) == \A j \in DOMAIN recs : \A r \in Admitted(recs[j]) : r.w >= 0 /\ r.w <= r.mq + (j - 1) * tol
ListNoSpurious(recs, tol)  == \A j \in DOMAIN recs : NoSpuriousReject(recs[j], j * tol)
\* request level: a rejection comes from a rule of the list, and a rejected request was not made to sleep longer than the
\* rules in front of the rejecting one may queue it
ListRejectOK(qs, Rules, tol) ==
    \A q \in qs : q.res = "reject" =>
        /\ RejBy(q, Rules) > 0
        /\ q.w >= 0 /\ q.w <= SumMq(Rules, RejBy(q, Rules) - 1) + RejBy(q, Rules) * tol
=============================================================================
