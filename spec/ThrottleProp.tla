----------------------------- MODULE ThrottleProp -----------------------------
(***************************************************************************)
(* Property C10 over the request-level observables of a throttling flow    *)
(* rule: a set `reqs' of records                                           *)
(*   [id, arr, iv, res : "pass"|"reject", w, inv, ret, big]                *)
(* arr = arrival time (clock at invocation), iv = the spacing this request *)
(* is entitled to demand = ceil(batch * statInterval / threshold), w = wait*)
(* it was asked to sleep, inv / ret = positions of invocation / return in  *)
(* the total order of the execution, big = batch exceeds the threshold.    *)
(* passT = arr + w is the assigned pass time.                              *)
(* Used by Throttle (model level) and Throttle_Trace (real executions).    *)
(***************************************************************************)
EXTENDS Integers, FiniteSets

PassT(r)      == r.arr + r.w
Admitted(rs)  == { r \in rs : r.res = "pass" }
\* requests with batch 0 are passed without touching the pacing state: they are outside the spacing order
Paced(rs)     == { r \in Admitted(rs) : r.iv > 0 }

\* consecutive pass times are at least the later request's spacing apart (hence never equal)
Spacing(rs) ==
    \A a, b \in Paced(rs) : a.id # b.id =>
        \/ PassT(b) - PassT(a) >= b.iv
        \/ PassT(a) - PassT(b) >= a.iv
\* nobody is asked to wait longer than the maximum queueing time
BoundedWait(rs, maxq) == \A r \in Admitted(rs) : r.w >= 0 /\ r.w <= maxq
\* a rejection is justified: batch over threshold, or - even counting every admitted request invoked before the
\* rejected one returned - honouring the spacing would exceed the queueing limit
\* (tol: slack in time units for the float rounding of the spacing in the real code; 0 at model level)
Justified(r, rs, maxq, tol) ==
    \/ r.big
    \/ \E a \in Paced(rs) : a.inv < r.ret /\ PassT(a) + r.iv + tol - r.arr > maxq
NoSpuriousReject(rs, maxq, tol) == \A r \in rs : r.res = "reject" => Justified(r, rs, maxq, tol)
=============================================================================
