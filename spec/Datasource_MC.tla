---------------------------- MODULE Datasource_MC ----------------------------
(* Bounded instances of Datasource for exhaustive TLC (property C18) and scenario generation: *)
(* with ACTION_CONSTRAINT Emit every generated transition prints the history of operations    *)
(* that leads to it (checks/C18.py keeps the maximal ones).                                   *)
EXTENDS Datasource, Json
MCValid   == {"V1", "V2"}
MCInvalid == {"I1"}
MCValid3  == {"V1", "V2", "V3"}
Emit == PrintT(ToJson(h'))
=============================================================================
