----------------------------- MODULE Datasource -----------------------------
(***************************************************************************)
(* Property C18: datasource payloads are applied faithfully or rejected,   *)
(* never half-applied.                                                     *)
(*                                                                         *)
(* A payload is abstracted to its class and the rule list it describes;    *)
(* a rule is a token (see DatasourceProp.tla, which holds the property).   *)
(*                                                                         *)
(* PROPERTY LEVEL (DatasourceProp, shared with Datasource_Trace):          *)
(* DeliverOK / FileSafe / FileConverged transcribe the statement.          *)
(* DESIGN LEVEL (TLC, Datasource_MC): the handler of property.go           *)
(* (converter -> consistency check against the cached last property ->     *)
(* updater) and the file datasource (watch events -> read -> handle) as a  *)
(* state machine; every handled payload is judged by DeliverOK, and a file *)
(* source that has caught up must enforce the file's content.              *)
(* Mutant # "none" selects a deliberately broken design: two of them are   *)
(* models of the pinned tree's defects (nullPanicSwallowed,                *)
(* renameOverClears), the others are vacuity self-tests.                   *)
(***************************************************************************)
EXTENDS DatasourceProp, TLC

CONSTANTS
    ValidToks,      \* rule tokens that pass the module's validity check
    InvalidToks,    \* rule tokens that do not
    MaxLen,         \* longest list
    MaxOps,         \* operations per behaviour
    Mutant,         \* "none" or the name of a deliberately broken design (vacuity self-test / defect models)
    WithFile        \* TRUE: behaviours are file-datasource behaviours, FALSE: direct deliveries

Nil == "Nil"
Toks == ValidToks \cup InvalidToks
Elems == Toks \cup {Nil}
ListsUpTo(n) == UNION {[1..k -> Elems] : k \in 0..n}
HasNil(l) == \E i \in DOMAIN l : l[i] = Nil
ValidOf(l) == SetOf(l) \cap ValidToks

(***************************************************************************)
(* DESIGN LEVEL.                                                           *)
(***************************************************************************)
NoPayload == [cls |-> "none", l |-> << >>, k |-> 0]
ListPayloads ==
    { [cls |-> IF HasNil(l) THEN "ListWithNull" ELSE "List", l |-> l, k |-> 0] : l \in ListsUpTo(MaxLen) }
Payloads ==
    ListPayloads \cup { [cls |-> "Empty", l |-> << >>, k |-> 0], [cls |-> "NullDoc", l |-> << >>, k |-> 0] }
                 \cup { [cls |-> c, l |-> << >>, k |-> k] : c \in Undecodable, k \in 1..2 }
Absent == [cls |-> "absent", l |-> << >>, k |-> 0]

PropOf(p) == [cls |-> p.cls, id |-> p, valid |-> ValidOf(p.l), dom |-> TRUE]

\* what the converter yields: an error, "nothing" (empty payload), or the decoded list
ConvErr == [kind |-> "converr", l |-> << >>]
Nothing == [kind |-> "nothing", l |-> << >>]
Decoded(p) == IF p.cls \in Undecodable THEN ConvErr
              ELSE IF p.cls = "Empty" THEN Nothing
              ELSE [kind |-> "list", l |-> p.l]      \* NullDoc decodes to the empty list

VARIABLES
    inforce,    \* set of tokens in force in the rule manager
    cache,      \* the handler's last update property (decoded value), Nothing initially
    prev,       \* payload handled immediately before (property level)
    out,        \* [before, prev, p, o] of the last handled payload (p = NoPayload: nothing handled yet)
    file,       \* content of the watched file, Absent, or NoPayload (not a file behaviour)
    pend,       \* second half of an in-place write still to come (NoPayload = none)
    dirty,      \* the file changed and the source has not caught up yet
    watching,   \* the source still watches the path
    nops,       \* operations so far
    h           \* history of operations (scenario generation; hidden by the VIEW)

vars == <<inforce, cache, prev, out, file, pend, dirty, watching, nops, h>>
view == <<inforce, cache, prev, out, file, pend, dirty, watching, nops>>

\* one call of Handle(p): returns <<inforce', cache', outcome>>
Handle(p) ==
    LET d == Decoded(p) IN
    IF d = ConvErr THEN <<inforce, cache, [err |-> TRUE, panic |-> FALSE, upd |-> 0, after |-> inforce]>>
    ELSE IF (IF Mutant = "inverted" THEN d # cache ELSE d = cache)
         THEN <<inforce, cache, [err |-> FALSE, panic |-> FALSE, upd |-> 0, after |-> inforce]>>
    ELSE IF d = Nothing
         THEN LET nf == IF Mutant = "emptyNoClear" THEN inforce ELSE {} IN
              <<nf, d, [err |-> FALSE, panic |-> FALSE, upd |-> 1, after |-> nf]>>
    ELSE IF HasNil(d.l) /\ Mutant = "nullPanicSwallowed"
         \* the pinned tree: the updater panics on the nil element, Handle's recover swallows it and
         \* returns nil; the cache has already advanced
         THEN <<inforce, d, [err |-> FALSE, panic |-> FALSE, upd |-> 1, after |-> inforce]>>
    ELSE IF HasNil(d.l) /\ Mutant = "nullPanicEscapes"
         THEN <<inforce, d, [err |-> FALSE, panic |-> TRUE, upd |-> 1, after |-> inforce]>>
    ELSE IF HasNil(d.l) /\ Mutant = "nullRejectedCacheAdvanced"
         \* the updater refuses the list with an error, but the cache was advanced before: the retry is a no-op
         THEN <<inforce, d, [err |-> TRUE, panic |-> FALSE, upd |-> 1, after |-> inforce]>>
    ELSE LET nf == IF Mutant = "keepsInvalid" THEN SetOf(d.l) \ {Nil} ELSE ValidOf(d.l) IN
         <<nf, d, [err |-> FALSE, panic |-> FALSE, upd |-> 1, after |-> nf]>>

DoHandle(p) ==
    LET r == Handle(p) IN
    /\ inforce' = r[1]
    /\ cache' = r[2]
    /\ out' = [before |-> inforce, prev |-> prev, p |-> p, o |-> r[3]]
    /\ prev' = p

Count == nops < MaxOps /\ nops' = nops + 1

\* ----- direct deliveries
Deliver(p) ==
    /\ ~WithFile /\ Count
    /\ DoHandle(p)
    /\ h' = Append(h, [op |-> "deliver", cls |-> p.cls, l |-> p.l, k |-> p.k])
    /\ UNCHANGED <<file, pend, dirty, watching>>

\* ----- file datasource: events only mark the file dirty, FSync is the watcher goroutine catching up
FileIdle == WithFile /\ watching /\ pend = NoPayload /\ file \notin {NoPayload, Absent}
Log(ev, p) == h' = Append(h, [op |-> "fevent", ev |-> ev, cls |-> p.cls, l |-> p.l, k |-> p.k])

FWriteBegin(p) ==            \* O_TRUNC ...
    /\ FileIdle /\ Count
    /\ file' = [cls |-> "Empty", l |-> << >>, k |-> 0] /\ pend' = p /\ dirty' = TRUE
    /\ Log("write", p)
    /\ UNCHANGED <<inforce, cache, prev, out, watching>>
FWriteEnd ==                 \* ... then the bytes
    /\ WithFile /\ pend # NoPayload
    /\ file' = pend /\ pend' = NoPayload /\ dirty' = TRUE
    /\ UNCHANGED <<inforce, cache, prev, out, watching, nops, h>>
FTrunc ==
    /\ FileIdle /\ Count
    /\ file' = [cls |-> "Empty", l |-> << >>, k |-> 0] /\ dirty' = TRUE
    /\ Log("trunc", file')
    /\ UNCHANGED <<inforce, cache, prev, out, pend, watching>>
FRenameOver(p) ==
    /\ FileIdle /\ Count
    /\ file' = p /\ dirty' = TRUE
    /\ Log("renameover", p)
    /\ IF Mutant = "renameOverClears"
       \* the pinned tree: the replaced inode reports "removed": rules cleared, watch given up
       THEN /\ DoHandle([cls |-> "Empty", l |-> << >>, k |-> 0]) /\ watching' = FALSE
       ELSE UNCHANGED <<inforce, cache, prev, out, watching>>
    /\ UNCHANGED pend
FGone(ev) ==
    /\ FileIdle /\ Count
    /\ file' = Absent /\ dirty' = TRUE
    /\ Log(ev, Absent)
    /\ UNCHANGED <<inforce, cache, prev, out, pend, watching>>
FSync ==
    /\ WithFile /\ watching /\ dirty
    /\ IF file = Absent
       THEN /\ DoHandle([cls |-> "Empty", l |-> << >>, k |-> 0]) /\ watching' = FALSE
       ELSE /\ DoHandle(file) /\ UNCHANGED watching
    /\ dirty' = FALSE
    /\ UNCHANGED <<file, pend, nops, h>>

\* a file behaviour starts with Initialize() on an existing file
FInit(p) ==
    /\ WithFile /\ file = NoPayload /\ nops = 0 /\ nops' = 1
    /\ file' = p /\ DoHandle(p)
    /\ Log("init", p)
    /\ UNCHANGED <<pend, dirty, watching>>

Init ==
    /\ inforce = {} /\ cache = Nothing /\ prev = NoPayload
    /\ out = [before |-> {}, prev |-> NoPayload, p |-> NoPayload,
              o |-> [err |-> FALSE, panic |-> FALSE, upd |-> 0, after |-> {}]]
    /\ file = NoPayload /\ pend = NoPayload /\ dirty = FALSE /\ watching = TRUE
    /\ nops = 0 /\ h = << >>

Next ==
    \/ \E p \in Payloads : Deliver(p) \/ FInit(p) \/ FWriteBegin(p) \/ FRenameOver(p)
    \/ FWriteEnd \/ FTrunc \/ FGone("renameaway") \/ FGone("remove") \/ FSync

Spec == Init /\ [][Next]_vars
FairSpec == Spec /\ WF_vars(FSync) /\ WF_vars(FWriteEnd)


\* ----- the converter of hot-spot specific items (design): a float64 key is FORMATTED with five decimal places and the
\* text is parsed again, i.e. the value is rounded to the nearest decimal with five places (on the exact expansion, so
\* a value that has no more than five places is kept as it is, whatever its magnitude).  Mutant "itemTruncates": the
\* digits behind the fifth place are cut off.
ConvKey(v) ==
    IF Mutant = "itemTruncates"
    THEN (IF v.dig = << >> \/ v.e + 5 >= Len(v.dig) THEN Dec(v.neg, v.dig, v.e)
          ELSE IF v.e + 5 < 0 THEN DecZero ELSE Dec(v.neg, SubSeq(v.dig, 1, v.e + 5), v.e))
    ELSE CHOOSE r \in Round5(v) : \A q \in Round5(v) : Len(q.dig) <= Len(r.dig) \/ q = r
\* every decimal of a bounded universe is converted to a key the payload describes, the result has at most five decimal
\* places and converting it again changes nothing
ItemUniverse == {Dec(neg, dig, e) : neg \in BOOLEAN, dig \in UNION {[1..n -> {0, 1, 4, 5, 9}] : n \in 0..3}, e \in (0 - 7)..3}
ConverterKeyIsDescribed ==
    \A v \in ItemUniverse :
        LET r == ConvKey(v) IN
        /\ r \in Round5(v)
        /\ Len(r.dig) - r.e <= 5
        /\ Round5(r) = {r}
        /\ (Len(v.dig) - v.e <= 5 => r = v)
        /\ (r # DecZero => r.neg = v.neg)

\* ----- the property on the design
TypeOK ==
    /\ inforce \subseteq Toks
    /\ prev \in Payloads \cup {NoPayload}
    /\ file \in Payloads \cup {NoPayload, Absent}
    /\ dirty \in BOOLEAN /\ watching \in BOOLEAN

\* every handled payload obeys the statement
HandledOK == out.p # NoPayload => DeliverOK(out.before, out.prev, PropOf(out.p), out.o)
\* only valid rules are ever in force
OnlyValid == inforce \subseteq ValidToks
\* a file datasource that has caught up enforces the file's content; nothing when the file is gone
FileCaughtUp ==
    (WithFile /\ file # NoPayload /\ ~dirty /\ pend = NoPayload) =>
        /\ file = Absent => inforce = {}
        /\ file # Absent /\ file.cls \in {"List"} => inforce = ValidOf(file.l)
        /\ file # Absent /\ file.cls = "Empty" => inforce = {}
\* the source never gives up an existing file
WatchKept == (WithFile /\ file \notin {NoPayload, Absent}) => watching
\* liveness (FairSpec): the source always catches up with the file, or has stopped because the file is gone
Converges == [](dirty => <>(~dirty))
=============================================================================
