---------------------------- MODULE Refine_Window ----------------------------
(***************************************************************************)
(* REFINEMENT  WindowConc (C09)  =>  Window / WindowRef (C08)              *)
(* (growth item 2 of DESIGN section 4).                                    *)
(*                                                                         *)
(* WindowConc: the lock-free bucket array at the grain of its atomic       *)
(* accesses (currentBucketOfTime: load / try-lock / reset / publish /      *)
(* unlock, then the atomic add), writers and whole-array readers running   *)
(* concurrently with the clock.  Window: one action per public call        *)
(* (Add / Conc = locate the slot, roll it over if stale, add;  ReadArr =   *)
(* the refresh a whole-array read performs;  Tick) over the state          *)
(* <<now, slots, ref>>, ref = the aligned-window reference of C08.         *)
(*                                                                         *)
(* MAPPING.  An operation is LINEARIZED AT ITS INVOCATION (w_inv / r_inv): *)
(* that is the instant whose clock value is its time stamp, and Window's   *)
(* Add records at the abstract `now'.  Between invocation and the physical *)
(* mb.add the amount is "in flight"; the abstract array is the physical    *)
(* one with every in-flight effect applied - a pure state function:        *)
(*   InFlight(i)  writers invoked on slot i that have not credited yet,    *)
(*   Refr(i)      readers inside the refresh of slot i,                    *)
(*   Tgt(i)   =   max(start[i], bucket starts of InFlight(i) and Refr(i))  *)
(*                - the bucket slot i abstractly holds,                    *)
(*   slots[i] <-  start  = Tgt(i)                                          *)
(*                counters = (the PHYSICAL counters if start[i] = Tgt(i),  *)
(*                            else empty: a roll-over is pending)          *)
(*                           + the amounts of the in-flight writers whose  *)
(*                             bucket is Tgt(i)                            *)
(*   now <- now,  nops <- number of invoked writers,                       *)
(*   ref <- aRef, h <- aH : the two history variables of Window, updated   *)
(*          at the invocations / ticks with Window's own RefAdd / Prune    *)
(*          (ref is the property-level reference, not implementation       *)
(*          state; aH is hidden by the VIEW).                              *)
(* Every step other than w_inv, r_inv and the clock tick must STUTTER on   *)
(* the mapped state: the physical roll-over and the physical add only make *)
(* real what the abstract state already shows.  Note that the counters are *)
(* always the physical ones: a roll-over that publishes the new start      *)
(* while the old counters are still there, a second reset that wipes a     *)
(* credited amount, a reset that skips a counter - all change the mapped   *)
(* state by something that is no Window step.                              *)
(*                                                                         *)
(* RESTRICTION (NoOvertake).  While a recorder is in flight no operation   *)
(* stamped in a LATER bucket of the same slot is invoked - i.e. the        *)
(* recorder does not overlap the roll-over of its own bucket.  With N >= 2 *)
(* slots this is IMPLIED by the stall assumption of C09 that WindowConc    *)
(* builds into its clock (a recorder is never parked for more than one     *)
(* bucket length), so the refinement is checked there WITHOUT any          *)
(* constraint.  With N = 1 the next bucket of the only slot starts one     *)
(* bucket length later and the restriction is a real one: a recorder that  *)
(* straddles the boundary credits its amount to the NEW bucket (the        *)
(* behaviour C09 explicitly allows for N = 1) which no behaviour of Window *)
(* does; TLC must find that violation when the constraint is dropped.      *)
(*                                                                         *)
(* WHAT IS ESTABLISHED.                                                    *)
(*   Refines     RInit => Abs!Init and  [][NoOvertake' => Abs!Next \/      *)
(*               UNCHANGED Abs!vars]_vars : every (restricted) behaviour   *)
(*               of WindowConc, mapped, is a behaviour of Window.          *)
(*   SeqArrayOK  Window's invariant ArrayOK on the mapped state (the       *)
(*               refreshed array sums / min / max = the reference read).   *)
(*   ReadExact   the value a reader RETURNS equals the reference read       *)
(*               (WindowRef!RefSum / RefMinRt / RefMaxC over aRef) taken   *)
(*               at its invocation, provided no recorder was in flight at  *)
(*               its invocation, none was invoked before it returned, no   *)
(*               other goroutine rolled a slot over meanwhile (`over'),    *)
(*               and - for the two-clock extremum reads - the clock stood  *)
(*               still.  (Reads are not atomic: a read concurrent with     *)
(*               recorders may see any subset of the in-flight amounts;    *)
(*               that is NoInvention of C09, not a refinement claim.)      *)
(* NOT established: the read-only views of Window (ViewOK ...) - WindowConc*)
(* has whole-array reads only; behaviours outside the stall assumption.    *)
(*                                                                         *)
(* NON-VACUITY: the spec-level mutants of WindowConc must violate Refines: *)
(*   ResetFirst = FALSE (publish the start, then reset),                   *)
(*   Recheck = FALSE (no re-check under the lock: second reset),           *)
(*   IdleKinds # {} (reset skipped when "nothing arrived").                *)
(***************************************************************************)
EXTENDS WindowConc_MC

VARIABLES aRef, aH, rx
rvars == <<vars, aRef, aH, rx>>

Slots == 0..(N-1)
Max(S) == CHOOSE x \in S : \A y \in S : x >= y
Min(S) == CHOOSE x \in S : \A y \in S : x <= y

---------------------------------------------------------------------------
(* the mapping                                                             *)
WFlight == {"w_load", "w_try", "w_r1", "w_r2", "w_unlock", "w_add"}
RRefr   == {"r_load", "r_try", "r_r1", "r_r2", "r_unlock"}
InFlight(i) == { p \in Writers : pc[p] \in WFlight /\ idx[p] = i }
Refr(i)     == { p \in Readers : pc[p] \in RRefr /\ ridx[p] = i }
Tgt(i)      == Max({start[i]} \cup { bs[p] : p \in InFlight(i) } \cup { rbs[p] : p \in Refr(i) })
Live(i)     == { p \in InFlight(i) : bs[p] = Tgt(i) }
RECURSIVE SumAmt(_)
SumAmt(S) == IF S = {} THEN 0 ELSE LET p == CHOOSE x \in S : TRUE IN Amt[p] + SumAmt(S \ {p})
ASlot(i) ==
    LET fresh == Tgt(i) > start[i]               \* the physical roll-over to Tgt(i) is still to come
        L(k)  == { p \in Live(i) : WKind[p] = k } IN
    [start |-> Tgt(i),
     sum   |-> [k \in CKinds |-> (IF fresh THEN 0 ELSE cnt[i][k]) + SumAmt(L(k))],
     minrt |-> Min({IF fresh THEN MaxRt ELSE mn[i]} \cup { Amt[p] : p \in L("rt") }),
     maxc  |-> Max({IF fresh THEN 0 ELSE mx[i]} \cup { Amt[p] : p \in L("conc") })]
ASlots == [i \in Slots |-> ASlot(i)]
ANops  == Cardinality({ p \in Writers : pc[p] # "w_inv" })

Abs == INSTANCE Window WITH now <- now, ref <- aRef, slots <- ASlots, nops <- ANops, h <- aH,
           PN <- N, PBL <- BL, T0Set <- {T0}, Steps <- {1}, Kinds <- CKinds,
           Amounts <- { Amt[p] : p \in Writers }, Concs <- { Amt[p] : p \in Writers },
           MaxOps <- Cardinality(Writers), MaxT <- MaxT

\* the restriction: no in-flight recorder has been overtaken by an operation of a later bucket of its slot
NoOvertake == \A i \in Slots : InFlight(i) = Live(i)

---------------------------------------------------------------------------
(* auxiliary variables: Window's reference and scenario history, and what  *)
(* each reader should return                                               *)
RefRead(ref, kind, t) ==
    IF kind = "minrt" THEN Abs!RefMinRt(ref, BL, t, P)
    ELSE IF kind = "maxconc" THEN Abs!RefMaxC(ref, BL, t, P)
    ELSE Abs!RefSum(ref, BL, t, P, kind)
Quiet == \A i \in Slots : InFlight(i) = {}
Reading(q) == pc[q] \notin {"r_inv", "Done"}

RInit ==
    /\ Init
    /\ aRef = << >>
    /\ aH = << [op |-> "new", t |-> T0] >>
    /\ rx = [q \in Readers |-> [exp |-> 0, dirty |-> FALSE]]

\* a writer is invoked: Window!Add / Window!Conc at the current instant; every reader under way is disturbed
AuxWInv(p) ==
    /\ aRef' = IF WKind[p] = "conc" THEN Abs!RefConc(aRef, CKinds, BL, now, Amt[p])
               ELSE Abs!RefAdd(aRef, CKinds, BL, now, WKind[p], Amt[p])
    /\ aH'   = Append(aH, IF WKind[p] = "conc" THEN [op |-> "conc", c |-> Amt[p]]
                          ELSE [op |-> "add", k |-> WKind[p], n |-> Amt[p]])
    /\ rx'   = [q \in Readers |-> IF Reading(q) THEN [rx[q] EXCEPT !.dirty = TRUE] ELSE rx[q]]
\* a reader is invoked: Window!ReadArr when the current slot is stale, else nothing happens abstractly
AuxRInv(q) ==
    /\ aRef' = aRef
    /\ aH'   = IF ASlots' # ASlots THEN Append(aH, [op |-> "readarr"]) ELSE aH
    /\ rx'   = [rx EXCEPT ![q] = [exp |-> RefRead(aRef, RKind[q], now), dirty |-> ~Quiet]]
AuxTick ==
    /\ aRef' = IF now' # now THEN Abs!Prune(aRef, BL, P, now') ELSE aRef
    /\ aH'   = IF now' # now THEN Append(aH, [op |-> "tick", d |-> 1]) ELSE aH
    /\ rx'   = IF now' # now
                 THEN [q \in Readers |-> IF Reading(q) /\ RKind[q] \in ExtKinds THEN [rx[q] EXCEPT !.dirty = TRUE] ELSE rx[q]]
                 ELSE rx
AuxSame == UNCHANGED <<aRef, aH, rx>>

RNext ==
    \/ \E p \in Writers : IF pc[p] = "w_inv" THEN w_inv(p) /\ AuxWInv(p) ELSE w(p) /\ AuxSame
    \/ \E q \in Readers : IF pc[q] = "r_inv" THEN r_inv(q) /\ AuxRInv(q) ELSE r(q) /\ AuxSame
    \/ clock /\ AuxTick
    \/ Terminating /\ AuxSame
RSpec == RInit /\ [][RNext]_rvars

---------------------------------------------------------------------------
(* what is checked                                                         *)
RefInit    == Abs!Init
Refines    == [][NoOvertake' => (Abs!Next \/ UNCHANGED Abs!vars)]_rvars
\* the same without the restriction (N >= 2: must hold as well, the stall assumption implies NoOvertake;
\* N = 1: must be violated by a straddling recorder)
RefinesAll == [][Abs!Next \/ UNCHANGED Abs!vars]_rvars
SeqArrayOK == NoOvertake => Abs!ArrayOK
ReadExact  == [][ \A q \in Readers :
                    (pend[q].kind = "read" /\ pend'[q].kind = "none" /\ ~pend[q].over /\ ~rx[q].dirty)
                      => \E o \in ops' \ ops : o.val = rx[q].exp ]_rvars
\* non-vacuity of ReadExact: some reader does return undisturbed with a non-zero value (must be VIOLATED)
NeverExactNonZero == [][ \A q \in Readers :
                    (pend[q].kind = "read" /\ pend'[q].kind = "none" /\ ~pend[q].over /\ ~rx[q].dirty)
                      => rx[q].exp = 0 ]_rvars

rview == <<view, aRef, rx>>
=============================================================================
