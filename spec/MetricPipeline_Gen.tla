-------------------------- MODULE MetricPipeline_Gen --------------------------
(* scenario generation: every step of a TLC simulation prints the history so far *)
EXTENDS MetricPipeline, Json
Emit == PrintT(ToJson(h'))
=============================================================================
