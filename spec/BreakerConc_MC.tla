--------------------------- MODULE BreakerConc_MC ---------------------------
EXTENDS BreakerConc
MCErrs == [i \in Clients |-> i % 2 = 1]      \* odd clients fail
\* everything except the schedule history; the listener log only matters through its length
view == <<state, retryAt, probes, tot, errs, now, Len(listen), openedAt, pubAt, epoch, admittedIn, early, earlyStale, earlyStalled, earlyPub, ntrans, pc, cur, arrived, tread, admitted, won, pub, nread>>
=============================================================================
