---------------------------- MODULE MetricLog_MC ----------------------------
(* Bounded instances of MetricLog for exhaustive TLC runs, scenario generation and leads. *)
EXTENDS MetricLog, Json

\* batches of one or two items ("-" = no second item)
MCBatches  == { <<"r1", "-">>, <<"r2", "-">>, <<"r1", "r2">>, <<"r1", "r1">> }
MCBatches1 == { <<"r1", "-">>, <<"r1", "r2">> }
NoFixes    == {}

\* scenario generation: one history per generated transition
Emit == PrintT(ToJson(h'))

\* Leads (DESIGN section 6): when a variant of the implementation layer breaks the property, print the
\* history that led there plus one query that exposes it; the check replays it on the real code.
BadQ(c)    == CHOOSE q \in Queries : QOK(q) /\ ~AnswerOK(c, q)
LeadFresh  == FreshOK  \/ ~PrintT(ToJson([lead |-> Append(h, BadQ(EmptyCache)), s |-> 0]))
LeadCached == CachedOK \/ ~PrintT(ToJson([lead |-> Append(h, BadQ(cache)), s |-> 1]))
=============================================================================
