------------------------------ MODULE EntryChains ------------------------------
(***************************************************************************)
(* SEVERAL slot chains alive at once (property C16): chains obtained from  *)
(* the library's own constructors - base.NewSlotChain ("new"),             *)
(* api.BuildDefaultSlotChain ("default"), api.GlobalSlotChain ("global",   *)
(* one per process) - are extended AFTER construction, in any interleaving *)
(* (a slot to A, then to B, then to A ...), between entries through each   *)
(* of them.                                                                *)
(*                                                                         *)
(* The chain of EntryChain becomes a map chain id -> [pre, rule, stat].    *)
(* Every clause of the single-chain statement holds PER CHAIN: an entry    *)
(* through chain c is decided and accounted by exactly the slots that were *)
(* added to c (plus the built-in ones of a default chain), in c's order:   *)
(* ascending order value, insertion order on ties, first blocking          *)
(* rule-check slot decides and ends the rule phase, every statistic slot   *)
(* OF THAT CHAIN told the outcome once / the completion once when the      *)
(* entry had passed, a panic admits.                                       *)
(*                                                                         *)
(* `chains' is what an entry runs; the ghost `own' is what was added to    *)
(* each chain (AddSlot touches own[c] only).  Isolation of chains:         *)
(* chains = own, and (observable form) every call made for an entry names  *)
(* a slot of its own chain and the log is the run of its own chain.        *)
(*                                                                         *)
(* Built-in slots of default chains carry id 0, pass, and do not record    *)
(* (no rules loaded): logs show recording slots only (Rec).                *)
(*                                                                         *)
(* Mutant = "shared": the chains handed out by the default constructors    *)
(* share their slot lists (a slot added to one is seen by the others) -    *)
(* rejected by Isolation / EntryOwn / ToldOncePerChain.                    *)
(***************************************************************************)
EXTENDS EntryChainOps

CONSTANTS
    Ctors,          \* constructor kinds available: subset of {"new", "default", "global"}
    SlotKinds,      \* kinds AddSlot may use: subset of {"pre", "rule", "stat"}
    Orders,         \* order values AddSlot may use
    PreBehs, RuleBehs, StatBehs,
    DefaultChain,   \* what a default constructor yields (built-in slots, id 0)
    Scripts,        \* scripted outcomes an Entry may carry
    MaxChains, MaxSlots, MaxEntries, MaxLive, MaxOps,
    Mutant          \* "" | "shared"

VARIABLES
    chains,     \* chain id -> [pre, rule, stat]: what an entry through the chain runs
    own,        \* chain id -> [pre, rule, stat]: ghost, the slots added to THAT chain (and its built-ins)
    ctor,       \* chain id -> constructor kind
    nslot,      \* recording slots added so far, over all chains (ids 1..nslot)
    nid,        \* Entry calls so far
    live,       \* entry id -> [c, out]: admitted, not yet exited
    last,       \* [op, c, so, out, blk]: the last Entry / Exit
    lastlog,    \* calls of recording slots made by the last action
    nops,
    h           \* scenario for the conformance driver; hidden by VIEW

vars == <<chains, own, ctor, nslot, nid, live, last, lastlog, nops, h>>
view == <<chains, own, ctor, nslot, nid, live, last, lastlog, nops>>

NoLast == [op |-> "", c |-> 0, so |-> "chain", out |-> "", blk |-> 0]
BehsOf(k) == IF k = "pre" THEN PreBehs ELSE IF k = "rule" THEN RuleBehs ELSE StatBehs
Rec(calls) == SelectSeq(calls, LAMBDA x : x.id # 0)
Strip(ch) == [pre  |-> SelectSeq(ch.pre,  LAMBDA s : s.id # 0),
              rule |-> SelectSeq(ch.rule, LAMBDA s : s.id # 0),
              stat |-> SelectSeq(ch.stat, LAMBDA s : s.id # 0)]
IdsOf(seq) == { seq[i].id : i \in DOMAIN seq }
NSlots(ch) == Len(ch.pre) + Len(ch.rule) + Len(ch.stat)

Init ==
    /\ chains = << >> /\ own = << >> /\ ctor = << >>
    /\ nslot = 0 /\ nid = 0 /\ live = << >>
    /\ last = NoLast /\ lastlog = << >> /\ nops = 0 /\ h = << >>

Op == nops < MaxOps /\ nops' = nops + 1

\* the chains whose lists the implementation keeps in one place: only itself - unless the mutant is on
Alias(c) == IF Mutant = "shared" /\ ctor[c] # "new" THEN { d \in DOMAIN chains : ctor[d] # "new" } ELSE {c}

\* a constructor call: base.NewSlotChain() / api.BuildDefaultSlotChain() / the first use of api.GlobalSlotChain()
NewChain(kind) ==
    LET c    == Cardinality(DOMAIN chains) + 1
        init == IF kind = "new" THEN EmptyChain ELSE DefaultChain
        D    == { d \in DOMAIN chains : ctor[d] # "new" }
        seen == IF Mutant = "shared" /\ kind # "new" /\ D # {} THEN chains[CHOOSE d \in D : TRUE] ELSE init
    IN
    /\ Op /\ c <= MaxChains
    /\ kind = "global" => \A d \in DOMAIN ctor : ctor[d] # "global"
    /\ chains' = chains @@ (c :> seen)
    /\ own' = own @@ (c :> init)
    /\ ctor' = ctor @@ (c :> kind)
    /\ last' = NoLast /\ lastlog' = << >>
    /\ h' = Append(h, [op |-> "mchain", c |-> c, kind |-> kind])
    /\ UNCHANGED <<nslot, nid, live>>

\* Add*Slot on chain c - at any time, also between entries and with entries in flight
AddSlot(c, k, o, b) ==
    LET s  == [ord |-> o, id |-> nslot + 1, beh |-> b]
        nl == Insert(chains[c][k], s)
    IN
    /\ Op /\ nslot < MaxSlots
    /\ chains' = [d \in DOMAIN chains |-> IF d \in Alias(c) THEN [chains[d] EXCEPT ![k] = nl] ELSE chains[d]]
    /\ own' = [own EXCEPT ![c][k] = Insert(@, s)]
    /\ nslot' = nslot + 1
    /\ last' = NoLast /\ lastlog' = << >>
    /\ h' = Append(h, [op |-> "slot", c |-> c, k |-> k, ord |-> o, beh |-> b])
    /\ UNCHANGED <<ctor, nid, live>>

Entry(c, so) ==
    LET r == RunChain(chains[c], so) IN
    /\ Op /\ nid < MaxEntries /\ Cardinality(DOMAIN live) < MaxLive
    /\ nid' = nid + 1
    /\ lastlog' = Rec(r.calls)
    /\ last' = [op |-> "entry", c |-> c, so |-> so, out |-> r.out, blk |-> r.blk]
    /\ live' = IF r.out = "block" THEN live ELSE live @@ (nid + 1 :> [c |-> c, out |-> r.out])
    /\ h' = Append(h, [op |-> "entry", c |-> c, res |-> "r1", b |-> 1, inb |-> FALSE, so |-> so, xh |-> ""])
    /\ UNCHANGED <<chains, own, ctor, nslot>>

\* first Exit of an admitted entry: completion is announced by the chain the entry went through
Exit(id) ==
    LET en == live[id] IN
    /\ Op
    /\ lastlog' = IF en.out = "pass" THEN Rec(ComplCalls(chains[en.c])) ELSE << >>
    /\ last' = [op |-> "exit", c |-> en.c, so |-> "chain", out |-> en.out, blk |-> 0]
    /\ live' = [i \in DOMAIN live \ {id} |-> live[i]]
    /\ h' = Append(h, [op |-> "exit", id |-> id, e |-> ""])
    /\ UNCHANGED <<chains, own, ctor, nslot, nid>>

Next ==
    \/ \E kind \in Ctors : NewChain(kind)
    \/ \E c \in DOMAIN chains, k \in SlotKinds, o \in Orders : \E b \in BehsOf(k) : AddSlot(c, k, o, b)
    \/ \E c \in DOMAIN chains, so \in Scripts : Entry(c, so)
    \/ \E id \in DOMAIN live : Exit(id)

Spec == Init /\ [][Next]_vars

---------------------------------------------------------------------------
TypeOK ==
    /\ DOMAIN chains = 1..Cardinality(DOMAIN chains) /\ DOMAIN own = DOMAIN chains /\ DOMAIN ctor = DOMAIN chains
    /\ Cardinality(DOMAIN chains) <= MaxChains /\ nslot \in 0..MaxSlots /\ nid \in 0..MaxEntries
    /\ DOMAIN live \subseteq 1..nid /\ \A id \in DOMAIN live : live[id].c \in DOMAIN chains

\* per chain: the order clause
ChainsSorted == \A c \in DOMAIN chains : SortedSeq(chains[c].pre) /\ SortedSeq(chains[c].rule) /\ SortedSeq(chains[c].stat)

\* Isolation of chains: a chain consists of exactly the slots added to it (and its built-ins), whatever was
\* added to other chains before or after; no recording slot is in two chains
Isolation ==
    /\ \A c \in DOMAIN chains : chains[c] = own[c]
    /\ \A c, d \in DOMAIN chains : c # d => \A k \in {"pre", "rule", "stat"} :
            (IdsOf(chains[c][k]) \cap IdsOf(chains[d][k])) \subseteq {0}

\* observable form: the last entry was decided and accounted by ITS chain - the log is the run of the slots added to
\* that chain (order, first-block short-circuit, fail-open as in the single-chain clauses), the outcome and the blocking
\* slot are that chain's, no slot of another chain was called
EntryOwn ==
    last.op = "entry" =>
        LET ch == own[last.c]  r == RunChain(ch, last.so) IN
        /\ EntryLogOK(lastlog, Strip(ch), last.so)
        /\ last.out = r.out /\ last.blk = r.blk
        /\ last.blk # 0 => last.blk \in IdsOf(ch.rule)
        /\ \A i \in DOMAIN lastlog : lastlog[i].id \in IdsOf(SeqOf(ch, lastlog[i].k))

ExitOwn ==
    last.op = "exit" =>
        /\ ExitLogOK(lastlog, Strip(own[last.c]), last.out = "pass", last.out = "panic")
        /\ \A i \in DOMAIN lastlog : lastlog[i].id \in IdsOf(own[last.c].stat)

\* absent panics every statistic slot of the entry's chain - and no other - is told the outcome / the completion once
PanicFree(ch) == /\ \A i \in DOMAIN ch.pre  : ch.pre[i].beh \notin {"panic", "script"}
                 /\ \A i \in DOMAIN ch.rule : ch.rule[i].beh \notin {"panic", "script"}
                 /\ \A i \in DOMAIN ch.stat : ch.stat[i].beh \notin {"panic", "panicC"}
ToldTo(s, M) == Cardinality({ i \in DOMAIN lastlog : lastlog[i].k = "stat" /\ lastlog[i].id = s /\ lastlog[i].m \in M })
ToldOncePerChain ==
    (last.op # "" /\ PanicFree(own[last.c])) =>
        LET mine == IdsOf(Strip(own[last.c]).stat)
            M    == IF last.op = "entry" THEN {"passed", "blocked"} ELSE {"completed"}
            due  == last.op = "entry" \/ last.out = "pass"
        IN /\ \A s \in mine : ToldTo(s, M) = (IF due THEN 1 ELSE 0)
           /\ \A s \in 1..nslot \ mine : ToldTo(s, {"passed", "blocked", "completed"}) = 0
=============================================================================
