SPECIFICATION TSpec
CONSTANT Wrap = FALSE
CHECK_DEADLOCK FALSE
