-------------------------- MODULE Isolation_Trace --------------------------
(***************************************************************************)
(* Validation of executions of the real isolation module (api.Entry /      *)
(* Exit with rules loaded by isolation.LoadRules) against property C04,    *)
(* with the operators of Isolation / AdmitOps.                             *)
(*                                                                         *)
(* Events (one ndjson line each; many traces are concatenated):            *)
(*   new   tr, nres, rules : [ [res, N] ]        N = [h, l] 16-bit limbs   *)
(*   req   res, b = [h, l], id, ok, [bt, rule, rN, val = [h, l]], conc     *)
(*           one api.Entry(WithBatchCount(b)); conc = CurrentConcurrency   *)
(*           of the resource right after the call; rule = position of the  *)
(*           triggered rule in the list of `new`, rN = its threshold       *)
(*   reload via, r, rules : [ [res, N, mt] ] (RAW, as pushed), err,        *)
(*           got : per resource the thresholds GetRulesOfResource reports, *)
(*           conc : per resource the gauge right after the push            *)
(*           via = all (isolation.LoadRules) | res (LoadRulesOfResource) | *)
(*           clear (ClearRulesOfResource) | clearall (ClearRules).  The    *)
(*           rules in force are COMPUTED here from the raw list with the   *)
(*           transcribed validity predicate; after a reload the triggered  *)
(*           rule is identified by its threshold (positions are those of   *)
(*           the first list only)                                          *)
(*   exit  res, id, conc                         Exit of admitted entry id *)
(*   conc  res, bs, sched, oks, conc             k gated goroutines ran    *)
(*           api.Entry in the interleaving sched (small batches)           *)
(*   storm res, workers, iters, admitted, rejected, maxinfl, conc          *)
(*           W free-running goroutines entered / exited the resource with  *)
(*           batch 1; maxinfl = largest driver-side count of admitted and  *)
(*           not yet exited entries, conc = gauge at quiescence            *)
(* The abstract state follows the OBSERVED outcome.                        *)
(***************************************************************************)
EXTENDS AdmitOps, TLC, Json

Trace == ndJsonDeserialize("trace.ndjson")

\* FALSE for every verdict.  TRUE judges against the uint32-wrapping compare instead: used only to CLASSIFY an already
\* confirmed deviation as "exactly the known batch-overflow defect" (Isolation_TraceWrap.cfg).
CONSTANT Wrap

VARIABLES
    l,        \* next line
    rs,       \* rules of the running trace
    infl,     \* [1..nres -> set of ids in flight]
    g,        \* [tr, nres, rel]: rel = a reload happened in this trace
    failed

tvars == <<l, rs, infl, g, failed>>
Ev == Trace[l]

\* --- operators of Isolation (Over = UOver when Wrap = FALSE) ---
RulesOf(rules, res) == { i \in 1..Len(rules) : rules[i].res = res }
Over(cnt, b, N) == IF Wrap THEN UOverWrap(cnt, b, N) ELSE UOver(cnt, b, N)
Blocking(rules, cnt, res, b) == { i \in RulesOf(rules, res) : Over(cnt, b, rules[i].N) }
Decision(rules, cnt, res, b) ==
    LET S == Blocking(rules, cnt, res, b) IN
    IF S = {} THEN [ok |-> TRUE, rule |-> 0] ELSE [ok |-> FALSE, rule |-> MinOf(S)]

Limbs(x) == <<x[1], x[2]>>

\* --- rules in force after a push: operators of Isolation (validity predicate of the module, transcribed) ---
Valid(x) == x.res # 0 /\ x.mt = 0 /\ ~UIsZero(x.N)
Strip(s) == [i \in 1..Len(s) |-> [res |-> s[i].res, N |-> s[i].N]]
OfRes(s, r)  == SelectSeq(s, LAMBDA x : x.res = r)
NotRes(s, r) == SelectSeq(s, LAMBDA x : x.res # r)
RECURSIVE ByRes(_, _)
ByRes(s, n) == IF n = 0 THEN << >> ELSE ByRes(s, n - 1) \o OfRes(s, n)
InForceAfter(rules, via, r, raw, n) ==
    LET v == Strip(SelectSeq(raw, Valid)) IN
    CASE via = "all"      -> ByRes(v, n)
      [] via = "res"      -> ByRes(NotRes(rules, r) \o OfRes(v, r), n)
      [] via = "clear"    -> ByRes(NotRes(rules, r), n)
      [] via = "clearall" -> << >>
ThresholdsOf(rules, r) == LET m == OfRes(rules, r) IN [i \in 1..Len(m) |-> m[i].N]

Judge(ok, expected) ==
    IF failed \/ ok THEN failed' = failed
    ELSE /\ failed' = TRUE
         /\ PrintT("MISMATCH " \o ToString(g.tr) \o " " \o ToString(l) \o " " \o ToJson(expected))

IsEvent(op) == l <= Len(Trace) /\ Ev.op = op /\ l' = l + 1

TNew ==
    /\ IsEvent("new")
    /\ rs' = [i \in 1..Len(Ev.rules) |-> [res |-> Ev.rules[i].res, N |-> Limbs(Ev.rules[i].N)]]
    /\ infl' = [r \in 1..Ev.nres |-> {}]
    /\ g' = [tr |-> Ev.tr, nres |-> Ev.nres, rel |-> FALSE]
    /\ failed' = FALSE

TReq ==
    /\ IsEvent("req")
    /\ LET res == Ev.res
           cnt == Cardinality(infl[res])
           d   == Decision(rs, cnt, res, Limbs(Ev.b))
           exp == IF d.ok THEN [ok |-> TRUE, conc |-> cnt + 1]
                  ELSE [ok |-> FALSE, bt |-> "isolation", rule |-> IF g.rel THEN -1 ELSE d.rule, rN |-> rs[d.rule].N,
                        val |-> USmall(cnt), conc |-> cnt]
       IN
       /\ Judge(/\ Ev.ok = d.ok
                /\ Ev.conc = exp.conc
                /\ ~d.ok => (/\ Ev.bt = "isolation"
                             /\ (g.rel \/ Ev.rule = d.rule)
                             /\ Limbs(Ev.rN) = rs[d.rule].N
                             /\ Limbs(Ev.val) = USmall(cnt)),
                exp)
       /\ infl' = IF Ev.ok THEN [infl EXCEPT ![res] = @ \cup {Ev.id}] ELSE infl
    /\ UNCHANGED <<rs, g>>

TExit ==
    /\ IsEvent("exit")
    /\ Ev.id \in infl[Ev.res]                     \* a driver error otherwise
    /\ infl' = [infl EXCEPT ![Ev.res] = @ \ {Ev.id}]
    /\ Judge(Ev.conc = Cardinality(infl[Ev.res]) - 1, [conc |-> Cardinality(infl[Ev.res]) - 1])
    /\ UNCHANGED <<rs, g>>

\* a rule list pushed in the middle of the trace: from here on the decision of every request follows the valid rules of
\* the latest push of its resource; entries in flight survive (they keep occupying capacity)
TReload ==
    /\ IsEvent("reload")
    /\ LET raw == [i \in 1..Len(Ev.rules) |-> [res |-> Ev.rules[i].res, N |-> Limbs(Ev.rules[i].N), mt |-> Ev.rules[i].mt]]
           nrs == InForceAfter(rs, Ev.via, Ev.r, raw, g.nres)
           exp == [err |-> FALSE,
                   got  |-> [r \in 1..g.nres |-> ThresholdsOf(nrs, r)],
                   conc |-> [r \in 1..g.nres |-> Cardinality(infl[r])]]
       IN
       /\ rs' = nrs
       /\ Judge(/\ Ev.err = FALSE
                /\ \A r \in 1..g.nres :
                      /\ Len(Ev.got[r]) = Len(exp.got[r])
                      /\ \A i \in 1..Len(Ev.got[r]) : Limbs(Ev.got[r][i]) = exp.got[r][i]
                      /\ Ev.conc[r] = exp.conc[r],
                exp)
    /\ g' = [g EXCEPT !.rel = TRUE]
    /\ UNCHANGED infl

---------------------------------------------------------------------------
(* k callers inside the admission path at the same time.  Property level:  *)
(* in-flight <= N + (k-1) for every rule (+1 when a zero batch is among    *)
(* them), nobody is rejected for nothing, the gauge equals the admitted    *)
(* entries.  Implementation level (DRIFT, never a verdict): outcomes equal *)
(* AdmitOps!PathReplay of the schedule for a single small rule.            *)

NAdm(oks, S) == Cardinality({ i \in S : oks[i] })

ConcOK(res, bs, oks, conc) ==
    LET K    == Len(bs)
        cnt  == Cardinality(infl[res])
        mine == RulesOf(rs, res)
        zs   == IF \E i \in 1..K : bs[i] = 0 THEN 1 ELSE 0
        nadm == NAdm(oks, 1..K)
    IN  /\ conc = cnt + nadm
        /\ \A i \in mine : nadm = 0 \/ ULeq(USmall(cnt + nadm), UAdd(rs[i].N, USmall(K - 1 + zs)))
        /\ \A c \in 1..K : ~oks[c] =>
              \E i \in mine : Over(cnt + NAdm(oks, (1..K) \ {c}), USmall(bs[c]), rs[i].N)

Predicted(res, bs, sched) ==
    LET i == CHOOSE x \in RulesOf(rs, res) : TRUE IN
    PathReplay(PathInit(Cardinality(infl[res]), Len(bs)), sched, 1, bs, <<rs[i].N[2], 1>>, "conc")

Drift(res, bs, sched, oks) ==
    LET mine == RulesOf(rs, res) IN
    IF Cardinality(mine) = 1 /\ (\A i \in mine : rs[i].N[1] = 0) /\ GoodSched(sched, Len(bs))
      THEN (IF Predicted(res, bs, sched).dec = oks THEN TRUE
            ELSE PrintT("DRIFT " \o ToString(g.tr) \o " " \o ToString(l) \o " " \o ToJson(Predicted(res, bs, sched).dec)))
      ELSE TRUE

TConc ==
    /\ IsEvent("conc")
    /\ Judge(ConcOK(Ev.res, Ev.bs, Ev.oks, Ev.conc),
             [bound |-> "in-flight <= N + k-1, gauge = admitted entries, no spurious rejection"])
    /\ (failed \/ Drift(Ev.res, Ev.bs, Ev.sched, Ev.oks))
    \* the driver exits every admitted caller before the next event: in-flight is unchanged
    /\ UNCHANGED <<rs, infl, g>>

---------------------------------------------------------------------------
(* W free-running callers (batch 1 each).  At most W of them are inside the *)
(* admission path at once, so in-flight <= N + (W-1) at every instant; the  *)
(* driver's own count is a lower bound of the true in-flight figure.  Every *)
(* entry of the phase has exited when the record is taken: the gauge is     *)
(* back to the entries that were in flight before, every call returned, and *)
(* if N leaves room for all W callers on top of those nobody is rejected.   *)
StormOK(res, W, iters, adm, rej, maxinfl, conc) ==
    LET cnt  == Cardinality(infl[res])
        mine == RulesOf(rs, res)
    IN  /\ adm + rej = W * iters
        /\ conc = cnt
        /\ \A i \in mine : maxinfl = 0 \/ ULeq(USmall(cnt + maxinfl), UAdd(rs[i].N, USmall(W - 1)))
        /\ (\A i \in mine : ~Over(cnt + W - 1, USmall(1), rs[i].N)) => rej = 0

TStorm ==
    /\ IsEvent("storm")
    /\ Judge(StormOK(Ev.res, Ev.workers, Ev.iters, Ev.admitted, Ev.rejected, Ev.maxinfl, Ev.conc),
             [conc |-> Cardinality(infl[Ev.res]),
              bound |-> "gauge back to the entries in flight before; in-flight <= N + W-1; no rejection when N >= in-flight + W"])
    /\ UNCHANGED <<rs, infl, g>>

TInit == l = 1 /\ rs = << >> /\ infl = << >> /\ g = [tr |-> 0, nres |-> 0, rel |-> FALSE] /\ failed = FALSE
TNext == TNew \/ TReq \/ TExit \/ TReload \/ TConc \/ TStorm
TSpec == TInit /\ [][TNext]_tvars
=============================================================================
