SPECIFICATION ShSpec
CONSTANTS
  Toks <- MCToks6
  StatClass <- MCStat
  Watched = "X"
  MaxLen = 3
  MaxTraffic = 0
  Reuse = "statement"
INVARIANTS ShPrint
CHECK_DEADLOCK FALSE
