SPECIFICATION ShSpec
CONSTANTS
  Toks <- MCToks6
  StatClass <- MCStat
  Watched = "X"
  MaxLen = 3
  MaxTraffic = 0
  Reuse = "statement"
  TripAge = 1
  Paths = {"whole", "wholeOther", "res"}
  Norm <- MCNorm
  Defaulting = {}
INVARIANTS ShPrint
CHECK_DEADLOCK FALSE
