-------------------------- MODULE EntryChain_Trace --------------------------
(***************************************************************************)
(* Validation of executions of the real code (api.Entry / TraceError /     *)
(* SentinelEntry.Exit through base.SlotChain and stat.Slot) against the    *)
(* operators of EntryChainOps - properties C16 and C01.                    *)
(*                                                                         *)
(* The drivers (harness/cmd/c16, harness/cmd/c01) record one ndjson line   *)
(* per operation with everything a user can observe afterwards: the call   *)
(* log of the recording slots, what the caller got back, the fields of     *)
(* every block error handed out so far, and (C01) per node the gauge and   *)
(* the statistic sums over the default view and the whole array, plus      *)
(* Err / Args / BatchCount / Resource / StartTime of every live entry.     *)
(* This module replays the operations on the abstract state and judges     *)
(* every recorded observable.  Many traces are concatenated; "new" starts  *)
(* one.  A mismatch is printed once per trace                              *)
(*    MISMATCH <trace no> <line> <what the property expects, as JSON>      *)
(* and the rest of that trace is skipped.                                  *)
(***************************************************************************)
EXTENDS EntryChainOps, Json

Trace == ndJsonDeserialize("trace.ndjson")

VARIABLES
    l,        \* next line
    now,      \* relative time of the running trace
    chains,   \* chain id -> [pre, rule, stat]; traces with ONE chain (modes chain / stat / global) use id 0, traces of
              \* mode "multi" name the chain in every slot / entry event (field c)
    live,     \* id -> [res, b, inb, start, errs, out, counted, xh, args, ch]  (ch = the chain the entry went through)
    exited,   \* admitted entries already exited
    blocked,  \* ids of blocked entries
    berr,     \* id -> [bt, rule, val] block errors handed out
    acc,      \* node -> reference window
    conc,     \* node -> gauge
    g,        \* configuration of the running trace
    failed

tvars == <<l, now, chains, live, exited, blocked, berr, acc, conc, g, failed>>

Ev == Trace[l]
Has(r, f) == f \in DOMAIN r
SeqSet(s) == { s[i] : i \in DOMAIN s }
\* the chain an event names (0 = the one chain of a single-chain trace)
CidOf(e) == IF Has(e, "c") THEN e.c ELSE 0

Judge(ok, expected) ==
    IF failed \/ ok THEN failed' = failed
    ELSE /\ failed' = TRUE
         /\ PrintT("MISMATCH " \o ToString(g.tr) \o " " \o ToString(l) \o " " \o ToJson(expected))

IsEvent(op) == l <= Len(Trace) /\ Ev.op = op /\ l' = l + 1

---------------------------------------------------------------------------
(* expected reads                                                          *)

ExpNode(a, c, n, t) == [conc |-> c[n], sum |-> ReadSums(a, n, g.pbl, t, g.vint), all |-> ReadSums(a, n, g.pbl, t, g.pint)]
ExpNodes(a, c, t) == [n \in DOMAIN a |-> ExpNode(a, c, n, t)]
ExpLive(lv) == { [id |-> id, res |-> lv[id].res, b |-> lv[id].b, args |-> lv[id].args, start |-> lv[id].start,
                  errs |-> lv[id].errs, out |-> lv[id].out] : id \in DOMAIN lv }
ExpBerrs(be) == { [id |-> id, bt |-> be[id].bt, rule |-> be[id].rule, val |-> be[id].val] : id \in DOMAIN be }
ExpState(a, c, lv, be, t) == [nodes |-> ExpNodes(a, c, t), live |-> ExpLive(lv), berrs |-> ExpBerrs(be)]

NodeOK(o, a, c, n, t) ==
    LET x == ExpNode(a, c, n, t) IN
    /\ o.conc = x.conc
    /\ \A k \in Kinds : o.sum[k] = x.sum[k] /\ o.all[k] = x.all[k]

\* a live entry shows its own resource, batch, start time and arguments, and an error that is its own:
\* none unless one was set on it (an entry admitted through a panic may carry the library's internal error)
LiveOK(o, en) ==
    /\ ~Has(o, "nilctx")
    /\ o.res = en.res /\ o.b = en.b /\ o.args = en.args /\ o.start = en.start
    /\ \/ o.err \in en.errs
       \/ o.err = "" /\ en.errs = {}
       \/ o.err = "internal" /\ en.out = "panic"

StateOK(st, a, c, lv, be, t) ==
    /\ Has(st, "nodes") => \A n \in DOMAIN a : Has(st.nodes, n) /\ NodeOK(st.nodes[n], a, c, n, t)
    /\ { st.live[i].id : i \in DOMAIN st.live } = DOMAIN lv /\ Len(st.live) = Cardinality(DOMAIN lv)
    /\ \A i \in DOMAIN st.live : st.live[i].id \in DOMAIN lv => LiveOK(st.live[i], lv[st.live[i].id])
    \* every block error handed out so far still reads as it did when it was returned
    /\ { st.berrs[i].id : i \in DOMAIN st.berrs } = DOMAIN be
    /\ \A i \in DOMAIN st.berrs : LET o == st.berrs[i] IN
            o.id \in DOMAIN be => (o.bt = be[o.id].bt /\ o.rule = be[o.id].rule /\ o.val = be[o.id].val)

\* calls of slots that record (the scripted rule slot standing for the built-in rule slots of the global chain does not)
Visible(calls) == SelectSeq(calls, LAMBDA c : c.id \notin g.silent)

---------------------------------------------------------------------------
TNew ==
    /\ IsEvent("new")
    /\ now' = Ev.t
    /\ chains' = IF Ev.mode = "global"
                   THEN (0 :> [EmptyChain EXCEPT !.rule = << [ord |-> 1, id |-> 0, beh |-> "script", bm |-> ""] >>])
                   ELSE IF Ev.mode = "multi" THEN << >>        \* chains are made by constructor events (TMChain)
                   ELSE (0 :> EmptyChain)
    /\ live' = << >> /\ exited' = {} /\ blocked' = {} /\ berr' = << >>
    /\ acc' = [n \in SeqSet(Ev.nodes) |-> << >>]
    /\ conc' = [n \in SeqSet(Ev.nodes) |-> 0]
    /\ g' = [tr |-> Ev.tr, mode |-> Ev.mode, pbl |-> Ev.pbl, vint |-> Ev.vint, pint |-> Ev.pint,
             silent |-> IF Ev.mode = "global" THEN {0} ELSE {}]
    /\ failed' = FALSE

TSlot ==
    /\ IsEvent("slot")
    /\ chains' = [chains EXCEPT ![CidOf(Ev)][Ev.k] = Insert(@, [ord |-> Ev.ord, id |-> Ev.id, beh |-> Ev.beh, bm |-> Ev.bm])]
    /\ UNCHANGED <<now, live, exited, blocked, berr, acc, conc, g, failed>>

\* ----- a chain obtained from one of the library's constructors (kind: "new" = base.NewSlotChain, "default" =
\* api.BuildDefaultSlotChain, "global" = api.GlobalSlotChain): it starts without recording slots - the built-in slots of
\* a default chain are real library slots, no rules are loaded, they pass and do not record.  From here on the chain
\* consists of exactly the slots the following slot events add TO IT (Isolation of chains, see EntryChains.tla).
TMChain ==
    /\ IsEvent("mchain")
    /\ chains' = IF Ev.c \in DOMAIN chains THEN chains ELSE chains @@ (Ev.c :> EmptyChain)
    /\ Judge(Ev.c \notin DOMAIN chains /\ Ev.kind \in {"new", "default", "global"}, [rule |-> "a constructor event names a new chain"])
    /\ UNCHANGED <<now, live, exited, blocked, berr, acc, conc, g>>

\* ----- Entry
TEntry ==
    /\ IsEvent("entry")
    /\ LET so   == IF g.mode = "global"
                     THEN (IF Ev.blocked THEN "block" ELSE IF Ev.unh /\ Ev.hot THEN "panicRule" ELSE "pass")
                     ELSE Ev.so
           \* the entry is judged against ITS chain: the slots added to that chain, nothing added to any other chain
           cid   == CidOf(Ev)
           known == cid \in DOMAIN chains     \* (an entry that names no chain of the trace is a mismatch, judged against no slots)
           chain == IF known THEN chains[cid] ELSE EmptyChain
           r    == RunChain(chain, so)
           id   == Ev.id
           N    == NodesOf(Ev.res, Ev.inb) \cap DOMAIN acc
           vis  == [r EXCEPT !.calls = Visible(r.calls)]
           \* the snapshot value a blocking recorder puts into its error: the entry number - except a slot that hands out
           \* one constant, pre-built result object (bm = "const"), which always says -3
           bmode == IF r.blk > 0 THEN chain.rule[PosIn(chain.rule, r.blk)].bm ELSE ""
           \* a slot that blocks through the partial helper ResetToBlocked(type) (bm = "partial") names neither a rule nor
           \* a snapshot: the caller's error must carry none - in particular not those of an earlier block that used the
           \* same pooled context
           bval  == IF bmode = "const" THEN 0 - 3 ELSE IF bmode = "partial" THEN 0 - 1 ELSE id
           brule == IF bmode = "partial" THEN 0 - 1 ELSE r.blk
           \* C16: call log; outcome; nothing escapes; block error = first blocking slot's, for this entry
           logOK == /\ Len(Ev.calls) >= Len(vis.calls)
                    /\ \A i \in DOMAIN vis.calls : Proj(Ev.calls[i]) = vis.calls[i]
                    /\ r.out # "panic" => Len(Ev.calls) = Len(vis.calls)
                    /\ WellFormed(Ev.calls, chain, so)
                    \* the error the statistic slots are told is the first blocking slot's, and the caller gets the same
                    /\ \A i \in DOMAIN Ev.calls : Ev.calls[i].m = "blocked" =>
                            /\ g.mode # "global" => (Ev.calls[i].bt = r.blk /\ Ev.calls[i].rule = brule /\ Ev.calls[i].val = bval)
                            /\ Has(Ev, "berr") => (Ev.calls[i].bt = Ev.berr.bt /\ Ev.calls[i].rule = Ev.berr.rule /\ Ev.calls[i].val = Ev.berr.val)
           resOK == /\ ~Ev.esc
                    /\ Ev.blocked <=> (r.out = "block")
                    /\ Ev.admitted <=> (r.out # "block")
                    /\ Ev.blocked => Has(Ev, "berr")
                    /\ (Ev.blocked /\ g.mode # "global") => (Ev.berr.bt = r.blk /\ Ev.berr.rule = brule /\ Ev.berr.val = bval)
           be2  == IF Ev.blocked /\ Has(Ev, "berr")
                     THEN berr @@ (id :> [bt |-> Ev.berr.bt, rule |-> Ev.berr.rule, val |-> Ev.berr.val]) ELSE berr
           \* C01: accounting.  blocked: b blocked tokens; passed: b passed tokens and the gauge; admitted through a
           \* panic: like a passed entry or not at all.
           Cand == IF r.out = "panic" THEN {FALSE, TRUE} ELSE {r.out = "pass"}
           En(c) == [res |-> Ev.res, b |-> Ev.b, inb |-> Ev.inb, start |-> now, errs |-> {}, out |-> r.out,
                     counted |-> c, xh |-> Ev.xh, args |-> Ev.args, ch |-> cid]
           After(c) == IF r.out = "block"
                         THEN [acc |-> AccBlock(acc, N, g.pbl, now, Ev.b), conc |-> conc, live |-> live]
                         ELSE [acc |-> IF c THEN AccPass(acc, N, g.pbl, now, Ev.b) ELSE acc,
                               conc |-> IF c THEN Bump(conc, N, 1) ELSE conc,
                               live |-> live @@ (id :> En(c))]
           Good == { c \in Cand : LET s == After(c) IN StateOK(Ev.st, s.acc, s.conc, s.live, be2, now) }
           pick == IF Good = {} THEN (CHOOSE c \in Cand : TRUE) ELSE (CHOOSE c \in Good : TRUE)
           s    == After(pick)
       IN /\ acc' = s.acc /\ conc' = s.conc /\ live' = s.live /\ berr' = be2
          /\ blocked' = IF r.out = "block" THEN blocked \cup {id} ELSE blocked
          /\ Judge(known /\ logOK /\ resOK /\ Good # {},
                   [calls |-> vis.calls, out |-> r.out, blk |-> r.blk, chain |-> cid, state |-> ExpState(s.acc, s.conc, s.live, be2, now)])
    /\ UNCHANGED <<now, chains, exited, g>>

\* ----- TraceError: on a live entry the error becomes one of its own; on an exited entry nothing changes
TTerr ==
    /\ IsEvent("terr")
    /\ LET lv2 == IF Ev.id \in DOMAIN live THEN [live EXCEPT ![Ev.id].errs = @ \cup {Ev.e}] ELSE live IN
       /\ live' = lv2
       /\ Judge(~Ev.esc /\ Ev.calls = << >> /\ StateOK(Ev.st, acc, conc, lv2, berr, now),
                [calls |-> << >>, state |-> ExpState(acc, conc, lv2, berr, now)])
    /\ UNCHANGED <<now, chains, exited, blocked, berr, acc, conc, g>>

\* ----- Exit: the first Exit of an admitted entry completes it; any later Exit changes nothing
Handlers(calls) == SelectSeq(calls, LAMBDA c : c.k = "xh")
Compls(calls)   == SelectSeq(calls, LAMBDA c : c.k # "xh")
TExit ==
    /\ IsEvent("exit")
    /\ IF Ev.id \in DOMAIN live
         THEN LET id    == Ev.id
                  en    == live[id]
                  chain == IF en.ch \in DOMAIN chains THEN chains[en.ch] ELSE EmptyChain       \* completion is announced by the chain the entry went through
                  errs  == en.errs \cup (IF Ev.e = "" THEN {} ELSE {Ev.e})
                  N     == NodesOf(en.res, en.inb) \cap DOMAIN acc
                  rt    == now - en.start
                  lv2   == [i \in DOMAIN live \ {id} |-> live[i]]
                  compl == Compls(Ev.calls)
                  \* a passed entry contributes exactly one completion; an entry admitted through a panic contributes
                  \* one iff it was counted as passed; whether that one carries an error is open when none was set
                  PE    == IF en.out = "panic" /\ en.counted /\ errs = {} THEN {FALSE, TRUE} ELSE {FALSE}
                  After(pe) == IF en.counted
                                 THEN [acc |-> AccComplete(acc, N, g.pbl, now, en.b, rt, errs # {} \/ pe), conc |-> Bump(conc, N, -1)]
                                 ELSE [acc |-> acc, conc |-> conc]
                  Good  == { pe \in PE : LET s == After(pe) IN StateOK(Ev.st, s.acc, s.conc, lv2, berr, now) }
                  pick  == IF Good = {} THEN FALSE ELSE (CHOOSE pe \in Good : TRUE)
                  s     == After(pick)
                  \* C16: exit handler once; completion told to every stat slot once, in order, iff the entry had passed
                  free  == en.out = "panic" \/ en.xh = "panic"
                  hOK   == Len(Handlers(Ev.calls)) = (IF en.xh = "" THEN 0 ELSE 1)
                           /\ \A i \in DOMAIN Handlers(Ev.calls) : Handlers(Ev.calls)[i].id = id
                  \* C01: each completion the recorder sees is this entry's own
                  ownOK == \A i \in DOMAIN compl : LET c == compl[i] IN
                              /\ c.eid = id /\ c.res = en.res /\ c.b = en.b /\ c.rt = rt /\ c.args = en.args
                              /\ \/ c.err \in errs
                                 \/ c.err = "" /\ errs = {}
                                 \/ c.err = "internal" /\ en.out = "panic"
              IN /\ acc' = s.acc /\ conc' = s.conc /\ live' = lv2 /\ exited' = exited \cup {id}
                 /\ Judge(~Ev.esc /\ hOK /\ ExitLogOK(compl, chain, en.out = "pass", free) /\ ownOK /\ Good # {},
                          [compl |-> IF en.out = "pass" THEN ComplCalls(chain) ELSE << >>, rt |-> rt, errs |-> errs,
                           state |-> ExpState(s.acc, s.conc, lv2, berr, now)])
         ELSE /\ UNCHANGED <<acc, conc, live, exited>>
              /\ Judge(~Ev.esc /\ Ev.calls = << >> /\ StateOK(Ev.st, acc, conc, live, berr, now),
                       [calls |-> << >>, state |-> ExpState(acc, conc, live, berr, now)])
    /\ UNCHANGED <<now, chains, blocked, berr, g>>

TTick ==
    /\ IsEvent("tick")
    /\ Ev.t >= now
    /\ now' = Ev.t
    /\ acc' = PruneAll(acc, g.pbl, g.pint, Ev.t)
    /\ Judge(StateOK(Ev.st, acc', conc, live, berr, Ev.t), [state |-> ExpState(acc', conc, live, berr, Ev.t)])
    /\ UNCHANGED <<chains, live, exited, blocked, berr, conc, g>>

TNoop ==
    /\ IsEvent("noop")
    /\ UNCHANGED <<now, chains, live, exited, blocked, berr, acc, conc, g, failed>>

\* ----- free-running stress phase, judged at quiescence on order-insensitive totals only (clock frozen, so every
\* event of the phase is inside the current bucket): conservation, one completion per passed entry, gauge zero.
\* req = tokens requested by entries that did not panic, reqp = tokens of entries admitted through a panic
\* (batch 1 each: counted or not, individually).
TStress ==
    /\ IsEvent("stress")
    /\ LET Delta(n, k) == Ev.st.nodes[n].sum[k] - RefSum(acc[n], g.pbl, now, g.vint, k)
           NodeQ(n) ==
              LET p == Delta(n, "pass")  b == Delta(n, "block")  c == Delta(n, "complete")  q == Ev.req[n] IN
              /\ p + b >= q.req /\ p + b <= q.req + q.reqp
              /\ c = p
              /\ Ev.st.nodes[n].conc = conc[n]
           ok == /\ Ev.escaped = 0
                 /\ \A n \in DOMAIN acc : Has(Ev.req, n) => NodeQ(n)
                 /\ Ev.rec.dup = 0 /\ Ev.rec.miss = 0
                 /\ (Ev.panic_pct = 0 => Ev.rec.orphan = 0 /\ Ev.rec.completed = Ev.rec.passed)
       IN Judge(ok, [req |-> Ev.req, conc |-> conc, rule |-> "pass+block in [req, req+reqp], complete = pass, gauge back to its value before, each passed entry completed exactly once"])
    \* the totals of the phase are not replayed: the trace ends here
    /\ UNCHANGED <<now, chains, live, exited, blocked, berr, acc, conc, g>>

\* ----- first-entry race: in every round several goroutines enter a never-seen resource at the same instant (clock frozen).
\* Totals over the rounds: with all admitted entries in flight the resource's gauge is the number of entries and its pass sum
\* the tokens requested; after all have exited the gauge is zero and every entry has contributed its completion.
TFirstRace ==
    /\ IsEvent("firstrace")
    /\ LET ok == /\ Ev.escaped = 0 /\ Ev.missing = 0 /\ Ev.blocked = 0
                 /\ Ev.entries = Ev.rounds * Ev.workers
                 /\ Ev.conc_in = Ev.entries /\ Ev.pass = Ev.tokens
                 /\ Ev.conc_after = 0 /\ Ev.complete = Ev.tokens
       IN Judge(ok, [entries |-> Ev.entries, tokens |-> Ev.tokens,
                     rule |-> "gauge in flight = entries, pass = tokens, gauge after = 0, complete = tokens, on the node of the resource entered"])
    /\ UNCHANGED <<now, chains, live, exited, blocked, berr, acc, conc, g>>

\* ----- more distinct resources than any internal bound of the library: each of n never-seen resources is entered once (inbound,
\* batch b) and exited at a frozen clock; every one of them is accounted on its own node and on the inbound total.
TManyRes ==
    /\ IsEvent("manyres")
    /\ LET ok == /\ Ev.escaped = 0 /\ Ev.blocked = 0 /\ Ev.missing = 0
                 /\ Ev.in_pass = Ev.n * Ev.b /\ Ev.in_complete = Ev.n * Ev.b /\ Ev.in_conc = 0
       IN Judge(ok, [tokens |-> Ev.n * Ev.b, rule |-> "every resource has a node that recorded its pass; the inbound total gained n*b passed and completed tokens; gauge unchanged"])
    /\ UNCHANGED <<now, chains, live, exited, blocked, berr, acc, conc, g>>

TInit ==
    /\ l = 1 /\ now = 0 /\ chains = (0 :> EmptyChain) /\ live = << >> /\ exited = {} /\ blocked = {} /\ berr = << >>
    /\ acc = << >> /\ conc = << >>
    /\ g = [tr |-> 0, mode |-> "", pbl |-> 500, vint |-> 1000, pint |-> 10000, silent |-> {}]
    /\ failed = FALSE
TNext == TNew \/ TMChain \/ TSlot \/ TEntry \/ TTerr \/ TExit \/ TTick \/ TNoop \/ TStress \/ TFirstRace \/ TManyRes
TSpec == TInit /\ [][TNext]_tvars
=============================================================================
