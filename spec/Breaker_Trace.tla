---------------------------- MODULE Breaker_Trace ----------------------------
(***************************************************************************)
(* Validation of executions of the real circuit-breaker code (through      *)
(* api.Entry / Exit under the virtual clock, with a registered             *)
(* StateChangeListener) against Breaker.tla (property C03).                *)
(*                                                                         *)
(* The driver (harness/cmd/c03) records one ndjson line per operation:     *)
(*   new   tr, rules : resource -> [rule]   (times in ms)                  *)
(*   req   res, id, pass, bt ("cb" = BlockTypeCircuitBreaking), trig       *)
(*         (1-based index of the rule named by TriggeredRule, 0 = none),   *)
(*         cb : the listener callbacks that fired during the call          *)
(*   done  id, err, rt (ms between entry and exit), cb                     *)
(*   tick  t  (ms since the start of the scenario)                         *)
(* This module replays the operations with the operators of Breaker        *)
(* (Outcome, CompleteAll) and demands that decision, block type, triggered *)
(* rule and the exact callback sequence of every step are the ones the     *)
(* machine prescribes ("total" mode: a mismatch is printed, the rest of    *)
(* that trace is skipped, one run reports every failing trace).            *)
(*                                                                         *)
(* Diag = "count-trunc" is used ONLY to classify a mismatch that was       *)
(* already found: it re-reads error-count thresholds truncated toward zero *)
(* (what the code does, finding C03/error-count-threshold-truncated).      *)
(***************************************************************************)
EXTENDS Breaker, Json

CONSTANT Diag

Trace == ndJsonDeserialize("trace.ndjson")

VARIABLES
    l,        \* next line of Trace
    g,        \* [tr] of the running trace
    failed,   \* the running trace already mismatched
    stat      \* counters over the whole file (coverage evidence, printed with the last line)

tvars == <<l, g, failed, stat, now, rules, br, inflight, nreq, listen, last, h>>
unused == <<nreq, listen, last, h>>

Ev == Trace[l]
Has(r, f) == f \in DOMAIN r

Judge(ok, expected) ==
    IF failed \/ ok THEN failed' = failed
    ELSE /\ failed' = TRUE
         /\ PrintT("MISMATCH " \o ToString(g.tr) \o " " \o ToString(l) \o " " \o ToJson(expected))

IsEvent(op) == l <= Len(Trace) /\ Ev.op = op /\ l' = l + 1

Bump(f, n) == [stat EXCEPT ![f] = @ + n]
Count(lg, f, t) == Len(SelectSeq(lg, LAMBDA c : c.f = f /\ c.t = t))
WithLog(s, lg) == [s EXCEPT !.trans = @ + Len(lg), !.opens = @ + Count(lg, Closed, Open),
                            !.closes = @ + Count(lg, HalfOpen, Closed), !.reopens = @ + Count(lg, HalfOpen, Open),
                            !.probes = @ + Count(lg, Open, HalfOpen)]

Norm(r) == IF Diag = "count-trunc" /\ r.strategy = "ecount" THEN [r EXCEPT !.thr = << r.thr[1] \div r.thr[2], 1 >>] ELSE r

TNew ==
    /\ IsEvent("new")
    /\ now' = 0
    /\ rules' = [res \in DOMAIN Ev.rules |-> [i \in 1..Len(Ev.rules[res]) |-> Norm(Ev.rules[res][i])]]
    /\ br' = [res \in DOMAIN Ev.rules |-> [i \in 1..Len(Ev.rules[res]) |-> NewBreaker]]
    /\ inflight' = << >>
    /\ g' = [tr |-> Ev.tr]
    /\ failed' = FALSE
    /\ stat' = Bump("traces", 1)
    /\ UNCHANGED unused

TReq ==
    /\ IsEvent("req")
    /\ LET res  == Ev.res
           o    == Outcome(rules[res], res, now, br[res])
           gone == Leaves(br[res], o.bs)
           keep == [j \in DOMAIN inflight |->
                      IF inflight[j].res = res THEN [inflight[j] EXCEPT !.probeOf = @ \ gone] ELSE inflight[j]]
           exp  == [pass |-> o.blocked = 0, trig |-> o.blocked, cb |-> o.log]
       IN  /\ br' = [br EXCEPT ![res] = o.bs]
           /\ inflight' = IF o.blocked = 0
                            THEN [j \in DOMAIN keep \cup {Ev.id} |->
                                    IF j = Ev.id THEN [res |-> res, start |-> now, probeOf |-> o.probeOf] ELSE keep[j]]
                            ELSE keep
           /\ stat' = IF failed THEN stat
                      ELSE WithLog([stat EXCEPT !.req = @ + 1, !.blocked = @ + (IF o.blocked = 0 THEN 0 ELSE 1),
                                                !.rollbacks = @ + (IF o.blocked # 0 /\ Len(o.log) > 0 THEN 1 ELSE 0)], o.log)
           /\ Judge(/\ Ev.pass = exp.pass
                    /\ ~Ev.pass => (Ev.bt = "cb" /\ Ev.trig = exp.trig)
                    /\ Ev.cb = exp.cb
                    /\ ~Has(Ev, "panic"),
                    exp)
    /\ UNCHANGED <<now, rules, g>> /\ UNCHANGED unused

TDone ==
    /\ IsEvent("done")
    /\ IF Ev.id \in DOMAIN inflight
         THEN LET res  == inflight[Ev.id].res
                  rt   == now - inflight[Ev.id].start
                  o    == CompleteAll(rules[res], res, now, rt, Ev.err, br[res])
                  gone == Leaves(br[res], o.bs)
              IN  /\ br' = [br EXCEPT ![res] = o.bs]
                  /\ inflight' = [j \in DOMAIN inflight \ {Ev.id} |->
                                    IF inflight[j].res = res THEN [inflight[j] EXCEPT !.probeOf = @ \ gone] ELSE inflight[j]]
                  /\ stat' = IF failed THEN stat
                             ELSE WithLog([stat EXCEPT !.done = @ + 1,
                                                       !.stragglers = @ + (IF AllProbed(Ev.id) THEN 0 ELSE 1)], o.log)
                  /\ Judge(Ev.cb = o.log /\ Ev.rt = rt /\ ~Has(Ev, "panic"), [rt |-> rt, cb |-> o.log])
         ELSE \* the property says this entry was rejected (the mismatch was reported at its request)
              /\ UNCHANGED <<br, inflight, stat>>
              /\ Judge(FALSE, [unknown |-> Ev.id])
    /\ UNCHANGED <<now, rules, g>> /\ UNCHANGED unused

TTick ==
    /\ IsEvent("tick")
    /\ Ev.t >= now                       \* time is non-decreasing (a driver error otherwise)
    /\ now' = Ev.t
    /\ br' = [res \in DOMAIN br |-> [i \in 1..Len(br[res]) |->
                [br[res][i] EXCEPT !.ref = Prune(@, BL(rules[res][i]), rules[res][i].I, Ev.t)]]]
    /\ UNCHANGED <<rules, inflight, g, failed, stat>> /\ UNCHANGED unused

Stat0 == [traces |-> 0, req |-> 0, blocked |-> 0, rollbacks |-> 0, done |-> 0, stragglers |-> 0, trans |-> 0,
          opens |-> 0, closes |-> 0, reopens |-> 0, probes |-> 0]

TInit ==
    /\ l = 1 /\ g = [tr |-> 0] /\ failed = FALSE /\ stat = Stat0
    /\ now = 0 /\ rules = << >> /\ br = << >> /\ inflight = << >>
    /\ nreq = 0 /\ listen = << >> /\ last = [op |-> "init"] /\ h = << >>
TNext ==
    /\ TNew \/ TReq \/ TDone \/ TTick
    /\ (l' > Len(Trace)) => PrintT("STATS " \o ToJson(stat'))
TSpec == TInit /\ [][TNext]_tvars
=============================================================================
