------------------------------- MODULE Outlier -------------------------------
(***************************************************************************)
(* Outlier ejection of sentinel-golang (core/outlier), property C20.       *)
(*                                                                         *)
(* NRes resources with an outlier-ejection rule cfg = [rule, pct, active]; *)
(* every resource has its own known nodes, breakers, recycler and retryer  *)
(* (the same callee address may be known to several resources: separate    *)
(* breakers).  The answer lists of a request live in a POOLED entry        *)
(* context shared by all resources (Pooled = TRUE), see OutlierOps.        *)
(*   Request       consults the breaker of every known node (OutlierOps);  *)
(*                 answers a filter set and a half-open set; the nodes     *)
(*                 that rejected are handed to the recycler (and, with     *)
(*                 active recovery, to the retryer)                        *)
(*   Complete      an admitted request finishes at callee n (TraceCallee), *)
(*                 with or without error; n becomes known; a completion    *)
(*                 without error marks n as recovered for the recycler     *)
(*   Leave         an admitted request exits without naming a callee: no   *)
(*                 breaker sees it; its context goes back to the pool      *)
(*   Tick          time passes                                             *)
(*   RecycleFire   the recycle timer of a scheduled node fires: the node   *)
(*                 is forgotten unless it recovered since it was scheduled *)
(*   ActiveOK      (active recovery) the retryer's health check of a node  *)
(*                 succeeds: counted as a successful completion            *)
(*   Reload        the outlier rule of ONE resource is loaded again in the *)
(*                 middle of the history (outlier.LoadRuleOfResource /     *)
(*                 LoadRules): the rule parameters are STATE (cfg[r]).     *)
(*                 keep:  the embedded circuit-breaker rule is unchanged   *)
(*                        (percentage / recovery mode / intervals may      *)
(*                        differ, or nothing at all): the known nodes and  *)
(*                        their breakers survive                           *)
(*                 clear: the rule is cleared and a rule (any) is loaded:  *)
(*                        the known nodes are forgotten                    *)
(*                 In both cases the recycler keeps its marks and its      *)
(*                 armed timers, the retryer its pending health checks,    *)
(*                 open entries and pooled contexts are untouched; every   *)
(*                 later request is answered from the rule NOW in force.   *)
(*                                                                         *)
(* The filter set is ANY subset of the rejecting nodes that uses the cap   *)
(* up (the code walks a Go map: the order is free).                        *)
(*                                                                         *)
(* Property (action properties over the step record `last'):               *)
(*   FilterSound   filter contains only nodes whose breaker rejects now    *)
(*   CapRespected  |filter| <= floor(pct * |known|)                        *)
(*   HalfExact     half = nodes passively probed by this request           *)
(*   RecycleSafe   a node is forgotten only by its recycle timer, and only *)
(*                 if it completed nothing successfully since scheduling   *)
(*   RecoveredKept a successful completion of a scheduled node marks it    *)
(*   QuietExact    no node rejects, none is probed => both lists are EMPTY *)
(*                 (whatever an earlier entry left in the pooled context)  *)
(*   OwnOnly       the lists name only nodes known to the REQUESTED        *)
(*                 resource                                                *)
(*   Isolated      a request / completion / timer / reload of one resource *)
(*                 leaves the nodes, the recycler and the rule of every    *)
(*                 other one alone                                         *)
(*   ReloadKeeps   a reload changes the rule of its resource and nothing   *)
(*                 else (clear: and forgets its known nodes): the recycle  *)
(*                 marks, the pending health checks, the open entries stay *)
(*   SuccessSurvives  (statement level, over the history variable succ)    *)
(*                 a node that completed a request successfully after it   *)
(*                 was handed to the recycler is never forgotten by a      *)
(*                 recycle timer - whatever reloads happened in between    *)
(***************************************************************************)
EXTENDS OutlierOps

CONSTANTS
    Nodes,        \* callee addresses
    Cfgs,         \* set of configurations [rule, pct, active]
    Steps,        \* clock increments
    MaxT,         \* bound on the clock
    MaxReq,       \* bound on the number of requests
    MaxInflight,  \* bound on concurrently open entries
    NRes,         \* number of resources (all START with the same configuration; each has its own rule cfg[r], nodes,
                  \* breakers, recycler and retryer)
    MaxReload,    \* bound on the number of rule reloads (0: the rules never change)
    Pooled,       \* TRUE: the answer lists live in pooled entry contexts that keep their content between entries
    Pre,          \* FALSE: start with no known node; TRUE: start from ANY set of known nodes, any of them open
                  \* (deadline at time 3, statistics expired) - reaches many-node ejection states with few requests
    Mut           \* "none"; otherwise a deliberately broken design (vacuity self-test of the property):
                  \* "cap" one node too many, "closed" filter drawn from all known nodes,
                  \* "half" probes not reported, "recycle" timer ignores the recovered mark,
                  \* "stale" a shortcut returns before the lists are written when nothing rejects and nothing is
                  \*         probed: the request reports what the pooled context still holds
                  \* "forget" a reload forgets which scheduled nodes have recovered (it replaces the recycler's
                  \*         bookkeeping while the armed timers stay)

VARIABLES
    now,
    cfg,        \* resource -> [rule, pct, active]: the outlier rule NOW in force (changed by Reload)
    nbk,        \* resource -> (node -> breaker); DOMAIN nbk[r] = nodes known to r
    inflight,   \* id -> [t = start time, res, ans = the lists in the entry's context]
    rec,        \* resource -> recycler: node -> "sched" | "rec"
    retry,      \* resource -> nodes with a pending health check (active recovery only)
    pool,       \* residues of the idle pooled contexts (a set: the pool may drop or duplicate nothing observable)
    nreq,
    nrl,        \* number of reloads so far
    succ,       \* resource -> nodes that completed a request successfully since they were handed to the recycler
                \* (history of what HAPPENED, kept apart from the recycler's own marks `rec'; in a correct design
                \* succ[r] = {n : rec[r][n] = "rec"}, so it adds no states)
    last,       \* the last step                                    (history, hidden by VIEW)
    h           \* scenario for the conformance driver              (history, hidden by VIEW)

vars == <<now, cfg, nbk, inflight, rec, retry, pool, nreq, nrl, succ, last, h>>
view == <<now, cfg, nbk, inflight, rec, retry, pool, nreq, nrl, succ>>

Res == 1..NRes
PreOpen == [st |-> Open, retryAt |-> 3, probes |-> 0, ref |-> << >>]
Ids == 1..MaxInflight
FreeId == CHOOSE i \in Ids \ DOMAIN inflight : \A j \in Ids \ DOMAIN inflight : i <= j

Init ==
    /\ now = 1
    /\ cfg \in { [r \in Res |-> c0] : c0 \in Cfgs }
    /\ IF Pre THEN nbk \in [Res -> { [n \in Kn |-> IF n \in Op THEN PreOpen ELSE NewBreaker] : Kn \in SUBSET Nodes, Op \in SUBSET Nodes }]
              ELSE nbk = [r \in Res |-> << >>]
    /\ inflight = << >> /\ rec = [r \in Res |-> << >>] /\ retry = [r \in Res |-> {}]
    /\ pool = {}
    /\ nreq = 0 /\ nrl = 0
    /\ succ = [r \in Res |-> {}]
    /\ last = [op |-> "init"]
    /\ h = << [op |-> "new", rule |-> cfg[1].rule, pct |-> cfg[1].pct, active |-> cfg[1].active, nres |-> NRes] >>

\* a request of resource r draws a context (one of the idle ones, or a new one), consults r's breakers and leaves
\* its answer in the context; the answer follows the rule of r that is in force NOW
Request(r) ==
    /\ nreq < MaxReq
    /\ Ids \ DOMAIN inflight # {}
    /\ LET c0  == cfg[r]
           v   == View(nbk[r], c0.rule, now)
           R   == Rejecting(v)
           cap == Cap(Cardinality(DOMAIN nbk[r]), c0.pct) + (IF Mut = "cap" THEN 1 ELSE 0)
           Cand == IF Mut = "closed" THEN DOMAIN nbk[r] ELSE R
           k   == Min2(Cardinality(Cand), cap)
           H   == IF Mut = "half" THEN {} ELSE ExpHalf(v, c0.active)
           id  == FreeId
       IN  \E F \in { S \in SUBSET Cand : Cardinality(S) = k }, c \in (IF Pooled THEN pool ELSE {}) \cup {FreshCtx} :
              LET ans == IF Mut = "stale" /\ R = {} /\ H = {} THEN c ELSE Answer(F, H)
              IN  /\ nbk' = [nbk EXCEPT ![r] = After(v)]
                  /\ rec' = IF R = {} THEN rec ELSE [rec EXCEPT ![r] = Sched(@, R)]
                  /\ retry' = IF c0.active THEN [retry EXCEPT ![r] = @ \cup R] ELSE retry
                  /\ pool' = pool \ {c}
                  /\ inflight' = With(inflight, id, [t |-> now, res |-> r, ans |-> IF Pooled THEN ans ELSE FreshCtx])
                  /\ last' = [op |-> "req", res |-> r, filter |-> ans.filter, half |-> ans.half]
                  /\ h' = Append(h, [op |-> "req", id |-> id, res |-> r])
    /\ nreq' = nreq + 1
    /\ UNCHANGED <<now, cfg, nrl, succ>>

\* the context of a finished entry goes back to the pool WITH its lists
Release(id) == pool' = IF Pooled THEN pool \cup {inflight[id].ans} ELSE pool

\* what happened: a node the recycler holds completed successfully
Succeeded(r, n) == IF n \in DOMAIN rec[r] THEN [succ EXCEPT ![r] = @ \cup {n}] ELSE succ

Complete(id, n, err) ==
    /\ id \in DOMAIN inflight
    /\ LET r == inflight[id].res
       IN  /\ nbk' = [nbk EXCEPT ![r] = CompleteAt(@, cfg[r].rule, n, now, now - inflight[id].t, err)]
           /\ rec' = IF err THEN rec ELSE [rec EXCEPT ![r] = Recover(@, n)]
           /\ succ' = IF err THEN succ ELSE Succeeded(r, n)
           /\ last' = [op |-> "done", res |-> r, node |-> n, err |-> err]
    /\ Release(id)
    /\ inflight' = Without(inflight, {id})
    /\ h' = Append(h, [op |-> "done", id |-> id, node |-> n, err |-> err])
    /\ UNCHANGED <<now, cfg, retry, nreq, nrl>>

\* the entry exits without a callee address: the statistic slot ignores it
Leave(id) ==
    /\ id \in DOMAIN inflight
    /\ Release(id)
    /\ inflight' = Without(inflight, {id})
    /\ last' = [op |-> "leave", res |-> inflight[id].res]
    /\ h' = Append(h, [op |-> "leave", id |-> id])
    /\ UNCHANGED <<now, cfg, nbk, rec, retry, nreq, nrl, succ>>

Tick(d) ==
    /\ now + d <= MaxT
    /\ now' = now + d
    /\ nbk' = [r \in Res |-> [n \in DOMAIN nbk[r] |-> [nbk[r][n] EXCEPT !.ref = Prune(@, BL(cfg[r].rule), cfg[r].rule.I, now + d)]]]
    /\ last' = [op |-> "tick"]
    /\ h' = Append(h, [op |-> "tick", d |-> d])
    /\ UNCHANGED <<cfg, inflight, rec, retry, pool, nreq, nrl, succ>>

RecycleFire(r, n) ==
    /\ n \in DOMAIN rec[r]
    /\ nbk' = IF rec[r][n] = "sched" \/ Mut = "recycle" THEN [nbk EXCEPT ![r] = Without(@, {n})] ELSE nbk
    /\ rec' = [rec EXCEPT ![r] = Without(@, {n})]
    /\ succ' = [succ EXCEPT ![r] = @ \ {n}]
    /\ last' = [op |-> "recycle", res |-> r, node |-> n]
    /\ h' = Append(h, [op |-> "recycle", res |-> r, node |-> n])
    /\ UNCHANGED <<now, cfg, inflight, retry, pool, nreq, nrl>>

ActiveOK(r, n) ==
    /\ n \in retry[r]
    /\ retry' = [retry EXCEPT ![r] = @ \ {n}]
    /\ rec' = [rec EXCEPT ![r] = Recover(@, n)]
    /\ succ' = Succeeded(r, n)
    /\ nbk' = IF n \in DOMAIN nbk[r] THEN [nbk EXCEPT ![r][n] = OnComplete(@, cfg[r].rule, now, 0, FALSE)] ELSE nbk
    /\ last' = [op |-> "active", res |-> r, node |-> n]
    /\ h' = Append(h, [op |-> "active", res |-> r, node |-> n])
    /\ UNCHANGED <<now, cfg, inflight, pool, nreq, nrl>>

\* The outlier rule of resource r is loaded again: c is the rule in force from now on.
\*   clear = FALSE  the embedded circuit-breaker rule stays (c.rule = cfg[r].rule; c = cfg[r] is the identical reload):
\*                  every known node stays known, with its breaker as it is
\*   clear = TRUE   ClearRuleOfResource, then the load of c (any rule): the known nodes are forgotten
\* The recycler and the retryer are not part of the rule: marks, armed timers and pending health checks stay.
Reload(r, c, clear) ==
    /\ nrl < MaxReload
    /\ c \in Cfgs
    /\ clear \/ c.rule = cfg[r].rule
    /\ cfg' = [cfg EXCEPT ![r] = c]
    /\ nbk' = IF clear THEN [nbk EXCEPT ![r] = << >>] ELSE nbk
    /\ rec' = IF Mut = "forget" THEN [rec EXCEPT ![r] = [n \in DOMAIN @ |-> "sched"]] ELSE rec
    /\ nrl' = nrl + 1
    /\ last' = [op |-> "reload", res |-> r, clear |-> clear]
    /\ h' = Append(h, [op |-> "reload", res |-> r, clear |-> clear, rule |-> c.rule, pct |-> c.pct, active |-> c.active])
    /\ UNCHANGED <<now, inflight, retry, pool, nreq, succ>>

Next ==
    \/ \E r \in Res : Request(r)
    \/ \E id \in Ids, n \in Nodes, err \in BOOLEAN : Complete(id, n, err)
    \/ \E id \in Ids : Leave(id)
    \/ \E d \in Steps : Tick(d)
    \/ \E r \in Res, n \in Nodes : RecycleFire(r, n)
    \/ \E r \in Res, n \in Nodes : ActiveOK(r, n)
    \/ \E r \in Res, c \in Cfgs, clear \in BOOLEAN : Reload(r, c, clear)

Spec == Init /\ [][Next]_vars

---------------------------------------------------------------------------
(* The property, restated on the pre-state without the operators Request uses *)

Known(r) == DOMAIN nbk[r]
IsReq == last'.op = "req"
LR    == last'.res
\* the rule the step is judged by: the one in force BEFORE the step (a request does not change it)
LC    == cfg[LR]
RejectsNow(r, n) ==
    \/ nbk[r][n].st = Open /\ now < nbk[r][n].retryAt
    \/ nbk[r][n].st = HalfOpen /\ cfg[r].rule.probeNum = 0
\* the request is a probe of n: n is half-open afterwards and was admitted by n's breaker
ProbedBy(r, n) == ~RejectsNow(r, n) /\ nbk'[r][n].st = HalfOpen

TypeOK ==
    /\ now >= 1 /\ nreq \in 0..MaxReq /\ nrl \in 0..MaxReload
    /\ DOMAIN nbk = Res /\ DOMAIN rec = Res /\ DOMAIN retry = Res /\ DOMAIN cfg = Res /\ DOMAIN succ = Res
    /\ \A r \in Res :
         /\ cfg[r] \in Cfgs
         /\ Known(r) \subseteq Nodes
         /\ \A n \in Known(r) : nbk[r][n].st \in {Closed, HalfOpen, Open} /\ nbk[r][n].probes >= 0
         /\ DOMAIN rec[r] \subseteq Nodes /\ \A n \in DOMAIN rec[r] : rec[r][n] \in {"sched", "rec"}
         /\ succ[r] \subseteq DOMAIN rec[r]
         \* (a reload may switch active recovery off while health checks are pending)
         /\ (MaxReload = 0 /\ ~cfg[r].active) => retry[r] = {}
    /\ \A id \in DOMAIN inflight : inflight[id].t <= now /\ inflight[id].res \in Res
    /\ ~Pooled => pool = {}
    /\ \A c \in pool : c.filter \subseteq Nodes /\ c.half \subseteq Nodes

FilterSound  == IsReq => \A n \in last'.filter : n \in Known(LR) /\ RejectsNow(LR, n)
CapRespected == IsReq => Cardinality(last'.filter) * LC.pct[2] <= Cardinality(Known(LR)) * LC.pct[1]
HalfExact    == IsReq => last'.half = (IF LC.active THEN {} ELSE { n \in Known(LR) : ProbedBy(LR, n) })
QuietExact   == (IsReq /\ \A n \in Known(LR) : ~RejectsNow(LR, n) /\ (LC.active \/ ~ProbedBy(LR, n)))
                    => last'.filter = {} /\ last'.half = {}
OwnOnly      == IsReq => (last'.filter \cup last'.half) \subseteq Known(LR)
\* a node is forgotten only by its own recycle timer, and only while the recycler holds it as not recovered - or by a
\* reload that clears the rule of its resource
RecycleSafe  == \A r \in Res : \A n \in Known(r) \ DOMAIN nbk'[r] :
                    \/ last'.op = "recycle" /\ last'.res = r /\ last'.node = n /\ n \in DOMAIN rec[r] /\ rec[r][n] = "sched"
                    \/ last'.op = "reload" /\ last'.res = r /\ last'.clear
RecoveredKept == (last'.op = "done" /\ ~last'.err /\ last'.node \in DOMAIN rec[LR])
                    => rec'[LR][last'.node] = "rec" /\ last'.node \in DOMAIN nbk'[LR]
\* the statement itself, independent of the recycler's bookkeeping: whoever completed successfully after being handed
\* to the recycler is not forgotten by a recycle timer (only a clearing reload forgets nodes otherwise)
SuccessSurvives == \A r \in Res : \A n \in Known(r) \ DOMAIN nbk'[r] :
                    \/ n \notin succ[r]
                    \/ last'.op = "reload" /\ last'.res = r /\ last'.clear
\* requests never make a node known or unknown; completions only add; a reload keeps or clears
KnownMoves   == /\ IsReq => DOMAIN nbk'[LR] = Known(LR)
                /\ last'.op = "done" => DOMAIN nbk'[LR] = Known(LR) \cup {last'.node}
                /\ last'.op = "leave" => nbk' = nbk /\ rec' = rec
                /\ last'.op = "reload" => nbk'[LR] = (IF last'.clear THEN << >> ELSE nbk[LR])
\* a reload replaces the rule of its resource and touches nothing else: the recycle marks (and with them the armed
\* timers), the pending health checks, the open entries and the pooled contexts stay; the circuit-breaker rule only
\* changes together with a clear
ReloadKeeps  == last'.op = "reload" =>
                    /\ rec' = rec /\ retry' = retry /\ inflight' = inflight /\ pool' = pool /\ now' = now
                    /\ cfg'[LR] \in Cfgs
                    /\ ~last'.clear => cfg'[LR].rule = cfg[LR].rule
\* whatever one resource does, the nodes, the recycler and the rule of the others stay as they are (time only prunes statistics)
Isolated     == "res" \in DOMAIN last' => \A r \in Res \ {LR} : /\ nbk'[r] = nbk[r] /\ rec'[r] = rec[r] /\ retry'[r] = retry[r]
                                                                /\ cfg'[r] = cfg[r]
\* only a reload changes a rule
RuleStable   == last'.op # "reload" => cfg' = cfg

PFilter  == [][FilterSound]_vars
PCap     == [][CapRespected]_vars
PHalf    == [][HalfExact]_vars
PQuiet   == [][QuietExact]_vars
POwn     == [][OwnOnly]_vars
PRecycle == [][RecycleSafe]_vars
PKept    == [][RecoveredKept]_vars
PSurvive == [][SuccessSurvives]_vars
PKnown   == [][KnownMoves]_vars
PReload  == [][ReloadKeeps /\ RuleStable]_vars
PIsolated == [][Isolated]_vars
=============================================================================
