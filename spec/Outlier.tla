------------------------------- MODULE Outlier -------------------------------
(***************************************************************************)
(* Outlier ejection of sentinel-golang (core/outlier), property C20.       *)
(*                                                                         *)
(* One resource with an outlier-ejection rule cfg = [rule, pct, active].   *)
(*   Request       consults the breaker of every known node (OutlierOps);  *)
(*                 answers a filter set and a half-open set; the nodes     *)
(*                 that rejected are handed to the recycler (and, with     *)
(*                 active recovery, to the retryer)                        *)
(*   Complete      an admitted request finishes at callee n (TraceCallee), *)
(*                 with or without error; n becomes known; a completion    *)
(*                 without error marks n as recovered for the recycler     *)
(*   Tick          time passes                                             *)
(*   RecycleFire   the recycle timer of a scheduled node fires: the node   *)
(*                 is forgotten unless it recovered since it was scheduled *)
(*   ActiveOK      (active recovery) the retryer's health check of a node  *)
(*                 succeeds: counted as a successful completion            *)
(*                                                                         *)
(* The filter set is ANY subset of the rejecting nodes that uses the cap   *)
(* up (the code walks a Go map: the order is free).                        *)
(*                                                                         *)
(* Property (action properties over the step record `last'):               *)
(*   FilterSound   filter contains only nodes whose breaker rejects now    *)
(*   CapRespected  |filter| <= floor(pct * |known|)                        *)
(*   HalfExact     half = nodes passively probed by this request           *)
(*   RecycleSafe   a node is forgotten only by its recycle timer, and only *)
(*                 if it completed nothing successfully since scheduling   *)
(*   RecoveredKept a successful completion of a scheduled node marks it    *)
(***************************************************************************)
EXTENDS OutlierOps

CONSTANTS
    Nodes,        \* callee addresses
    Cfgs,         \* set of configurations [rule, pct, active]
    Steps,        \* clock increments
    MaxT,         \* bound on the clock
    MaxReq,       \* bound on the number of requests
    MaxInflight,  \* bound on concurrently open entries
    Pre,          \* FALSE: start with no known node; TRUE: start from ANY set of known nodes, any of them open
                  \* (deadline at time 3, statistics expired) - reaches many-node ejection states with few requests
    Mut           \* "none"; otherwise a deliberately broken design (vacuity self-test of the property):
                  \* "cap" one node too many, "closed" filter drawn from all known nodes,
                  \* "half" probes not reported, "recycle" timer ignores the recovered mark

VARIABLES
    now, cfg,
    nbk,        \* node -> breaker; DOMAIN nbk = known nodes
    inflight,   \* id -> start time
    rec,        \* recycler: node -> "sched" | "rec"
    retry,      \* retryer: nodes with a pending health check (active recovery only)
    nreq,
    last,       \* the last step                                    (history, hidden by VIEW)
    h           \* scenario for the conformance driver              (history, hidden by VIEW)

vars == <<now, cfg, nbk, inflight, rec, retry, nreq, last, h>>
view == <<now, cfg, nbk, inflight, rec, retry, nreq>>

PreOpen == [st |-> Open, retryAt |-> 3, probes |-> 0, ref |-> << >>]
Ids == 1..MaxInflight
FreeId == CHOOSE i \in Ids \ DOMAIN inflight : \A j \in Ids \ DOMAIN inflight : i <= j

Init ==
    /\ now = 1
    /\ cfg \in Cfgs
    /\ IF Pre THEN nbk \in { [n \in Kn |-> IF n \in Op THEN PreOpen ELSE NewBreaker] : Kn \in SUBSET Nodes, Op \in SUBSET Nodes }
              ELSE nbk = << >>
    /\ inflight = << >> /\ rec = << >> /\ retry = {}
    /\ nreq = 0
    /\ last = [op |-> "init"]
    /\ h = << [op |-> "new", rule |-> cfg.rule, pct |-> cfg.pct, active |-> cfg.active] >>

Request ==
    /\ nreq < MaxReq
    /\ Ids \ DOMAIN inflight # {}
    /\ LET v   == View(nbk, cfg.rule, now)
           R   == Rejecting(v)
           cap == Cap(Cardinality(DOMAIN nbk), cfg.pct) + (IF Mut = "cap" THEN 1 ELSE 0)
           Pool == IF Mut = "closed" THEN DOMAIN nbk ELSE R
           k   == Min2(Cardinality(Pool), cap)
           id  == FreeId
       IN  \E F \in { S \in SUBSET Pool : Cardinality(S) = k } :
              /\ nbk' = After(v)
              /\ rec' = IF R = {} THEN rec ELSE Sched(rec, R)
              /\ retry' = IF cfg.active THEN retry \cup R ELSE retry
              /\ inflight' = With(inflight, id, now)
              /\ last' = [op |-> "req", filter |-> F, half |-> IF Mut = "half" THEN {} ELSE ExpHalf(v, cfg.active)]
              /\ h' = Append(h, [op |-> "req", id |-> id])
    /\ nreq' = nreq + 1
    /\ UNCHANGED <<now, cfg>>

Complete(id, n, err) ==
    /\ id \in DOMAIN inflight
    /\ nbk' = CompleteAt(nbk, cfg.rule, n, now, now - inflight[id], err)
    /\ rec' = IF err THEN rec ELSE Recover(rec, n)
    /\ inflight' = Without(inflight, {id})
    /\ last' = [op |-> "done", node |-> n, err |-> err]
    /\ h' = Append(h, [op |-> "done", id |-> id, node |-> n, err |-> err])
    /\ UNCHANGED <<now, cfg, retry, nreq>>

Tick(d) ==
    /\ now + d <= MaxT
    /\ now' = now + d
    /\ nbk' = [n \in DOMAIN nbk |-> [nbk[n] EXCEPT !.ref = Prune(@, BL(cfg.rule), cfg.rule.I, now + d)]]
    /\ last' = [op |-> "tick"]
    /\ h' = Append(h, [op |-> "tick", d |-> d])
    /\ UNCHANGED <<cfg, inflight, rec, retry, nreq>>

RecycleFire(n) ==
    /\ n \in DOMAIN rec
    /\ nbk' = IF rec[n] = "sched" \/ Mut = "recycle" THEN Without(nbk, {n}) ELSE nbk
    /\ rec' = Without(rec, {n})
    /\ last' = [op |-> "recycle", node |-> n]
    /\ h' = Append(h, [op |-> "recycle", node |-> n])
    /\ UNCHANGED <<now, cfg, inflight, retry, nreq>>

ActiveOK(n) ==
    /\ n \in retry
    /\ retry' = retry \ {n}
    /\ rec' = Recover(rec, n)
    /\ nbk' = IF n \in DOMAIN nbk THEN [nbk EXCEPT ![n] = OnComplete(@, cfg.rule, now, 0, FALSE)] ELSE nbk
    /\ last' = [op |-> "active", node |-> n]
    /\ h' = Append(h, [op |-> "active", node |-> n])
    /\ UNCHANGED <<now, cfg, inflight, nreq>>

Next ==
    \/ Request
    \/ \E id \in Ids, n \in Nodes, err \in BOOLEAN : Complete(id, n, err)
    \/ \E d \in Steps : Tick(d)
    \/ \E n \in Nodes : RecycleFire(n)
    \/ \E n \in Nodes : ActiveOK(n)

Spec == Init /\ [][Next]_vars

---------------------------------------------------------------------------
(* The property, restated on the pre-state without the operators Request uses *)

Known == DOMAIN nbk
RejectsNow(n) ==
    \/ nbk[n].st = Open /\ now < nbk[n].retryAt
    \/ nbk[n].st = HalfOpen /\ cfg.rule.probeNum = 0
\* the request is a probe of n: n is half-open afterwards and was admitted by n's breaker
ProbedBy(n) == ~RejectsNow(n) /\ nbk'[n].st = HalfOpen

TypeOK ==
    /\ now >= 1 /\ nreq \in 0..MaxReq
    /\ Known \subseteq Nodes
    /\ \A n \in Known : nbk[n].st \in {Closed, HalfOpen, Open} /\ nbk[n].probes >= 0
    /\ DOMAIN rec \subseteq Nodes /\ \A n \in DOMAIN rec : rec[n] \in {"sched", "rec"}
    /\ \A id \in DOMAIN inflight : inflight[id] <= now
    /\ ~cfg.active => retry = {}

IsReq == last'.op = "req"
FilterSound  == IsReq => \A n \in last'.filter : n \in Known /\ RejectsNow(n)
CapRespected == IsReq => Cardinality(last'.filter) * cfg.pct[2] <= Cardinality(Known) * cfg.pct[1]
HalfExact    == IsReq => last'.half = (IF cfg.active THEN {} ELSE { n \in Known : ProbedBy(n) })
RecycleSafe  == \A n \in Known \ DOMAIN nbk' :
                    last'.op = "recycle" /\ last'.node = n /\ n \in DOMAIN rec /\ rec[n] = "sched"
RecoveredKept == (last'.op = "done" /\ ~last'.err /\ last'.node \in DOMAIN rec)
                    => rec'[last'.node] = "rec" /\ last'.node \in DOMAIN nbk'
\* requests never make a node known or unknown; completions only add
KnownMoves   == /\ IsReq => DOMAIN nbk' = Known
                /\ last'.op = "done" => DOMAIN nbk' = Known \cup {last'.node}

PFilter  == [][FilterSound]_vars
PCap     == [][CapRespected]_vars
PHalf    == [][HalfExact]_vars
PRecycle == [][RecycleSafe]_vars
PKept    == [][RecoveredKept]_vars
PKnown   == [][KnownMoves]_vars
=============================================================================
