------------------------- MODULE BreakerConc_Trace -------------------------
(***************************************************************************)
(* Property C12 judged on hook-level traces of the REAL circuit breaker.   *)
(* The goroutine gate (harness/cmd/c12) runs one goroutine at a time from  *)
(* yield point to yield point, so the trace is a total order of            *)
(*   step(p, at)      goroutine p resumes from yield point `at'            *)
(*   listen(p,from,to) a state-change listener is called inside p's step   *)
(*   ret(p, entry, pass) / ret(p, exit)     tick      end                  *)
(* Binding assumptions (the only link between hooks and state): the state  *)
(* word is swapped in the step that resumes from "cb.cas", the retry       *)
(* deadline is compared with the clock in the step that resumes from       *)
(* "cb.deadline.load", TryPass reads the state in the step that resumes    *)
(* from a goroutine's first "cb.get".  A listener call by p reports the    *)
(* swap of p's latest "cb.cas" step.                                       *)
(*                                                                         *)
(* Judged when a trace ends:                                               *)
(*  LegalPath      the reported transitions, ordered by the instant of     *)
(*                 their swap, form a path C->O, O->H, H->O, H->C from the *)
(*                 initial state; no swap is reported twice                *)
(*  NoEarlyProbe   every O->H swap compared the deadline at a clock value  *)
(*                 >= (instant of the preceding swap to Open) + timeout.   *)
(*                 An early probe is classified (EarlyClass) as stale /     *)
(*                 stalled / unpublished so that the two residues of the   *)
(*                 two-word design are told apart from the fixed defect    *)
(*  ExclusiveProbe with no probe number, an admitted request either read   *)
(*                 Closed or is the goroutine that swapped O->H            *)
(***************************************************************************)
EXTENDS Integers, Sequences, FiniteSets, TLC, Json

Trace == ndJsonDeserialize("trace.ndjson")

VARIABLES l, g, seq, lastCas, lastDl, firstGet, prev, trans, admits, failed
tvars == <<l, g, seq, lastCas, lastDl, firstGet, prev, trans, admits, failed>>

Ev == Trace[l]
IsEvent(op) == l <= Len(Trace) /\ Ev.op = op /\ l' = l + 1
Procs == 1..8
Edges == {<<"C", "O">>, <<"O", "H">>, <<"H", "O">>, <<"H", "C">>}

S0 == IF g.initopen THEN "O" ELSE "C"
Sorted(tr) == SortSeq(tr, LAMBDA a, b : a.casSeq < b.casSeq)

LegalPath(S) ==
    /\ \A k \in 1..Len(S) : /\ <<S[k].from, S[k].to>> \in Edges
                            /\ S[k].from = (IF k = 1 THEN S0 ELSE S[k-1].to)
    /\ \A i, j \in 1..Len(S) : i < j => S[i].casSeq # S[j].casSeq
OpenedAt(S, k) == IF k = 1 THEN g.t0 ELSE S[k-1].casT
NoEarlyProbe(S) == \A k \in 1..Len(S) : S[k].to = "H" => S[k].dlT >= OpenedAt(S, k) + g.timeout
PublishedAt(S, k) == IF k = 1 THEN g.t0 ELSE S[k-1].pubT
\* why an O->H swap is early: "stale" = its deadline compare precedes the swap that (re)opened the breaker (ABA);
\* "stalled" = it honoured the deadline the opener had published in the step right before its swap, but the opener
\* was parked for a whole timeout in between; "unpublished" = it saw Open with a deadline not yet published for
\* this opening (what the fix "publish the retry deadline before the state swap" removes)
EarlyClass(S, k) ==
    IF S[k].to # "H" \/ S[k].dlT >= OpenedAt(S, k) + g.timeout THEN "ok"
    ELSE IF k > 1 /\ S[k].dlSeq < S[k-1].casSeq THEN "stale"
    ELSE IF PublishedAt(S, k) >= 0 /\ S[k].dlT >= PublishedAt(S, k) + g.timeout THEN "stalled"
    ELSE "unpublished"
EarlyClasses(S) == { EarlyClass(S, k) : k \in 1..Len(S) } \ {"ok"}
StateAt(S, q) == LET B == { k \in 1..Len(S) : S[k].casSeq < q } IN
                 IF B = {} THEN S0 ELSE S[CHOOSE k \in B : \A j \in B : j <= k].to
ExclusiveProbe(S) == g.probenum = 0 =>
    \A p \in admits : StateAt(S, firstGet[p]) = "C" \/ \E k \in 1..Len(S) : S[k].p = p /\ S[k].to = "H"

Judge(ok, expected) ==
    IF failed \/ ok THEN failed' = failed
    ELSE /\ failed' = TRUE
         /\ PrintT("MISMATCH " \o ToString(g.tr) \o " " \o ToString(l) \o " " \o ToJson(expected))

TNew ==
    /\ IsEvent("new")
    /\ g' = [tr |-> Ev.tr, timeout |-> Ev.timeout, probenum |-> Ev.probenum, initopen |-> Ev.initopen, t0 |-> Ev.now]
    /\ seq' = 0 /\ trans' = << >> /\ admits' = {}
    /\ lastCas' = [p \in Procs |-> [seq |-> 0, t |-> 0, pubT |-> -1]]
    /\ lastDl' = [p \in Procs |-> [seq |-> 0, t |-> 0]]
    /\ firstGet' = [p \in Procs |-> 0]
    /\ prev' = [p \in Procs |-> [at |-> "", t |-> 0]]
    /\ failed' = FALSE

TStep ==
    /\ IsEvent("step")
    /\ seq' = seq + 1
    \* pubT: the deadline was published by p's immediately preceding step (-1: it was not)
    /\ lastCas' = IF Ev.at = "cb.cas"
                  THEN [lastCas EXCEPT ![Ev.p] = [seq |-> seq + 1, t |-> Ev.now,
                                                  pubT |-> IF prev[Ev.p].at = "cb.deadline.store" THEN prev[Ev.p].t ELSE -1]]
                  ELSE lastCas
    /\ prev' = [prev EXCEPT ![Ev.p] = [at |-> Ev.at, t |-> Ev.now]]
    /\ lastDl' = IF Ev.at = "cb.deadline.load" THEN [lastDl EXCEPT ![Ev.p] = [seq |-> seq + 1, t |-> Ev.now]] ELSE lastDl
    /\ firstGet' = IF Ev.at = "cb.get" /\ firstGet[Ev.p] = 0 THEN [firstGet EXCEPT ![Ev.p] = seq + 1] ELSE firstGet
    /\ UNCHANGED <<g, trans, admits, failed>>

TTick == IsEvent("tick") /\ UNCHANGED <<g, seq, lastCas, lastDl, firstGet, prev, trans, admits, failed>>

TListen ==
    /\ IsEvent("listen")
    /\ trans' = Append(trans, [p |-> Ev.p, from |-> Ev.from, to |-> Ev.to,
                               casSeq |-> lastCas[Ev.p].seq, casT |-> lastCas[Ev.p].t, pubT |-> lastCas[Ev.p].pubT,
                               dlT |-> lastDl[Ev.p].t, dlSeq |-> lastDl[Ev.p].seq])
    /\ UNCHANGED <<g, seq, lastCas, lastDl, firstGet, prev, admits, failed>>

TRet ==
    /\ IsEvent("ret")
    /\ admits' = IF Ev.kind = "entry" /\ Ev.pass THEN admits \cup {Ev.p} ELSE admits
    /\ UNCHANGED <<g, seq, lastCas, lastDl, firstGet, prev, trans, failed>>

\* a panic escaping Entry / Exit is never acceptable
TPanic ==
    /\ IsEvent("panic")
    /\ Judge(FALSE, [panic |-> TRUE])
    /\ UNCHANGED <<g, seq, lastCas, lastDl, firstGet, prev, trans, admits>>

TEnd ==
    /\ IsEvent("end")
    /\ LET S == Sorted(trans) IN
       Judge(LegalPath(S) /\ NoEarlyProbe(S) /\ ExclusiveProbe(S),
             [legal |-> LegalPath(S), noearly |-> NoEarlyProbe(S), early |-> EarlyClasses(S),
              exclusive |-> ExclusiveProbe(S), path |-> S])
    /\ UNCHANGED <<g, seq, lastCas, lastDl, firstGet, prev, trans, admits>>

TInit == /\ l = 1 /\ seq = 0 /\ trans = << >> /\ admits = {} /\ failed = FALSE
         /\ g = [tr |-> 0, timeout |-> 0, probenum |-> 0, initopen |-> FALSE, t0 |-> 0]
         /\ lastCas = [p \in Procs |-> [seq |-> 0, t |-> 0, pubT |-> -1]]
         /\ lastDl = [p \in Procs |-> [seq |-> 0, t |-> 0]] /\ firstGet = [p \in Procs |-> 0]
         /\ prev = [p \in Procs |-> [at |-> "", t |-> 0]]
TNext == TNew \/ TStep \/ TTick \/ TListen \/ TRet \/ TPanic \/ TEnd
TSpec == TInit /\ [][TNext]_tvars
=============================================================================
