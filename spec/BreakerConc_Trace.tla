------------------------- MODULE BreakerConc_Trace -------------------------
(***************************************************************************)
(* Property C12 judged on hook-level traces of the REAL circuit breaker.   *)
(* The goroutine gate (harness/cmd/c12) runs one goroutine at a time from  *)
(* yield point to yield point, so the trace is a total order of            *)
(*   step(p, at)      goroutine p resumes from yield point `at'            *)
(*   listen(p,from,to) a state-change listener is called inside p's step   *)
(*   ret(p, entry, pass) / ret(p, exit)     tick      end                  *)
(* Binding assumptions (the only link between hooks and state): the state  *)
(* word is swapped in the step that resumes from "cb.cas", the retry       *)
(* deadline is compared with the clock in the step that resumes from       *)
(* "cb.deadline.load", TryPass reads the state in the step that resumes    *)
(* from a goroutine's first "cb.get".  A listener call by p reports the    *)
(* swap of p's latest "cb.cas" step.                                       *)
(*                                                                         *)
(* Judged when a trace ends:                                               *)
(*  LegalPath      the reported transitions, ordered by the instant of     *)
(*                 their swap, form a path C->O, O->H, H->O, H->C from the *)
(*                 initial state; no swap is reported twice                *)
(*  NoEarlyProbe   every O->H swap compared the deadline at a clock value  *)
(*                 >= (instant of the preceding swap to Open) + timeout.   *)
(*                 An early probe is classified (EarlyClass) as stale /     *)
(*                 stalled / unpublished so that the two residues of the   *)
(*                 two-word design are told apart from the fixed defect    *)
(*  ExclusiveProbe with no probe number, an admitted request either read   *)
(*                 Closed or is the goroutine that swapped O->H            *)
(*                                                                         *)
(* RULE RELOADS (spec/BreakerConcReload.tla).  reload(thr) = the loader    *)
(* called circuitbreaker.LoadRules between two steps: with the threshold   *)
(* in force nothing changes (the object is kept); with another threshold   *)
(* (statistic-reusable rule) a NEW breaker object is in service from then  *)
(* on.  Objects are told apart by the threshold of the rule the listener   *)
(* is handed.  A goroutine acts on the object that was in service when it  *)
(* fetched the breaker list: in its step from "start" (Entry, TryPass) and *)
(* again in its step from "drv.exit" (Exit, OnRequestComplete).            *)
(* Every clause above is demanded PER OBJECT: the transitions reported for *)
(* an object form a legal path from the initial state of THAT object, no   *)
(* O->H swap of an object compared the deadline before (instant that       *)
(* object was swapped to Open) + timeout, probes are exclusive per object; *)
(* every report names an object that exists and on which the reporting     *)
(* goroutine is operating.  Initial state of a new object: Closed (what    *)
(* the code does) or - not excluded by C12 - the state, with its opening   *)
(* instant, that the replaced object had at the instant of the reload      *)
(* according to the reports (inheritance by value).  So "the breaker in    *)
(* service is open, nobody is admitted before a full timeout since IT      *)
(* opened" is judged on the object the admitted request went through.      *)
(***************************************************************************)
EXTENDS Integers, Sequences, FiniteSets, TLC, Json

Trace == ndJsonDeserialize("trace.ndjson")

VARIABLES l, g, seq, lastCas, lastDl, firstGet, prev, trans, admits, failed, svc, objs, opOb, tpOb, wrongOb
tvars == <<l, g, seq, lastCas, lastDl, firstGet, prev, trans, admits, failed, svc, objs, opOb, tpOb, wrongOb>>

Ev == Trace[l]
IsEvent(op) == l <= Len(Trace) /\ Ev.op = op /\ l' = l + 1
Procs == 1..8
Edges == {<<"C", "O">>, <<"O", "H">>, <<"H", "O">>, <<"H", "C">>}

S0 == IF g.initopen THEN "O" ELSE "C"
Sorted(tr) == SortSeq(tr, LAMBDA a, b : a.casSeq < b.casSeq)
ThrOf(e) == IF "thr" \in DOMAIN e THEN e.thr ELSE 1

LegalPath(S, s0) ==
    /\ \A k \in 1..Len(S) : /\ <<S[k].from, S[k].to>> \in Edges
                            /\ S[k].from = (IF k = 1 THEN s0 ELSE S[k-1].to)
    /\ \A i, j \in 1..Len(S) : i < j => S[i].casSeq # S[j].casSeq
OpenedAt(S, k, t0) == IF k = 1 THEN t0 ELSE S[k-1].casT
NoEarlyProbe(S, t0) == \A k \in 1..Len(S) : S[k].to = "H" => S[k].dlT >= OpenedAt(S, k, t0) + g.timeout
PublishedAt(S, k, p0) == IF k = 1 THEN p0 ELSE S[k-1].pubT
\* why an O->H swap is early: "stale" = its deadline compare precedes the swap that (re)opened the breaker (ABA);
\* "stalled" = it honoured the deadline the opener had published in the step right before its swap, but the opener
\* was parked for a whole timeout in between; "unpublished" = it saw Open with a deadline not yet published for
\* this opening (what the fix "publish the retry deadline before the state swap" removes)
EarlyClass(S, k, t0, p0) ==
    IF S[k].to # "H" \/ S[k].dlT >= OpenedAt(S, k, t0) + g.timeout THEN "ok"
    ELSE IF k > 1 /\ S[k].dlSeq < S[k-1].casSeq THEN "stale"
    ELSE IF PublishedAt(S, k, p0) >= 0 /\ S[k].dlT >= PublishedAt(S, k, p0) + g.timeout THEN "stalled"
    ELSE "unpublished"
EarlyClasses(S, t0, p0) == { EarlyClass(S, k, t0, p0) : k \in 1..Len(S) } \ {"ok"}
Before(S, q) == { k \in 1..Len(S) : S[k].casSeq < q }
LastBefore(S, q) == CHOOSE k \in Before(S, q) : \A j \in Before(S, q) : j <= k
StateAt(S, q, s0) == IF Before(S, q) = {} THEN s0 ELSE S[LastBefore(S, q)].to

\* ---- breaker objects (index = order of creation; objs[b] = [thr, seq = number of steps before its creation])
ObjIdx == 1..Len(objs)
SOf(b) == Sorted(SelectSeq(trans, LAMBDA x : x.b = objs[b].thr))
IdxOf(thr) == CHOOSE b \in ObjIdx : objs[b].thr = thr
\* candidate initial conditions of object b: [st, t0 = instant it was opened, pub = instant that deadline was published]
Inits(b) ==
    IF b = 1 THEN {[st |-> S0, t0 |-> g.t0, pub |-> g.t0]}
    ELSE LET P == SOf(b - 1)
             q == objs[b].seq + 1
             s0 == IF b - 1 = 1 THEN S0 ELSE "C" IN
         {[st |-> "C", t0 |-> 0, pub |-> -1]} \cup
         (IF Before(P, q) = {} THEN {[st |-> s0, t0 |-> g.t0, pub |-> g.t0]}
          ELSE {[st |-> P[LastBefore(P, q)].to, t0 |-> P[LastBefore(P, q)].casT, pub |-> P[LastBefore(P, q)].pubT]})
Excl(b, s0) == g.probenum = 0 =>
    \A p \in admits : tpOb[p] = objs[b].thr =>
        StateAt(SOf(b), firstGet[p], s0) = "C" \/ \E k \in 1..Len(SOf(b)) : SOf(b)[k].p = p /\ SOf(b)[k].to = "H"
ObjOKWith(b, i) == LegalPath(SOf(b), i.st) /\ NoEarlyProbe(SOf(b), i.t0) /\ Excl(b, i.st)
ObjOK(b) == \E i \in Inits(b) : ObjOKWith(b, i)
\* the initial condition the report is made for: one under which everything holds, else one with a legal path, else Closed
Pick(b) == IF ObjOK(b) THEN CHOOSE i \in Inits(b) : ObjOKWith(b, i)
           ELSE IF \E i \in Inits(b) : LegalPath(SOf(b), i.st) THEN CHOOSE i \in Inits(b) : LegalPath(SOf(b), i.st)
           ELSE CHOOSE i \in Inits(b) : b = 1 \/ i.pub = -1
\* every report names a breaker object that exists
KnownObjs == \A k \in 1..Len(trans) : \E b \in ObjIdx : objs[b].thr = trans[k].b

Judge(ok, expected) ==
    IF failed \/ ok THEN failed' = failed
    ELSE /\ failed' = TRUE
         /\ PrintT("MISMATCH " \o ToString(g.tr) \o " " \o ToString(l) \o " " \o ToJson(expected))

TNew ==
    /\ IsEvent("new")
    /\ g' = [tr |-> Ev.tr, timeout |-> Ev.timeout, probenum |-> Ev.probenum, initopen |-> Ev.initopen, t0 |-> Ev.now]
    /\ seq' = 0 /\ trans' = << >> /\ admits' = {}
    /\ lastCas' = [p \in Procs |-> [seq |-> 0, t |-> 0, pubT |-> -1]]
    /\ lastDl' = [p \in Procs |-> [seq |-> 0, t |-> 0]]
    /\ firstGet' = [p \in Procs |-> 0]
    /\ prev' = [p \in Procs |-> [at |-> "", t |-> 0]]
    /\ svc' = ThrOf(Ev) /\ objs' = << [thr |-> ThrOf(Ev), seq |-> 0] >>
    /\ opOb' = [p \in Procs |-> ThrOf(Ev)] /\ tpOb' = [p \in Procs |-> ThrOf(Ev)]
    /\ wrongOb' = FALSE
    /\ failed' = FALSE

TStep ==
    /\ IsEvent("step")
    /\ seq' = seq + 1
    \* pubT: the deadline was published by p's immediately preceding step (-1: it was not)
    /\ lastCas' = IF Ev.at = "cb.cas"
                  THEN [lastCas EXCEPT ![Ev.p] = [seq |-> seq + 1, t |-> Ev.now,
                                                  pubT |-> IF prev[Ev.p].at = "cb.deadline.store" THEN prev[Ev.p].t ELSE -1]]
                  ELSE lastCas
    /\ prev' = [prev EXCEPT ![Ev.p] = [at |-> Ev.at, t |-> Ev.now]]
    /\ lastDl' = IF Ev.at = "cb.deadline.load" THEN [lastDl EXCEPT ![Ev.p] = [seq |-> seq + 1, t |-> Ev.now]] ELSE lastDl
    /\ firstGet' = IF Ev.at = "cb.get" /\ firstGet[Ev.p] = 0 THEN [firstGet EXCEPT ![Ev.p] = seq + 1] ELSE firstGet
    \* the breaker list is fetched in the step from "start" (Entry) and in the step from "drv.exit" (Exit)
    /\ opOb' = IF Ev.at \in {"start", "drv.exit"} THEN [opOb EXCEPT ![Ev.p] = svc] ELSE opOb
    /\ tpOb' = IF Ev.at = "start" THEN [tpOb EXCEPT ![Ev.p] = svc] ELSE tpOb
    /\ UNCHANGED <<g, trans, admits, failed, svc, objs, wrongOb>>

TTick == IsEvent("tick") /\ UNCHANGED <<g, seq, lastCas, lastDl, firstGet, prev, trans, admits, failed, svc, objs, opOb, tpOb, wrongOb>>

\* the loader replaced the rule between two steps: another threshold = a new object is in service
TReload ==
    /\ IsEvent("reload")
    /\ svc' = Ev.thr
    /\ objs' = IF Ev.thr = svc THEN objs ELSE Append(objs, [thr |-> Ev.thr, seq |-> seq])
    /\ UNCHANGED <<g, seq, lastCas, lastDl, firstGet, prev, trans, admits, failed, opOb, tpOb, wrongOb>>

TListen ==
    /\ IsEvent("listen")
    /\ trans' = Append(trans, [p |-> Ev.p, from |-> Ev.from, to |-> Ev.to, b |-> ThrOf(Ev),
                               casSeq |-> lastCas[Ev.p].seq, casT |-> lastCas[Ev.p].t, pubT |-> lastCas[Ev.p].pubT,
                               dlT |-> lastDl[Ev.p].t, dlSeq |-> lastDl[Ev.p].seq])
    /\ wrongOb' = (wrongOb \/ (Ev.p \in Procs /\ ThrOf(Ev) # opOb[Ev.p]) \/ Ev.p \notin Procs)
    /\ UNCHANGED <<g, seq, lastCas, lastDl, firstGet, prev, admits, failed, svc, objs, opOb, tpOb>>

TRet ==
    /\ IsEvent("ret")
    /\ admits' = IF Ev.kind = "entry" /\ Ev.pass THEN admits \cup {Ev.p} ELSE admits
    /\ UNCHANGED <<g, seq, lastCas, lastDl, firstGet, prev, trans, failed, svc, objs, opOb, tpOb, wrongOb>>

\* a panic escaping Entry / Exit is never acceptable
TPanic ==
    /\ IsEvent("panic")
    /\ Judge(FALSE, [panic |-> TRUE])
    /\ UNCHANGED <<g, seq, lastCas, lastDl, firstGet, prev, trans, admits, svc, objs, opOb, tpOb, wrongOb>>

TEnd ==
    /\ IsEvent("end")
    /\ LET known == KnownObjs /\ ~wrongOb IN
       Judge(known /\ \A b \in ObjIdx : ObjOK(b),
             [objects |-> known,
              legal |-> \A b \in ObjIdx : LegalPath(SOf(b), Pick(b).st),
              noearly |-> \A b \in ObjIdx : NoEarlyProbe(SOf(b), Pick(b).t0),
              early |-> UNION { EarlyClasses(SOf(b), Pick(b).t0, Pick(b).pub) : b \in ObjIdx },
              exclusive |-> \A b \in ObjIdx : Excl(b, Pick(b).st),
              breakers |-> [b \in ObjIdx |-> [thr |-> objs[b].thr, init |-> Pick(b).st, path |-> SOf(b)]]])
    /\ UNCHANGED <<g, seq, lastCas, lastDl, firstGet, prev, trans, admits, svc, objs, opOb, tpOb, wrongOb>>

TInit == /\ l = 1 /\ seq = 0 /\ trans = << >> /\ admits = {} /\ failed = FALSE
         /\ g = [tr |-> 0, timeout |-> 0, probenum |-> 0, initopen |-> FALSE, t0 |-> 0]
         /\ lastCas = [p \in Procs |-> [seq |-> 0, t |-> 0, pubT |-> -1]]
         /\ lastDl = [p \in Procs |-> [seq |-> 0, t |-> 0]] /\ firstGet = [p \in Procs |-> 0]
         /\ prev = [p \in Procs |-> [at |-> "", t |-> 0]]
         /\ svc = 1 /\ objs = << [thr |-> 1, seq |-> 0] >>
         /\ opOb = [p \in Procs |-> 1] /\ tpOb = [p \in Procs |-> 1] /\ wrongOb = FALSE
TNext == TNew \/ TStep \/ TTick \/ TReload \/ TListen \/ TRet \/ TPanic \/ TEnd
TSpec == TInit /\ [][TNext]_tvars
=============================================================================
