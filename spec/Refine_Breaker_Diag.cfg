\* every class of first deviation of the UNRESTRICTED concurrent breaker (one TAG line each)
\* (checks/REFINE.py generates this and the other instances, the mutant runs and the runs with one restriction dropped)
SPECIFICATION DSpec
CONSTANTS
  NC = 2
  Errs <- MCErrs
  Timeout = 2
  ProbeNum = 0
  Thr = 1
  MinAmt = 1
  MaxT = 4
  InitOpen = TRUE
  DlFirst = TRUE
  Restrict = {}
VIEW dview
INVARIANTS ExclusiveProbe
PROPERTIES RefInit
CHECK_DEADLOCK FALSE
CONSTRAINT TagOK
