------------------------------ MODULE EntryChain ------------------------------
(***************************************************************************)
(* Entry / Exit through a slot chain of sentinel-golang (api.Entry,        *)
(* base.SlotChain, base.SentinelEntry, stat.Slot): design-level model of   *)
(*                                                                         *)
(*   C16  slot chain: prepare / rule-check / statistic slots run in        *)
(*        ascending order value (insertion order on ties); the first       *)
(*        blocking rule-check slot determines the block error and no later *)
(*        rule-check slot runs; absent panics every statistic slot is told *)
(*        the outcome exactly once and completion exactly when the entry   *)
(*        had passed; a panic anywhere means "admitted"; the block error   *)
(*        handed out never changes afterwards.                             *)
(*   C01  accounting: per resource and on the inbound total (inbound       *)
(*        traffic only) passed + blocked tokens = requested tokens; each   *)
(*        passed entry contributes exactly one completion (own error, own  *)
(*        response time) when exited, blocked ones none; Exit is           *)
(*        idempotent; late calls on an exited entry change nothing for any *)
(*        entry; the gauge equals the number of passed entries in flight,  *)
(*        never negative, zero when nothing is in flight - also when rule  *)
(*        evaluation panics and the request is admitted.                   *)
(*                                                                         *)
(* The outcome of the rule phase is an INPUT (scripted per Entry or fixed  *)
(* per slot): the model is about ordering and accounting given the         *)
(* outcome, not about who decides.  Where the statements leave freedom the *)
(* model is nondeterministic: an entry admitted through a panic is either  *)
(* counted like a passed one (pass b now, one completion of b later) or    *)
(* not at all (parameter cnt of Entry); whether the completion of such a   *)
(* counted entry carries an error is open (parameter pe of Exit).          *)
(*                                                                         *)
(* Reported sums are reads of the aligned-window reference of WindowRef    *)
(* (per node: parent buckets of PBL, default view VInt, whole array PInt), *)
(* so histories may cross bucket boundaries.                               *)
(***************************************************************************)
EXTENDS EntryChainOps

CONSTANTS
    Resources,      \* resource names
    Batches,        \* batch counts of an Entry
    Orders,         \* order values AddSlot may use
    PreBehs, RuleBehs, StatBehs,   \* behaviours AddSlot may use per kind
    MaxPre, MaxRule, MaxStat,      \* bound on slots per kind
    InitChain,      \* chain at the start (EmptyChain, or a fixed accounting chain)
    InitSlots,      \* number of slots of InitChain
    Scripts,        \* scripted outcomes an Entry may carry
    XHs,            \* exit-handler behaviours registered on an admitted entry: "" (none) | "ok" | "panic"
    Inbs,           \* traffic types an Entry may use (TRUE = inbound)
    ErrToks,        \* error tokens for TraceError / Exit(WithError)
    Steps,          \* clock increments
    MaxEntries, MaxLive, MaxOps, MaxT,
    PBL, VInt, PInt \* node geometry (bucket length, default view, whole array)

Nodes == Resources \cup {InNode}

VARIABLES
    now,        \* clock (relative ms)
    chain,      \* [pre, rule, stat] : sequences of [ord, id, beh]
    nslot,      \* slots added so far (ids are 1..nslot)
    nid,        \* Entry calls so far (entry ids are 1..nid, blocked ones included)
    live,       \* id -> [res, b, inb, start, errs, out, counted, xh] : admitted, not yet exited
    exited,     \* ids of admitted entries that have been exited
    berr,       \* id -> [slot, val] : block errors handed to callers
    acc,        \* node -> reference window (WindowRef)
    conc,       \* node -> gauge
    hst,        \* history for the invariants: [tot : node -> kind -> Nat, req : node -> Nat, comp : id -> Nat]
    lastlog,    \* calls made by the last action
    nops,
    h           \* scenario (operation history) for the conformance driver; hidden by VIEW

vars == <<now, chain, nslot, nid, live, exited, berr, acc, conc, hst, lastlog, nops, h>>
view == <<now, chain, nslot, nid, live, exited, berr, acc, conc, hst, lastlog, nops>>

ZeroTot == [k \in Kinds |-> 0]

Init ==
    /\ now = 1
    /\ chain = InitChain /\ nslot = InitSlots
    /\ nid = 0
    /\ live = << >> /\ exited = {} /\ berr = << >>
    /\ acc = [n \in Nodes |-> << >>]
    /\ conc = [n \in Nodes |-> 0]
    /\ hst = [tot |-> [n \in Nodes |-> ZeroTot], req |-> [n \in Nodes |-> 0], comp |-> << >>]
    /\ lastlog = << >>
    /\ nops = 0
    /\ h = << >>

Op == nops < MaxOps /\ nops' = nops + 1
HTot(N, k, amt) == [n \in Nodes |-> IF n \in N THEN [hst.tot[n] EXCEPT ![k] = @ + amt] ELSE hst.tot[n]]

\* chains are assembled before traffic (Add*Slot is documented as not safe for concurrent use)
AddSlot(k, o, b) ==
    /\ Op /\ nid = 0
    /\ Len(chain[k]) < (IF k = "pre" THEN MaxPre ELSE IF k = "rule" THEN MaxRule ELSE MaxStat)
    /\ chain' = [chain EXCEPT ![k] = Insert(@, [ord |-> o, id |-> nslot + 1, beh |-> b])]
    /\ nslot' = nslot + 1
    /\ lastlog' = << >>
    /\ h' = Append(h, [op |-> "slot", k |-> k, ord |-> o, beh |-> b])
    /\ UNCHANGED <<now, nid, live, exited, berr, acc, conc, hst>>

Entry(res, b, inb, so, xh, cnt) ==
    LET r  == RunChain(chain, so)
        id == nid + 1
        N  == NodesOf(res, inb)
        counted == IF r.out = "panic" THEN cnt ELSE r.out = "pass"
    IN
    /\ Op /\ nid < MaxEntries /\ Cardinality(DOMAIN live) < MaxLive
    /\ (r.out # "panic" => ~cnt)            \* cnt is a free choice only for an entry admitted through a panic
    /\ (r.out = "block" => xh = "")         \* nothing to register a handler on
    /\ nid' = id
    /\ lastlog' = r.calls
    /\ IF r.out = "block"
         THEN /\ acc' = AccBlock(acc, N, PBL, now, b)
              /\ berr' = berr @@ (id :> [slot |-> r.blk, val |-> id])
              /\ hst' = [hst EXCEPT !.tot = HTot(N, "block", b), !.req = Bump(@, N, b)]
              /\ UNCHANGED <<live, conc>>
         ELSE /\ acc' = IF counted THEN AccPass(acc, N, PBL, now, b) ELSE acc
              /\ conc' = IF counted THEN Bump(conc, N, 1) ELSE conc
              /\ live' = live @@ (id :> [res |-> res, b |-> b, inb |-> inb, start |-> now, errs |-> {},
                                         out |-> r.out, counted |-> counted, xh |-> xh])
              /\ hst' = IF counted THEN [hst EXCEPT !.tot = HTot(N, "pass", b), !.req = Bump(@, N, b)] ELSE hst
              /\ UNCHANGED berr
    /\ h' = Append(h, [op |-> "entry", res |-> res, b |-> b, inb |-> inb, so |-> so, xh |-> xh])
    /\ UNCHANGED <<now, chain, nslot, exited>>

TraceError(id, e) ==
    /\ Op /\ id \in DOMAIN live
    /\ live' = [live EXCEPT ![id].errs = @ \cup {e}]
    /\ lastlog' = << >>
    /\ h' = Append(h, [op |-> "terr", id |-> id, e |-> e])
    /\ UNCHANGED <<now, chain, nslot, nid, exited, berr, acc, conc, hst>>

\* first Exit of an admitted entry (e = "" : no error option)
Exit(id, e, pe) ==
    /\ Op /\ id \in DOMAIN live
    /\ LET en    == live[id]
           errs  == en.errs \cup (IF e = "" THEN {} ELSE {e})
           N     == NodesOf(en.res, en.inb)
           iserr == errs # {} \/ pe
       IN /\ (pe => en.out = "panic" /\ en.counted /\ errs = {})
          /\ acc'  = IF en.counted THEN AccComplete(acc, N, PBL, now, en.b, now - en.start, iserr) ELSE acc
          /\ conc' = IF en.counted THEN Bump(conc, N, -1) ELSE conc
          /\ hst'  = IF en.counted
                       THEN [hst EXCEPT !.tot = HTot(N, "complete", en.b), !.comp = @ @@ (id :> 1)]
                       ELSE hst
          /\ lastlog' = (IF en.xh = "" THEN << >> ELSE << Call("xh", id, "handler") >>)
                        \o (IF en.counted /\ en.xh # "panic" THEN ComplCalls(chain) ELSE << >>)
    /\ live' = [i \in DOMAIN live \ {id} |-> live[i]]
    /\ exited' = exited \cup {id}
    /\ h' = Append(h, [op |-> "exit", id |-> id, e |-> e])
    /\ UNCHANGED <<now, chain, nslot, nid, berr>>

\* repeated Exit (with or without an error) and late TraceError on an entry that has already been exited:
\* nothing changes for any entry
ReExit(id, e) ==
    /\ id \in exited /\ nops < MaxOps /\ UNCHANGED nops
    /\ lastlog' = << >>
    /\ h' = Append(h, [op |-> "exit", id |-> id, e |-> e])
    /\ UNCHANGED <<now, chain, nslot, nid, live, exited, berr, acc, conc, hst>>

LateTraceError(id, e) ==
    /\ id \in exited /\ nops < MaxOps /\ UNCHANGED nops
    /\ lastlog' = << >>
    /\ h' = Append(h, [op |-> "terr", id |-> id, e |-> e])
    /\ UNCHANGED <<now, chain, nslot, nid, live, exited, berr, acc, conc, hst>>

Tick(d) ==
    /\ Op /\ now + d <= MaxT
    /\ now' = now + d
    /\ acc' = PruneAll(acc, PBL, PInt, now + d)
    /\ lastlog' = << >>
    /\ h' = Append(h, [op |-> "tick", d |-> d])
    /\ UNCHANGED <<chain, nslot, nid, live, exited, berr, conc, hst>>

Next ==
    \/ \E o \in Orders : \/ \E b \in PreBehs  : AddSlot("pre", o, b)
                         \/ \E b \in RuleBehs : AddSlot("rule", o, b)
                         \/ \E b \in StatBehs : AddSlot("stat", o, b)
    \/ \E res \in Resources, b \in Batches, inb \in Inbs, so \in Scripts, xh \in XHs, cnt \in BOOLEAN :
            Entry(res, b, inb, so, xh, cnt)
    \/ \E id \in DOMAIN live, e \in ErrToks : TraceError(id, e)
    \/ \E id \in DOMAIN live, e \in ErrToks \cup {""}, pe \in BOOLEAN : Exit(id, e, pe)
    \/ \E id \in exited, e \in ErrToks \cup {""} : ReExit(id, e)
    \/ \E id \in exited, e \in ErrToks : LateTraceError(id, e)
    \/ \E d \in Steps : Tick(d)

Spec == Init /\ [][Next]_vars

---------------------------------------------------------------------------
(* C16 as invariants / action properties                                   *)

ChainSorted == SortedSeq(chain.pre) /\ SortedSeq(chain.rule) /\ SortedSeq(chain.stat)

\* the calls of the last action, per kind, follow ascending <<ord, id>>; phases in order
OrderOK ==
    \A i, j \in DOMAIN lastlog : (i < j /\ lastlog[i].k # "xh" /\ lastlog[j].k # "xh") =>
        /\ KindRank(lastlog[i].k) <= KindRank(lastlog[j].k)
        /\ lastlog[i].k = lastlog[j].k =>
              Before(SeqOf(chain, lastlog[i].k)[PosIn(SeqOf(chain, lastlog[i].k), lastlog[i].id)],
                     SeqOf(chain, lastlog[j].k)[PosIn(SeqOf(chain, lastlog[j].k), lastlog[j].id)])

IsEntryLog == lastlog # << >> /\ lastlog[1].m \in {"prepare", "check", "passed", "blocked"}
Told(m) == { i \in DOMAIN lastlog : lastlog[i].k = "stat" /\ lastlog[i].m = m }
ToldSlot(m, id) == { i \in Told(m) : lastlog[i].id = id }
AllStat == { chain.stat[i].id : i \in DOMAIN chain.stat }
PanicFreeChain == /\ \A i \in DOMAIN chain.pre  : chain.pre[i].beh \notin {"panic", "script"}
                  /\ \A i \in DOMAIN chain.rule : chain.rule[i].beh \notin {"panic", "script"}
                  /\ \A i \in DOMAIN chain.stat : chain.stat[i].beh \notin {"panic", "panicC"}

\* absent panics every statistic slot is told the final outcome exactly once - and only one outcome
StatToldOnce ==
    (IsEntryLog /\ PanicFreeChain) =>
        /\ \A s \in AllStat : Cardinality(ToldSlot("passed", s)) + Cardinality(ToldSlot("blocked", s)) = 1
        /\ Told("passed") = {} \/ Told("blocked") = {}
        \* blocked exactly when a rule slot that blocks was called, and that call is the last rule call
        /\ LET RC == { i \in DOMAIN lastlog : lastlog[i].k = "rule" }
               Blk(i) == chain.rule[PosIn(chain.rule, lastlog[i].id)].beh = "block"
           IN /\ AllStat # {} => ((Told("blocked") # {}) <=> (\E i \in RC : Blk(i)))
              /\ \A i \in RC : Blk(i) => \A j \in RC : j <= i
              \* the rule slots that ran are a prefix of the sorted list: all of it unless one blocked
              /\ { PosIn(chain.rule, lastlog[i].id) : i \in RC } = 1..Cardinality(RC)
              /\ (\A i \in RC : ~Blk(i)) => Cardinality(RC) = Len(chain.rule)
        \* every prepare slot ran
        /\ Cardinality({ i \in DOMAIN lastlog : lastlog[i].k = "pre" }) = Len(chain.pre)

\* the block error handed out names the first blocking slot of that entry, and never changes afterwards
BlockErrOK == \A id \in DOMAIN berr : berr[id].val = id /\ PosIn(chain.rule, berr[id].slot) > 0
BlockErrStable == [][\A id \in DOMAIN berr : id \in DOMAIN berr' /\ berr'[id] = berr[id]]_vars

\* completion is told exactly when the entry had passed: the last Exit of a counted entry told every stat slot once
CompletionTold ==
    (PanicFreeChain /\ lastlog # << >> /\ \E i \in DOMAIN lastlog : lastlog[i].m = "completed") =>
        \A s \in AllStat : Cardinality(ToldSlot("completed", s)) = 1

---------------------------------------------------------------------------
(* C01 as invariants / action properties                                   *)

\* passed + blocked tokens = requested tokens (entries admitted through a panic: all or nothing)
Conservation == \A n \in Nodes : hst.tot[n]["pass"] + hst.tot[n]["block"] = hst.req[n]

InFlight(n) == { id \in DOMAIN live : live[id].counted /\ n \in NodesOf(live[id].res, live[id].inb) }
Gauge == \A n \in Nodes : conc[n] = Cardinality(InFlight(n)) /\ conc[n] >= 0
Quiescent == (DOMAIN live = {}) => \A n \in Nodes : conc[n] = 0

\* one completion per counted entry, at its (first) Exit, none for anything else; completed tokens = passed tokens
\* of the entries that have been exited
CompletionOnce ==
    /\ \A id \in DOMAIN hst.comp : hst.comp[id] = 1 /\ id \in exited
    /\ \A id \in DOMAIN live : id \notin DOMAIN hst.comp
    /\ \A id \in DOMAIN berr : id \notin DOMAIN hst.comp /\ id \notin DOMAIN live /\ id \notin exited
PassedOf(n) == hst.tot[n]["pass"]
RECURSIVE SumB(_)
SumB(T) == IF T = {} THEN 0 ELSE LET x == CHOOSE y \in T : TRUE IN live[x].b + SumB(T \ {x})
LiveTokens(n) == SumB(InFlight(n))
CompletedTokens == \A n \in Nodes : hst.tot[n]["complete"] + LiveTokens(n) = PassedOf(n)

\* (the inbound total is the node "_in" of Conservation / Gauge: NodesOf adds it for inbound traffic only)

\* Exit is idempotent and late calls change nothing for any entry: as an action property over everything observable
Observable == <<live, berr, acc, conc, hst>>
LateCallsInert ==
    [][(nid' = nid /\ now' = now /\ DOMAIN live' = DOMAIN live /\ \A id \in DOMAIN live : live'[id].errs = live[id].errs)
          => Observable' = Observable]_vars

TypeOK ==
    /\ now >= 1 /\ nid \in 0..MaxEntries /\ nslot >= 0
    /\ DOMAIN live \subseteq 1..nid /\ exited \subseteq 1..nid /\ DOMAIN berr \subseteq 1..nid
    /\ DOMAIN live \cap exited = {}
=============================================================================
