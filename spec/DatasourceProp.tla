--------------------------- MODULE DatasourceProp ---------------------------
(***************************************************************************)
(* Property C18, PROPERTY LEVEL: literal transcription of the statement    *)
(* "datasource payloads are applied faithfully or rejected, never          *)
(* half-applied".  Pure operators, shared by the design-level model        *)
(* (Datasource.tla, checked by TLC) and by the validation of recorded      *)
(* executions of the real code (Datasource_Trace.tla).                     *)
(*                                                                         *)
(* A payload is abstracted to its CLASS and to the rule list it describes: *)
(*   List            a JSON array of well-typed rule objects               *)
(*   ListWithNull    the same with at least one null element               *)
(*   NullDoc         the JSON document `null` (no list at all; treated     *)
(*                   like ListWithNull: both readings of "decodes to a     *)
(*                   rule list" are accepted)                              *)
(*   WrongType       a JSON array with a wrongly typed element / field     *)
(*   Truncated       not a JSON document (cut short, garbage)              *)
(*   NotAnArray      a JSON document that is neither an array nor null     *)
(*   Empty           zero bytes                                            *)
(* A rule is a TOKEN = the tuple of its semantic fields (the optional id   *)
(* is ignored by the rule managers).  Rule-store semantics restated: the   *)
(* VALID rules of the last accepted list are in force (a set of tokens).   *)
(***************************************************************************)
EXTENDS Integers, Sequences, FiniteSets

SetOf(s) == {s[i] : i \in DOMAIN s}

Undecodable == {"WrongType", "Truncated", "NotAnArray"}
Relaxed     == {"ListWithNull", "NullDoc"}          \* "decodes to a rule list" has two readings
Classes     == {"List", "Empty"} \cup Relaxed \cup Undecodable

(***************************************************************************)
(* PROPERTY LEVEL.                                                         *)
(*   before  set of tokens in force before the delivery                    *)
(*   prev    identity of the payload delivered immediately before          *)
(*   P = [cls, id, valid, dom]   class, identity (same bytes <=> same id), *)
(*           the valid rules the payload describes, dom = every described  *)
(*           rule lies in the domain in which "in force" is decidable by   *)
(*           the observer (TRUE in the model)                              *)
(*   O = [err, panic, upd, after] observed: error returned, panic escaped, *)
(*           number of downstream updates (-1 = not observed), tokens in   *)
(*           force afterwards                                              *)
(***************************************************************************)
Applied(P, O)          == P.dom => O.after = P.valid
Rejected(before, O)    == O.err /\ O.after = before

ClassOK(before, P, O) ==
    /\ (~P.dom /\ O.err) => O.after = before
    /\ CASE P.cls = "List"        -> Applied(P, O)
         [] P.cls = "Empty"       -> O.after = {}
         [] P.cls \in Undecodable -> Rejected(before, O)
         [] P.cls \in Relaxed     -> Rejected(before, O) \/ Applied(P, O)

RedeliveryOK(before, prev, P, O) ==
    (P.id = prev) => (O.after = before /\ (O.upd >= 0 => O.upd = 0))

DeliverOK(before, prev, P, O) ==
    /\ ~O.panic
    /\ ClassOK(before, P, O)
    /\ RedeliveryOK(before, prev, P, O)

\* states a conforming handler may be in after handling P in state `before` (error flag abstracted away)
AfterSet(before, P) ==
    CASE P.cls = "List"        -> {P.valid}
      [] P.cls = "Empty"       -> {{}}
      [] P.cls \in Undecodable -> {before}
      [] P.cls \in Relaxed     -> {before, P.valid}

(***************************************************************************)
(* File datasource, property level.  An event changes the file; the rules  *)
(* in force must CONVERGE to what delivering the file's current content    *)
(* yields, and be cleared when the file is gone.  Until then only states   *)
(* explained by contents the file really had may be observed.              *)
(*   "init"        the source is initialised on an existing file           *)
(*   "write"       overwrite in place (the file is empty for an instant)   *)
(*   "trunc"       truncate to zero bytes                                  *)
(*   "renameover"  another file is renamed onto the path (atomic replace)  *)
(*   "renameaway"  the file is renamed away: the path is gone              *)
(*   "remove"      the file is removed                                     *)
(***************************************************************************)
Gone == {"renameaway", "remove"}
FileFinal(before, ev, P) ==
    CASE ev \in Gone            -> {{}}
      [] ev = "trunc"           -> {{}}
      [] ev \in {"init", "renameover"} -> AfterSet(before, P)
      [] ev = "write"           -> AfterSet(before, P) \cup AfterSet({}, P)
FileInter(before, ev, P) ==
    {before} \cup FileFinal(before, ev, P) \cup (IF ev = "write" THEN {{}} ELSE {})

\* seen = every distinct state observed while waiting (in order), final = the state it settled in
FileSafe(before, ev, P, seen)       == P.dom => \A i \in DOMAIN seen : seen[i] \in FileInter(before, ev, P)
FileConverged(before, ev, P, final) == P.dom => final \in FileFinal(before, ev, P)


---------------------------------------------------------------------------
(* WIRE FORMAT OF HOT-SPOT SPECIFIC ITEMS.  A rule list written in the JSON  *)
(* wire format decodes to exactly the rules it describes - including the     *)
(* KEYS and thresholds of specificItems.  An item is a (kind, text,          *)
(* threshold) triple; its key is the TYPED VALUE the (kind, text) pair       *)
(* denotes: kind 0 the int, 1 the string itself, 2 the bool, 3 the float64   *)
(* normalised to five decimal places (documented).  The scenario states the  *)
(* denoted value structurally (the text is one of its spellings):            *)
(*    [kind |-> 0, neg, dig]           an integer: sign and decimal digits   *)
(*    [kind |-> 1, s]                  a string                              *)
(*    [kind |-> 2, s]                  a bool in one of strconv's spellings  *)
(*    [kind |-> 3, neg, dig, e]        the decimal 0.d1 d2 .. dn x 10^e      *)
(*                                     (d1, dn # 0; << >> = zero)            *)
(* and the driver reports every decoded key in the same form                 *)
(*    [t |-> "int" | "string" | "bool" | "float", neg, dig, e, s, b, thr].   *)

RECURSIVE StripZ(_)
StripZ(d) == IF d = << >> THEN d ELSE IF d[Len(d)] = 0 THEN StripZ(SubSeq(d, 1, Len(d) - 1)) ELSE d
\* one unit more in the last place (a carry out of the first place makes the sequence one digit longer)
RECURSIVE IncSeq(_)
IncSeq(d) == IF d = << >> THEN <<1>>
             ELSE IF d[Len(d)] < 9 THEN [d EXCEPT ![Len(d)] = @ + 1]
             ELSE Append(IncSeq(SubSeq(d, 1, Len(d) - 1)), 0)
DecZero == [neg |-> FALSE, dig |-> << >>, e |-> 0]
Dec(neg, dig, e) == IF StripZ(dig) = << >> THEN DecZero ELSE [neg |-> neg, dig |-> StripZ(dig), e |-> e]
\* the decimals a value may be normalised to when it is rounded to five decimal places (both neighbours on an exact tie:
\* the binary value the text was read into lies on one side of it)
Round5(v) ==
    IF v.dig = << >> THEN {DecZero}
    ELSE LET n == Len(v.dig)
             k == v.e + 5                      \* digits in front of the sixth decimal place
         IN  IF k >= n THEN {Dec(v.neg, v.dig, v.e)}
             ELSE IF k < 0 THEN {DecZero}
             ELSE LET keep == SubSeq(v.dig, 1, k)
                      up   == IncSeq(keep)
                      lo   == Dec(v.neg, keep, v.e)
                      hi   == Dec(v.neg, up, v.e + (Len(up) - k))
                  IN  IF v.dig[k + 1] < 5 THEN {lo}
                      ELSE IF v.dig[k + 1] > 5 \/ k + 1 < n THEN {hi}
                      ELSE {lo, hi}
BoolTrue  == {"1", "t", "T", "TRUE", "true", "True"}
BoolFalse == {"0", "f", "F", "FALSE", "false", "False"}
Key(t, neg, dig, e, str, b) == [t |-> t, neg |-> neg, dig |-> dig, e |-> e, s |-> str, b |-> b]
\* the keys item `it' may decode to
DescribedKeys(it) ==
    CASE it.kind = 0 -> {Key("int", it.neg /\ it.dig # << >>, it.dig, 0, "", FALSE)}
      [] it.kind = 1 -> {Key("string", FALSE, << >>, 0, it.s, FALSE)}
      [] it.kind = 2 -> IF it.s \in BoolTrue \cup BoolFalse THEN {Key("bool", FALSE, << >>, 0, "", it.s \in BoolTrue)} ELSE {}
      [] it.kind = 3 -> {Key("float", r.neg, r.dig, r.e, "", FALSE) : r \in Round5([neg |-> it.neg, dig |-> it.dig, e |-> it.e])}
KeyOfGot(g) == Key(g.t, g.neg, g.dig, g.e, g.s, g.b)
\* the decoded map `got' (a sequence of reported entries) is exactly what the item list describes (a later item with the
\* same key replaces an earlier one)
ItemsOK(items, got) ==
    /\ \A i \in DOMAIN items : \E j \in DOMAIN got :
           /\ KeyOfGot(got[j]) \in DescribedKeys(items[i])
           /\ (got[j].thr = items[i].thr \/ \E i2 \in (i + 1)..Len(items) : KeyOfGot(got[j]) \in DescribedKeys(items[i2]))
    /\ \A j \in DOMAIN got : \E i \in DOMAIN items : KeyOfGot(got[j]) \in DescribedKeys(items[i]) /\ got[j].thr = items[i].thr
    /\ \A j, j2 \in DOMAIN got : j # j2 => KeyOfGot(got[j]) # KeyOfGot(got[j2])
\* probe traffic: n = thr + 1 requests at one instant whose argument IS the described value: exactly thr are admitted
\* (the item's own threshold limits it, not the rule's general one) - demanded where no other item can share its key
ItemProbeOK(items, p) ==
    LET it == items[p.i] IN
    (\A i2 \in DOMAIN items : i2 # p.i => DescribedKeys(items[i2]) \cap DescribedKeys(it) = {}) => p.adm = it.thr

=============================================================================
