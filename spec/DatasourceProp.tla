--------------------------- MODULE DatasourceProp ---------------------------
(***************************************************************************)
(* Property C18, PROPERTY LEVEL: literal transcription of the statement    *)
(* "datasource payloads are applied faithfully or rejected, never          *)
(* half-applied".  Pure operators, shared by the design-level model        *)
(* (Datasource.tla, checked by TLC) and by the validation of recorded      *)
(* executions of the real code (Datasource_Trace.tla).                     *)
(*                                                                         *)
(* A payload is abstracted to its CLASS and to the rule list it describes: *)
(*   List            a JSON array of well-typed rule objects               *)
(*   ListWithNull    the same with at least one null element               *)
(*   NullDoc         the JSON document `null` (no list at all; treated     *)
(*                   like ListWithNull: both readings of "decodes to a     *)
(*                   rule list" are accepted)                              *)
(*   WrongType       a JSON array with a wrongly typed element / field     *)
(*   Truncated       not a JSON document (cut short, garbage)              *)
(*   NotAnArray      a JSON document that is neither an array nor null     *)
(*   Empty           zero bytes                                            *)
(* A rule is a TOKEN = the tuple of its semantic fields (the optional id   *)
(* is ignored by the rule managers).  Rule-store semantics restated: the   *)
(* VALID rules of the last accepted list are in force (a set of tokens).   *)
(***************************************************************************)
EXTENDS Integers, Sequences, FiniteSets

SetOf(s) == {s[i] : i \in DOMAIN s}

Undecodable == {"WrongType", "Truncated", "NotAnArray"}
Relaxed     == {"ListWithNull", "NullDoc"}          \* "decodes to a rule list" has two readings
Classes     == {"List", "Empty"} \cup Relaxed \cup Undecodable

(***************************************************************************)
(* PROPERTY LEVEL.                                                         *)
(*   before  set of tokens in force before the delivery                    *)
(*   prev    identity of the payload delivered immediately before          *)
(*   P = [cls, id, valid, dom]   class, identity (same bytes <=> same id), *)
(*           the valid rules the payload describes, dom = every described  *)
(*           rule lies in the domain in which "in force" is decidable by   *)
(*           the observer (TRUE in the model)                              *)
(*   O = [err, panic, upd, after] observed: error returned, panic escaped, *)
(*           number of downstream updates (-1 = not observed), tokens in   *)
(*           force afterwards                                              *)
(***************************************************************************)
Applied(P, O)          == P.dom => O.after = P.valid
Rejected(before, O)    == O.err /\ O.after = before

ClassOK(before, P, O) ==
    /\ (~P.dom /\ O.err) => O.after = before
    /\ CASE P.cls = "List"        -> Applied(P, O)
         [] P.cls = "Empty"       -> O.after = {}
         [] P.cls \in Undecodable -> Rejected(before, O)
         [] P.cls \in Relaxed     -> Rejected(before, O) \/ Applied(P, O)

RedeliveryOK(before, prev, P, O) ==
    (P.id = prev) => (O.after = before /\ (O.upd >= 0 => O.upd = 0))

DeliverOK(before, prev, P, O) ==
    /\ ~O.panic
    /\ ClassOK(before, P, O)
    /\ RedeliveryOK(before, prev, P, O)

\* states a conforming handler may be in after handling P in state `before` (error flag abstracted away)
AfterSet(before, P) ==
    CASE P.cls = "List"        -> {P.valid}
      [] P.cls = "Empty"       -> {{}}
      [] P.cls \in Undecodable -> {before}
      [] P.cls \in Relaxed     -> {before, P.valid}

(***************************************************************************)
(* File datasource, property level.  An event changes the file; the rules  *)
(* in force must CONVERGE to what delivering the file's current content    *)
(* yields, and be cleared when the file is gone.  Until then only states   *)
(* explained by contents the file really had may be observed.              *)
(*   "init"        the source is initialised on an existing file           *)
(*   "write"       overwrite in place (the file is empty for an instant)   *)
(*   "trunc"       truncate to zero bytes                                  *)
(*   "renameover"  another file is renamed onto the path (atomic replace)  *)
(*   "renameaway"  the file is renamed away: the path is gone              *)
(*   "remove"      the file is removed                                     *)
(***************************************************************************)
Gone == {"renameaway", "remove"}
FileFinal(before, ev, P) ==
    CASE ev \in Gone            -> {{}}
      [] ev = "trunc"           -> {{}}
      [] ev \in {"init", "renameover"} -> AfterSet(before, P)
      [] ev = "write"           -> AfterSet(before, P) \cup AfterSet({}, P)
FileInter(before, ev, P) ==
    {before} \cup FileFinal(before, ev, P) \cup (IF ev = "write" THEN {{}} ELSE {})

\* seen = every distinct state observed while waiting (in order), final = the state it settled in
FileSafe(before, ev, P, seen)       == P.dom => \A i \in DOMAIN seen : seen[i] \in FileInter(before, ev, P)
FileConverged(before, ev, P, final) == P.dom => final \in FileFinal(before, ev, P)

=============================================================================
