--------------------------- MODULE FlowQps_Trace ---------------------------
(***************************************************************************)
(* Validation of executions of the real flow module (api.Entry with rules  *)
(* loaded by flow.LoadRules, virtual clock) against property C02, with the *)
(* operators of FlowQps / WindowRef / AdmitOps.                            *)
(*                                                                         *)
(* Events (one ndjson line each; many traces are concatenated):            *)
(*   new   tr, t, nres, rules : [ [res, num, den, I, ref, bl] ]            *)
(*           I = effective interval in ms (default already resolved),      *)
(*           ref = 0 or the referenced resource, bl = the bucket length    *)
(*           GeometryFor predicts (a hint: used for the expected value in  *)
(*           a report and for the DRIFT line, NOT for the verdict)         *)
(*   req   res, b, ok, [bt, rule, val]   one api.Entry and what it returned*)
(*   tick  t                              the clock moved to t             *)
(*   reload t, rules                      flow.LoadRules / LoadRulesOf-    *)
(*           Resource replaced the rule list while traffic is running      *)
(*   conc  res, bs, sched, oks            k gated goroutines ran api.Entry *)
(*           in the interleaving sched (who moves next; each caller moves  *)
(*           twice: to the yield point "chain.checked", then to the end)   *)
(*                                                                         *)
(* The bucket length of a rule's statistic window is NOT logged and not    *)
(* fixed by the property: cand[i] is the set of bucket lengths (divisors   *)
(* of the interval) that are consistent with every decision observed so    *)
(* far in the trace; a decision is wrong iff it leaves some rule without a *)
(* candidate.  The abstract state follows the OBSERVED outcome.            *)
(*                                                                         *)
(* After a reload the property does not fix either from which instant a    *)
(* rule's window has been counting: a window created by the reload counts  *)
(* from the reload on, a rule whose statistic parameters are those of an   *)
(* old rule may keep that rule's window (C14), a view of the resource's    *)
(* own statistic has always been counting.  A candidate is therefore a     *)
(* pair [bl, since]; what NO candidate explains - e.g. one window fed by   *)
(* two rules, so that every token counts twice - is a wrong decision.      *)
(***************************************************************************)
EXTENDS WindowRef, AdmitOps, TLC, Json

Trace == ndJsonDeserialize("trace.ndjson")

VARIABLES
    l,        \* next line of Trace
    now,      \* current time of the running trace
    rs,       \* rules of the running trace
    adm,      \* [1..nres -> per-tick reference of admitted tokens]
    cand,     \* [rule index -> set of candidates [bl, since] still consistent]
    g,        \* [tr] of the running trace
    failed    \* the running trace already mismatched

tvars == <<l, now, rs, adm, cand, g, failed>>

Ev == Trace[l]
Has(r, f) == f \in DOMAIN r

\* --- the operators of FlowQps that do not depend on its constants (kept textually identical) ---
PassKinds == {"pass"}
AlignedSum(ref, bl, t, I) == RefSum(ref, 1, Align(t, bl) + bl - 1, I, "pass")
Admit(ref, t, b) == IF b = 0 THEN ref ELSE RefAdd(ref, PassKinds, 1, t, "pass", b)
Counted(r)       == IF r.ref = 0 THEN r.res ELSE r.ref
RulesOf(rules, res) == { i \in 1..Len(rules) : rules[i].res = res }

Divisors(n) == LET lo == { d \in 1..Min2(n, 1000) : d * d <= n /\ n % d = 0 } IN lo \cup { n \div d : d \in lo }

Thr(i)         == <<rs[i].num, rs[i].den>>
\* the part of a per-tick reference recorded at or after time s
Since(ref, s)  == IF s = 0 THEN ref ELSE [x \in { y \in DOMAIN ref : y >= s } |-> ref[x]]
SumForT(i, c, a, t) == AlignedSum(Since(a[Counted(rs[i])], c.since), c.bl, t, rs[i].I)
SumFor(i, c, a) == SumForT(i, c, a, now)
\* candidates under which rule i lets batch b pass / blocks it with reported value v
PassCands(i, b)     == { c \in cand[i] : ~Exceeds(SumFor(i, c, adm), b, Thr(i)) }
BlockCands(i, b, v) == { c \in cand[i] : SumFor(i, c, adm) = v /\ Exceeds(v, b, Thr(i)) }
\* the same at the instant t at which the request reached the reject rules (a pacing rule ahead of them may have made it wait)
PassCandsT(i, b, t)     == { c \in cand[i] : ~Exceeds(SumForT(i, c, adm, t), b, Thr(i)) }
BlockCandsT(i, b, v, t) == { c \in cand[i] : SumForT(i, c, adm, t) = v /\ Exceeds(v, b, Thr(i)) }
\* a rule marked pace is a throttling rule with an unbounded queue: it never rejects, it only delays (property C10 judges pacing)
IsPace(i) == Has(rs[i], "pace") /\ rs[i].pace
\* the hinted candidate: the predicted bucket length, counting from the latest instant still possible
Hint(i) == [bl |-> rs[i].bl, since |-> MaxOr0({ c.since : c \in cand[i] })]

\* the decision under the hinted geometry: printed as the expected value of a mismatch
HintDecision(res, b) ==
    LET S == { i \in RulesOf(rs, res) : ~IsPace(i) /\ Exceeds(SumFor(i, Hint(i), adm), b, Thr(i)) } IN
    IF S = {} THEN [ok |-> TRUE]
    ELSE [ok |-> FALSE, bt |-> "flow", rule |-> MinOf(S), val |-> SumFor(MinOf(S), Hint(MinOf(S)), adm)]

Judge(ok, expected) ==
    IF failed \/ ok THEN failed' = failed
    ELSE /\ failed' = TRUE
         /\ PrintT("MISMATCH " \o ToString(g.tr) \o " " \o ToString(l) \o " " \o ToJson(expected))

IsEvent(op) == l <= Len(Trace) /\ Ev.op = op /\ l' = l + 1

TNew ==
    /\ IsEvent("new")
    /\ now' = Ev.t /\ Ev.t > 0
    /\ rs' = Ev.rules
    /\ adm' = [r \in 1..Ev.nres |-> << >>]
    /\ cand' = [i \in 1..Len(Ev.rules) |-> { [bl |-> d, since |-> 0] : d \in Divisors(Ev.rules[i].I) }]
    /\ g' = [tr |-> Ev.tr, maxI |-> IF Has(Ev, "maxI") THEN Ev.maxI ELSE MaxOr0({ Ev.rules[i].I : i \in 1..Len(Ev.rules) })]
    /\ failed' = FALSE

\* new candidate sets after an observed decision (a rule that would be left without a candidate keeps its set:
\* the trace has failed at that point and nothing after it is judged)
Keep(i, S) == IF S = {} THEN cand[i] ELSE S
\* implementation-level remark (never a verdict): the decision rules out the bucket length GeometryFor predicts
GeoDrift(c2) == \A i \in DOMAIN cand :
                  (rs[i].bl \in { c.bl : c \in cand[i] } /\ rs[i].bl \notin { c.bl : c \in c2[i] }) =>
                      PrintT("DRIFT " \o ToString(g.tr) \o " " \o ToString(l) \o " geometry of rule " \o ToString(i))

TReq ==
    /\ IsEvent("req")
    /\ LET res  == Ev.res
           b    == Ev.b
           mine == { i \in RulesOf(rs, res) : ~IsPace(i) }
           tn   == IF Has(Ev, "t") THEN Ev.t ELSE now       \* the instant the call returned (= arrival + what a pacing rule made it wait)
           \* rules are consulted in list order: rule i is reached after the wait iff a pacing rule of the resource precedes it
           at(i) == IF \E j \in RulesOf(rs, res) : j < i /\ IsPace(j) THEN tn ELSE now
       IN
       /\ tn >= now /\ now' = tn
       /\ IF Ev.ok
            THEN /\ Judge(\A i \in mine : PassCandsT(i, b, at(i)) # {}, HintDecision(res, b))
                 /\ cand' = [i \in DOMAIN cand |-> IF i \in mine THEN Keep(i, PassCandsT(i, b, at(i))) ELSE cand[i]]
                 /\ adm' = [adm EXCEPT ![res] = Admit(@, tn, b)]          \* admitted: recorded with its batch
            ELSE /\ Judge(/\ Ev.bt = "flow"
                          /\ Ev.rule \in mine
                          /\ \A i \in mine : i < Ev.rule => PassCandsT(i, b, at(i)) # {}
                          /\ BlockCandsT(Ev.rule, b, Ev.val, at(Ev.rule)) # {},
                          HintDecision(res, b))
                 /\ cand' = [i \in DOMAIN cand |->
                                IF i \in mine /\ i < Ev.rule THEN Keep(i, PassCandsT(i, b, at(i)))
                                ELSE IF i = Ev.rule /\ i \in mine THEN Keep(i, BlockCandsT(i, b, Ev.val, at(i)))
                                ELSE cand[i]]
                 /\ adm' = adm                                             \* rejected: no quota consumed
    /\ (failed' \/ GeoDrift(cand'))
    /\ UNCHANGED <<rs, g>>

TTick ==
    /\ IsEvent("tick")
    /\ Ev.t >= now
    /\ now' = Ev.t
    /\ adm' = [r \in DOMAIN adm |-> Prune(adm[r], 1, g.maxI, Ev.t)]
    /\ UNCHANGED <<rs, cand, g, failed>>

\* the rule list is replaced under traffic (the driver never reloads in a millisecond in which a token was admitted, so
\* "recorded at or after the reload" is "recorded at a time >= now")
Compatible(o, n) == o.res = n.res /\ o.ref = n.ref /\ o.I = n.I
TReload ==
    /\ IsEvent("reload")
    /\ Ev.t = now
    /\ rs' = Ev.rules
    /\ cand' = [i \in 1..Len(Ev.rules) |->
                   LET kept == UNION { { c.since : c \in cand[j] } : j \in { k \in DOMAIN rs : Compatible(rs[k], Ev.rules[i]) } }
                   IN  { [bl |-> d, since |-> s] : d \in Divisors(Ev.rules[i].I), s \in {0, now} \cup kept }]
    \* Scenarios never reload in a millisecond in which the PROPERTY admits a token.  When the real code admitted one there
    \* all the same (a different - still conforming - bucket geometry, or a deviation that was reported at that request), "recorded
    \* at or after the reload" can no longer be told from the recorded times: the rest of this trace is not judged.
    /\ failed' = (failed \/ \E r \in DOMAIN adm : now \in DOMAIN adm[r])
    /\ UNCHANGED <<now, adm, g>>

---------------------------------------------------------------------------
(* k callers inside the admission path at the same time (clock fixed).     *)
(* Property level: for every rule of the resource that counts the resource *)
(* itself, window + admitted <= T + (k-1) * largest batch; and nobody is   *)
(* rejected for nothing: a rejected caller would exceed some rule even if  *)
(* every token admitted to the others were already recorded ... or rather  *)
(* MUST exceed it for the largest window content it can possibly have read.*)
(* Implementation level (DRIFT, reported, never a verdict): with a single  *)
(* own-resource rule the outcomes equal AdmitOps!PathReplay of sched.      *)

RECURSIVE SumIf(_, _, _)
SumIf(bs, oks, S) == IF S = {} THEN 0
                     ELSE LET i == CHOOSE x \in S : TRUE IN (IF oks[i] THEN bs[i] ELSE 0) + SumIf(bs, oks, S \ {i})

ConcOK(res, bs, oks) ==
    LET K    == Len(bs)
        mine == RulesOf(rs, res)
        maxb == MaxOf({ bs[i] : i \in 1..K })
        tot  == SumIf(bs, oks, 1..K)
        Own(i) == Counted(rs[i]) = res
    IN  /\ \A i \in mine : Own(i) =>
              \E bl \in cand[i] :
                  LET s == SumFor(i, bl, adm) IN
                  \/ (s + tot) * rs[i].den <= rs[i].num + (K - 1) * maxb * rs[i].den
                  \/ tot = 0
        /\ \A c \in 1..K : ~oks[c] =>
              \E i \in mine : \E bl \in cand[i] :
                  Exceeds(SumFor(i, bl, adm) + (IF Own(i) THEN SumIf(bs, oks, (1..K) \ {c}) ELSE 0), bs[c], Thr(i))

Predicted(res, bs, sched) ==
    LET i == CHOOSE x \in RulesOf(rs, res) : TRUE IN
    PathReplay(PathInit(SumFor(i, Hint(i), adm), Len(bs)), sched, 1, bs, Thr(i), "qps")

Drift(res, bs, sched, oks) ==
    LET mine == RulesOf(rs, res) IN
    IF Cardinality(mine) = 1 /\ (\A i \in mine : Counted(rs[i]) = res) /\ GoodSched(sched, Len(bs))
      THEN (IF Predicted(res, bs, sched).dec = oks THEN TRUE
            ELSE PrintT("DRIFT " \o ToString(g.tr) \o " " \o ToString(l) \o " " \o ToJson(Predicted(res, bs, sched).dec)))
      ELSE TRUE

TConc ==
    /\ IsEvent("conc")
    /\ Judge(ConcOK(Ev.res, Ev.bs, Ev.oks),
             [bound |-> "window + admitted <= T + (k-1)*maxbatch, and no spurious rejection"])
    /\ (failed \/ Drift(Ev.res, Ev.bs, Ev.sched, Ev.oks))
    /\ adm' = [adm EXCEPT ![Ev.res] = Admit(@, now, SumIf(Ev.bs, Ev.oks, 1..Len(Ev.bs)))]
    /\ UNCHANGED <<now, rs, cand, g>>

TInit == l = 1 /\ now = 0 /\ rs = << >> /\ adm = << >> /\ cand = << >> /\ g = [tr |-> 0, maxI |-> 0] /\ failed = FALSE
TNext == TNew \/ TReq \/ TTick \/ TConc \/ TReload
TSpec == TInit /\ [][TNext]_tvars
=============================================================================
