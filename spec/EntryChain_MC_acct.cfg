SPECIFICATION Spec
CONSTANTS
  Resources = {"r1", "r2"}
  Batches = {1, 2}
  Orders <- MCNone
  PreBehs <- MCNone
  RuleBehs <- MCNone
  StatBehs <- MCNone
  MaxPre = 0
  MaxRule = 0
  MaxStat = 0
  InitChain <- MCAcctChain
  InitSlots = 5
  Scripts = {"pass", "block", "panicPre", "panicRule"}
  XHs = {""}
  Inbs <- MCBool
  ErrToks = {"x"}
  Steps <- MCSteps
  MaxEntries = 2
  MaxLive = 2
  MaxOps = 5
  MaxT <- MCMaxT
  PBL = 2
  VInt = 4
  PInt = 8
VIEW view
INVARIANTS TypeOK ChainSorted OrderOK StatToldOnce BlockErrOK CompletionTold Conservation Gauge Quiescent CompletionOnce CompletedTokens
PROPERTIES BlockErrStable LateCallsInert
CHECK_DEADLOCK FALSE
