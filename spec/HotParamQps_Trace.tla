-------------------------- MODULE HotParamQps_Trace --------------------------
(***************************************************************************)
(* Validation of executions of the real hot-parameter QPS code against the *)
(* ENVELOPES of C05 (HotParamQpsOps part 1).                               *)
(*                                                                         *)
(* The driver (harness/cmd/c05) loads one QPS rule, issues requests for    *)
(* several values at chosen virtual times through api.Entry(WithArgs /     *)
(* WithAttachments, WithBatchCount) and records the decision and the       *)
(* Sleep the library asked for (the throttling wait).  Every request that  *)
(* selects a value is ALSO issued, at the same instant, on a second        *)
(* resource that carries the same rule but only ever sees that one value   *)
(* (its own sub-history): field "solo".                                    *)
(*                                                                         *)
(* The property is a RELATION: any decision inside the envelopes is        *)
(* accepted.  Judged per request (state follows the observed outcome):     *)
(*   E1, E2   admitted tokens stay inside the envelopes      (reject)      *)
(*   E3       a value idle > duration is granted b <= threshold (reject)   *)
(*   P1, P2   spacing of scheduled pass times / wait < maxQueue (throttle) *)
(*   noarg    a request without the selected argument is admitted at once  *)
(*   indep    decision = decision of the value's own sub-history           *)
(* E1, E2, P1 and indep are only demanded while the configured capacity is *)
(* not exceeded for the value: until a request of the value arrives when   *)
(* at least `capacity' distinct OTHER values have been used since its last *)
(* admitted request (recency rank, HotParamQpsOps; sticky: lost[v]).  The  *)
(* capacity is EffCap(configured ParamsMaxCapacity, duration) - explicit,  *)
(* however large, or the documented default.                               *)
(*                                                                         *)
(* Event "flood": n requests (batch 1) with n FRESH values, recorded as    *)
(* one line (adm = how many were admitted, wait = total Sleep): every one  *)
(* of them must be admitted at once when the general threshold is >= 1     *)
(* (FloodOK), and they add n to the rank of every other value - a flood    *)
(* that keeps a value's rank BELOW the capacity must not change the        *)
(* decisions for it (E1 / E2 / P1 / indep are judged as before).           *)
(*                                                                         *)
(* SEVERAL RULES ON ONE RESOURCE, REPLACED UNDER TRAFFIC (events "mnew",    *)
(* "mreload", "mreq"; reject mode; HotParamQpsReload.tla is the design     *)
(* model): the rules [idx, key, T] select different arguments; a refused   *)
(* request records which rule refused (blk = its position).  Judged per    *)
(* rule with its OWN books: the refusing rule must not refuse a value that *)
(* has been idle for longer than the duration FOR THAT RULE a batch within *)
(* the rule's threshold (E3), where the rule's history after a reload is   *)
(* the most recent of the candidates (kept books of any old rule / fresh). *)
(*                                                                         *)
(* Informational: the implementation-shaped layer (HotParamQpsOps part 2)  *)
(* is run alongside; the first disagreement of a trace prints "DRIFT ..."  *)
(* (conformance drift, never a violation).                                 *)
(***************************************************************************)
EXTENDS HotParamQpsOps, TLC, Json

Trace == ndJsonDeserialize("trace.ndjson")
AllVals == {"a", "b", "c", "d", "e", "x", "y", "z"}

VARIABLES
    l, now,
    first, last, adm, sched,    \* property-level history per value
    since, fl, lost,            \* recency rank per value (named others / fresh flood values), capacity exceeded for it
    tc, kc,                     \* implementation-shaped layer (drift only)
    g,                          \* [tr, cf, idx, key] of the running trace
    mr, mlast,                  \* several rules: the rules in force <<[idx, key, T]>>, per rule [value -> time last charged, -1]
    failed, drifted

tvars == <<l, now, first, last, adm, sched, since, fl, lost, tc, kc, g, mr, mlast, failed, drifted>>
Ev == Trace[l]
HasF(r, f) == f \in DOMAIN r

Judge(ok, expected) ==
    IF failed \/ ok THEN failed' = failed
    ELSE /\ failed' = TRUE
         /\ PrintT("MISMATCH " \o ToString(g.tr) \o " " \o ToString(l) \o " " \o ToJson(expected))

Drift(same) ==
    IF drifted \/ failed \/ same THEN drifted' = drifted
    ELSE /\ drifted' = TRUE
         /\ PrintT("DRIFT " \o ToString(g.tr) \o " " \o ToString(l))

IsEvent(op) == l <= Len(Trace) /\ Ev.op = op /\ l' = l + 1

TNew ==
    /\ IsEvent("new")
    /\ now' = 0
    /\ first' = [v \in AllVals |-> -1]
    /\ last' = [v \in AllVals |-> -1]
    /\ adm' = [v \in AllVals |-> << >>]
    /\ sched' = [v \in AllVals |-> << >>]
    /\ since' = [v \in AllVals |-> {}]
    /\ fl' = [v \in AllVals |-> 0]
    /\ lost' = [v \in AllVals |-> FALSE]
    /\ tc' = EmptyCache /\ kc' = EmptyCache
    \* pcap = Rule.ParamsMaxCapacity as loaded (0 = not configured); the capacity the property speaks of follows from it
    /\ g' = [tr |-> Ev.tr, idx |-> Ev.idx, key |-> Ev.key,
             cf |-> [Ev.cf EXCEPT !.cap = EffCap(IF HasF(Ev, "pcap") THEN Ev.pcap ELSE Ev.cf.cap, Ev.cf.D, LibCapBase, LibCapMax)]]
    /\ failed' = FALSE /\ drifted' = FALSE
    /\ UNCHANGED <<mr, mlast>>

\* a request whose selected argument is v
ReqValue(v) ==
    LET cf     == g.cf
        t      == Ev.t
        b      == Ev.b
        ok     == Ev.ok
        wait   == Ev.wait
        first2 == IF first[v] < 0 THEN t ELSE first[v]
        adm2   == IF ok /\ cf.mode = "reject" THEN Append(adm[v], [t |-> t, b |-> b]) ELSE adm[v]
        sched2 == IF ok /\ cf.mode = "throttle" THEN Append(sched[v], [at |-> t + wait, b |-> b]) ELSE sched[v]
        lost2  == lost[v] \/ MayForget(cf, since, fl, v, first[v] >= 0)
        within == ~lost2
        why    == IF HasF(Ev, "panic") /\ Ev.panic THEN "panic"
                  ELSE IF cf.mode = "reject" /\ wait # 0 THEN "reject-mode-wait"
                  ELSE IF cf.mode = "reject" /\ ok /\ within /\ ~E1(cf, v, first2, adm2, t) THEN "E1"
                  ELSE IF cf.mode = "reject" /\ ok /\ within /\ ~E2(cf, v, adm2) THEN "E2"
                  ELSE IF cf.mode = "reject" /\ ~ok /\ E3Premise(cf, v, last[v], t, b) THEN "E3"
                  ELSE IF cf.mode = "throttle" /\ ok /\ within /\ ~P1(cf, v, sched2) THEN "P1"
                  ELSE IF cf.mode = "throttle" /\ ok /\ ~P2(cf, wait) THEN "P2"
                  ELSE IF within /\ HasF(Ev, "solo") /\ (Ev.solo.ok # ok \/ Ev.solo.wait # wait) THEN "indep"
                  ELSE "ok"
        r      == Step(cf, tc, kc, v, b, t)
    IN  /\ first' = [first EXCEPT ![v] = first2]
        /\ last' = [last EXCEPT ![v] = t]
        /\ adm' = [adm EXCEPT ![v] = adm2]
        /\ sched' = [sched EXCEPT ![v] = sched2]
        /\ lost' = [lost EXCEPT ![v] = lost2]
        /\ since' = SinceAfter(since, v, ok, first[v] >= 0)
        /\ fl' = FlAfter(fl, v, ok, first[v] >= 0)
        /\ tc' = r.tc /\ kc' = r.kc
        /\ Judge(why = "ok", [why |-> why, v |-> v, thr |-> Tv(cf, v), within |-> within, first |-> first2,
                              rank |-> IF first[v] >= 0 THEN Rank(since, fl, v) ELSE 0, cap |-> cf.cap,
                              idle |-> IF last[v] < 0 THEN -1 ELSE t - last[v],
                              tokens |-> SumB(adm2), impl |-> [ok |-> r.ok, wait |-> r.wait]])
        /\ Drift(r.ok = ok /\ r.wait = wait)

TReq ==
    /\ IsEvent("req")
    /\ Ev.t >= now
    /\ now' = Ev.t
    /\ LET v == Sel(Ev.args, Ev.atts, g.idx, g.key) IN
       /\ v = Ev.v                                   \* (well-formedness of the trace: the driver routed the solo request by it)
       /\ IF v = None
            THEN /\ Judge(Ev.ok /\ Ev.wait = 0 /\ ~(HasF(Ev, "panic") /\ Ev.panic), [why |-> "noarg"])
                 /\ UNCHANGED <<first, last, adm, sched, since, fl, lost, tc, kc, drifted>>
            ELSE v \in AllVals /\ ReqValue(v)
    /\ UNCHANGED <<g, mr, mlast>>

\* n requests with n fresh values (one summary line)
TFlood ==
    /\ IsEvent("flood")
    /\ Ev.t >= now
    /\ now' = Ev.t
    /\ Ev.n >= 1 /\ Ev.adm >= 0 /\ Ev.adm <= Ev.n
    /\ Sel(Ev.args, Ev.atts, g.idx, g.key) = "*"       \* (well-formedness: the fresh value is the selected argument)
    /\ LET cf  == g.cf
           r   == FloodStep(cf, tc, kc, Ev.n)
           why == IF HasF(Ev, "panic") /\ Ev.panic THEN "panic"
                  ELSE IF cf.mode = "reject" /\ Ev.wait # 0 THEN "reject-mode-wait"
                  ELSE IF FloodOK(cf, Ev.n, Ev.adm, Ev.wait) THEN "ok"
                  ELSE IF cf.T <= 0 THEN "E1"
                  ELSE IF cf.mode = "reject" THEN "E3" ELSE "indep"
       IN  /\ fl' = FlAfterFlood(fl, Ev.n)
           /\ tc' = r.tc /\ kc' = r.kc
           /\ Judge(why = "ok", [why |-> why, v |-> "fresh values of a flood", thr |-> cf.T, n |-> Ev.n, admitted |-> Ev.adm,
                                 cap |-> cf.cap, impl |-> [adm |-> r.adm]])
           /\ Drift(r.adm = Ev.adm /\ Ev.wait = 0)
    /\ UNCHANGED <<first, last, adm, sched, since, lost, g, mr, mlast>>

\* ---- several rules on one resource, replaced under traffic (design model: HotParamQpsReload.tla) --------------
Max2(a, b) == IF a >= b THEN a ELSE b
RECURSIVE MaxOver(_, _)
MaxOver(ls, v) == IF ls = << >> THEN -1 ELSE Max2(Head(ls)[v], MaxOver(Tail(ls), v))
RuleCf(r) == [g.cf EXCEPT !.T = r.T]
SingleVars == <<first, last, adm, sched, since, fl, lost, tc, kc, drifted>>

TMNew ==
    /\ IsEvent("mnew")
    /\ now' = 0
    /\ Ev.cf.mode = "reject" /\ Ev.cf.cap >= 100        \* (the capacity plays no part in these traces: a handful of values)
    /\ g' = [tr |-> Ev.tr, cf |-> Ev.cf, idx |-> 0, key |-> ""]
    /\ mr' = Ev.rules
    /\ mlast' = [i \in DOMAIN Ev.rules |-> [v \in AllVals |-> -1]]
    /\ failed' = FALSE
    /\ UNCHANGED SingleVars

\* one push replaces the rule list: every new rule keeps the books of an old rule or starts fresh (not prescribed which):
\* its history is the pointwise latest of the candidates
TMReload ==
    /\ IsEvent("mreload")
    /\ Ev.t >= now /\ now' = Ev.t
    /\ mr' = Ev.rules
    /\ mlast' = [i \in DOMAIN Ev.rules |-> [v \in AllVals |-> MaxOver(mlast, v)]]
    /\ Judge(Ev.loaded = Len(Ev.rules), [why |-> "reload", loaded |-> Ev.loaded])
    /\ UNCHANGED <<g>> /\ UNCHANGED SingleVars

TMReq ==
    /\ IsEvent("mreq")
    /\ Ev.t >= now /\ now' = Ev.t
    /\ LET t    == Ev.t
           vs(i) == Sel(Ev.args, Ev.atts, mr[i].idx, mr[i].key)
           k    == Ev.blk
           why  == IF HasF(Ev, "panic") /\ Ev.panic THEN "panic"
                   ELSE IF Ev.wait # 0 THEN "reject-mode-wait"
                   ELSE IF Ev.ok THEN "ok"
                   ELSE IF k \notin DOMAIN mr THEN "unknown-rule"
                   ELSE IF vs(k) = None THEN "noarg"
                   ELSE IF E3Premise(RuleCf(mr[k]), vs(k), mlast[k][vs(k)], t, Ev.b) THEN "E3"
                   ELSE "ok"
       IN  /\ \A i \in DOMAIN mr : vs(i) = None \/ vs(i) \in AllVals
           /\ mlast' = [i \in DOMAIN mr |-> IF vs(i) = None THEN mlast[i] ELSE [mlast[i] EXCEPT ![vs(i)] = t]]
           /\ Judge(why = "ok", [why |-> why, rule |-> IF k \in DOMAIN mr THEN mr[k] ELSE << >>,
                                 v |-> IF k \in DOMAIN mr THEN vs(k) ELSE None,
                                 thr |-> IF k \in DOMAIN mr THEN mr[k].T ELSE -1,
                                 idle |-> IF k \in DOMAIN mr /\ vs(k) # None /\ mlast[k][vs(k)] >= 0 THEN t - mlast[k][vs(k)] ELSE -1])
    /\ UNCHANGED <<g, mr>> /\ UNCHANGED SingleVars

TInit ==
    /\ l = 1 /\ now = 0
    /\ first = [v \in AllVals |-> -1] /\ last = [v \in AllVals |-> -1]
    /\ adm = [v \in AllVals |-> << >>] /\ sched = [v \in AllVals |-> << >>]
    /\ since = [v \in AllVals |-> {}] /\ fl = [v \in AllVals |-> 0] /\ lost = [v \in AllVals |-> FALSE]
    /\ tc = EmptyCache /\ kc = EmptyCache
    /\ g = [tr |-> 0, cf |-> << >>, idx |-> 0, key |-> ""]
    /\ mr = << >> /\ mlast = << >>
    /\ failed = FALSE /\ drifted = FALSE
TNext == TNew \/ TReq \/ TFlood \/ TMNew \/ TMReload \/ TMReq
TSpec == TInit /\ [][TNext]_tvars
=============================================================================
