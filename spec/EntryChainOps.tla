---------------------------- MODULE EntryChainOps ----------------------------
(***************************************************************************)
(* Constant-level operators shared by EntryChain (design-level spec,       *)
(* model-checked) and EntryChain_Trace (validation of executions of the    *)
(* real code): the slot-chain semantics of C16 and the accounting rules of *)
(* C01, as literal transcriptions of the two statements.                   *)
(*                                                                         *)
(* A slot is [ord, id, beh]; ids are handed out in insertion order, so     *)
(* "ascending order value, insertion order on ties" is the lexicographic   *)
(* order on <<ord, id>>.  A chain is [pre, rule, stat], three sequences.   *)
(*                                                                         *)
(* Behaviours (beh):                                                       *)
(*   prepare slots : pass | real | panic | script                          *)
(*   rule slots    : pass | ctx | nil | wait | block | panic | script      *)
(*   stat slots    : pass | real | panic (in OnEntryPassed/Blocked)        *)
(*                   | panicC (in OnCompleted)                             *)
(* "script" follows the scripted outcome `so' of the Entry call:           *)
(*   pass | block | panicPre | panicRule  ("chain" = nothing scripted)     *)
(***************************************************************************)
EXTENDS WindowRef, TLC

Kinds == {"pass", "block", "complete", "error", "rt"}
InNode == "_in"                     \* the inbound total

EmptyChain == [pre |-> << >>, rule |-> << >>, stat |-> << >>]

---------------------------------------------------------------------------
(* C16: chain assembly and execution                                       *)

Before(a, b) == a.ord < b.ord \/ (a.ord = b.ord /\ a.id < b.id)
SortedSeq(seq) == \A i, j \in DOMAIN seq : i < j => Before(seq[i], seq[j])

\* Add*Slot: the new slot (it has the largest id) goes behind every slot whose order value is <= its own
Insert(seq, s) ==
    LET n == Cardinality({ i \in DOMAIN seq : seq[i].ord <= s.ord }) IN
    SubSeq(seq, 1, n) \o << s >> \o SubSeq(seq, n + 1, Len(seq))

\* effective behaviour of slot s of kind k during the ENTRY phase: "pass" | "block" | "panic"
Eff(k, s, so) ==
    IF s.beh = "script" THEN
        (IF k = "pre" THEN (IF so = "panicPre" THEN "panic" ELSE "pass")
         ELSE IF k = "rule" THEN (IF so = "block" THEN "block" ELSE IF so = "panicRule" THEN "panic" ELSE "pass")
         ELSE "pass")
    ELSE IF s.beh \in {"block", "panic"} THEN s.beh
    ELSE "pass"                      \* pass, real, ctx, nil (= pass), wait (not a block), panicC

\* index of the first slot of seq whose effective behaviour is in Stop (0 = none)
First(k, seq, so, Stop) ==
    LET S == { i \in DOMAIN seq : Eff(k, seq[i], so) \in Stop } IN
    IF S = {} THEN 0 ELSE CHOOSE i \in S : \A j \in S : i <= j

Call(k, id, m) == [k |-> k, id |-> id, m |-> m]
CallsOf(k, seq, n, m) == [i \in 1..n |-> Call(k, seq[i].id, m)]

\* One Entry through chain ch: the calls made (the run stops at the first panic), the outcome
\* "pass" | "block" | "panic" (= admitted because of a panic), the id of the blocking slot (0 = none) and
\* whether the panic (if any) struck before the statistic phase.
RunChain(ch, so) ==
    LET ip      == First("pre", ch.pre, so, {"panic"})
        ir      == First("rule", ch.rule, so, {"panic", "block"})
        blocked == ir > 0 /\ Eff("rule", ch.rule[ir], so) = "block"
        m       == IF blocked THEN "blocked" ELSE "passed"
        is      == First("stat", ch.stat, so, {"panic"})
        c1      == CallsOf("pre", ch.pre, Len(ch.pre), "prepare")
        c2      == c1 \o CallsOf("rule", ch.rule, IF ir > 0 THEN ir ELSE Len(ch.rule), "check")
        bl      == IF blocked THEN ch.rule[ir].id ELSE 0
    IN  IF ip > 0
          THEN [calls |-> CallsOf("pre", ch.pre, ip, "prepare"), out |-> "panic", blk |-> 0, early |-> TRUE]
        ELSE IF ir > 0 /\ ~blocked
          THEN [calls |-> c2, out |-> "panic", blk |-> 0, early |-> TRUE]
        ELSE IF is > 0
          THEN [calls |-> c2 \o CallsOf("stat", ch.stat, is, m), out |-> "panic", blk |-> bl, early |-> FALSE]
        ELSE [calls |-> c2 \o CallsOf("stat", ch.stat, Len(ch.stat), m),
              out |-> IF blocked THEN "block" ELSE "pass", blk |-> bl, early |-> FALSE]

\* completion calls at the first Exit of an entry: every statistic slot in order, up to a panicking one
ComplCalls(ch) ==
    LET S == { i \in DOMAIN ch.stat : ch.stat[i].beh = "panicC" }
        n == IF S = {} THEN Len(ch.stat) ELSE CHOOSE i \in S : \A j \in S : i <= j
    IN  CallsOf("stat", ch.stat, n, "completed")
HasPanicC(ch) == \E i \in DOMAIN ch.stat : ch.stat[i].beh = "panicC"

\* position of slot id in its sequence (0 = unknown slot)
PosIn(seq, id) == LET S == { i \in DOMAIN seq : seq[i].id = id } IN IF S = {} THEN 0 ELSE CHOOSE i \in S : TRUE
KindRank(k) == IF k = "pre" THEN 1 ELSE IF k = "rule" THEN 2 ELSE 3
SeqOf(ch, k) == IF k = "pre" THEN ch.pre ELSE IF k = "rule" THEN ch.rule ELSE ch.stat

\* What every call log of one Entry must satisfy, panics or not: phases in order (prepare, rule check,
\* statistics), within a phase known slots in strictly ascending <<ord, id>> order (hence each at most once),
\* and no rule-check slot after one that blocked.
WellFormed(calls, ch, so) ==
    /\ \A i \in DOMAIN calls : PosIn(SeqOf(ch, calls[i].k), calls[i].id) > 0
    /\ \A i, j \in DOMAIN calls : i < j =>
          /\ KindRank(calls[i].k) <= KindRank(calls[j].k)
          /\ calls[i].k = calls[j].k => PosIn(SeqOf(ch, calls[i].k), calls[i].id) < PosIn(SeqOf(ch, calls[j].k), calls[j].id)
          /\ (calls[i].k = "rule" /\ calls[j].k = "rule")
                => Eff("rule", ch.rule[PosIn(ch.rule, calls[i].id)], so) # "block"

Proj(c) == Call(c.k, c.id, c.m)

\* The C16 relation between an observed call log of Entry and the chain:
\*  - until the first panic is raised the log is exactly the run of RunChain (an implementation cannot
\*    foresee a panic, and absent panics the statement fixes every call);
\*  - without a panic nothing else is called; after a panic the statement leaves the remaining calls open,
\*    they only have to be well-formed.
EntryLogOK(calls, ch, so) ==
    LET r == RunChain(ch, so) IN
    /\ Len(calls) >= Len(r.calls)
    /\ \A i \in DOMAIN r.calls : Proj(calls[i]) = r.calls[i]
    /\ r.out # "panic" => Len(calls) = Len(r.calls)
    /\ WellFormed(calls, ch, so)

\* Completion calls observed at an Exit.  `must': the entry had passed and nothing panicked: every statistic slot
\* exactly once, in order.  Otherwise (entry admitted through a panic, or an exit handler / a completion
\* callback panics) the exact prefix up to the first panic and a well-formed remainder.
ExitLogOK(compl, ch, must, free) ==
    LET exp == ComplCalls(ch) IN
    /\ \A i \in DOMAIN compl : compl[i].k = "stat" /\ compl[i].m = "completed" /\ PosIn(ch.stat, compl[i].id) > 0
    /\ \A i, j \in DOMAIN compl : i < j => PosIn(ch.stat, compl[i].id) < PosIn(ch.stat, compl[j].id)
    /\ (must /\ ~free) => /\ Len(compl) >= Len(exp)
                          /\ \A i \in DOMAIN exp : Proj(compl[i]) = exp[i]
                          /\ ~HasPanicC(ch) => Len(compl) = Len(exp)
    /\ (~must /\ ~free) => compl = << >>

---------------------------------------------------------------------------
(* C01: accounting.  acc : node -> reference window function of WindowRef  *)

NodesOf(res, inb) == IF inb THEN {res, InNode} ELSE {res}

AddTo(a, N, pbl, t, k, amt) ==
    [n \in DOMAIN a |-> IF n \in N THEN RefAdd(a[n], Kinds, pbl, t, k, amt) ELSE a[n]]
Bump(c, N, d) == [n \in DOMAIN c |-> IF n \in N THEN c[n] + d ELSE c[n]]

\* a passed entry of b tokens / a blocked entry of b tokens
AccPass(a, N, pbl, t, b)  == AddTo(a, N, pbl, t, "pass", b)
AccBlock(a, N, pbl, t, b) == AddTo(a, N, pbl, t, "block", b)
\* the one completion of a passed entry: b completed tokens, its response time once, b error tokens if it
\* carries an error
AccComplete(a, N, pbl, t, b, rt, iserr) ==
    LET a1 == IF iserr THEN AddTo(a, N, pbl, t, "error", b) ELSE a
        a2 == AddTo(a1, N, pbl, t, "rt", rt)
    IN  AddTo(a2, N, pbl, t, "complete", b)
PruneAll(a, pbl, pint, t) == [n \in DOMAIN a |-> Prune(a[n], pbl, pint, t)]

\* what a user reads back from node n at time t over a view of length I
ReadSums(a, n, pbl, t, I) == [k \in Kinds |-> RefSum(a[n], pbl, t, I, k)]
=============================================================================
