----------------------------- MODULE Throttle_MC -----------------------------
EXTENDS Throttle
MCIv    == [x \in Callers |-> 2]
MCIv123 == [x \in Callers |-> ((x - 1) % 3) + 1]
view == <<last, now, seq, reqs, pc, cur, inv, loaded, est>>
=============================================================================
