----------------------------- MODULE Throttle_MC -----------------------------
EXTENDS Throttle
\* constant threshold 4 per statistic interval of 4 ticks: a batch of b owes b ticks (the configurations explored so far)
MCTh4   == [x \in Callers |-> <<4, 1>>]
MCBt2   == [x \in Callers |-> 2]
MCBt123 == [x \in Callers |-> ((x - 1) % 3) + 1]
MCBt1   == [x \in Callers |-> 1]
MCBt112 == [x \in Callers |-> <<1, 1, 2>>[((x - 1) % 3) + 1]]
\* the threshold differs from request to request (SI = 4 ticks)
\*   V: thresholds 4, 2, 2, 1 with batches 1, 1, 2, 1        -> spacings 1, 2, 4, 4
\*   W: thresholds 1, 4, 1/2, 2 with batches 1, 2, 1, 0      -> spacings 4, 2, (batch over threshold), (batch 0)
MCThV   == [x \in Callers |-> <<<<4, 1>>, <<2, 1>>, <<2, 1>>, <<1, 1>>>>[((x - 1) % 4) + 1]]
MCBtV   == [x \in Callers |-> <<1, 1, 2, 1>>[((x - 1) % 4) + 1]]
MCThW   == [x \in Callers |-> <<<<1, 1>>, <<4, 1>>, <<1, 2>>, <<2, 1>>>>[((x - 1) % 4) + 1]]
MCBtW   == [x \in Callers |-> <<1, 2, 1, 0>>[((x - 1) % 4) + 1]]
\* the rule is replaced under traffic (first rule: SI, MaxQ, threshold factor 1); every reload changes EXACTLY ONE parameter
\* of the rule in force, or none
MCNoReload == << >>
P(s, q, tmn, tmd) == [si |-> s, mq |-> q, tm |-> <<tmn, tmd>>]
MCRlSIup   == << P(2 * SI, MaxQ, 1, 1) >>                            \* statistic interval doubled: every spacing doubles
MCRlSIdown == << P(SI \div 2, MaxQ, 1, 1) >>                         \* statistic interval halved: every spacing halves
MCRlMQ     == << P(SI, 1, 1, 1) >>                                   \* queueing limit cut to 1 tick
MCRlTM     == << P(SI, MaxQ, 1, 2) >>                                \* threshold halved: every spacing doubles
MCRlSame   == << P(SI, MaxQ, 1, 1), P(2 * SI, MaxQ, 1, 1) >>         \* a reload that changes nothing, then the interval
MCRlBack   == << P(2 * SI, MaxQ, 1, 1), P(SI, MaxQ, 1, 1) >>         \* the interval doubled and back
view == <<last, now, seq, reqs, frozen, ep, rule, ck, ckp, pc, cur, inv, loaded, est, ge, rp, k, cp, n>>
=============================================================================
