---------------------------- MODULE MetricPipeline ----------------------------
(* Bounded model of the aggregator protocol over one resource: as long as two aggregations are less than a whole array  *)
(* length apart, every second with traffic that lies before the second of the last aggregation is logged exactly once,  *)
(* with the true totals of that second (`truth' is a ghost keyed by second).                                            *)
EXTENDS MetricPipelineOps, Sequences, TLC

CONSTANTS Steps, Batches, MaxOps, MaxT, MaxGap
VARIABLES P, truth, nid, nops, lastAgg, h
vars == <<P, truth, nid, nops, lastAgg, h>>
view == <<P, truth, nid, nops, lastAgg>>
Res1 == {"a"}
Zero == [pass |-> 0, block |-> 0, complete |-> 0, error |-> 0, rt |-> 0, conc |-> 0]
Bump(tr, t, f, n) == LET s == Align(t, SEC)  old == IF s \in DOMAIN tr THEN tr[s] ELSE Zero IN
                     [x \in DOMAIN tr \cup {s} |-> IF x = s THEN [old EXCEPT ![f] = @ + n] ELSE tr[x]]
BumpMax(tr, t, c) == LET s == Align(t, SEC)  old == IF s \in DOMAIN tr THEN tr[s] ELSE Zero IN
                     [x \in DOMAIN tr \cup {s} |-> IF x = s THEN [old EXCEPT !.conc = Max2(@, c)] ELSE tr[x]]

Init == /\ P = [now |-> 1250, ref |-> [r \in Res1 |-> << >>], infl |-> [r \in Res1 |-> 0], ent |-> << >>, lastFetch |-> 1000, logged |-> {}]
        /\ truth = << >> /\ nid = 0 /\ nops = 0 /\ lastAgg = 1250 /\ h = << >>
Pass(b) == /\ nops < MaxOps /\ nid' = nid + 1 /\ nops' = nops + 1
           /\ P' = OnPass(P, nid + 1, "a", b)
           /\ truth' = BumpMax(Bump(truth, P.now, "pass", b), P.now, P.infl["a"] + 1)
           /\ h' = Append(h, [op |-> "enter", id |-> nid + 1, res |-> "a", b |-> b]) /\ UNCHANGED lastAgg
Block(b) == /\ nops < MaxOps /\ nops' = nops + 1
            /\ P' = OnBlock(P, "a", b) /\ truth' = Bump(truth, P.now, "block", b)
            /\ h' = Append(h, [op |-> "enter", id |-> 0, res |-> "b", b |-> b]) /\ UNCHANGED <<nid, lastAgg>>
Exit(id, err) == /\ P' = OnExit(P, id, err)
                 /\ truth' = LET e == P.ent[id]
                                 t1 == IF err THEN Bump(truth, P.now, "error", e.b) ELSE truth
                             IN  Bump(Bump(t1, P.now, "rt", P.now - e.start), P.now, "complete", e.b)
                 /\ h' = Append(h, [op |-> "exit", id |-> id, err |-> err]) /\ UNCHANGED <<nid, nops, lastAgg>>
Tick(d) == /\ P.now + d <= MaxT /\ P.now + d - lastAgg <= MaxGap
           /\ P' = OnTick(P, P.now + d) /\ h' = Append(h, [op |-> "tick", d |-> d]) /\ UNCHANGED <<truth, nid, nops, lastAgg>>
Agg == /\ P' = OnAggregate(P, Res1) /\ lastAgg' = P.now
       /\ h' = Append(h, [op |-> "agg"]) /\ UNCHANGED <<truth, nid, nops>>
Next == \/ \E b \in Batches : Pass(b) \/ Block(b)
        \/ \E id \in DOMAIN P.ent, err \in BOOLEAN : Exit(id, err)
        \/ \E d \in Steps : Tick(d)
        \/ Agg
Spec == Init /\ [][Next]_vars

ItemOfTruth(s) == LET x == truth[s] IN
    [res |-> "a", ts |-> s, pass |-> x.pass, block |-> x.block, error |-> x.error, complete |-> x.complete,
     avgrt |-> IF x.complete > 0 THEN x.rt \div x.complete ELSE x.rt, conc |-> x.conc]
Active(s) == LET it == ItemOfTruth(s) IN it.pass + it.block + it.error + it.complete + it.avgrt + it.conc > 0
\* at most one item per second
LoggedOnce  == \A i, j \in P.logged : i.ts = j.ts => i = j
\* what is logged for a second is the truth of that second
LoggedTruth == \A i \in P.logged : i.ts \in DOMAIN truth /\ i = ItemOfTruth(i.ts)
\* every second with traffic before the second of the last fetch has been logged
LoggedAll   == \A s \in DOMAIN truth : (s < P.lastFetch /\ s >= 1000 /\ Active(s)) => \E i \in P.logged : i.ts = s
=============================================================================
