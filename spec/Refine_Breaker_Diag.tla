------------------------- MODULE Refine_Breaker_Diag -------------------------
(***************************************************************************)
(* Diagnosis of Refine_Breaker: WHICH steps of the concurrent breaker are  *)
(* not steps of the sequential one.  The step simulation of Refine_Breaker *)
(* is evaluated inside the next-state relation and its verdict kept in the *)
(* variable `tag'; a failing step prints ONE line                          *)
(*   TAG <<kind, label, from, to, earlyStale, earlyStalled, earlyPub,      *)
(*         failed request, completion already linearized,                  *)
(*         now < abstract deadline, now < physical deadline>>              *)
(* (kind "sim": Refines fails, "rej": only RejectJustified fails; label =  *)
(* the yield point the moving client resumed from) and the search does not *)
(* continue behind it (CONSTRAINT TagOK), so ONE exhaustive run lists      *)
(* every class of FIRST deviation of the model restricted by Restrict.     *)
(* With Restrict = {} the classes are: the two known findings of C12       *)
(* (tp_cas with earlyStale / earlyStalled) and the deviations described    *)
(* under "pushed", "alone", "park" and RejectRaced in Refine_Breaker; with *)
(* all five restrictions (and ProbeNum = 0) no line is printed.            *)
(* checks/REFINE.py (thorough) stores the histogram in its evidence.       *)
(***************************************************************************)
EXTENDS Refine_Breaker
VARIABLE tag
dvars == <<rvars, tag>>
Mover  == IF \E k \in Clients : pc'[k] # pc[k] THEN CHOOSE k \in Clients : pc'[k] # pc[k] ELSE 0
StepOK == Abs!Next \/ UNCHANGED Abs!vars
RejOK  == \A k \in Clients : (InTryPass(pc[k]) /\ pc'[k] = "Done") => rj[k]
DInit == RInit /\ tag = <<"ok">>
DNext == /\ RNext
         /\ tag' = IF StepOK /\ RejOK THEN <<"ok">>
                   ELSE <<IF StepOK THEN "rej" ELSE "sim", IF Mover = 0 THEN "clock" ELSE pc[Mover], state, state',
                          earlyStale', earlyStalled', earlyPub',
                          IF Mover = 0 THEN FALSE ELSE Errs[Mover], IF Mover = 0 THEN FALSE ELSE lin[Mover],
                          now < aRetry, now < retryAt>>
         /\ (tag'[1] # "ok" => PrintT("TAG " \o ToString(tag')))
DSpec == DInit /\ [][DNext]_dvars
TagOK == tag = <<"ok">>
dview == <<rview, tag>>
=============================================================================
