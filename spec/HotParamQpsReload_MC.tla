----------------------- MODULE HotParamQpsReload_MC -----------------------
(* Bounded instance of HotParamQpsReload: exhaustive TLC run, spec mutant, scenario generation (Emit). *)
EXTENDS HotParamQpsReload, Json
R(s, t) == [sel |-> s, T |-> t]
MCRuleSets == { <<R(0, 2)>>, <<R(1, 1)>>, <<R(0, 1), R(1, 1)>>, <<R(1, 1), R(0, 1)>>, <<R(0, 2), R(1, 1)>>, <<R(1, 2), R(0, 2)>> }
Emit == PrintT(ToJson(h'))
=============================================================================
