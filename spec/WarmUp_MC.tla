----------------------------- MODULE WarmUp_MC -----------------------------
(* Bounded configuration sets for WarmUp.  One module, several cfg files: the scope operator selects the class. *)
EXTENDS WarmUp, Json

Cfg(tn, td, p, c) == [tn |-> tn, td |-> td, p |-> p, c |-> c, cb |-> 0, si |-> 1000]
\* the same (reject) rules with another statistic interval
Win(S, I) == { [x EXCEPT !.si = i] : x \in S, i \in I }
\* the same rule enforced by the throttling checker
Thr(S) == { [x EXCEPT !.cb = 1] : x \in S }
\* T in {1/4, 1/2, 1, 2, 5, 10} x period {1, 2, 5} x cold {0 (default 3), 2, 3, 10}
MCConfigs == { Cfg(t[1], t[2], p, c) : t \in {<<1, 4>>, <<1, 2>>, <<1, 1>>, <<2, 1>>, <<5, 1>>, <<10, 1>>},
                                       p \in {1, 2, 5}, c \in {0, 2, 3, 10} }
\* thorough: more thresholds (fractional ones included), periods and cold factors
MCConfigsBig == { Cfg(t[1], t[2], p, c) : t \in {<<0, 1>>, <<1, 4>>, <<1, 2>>, <<3, 4>>, <<1, 1>>, <<3, 2>>, <<2, 1>>, <<5, 2>>, <<3, 1>>,
                                                <<4, 1>>, <<5, 1>>, <<6, 1>>, <<7, 1>>, <<10, 1>>, <<12, 1>>, <<20, 1>>},
                                          p \in {1, 2, 3, 5, 10}, c \in {0, 2, 3, 4, 5, 10} }

\* both control behaviours (the envelope invariants are stated for either)
MCConfigs2    == MCConfigs \cup Thr(MCConfigs) \cup Win(MCConfigs, {250, 500, 2000})
MCConfigsBig2 == MCConfigsBig \cup Thr(MCConfigsBig) \cup Win(MCConfigsBig, {100, 250, 500, 2000, 5000})
\* throttling rules only (mutant run)
MCConfigsThr  == Thr(MCConfigs)

\* reloads: a healthy rule replaced by another healthy rule with the same control behaviour and a changed threshold,
\* period or cold factor.  Small set (quick) / larger set (thorough).
RLConfigs    == { x \in { Cfg(t, 1, p, c) : t \in {2, 10}, p \in {1, 5}, c \in {2, 3} } \cup Thr({ Cfg(t, 1, p, c) : t \in {2, 10}, p \in {1, 5}, c \in {2, 3} }) : Healthy(x) }
RLConfigsBig == { x \in { Cfg(t[1], t[2], p, c) : t \in {<<2, 1>>, <<5, 2>>, <<5, 1>>, <<10, 1>>, <<20, 1>>}, p \in {1, 2, 5}, c \in {0, 2, 5} }
                       \cup Thr({ Cfg(t[1], t[2], p, c) : t \in {<<2, 1>>, <<5, 2>>, <<5, 1>>, <<10, 1>>, <<20, 1>>}, p \in {1, 2, 5}, c \in {0, 2, 5} }) : Healthy(x) }
NoTargets(c)    == {}
RLTargets(c)    == { x \in RLConfigs : x.cb = c.cb /\ x # c }
RLTargetsBig(c) == { x \in RLConfigsBig : x.cb = c.cb /\ x # c }

ScopeHealthy(c)      == Healthy(c)
ScopeDegenerate(c)   == Degenerate(c)
ScopeColdBelowOne(c) == ColdBelowOne(c)
ScopeNeverCold(c)    == NeverCold(c)
ScopeAll(c)          == TRUE

\* configurations for the lead run: the small set plus members of the class warningToken = 0 < maxToken
\* (the small set already holds members of Degenerate and of ColdBelowOne)
MCConfigsLead == MCConfigs \cup { Cfg(6, 1, 1, 10), Cfg(8, 1, 1, 10), Cfg(5, 1, 1, 5) }
                 \cup Win({ Cfg(10, 1, 1, 3), Cfg(10, 1, 2, 2), Cfg(5, 1, 2, 3), Cfg(2, 1, 2, 2) }, {2000, 5000})

\* LEAD run (InScope <- ScopeAll, ExcuseStuck = FALSE): never fails; every reachable state in which the transcription
\* leaves the envelope prints the demand history that leads to it and the clauses it breaks.  The check forces these
\* histories on the real code (a spec-level counterexample is a lead, not a verdict).
\* (only clauses with an observable consequence: an undefined or out-of-range threshold shows as an admission count)
\* (MCConfigsLead holds reject rules only: a throttling history is a relation - several admission counts per second - so a
\* history that leads to a broken clause in the model need not be the one the real code takes)
Broken == (IF AdmittedLeT THEN << >> ELSE <<"AdmittedLeT">>) \o (IF ColdAfterIdleObs THEN << >> ELSE <<"ColdAfterIdle">>)
          \o (IF WarmAfterSat THEN << >> ELSE <<"WarmAfterSat">>) \o (IF NoStarvation THEN << >> ELSE <<"NoStarvation">>)
Lead == Broken = << >> \/ PrintT("LEAD " \o ToJson([h |-> h, broken |-> Broken, stuck |-> last.stuck, undef |-> ~Defined(last.al)]))

Emit == PrintT(ToJson(h'))
=============================================================================
