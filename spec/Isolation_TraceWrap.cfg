SPECIFICATION TSpec
CONSTANT Wrap = TRUE
CHECK_DEADLOCK FALSE
