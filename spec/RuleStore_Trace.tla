--------------------------- MODULE RuleStore_Trace ---------------------------
(***************************************************************************)
(* Validation of executions of the real rule managers against the property *)
(* level of RuleStore (C13).  The conformance driver (harness/cmd/c13)     *)
(* records one ndjson line per LoadRules / LoadRulesOfResource /           *)
(* ClearRules / ClearRulesOfResource call: the token list passed, what the *)
(* call returned (changed, err, panicked), what the getters returned after *)
(* it, and the answers of the probing requests.  This module replays the   *)
(* operations on `want' / `lastOf' with the SAME operators RuleStore is    *)
(* model-checked with and judges every recorded observable.                *)
(*                                                                         *)
(* Many traces are concatenated; a "new" event starts a trace and carries  *)
(* the module descriptor: which tokens are invalid, the probe table        *)
(* (probe -> tokens whose rule refuses it; the driver owns one per module  *)
(* and per scenario, NEAR-EQUAL VARIANTS included: an error-count breaker  *)
(* with threshold 3 / 3.5 opens on the 3rd / 4th error) and `near'         *)
(* (variant token -> the token it differs from in one field).  A probe     *)
(* record carries either `by' (the token of the rule named by the block    *)
(* error, "pass" if admitted) or `hit' (refused or not, where a refusal    *)
(* names no rule).                                                         *)
(* PARAMETER SWEEP: in a scenario whose "new" event carries `params' the   *)
(* tokens P1, P2, ... are PARAMETRIC: params[P] is the rule record the     *)
(* driver built the rule from.  WHICH of them are valid is decided here    *)
(* (RuleStore!ValidRule, through IsValidEl), not by the driver; a valid    *)
(* one must be reported by the getters and ENFORCED: the probes of such a  *)
(* scenario carry `kind' - "req" (requests of b units at one instant on an *)
(* idle resource, each with its answer), "trip" (n requests complete       *)
(* together, `fails' of them with an error, then two observed requests),   *)
(* "eject" (the same against one node of an outlier resource) - and are    *)
(* judged request by request with RuleStore!Verdict / Trips / Ejects on    *)
(* the records of the rules in force.                                      *)
(* A mismatch is printed once per trace                                    *)
(* ("MISMATCH <trace> <line> <json>") and the rest of that trace skipped.  *)
(***************************************************************************)
EXTENDS RuleStore, Json

Trace == ndJsonDeserialize("trace.ndjson")

VARIABLES l, tr, failed
\* of RuleStore's variables only d, want, lastOf are used here (the others stay constant)
tvars == <<l, tr, failed, d, want, lastOf, raw, enforced, reported, ret, ident, h>>
Unused == UNCHANGED <<raw, enforced, reported, ret, ident, h>>

Ev == Trace[l]
Has(r, f) == f \in DOMAIN r
ToSet(s) == {s[i] : i \in DOMAIN s}

Judge(ok, expected) ==
    IF failed \/ ok THEN failed' = failed
    ELSE /\ failed' = TRUE
         /\ PrintT("MISMATCH " \o ToString(tr) \o " " \o ToString(l) \o " " \o ToJson(expected))

IsEvent(op) == l <= Len(Trace) /\ Ev.op = op /\ l' = l + 1

TNew ==
    /\ IsEvent("new")
    /\ tr' = Ev.tr
    /\ d' = [perRes |-> Ev.perres, invalid |-> ToSet(Ev.invalid), rejects |-> Ev.rejects, ordered |-> Ev.ordered,
             near |-> Ev.near, probes |-> Ev.probes, mod |-> Ev.mod,
             params |-> IF Has(Ev, "params") THEN Ev.params ELSE << >>]
    /\ want' = [r \in ToSet(Ev.res) |-> << >>]
    /\ lastOf' = [s \in ToSet(Ev.res) \cup {All} |-> None]
    /\ failed' = FALSE
    /\ Unused

\* ---- what one recorded operation must look like if the rules in force are w
W(w, r) == IF r \in DOMAIN w THEN w[r] ELSE << >>
RepOK(e, w)    == Has(e, "rep") => \A r \in DOMAIN e.rep : SameRules(d, e.rep[r], W(w, r))
AllOK(e, w)    == \A r \in DOMAIN e.all : SameRules(d, e.all[r], W(w, r))
\* ---- parameter sweep: the rules in force are enf (elements whose tokens are parametric), their records Rec(e)
Rec(e) == d.params[Tok(e)]
MinOf(S) == CHOOSE x \in S : \A y \in S : x <= y
\* does the rule at position j see the requests of probe p?  (a hotspot rule reads the attachment named by ITS key;
\* the probe aimed at token p.tok carries only that one)
Sees(enf, j, p) == d.mod # "hotspot" \/ (Tok(enf[j]) = p.tok /\ Rec(enf[j]).key)
\* request i of a "req" probe and all later ones: g / per = RuleStore's probe state (admitted by all / let pass per rule)
RECURSIVE ReqWalk(_, _, _, _, _)
ReqWalk(enf, p, i, g, per) ==
    IF i > Len(p.reqs) THEN TRUE
    ELSE LET q    == p.reqs[i]
             J    == DOMAIN enf
             v    == [j \in J |-> IF Sees(enf, j, p) THEN Verdict(d.mod, Rec(enf[j]), p.env, g, per[j], q.b) ELSE "admit"]
             \* positions the answer may name: a rule carrying that token that does not admit the request, no definite
             \* refusal in front of it (where list order is observable); "?" = a refusal that names no rule at all
             cand == {j \in J : /\ (Tok(enf[j]) = q.by \/ q.by = "?") /\ v[j] # "admit"
                                /\ (d.ordered => \A k \in 1..(j - 1) : v[k] # "refuse")}
             ok   == IF q.by = "pass" THEN \A j \in J : v[j] # "refuse" ELSE cand # {}
             jj   == IF q.by = "pass" \/ cand = {} THEN Len(enf) + 1 ELSE MinOf(cand)
             per2 == [j \in J |-> IF Sees(enf, j, p) /\ j < jj /\ d.ordered THEN PassBy(d.mod, Rec(enf[j]), per[j], q.b) ELSE per[j]]
             g2   == IF q.by = "pass" THEN [units |-> g.units + q.b, flight |-> g.flight + 1] ELSE g
         IN  ok /\ ReqWalk(enf, p, i + 1, g2, per2)
SweepOK(p, enf) ==
    CASE p.kind = "req"   -> ReqWalk(enf, p, 1, G0, [j \in DOMAIN enf |-> S0])
      [] p.kind = "trip"  -> \* every breaker is closed when the probe starts; afterwards the first rule (list order) that trips refuses
                             /\ \A i \in DOMAIN p.adm : p.adm[i] = "pass"
                             /\ LET hits == SelectSeq(enf, LAMBDA e : Trips(Rec(e), p.n, p.fails, p.rt))
                                    exp  == IF hits = << >> THEN "pass" ELSE Tok(hits[1])
                                IN  \A i \in DOMAIN p.obs : p.obs[i] = exp
      [] p.kind = "eject" -> p.hit = (\E i \in DOMAIN enf : Ejects(Rec(enf[i]), p.n, p.fails, p.rt, p.nodes))
ProbeOK(p, w)  == IF Has(p, "kind") THEN SweepOK(p, W(w, p.res))
                  ELSE IF Has(p, "hit") THEN p.hit = ProbeBlocked(W(w, p.res), ToSet(d.probes[p.p]))
                  ELSE p.by \in ProbeAnswers(d, W(w, p.res), ToSet(d.probes[p.p]))
ProbesOK(e, w) == \A i \in DOMAIN e.probes : ProbeOK(e.probes[i], w)
\* probes answered by a rule that is not in force although a NEAR-EQUAL variant of it is (same resource): the
\* controller of the earlier variant survived the reload (RuleStore!NoStaleVariant on the observed behaviour)
StaleProbes(e, w) == SelectSeq(e.probes, LAMBDA p : Has(p, "by") /\ StaleVariants(d, << <<p.by, p.res>> >>, W(w, p.res)) # {})
ObsOK(e, w)    == RepOK(e, w) /\ AllOK(e, w) /\ ProbesOK(e, w)

\* a load / clear: scope All or a resource, list of elements (empty for a clear)
TOp ==
    /\ (IsEvent("load") \/ IsEvent("clear"))
    /\ LET e       == Ev
           list    == e.list
           sc      == e.scope
           applied == WantAfter(d, want, sc, list)
           idn     == e.op = "load" /\ Identical(lastOf, sc, list)
           \* an operation that returns an error may leave its scope as it was (RejectedLoad)
           rejected == e.err /\ ~ObsOK(e, applied) /\ ObsOK(e, want)
           w       == IF rejected THEN want ELSE applied
           why     == SelectSeq(<<"panic", "unchanged", "reported", "getrules", "probe", "stale">>,
                         LAMBDA c : CASE c = "panic"     -> e.panic
                                      [] c = "unchanged" -> ~e.panic /\ idn /\ (e.changed \/ e.err)
                                      [] c = "reported"  -> ~e.panic /\ ~RepOK(e, w)
                                      [] c = "getrules"  -> ~e.panic /\ ~AllOK(e, w)
                                      [] c = "probe"     -> ~e.panic /\ ~ProbesOK(e, w)
                                      [] c = "stale"     -> ~e.panic /\ StaleProbes(e, w) # << >>)
       IN  /\ want' = w
           /\ lastOf' = IF e.err \/ e.panic THEN LastAfter(lastOf, sc, << >>) ELSE LastAfter(lastOf, sc, list)
           /\ Judge(why = << >>,
                    [why |-> why, mod |-> d.mod, op |-> e.op, want |-> w,
                     \* what exactly is wrong (used by the check to name the failing pattern)
                     badp   |-> IF e.panic THEN << >> ELSE SelectSeq(e.probes, LAMBDA p : ~ProbeOK(p, w)),
                     stale  |-> IF e.panic THEN << >> ELSE StaleProbes(e, w),
                     badrep |-> IF e.panic \/ ~Has(e, "rep") THEN {} ELSE {r \in DOMAIN e.rep : ~SameRules(d, e.rep[r], W(w, r))},
                     badall |-> IF e.panic THEN {} ELSE {r \in DOMAIN e.all : ~SameRules(d, e.all[r], W(w, r))}])
    /\ UNCHANGED <<tr, d>>
    /\ Unused

TInit ==
    /\ l = 1 /\ tr = 0 /\ failed = FALSE
    /\ d = [perRes |-> TRUE, invalid |-> {}, rejects |-> FALSE, ordered |-> TRUE, near |-> << >>, probes |-> << >>, mod |-> "", params |-> << >>]
    /\ want = << >> /\ lastOf = << >>
    /\ raw = << >> /\ enforced = << >> /\ reported = << >> /\ ret = [changed |-> FALSE, err |-> FALSE]
    /\ ident = FALSE /\ h = << >>
TNext == TNew \/ TOp
TSpec == TInit /\ [][TNext]_tvars
=============================================================================
