--------------------------- MODULE RuleStore_Trace ---------------------------
(***************************************************************************)
(* Validation of executions of the real rule managers against the property *)
(* level of RuleStore (C13).  The conformance driver (harness/cmd/c13)     *)
(* records one ndjson line per LoadRules / LoadRulesOfResource /           *)
(* ClearRules / ClearRulesOfResource call: the token list passed, what the *)
(* call returned (changed, err, panicked), what the getters returned after *)
(* it, and the answers of the probing requests.  This module replays the   *)
(* operations on `want' / `lastOf' with the SAME operators RuleStore is    *)
(* model-checked with and judges every recorded observable.                *)
(*                                                                         *)
(* Many traces are concatenated; a "new" event starts a trace and carries  *)
(* the module descriptor: which tokens are invalid, the probe table        *)
(* (probe -> tokens whose rule refuses it; the driver owns one per module  *)
(* and per scenario, NEAR-EQUAL VARIANTS included: an error-count breaker  *)
(* with threshold 3 / 3.5 opens on the 3rd / 4th error) and `near'         *)
(* (variant token -> the token it differs from in one field).  A probe     *)
(* record carries either `by' (the token of the rule named by the block    *)
(* error, "pass" if admitted) or `hit' (refused or not, where a refusal    *)
(* names no rule).  A mismatch is printed once per trace                   *)
(* ("MISMATCH <trace> <line> <json>") and the rest of that trace skipped.  *)
(***************************************************************************)
EXTENDS RuleStore, Json

Trace == ndJsonDeserialize("trace.ndjson")

VARIABLES l, tr, failed
\* of RuleStore's variables only d, want, lastOf are used here (the others stay constant)
tvars == <<l, tr, failed, d, want, lastOf, raw, enforced, reported, ret, ident, h>>
Unused == UNCHANGED <<raw, enforced, reported, ret, ident, h>>

Ev == Trace[l]
Has(r, f) == f \in DOMAIN r
ToSet(s) == {s[i] : i \in DOMAIN s}

Judge(ok, expected) ==
    IF failed \/ ok THEN failed' = failed
    ELSE /\ failed' = TRUE
         /\ PrintT("MISMATCH " \o ToString(tr) \o " " \o ToString(l) \o " " \o ToJson(expected))

IsEvent(op) == l <= Len(Trace) /\ Ev.op = op /\ l' = l + 1

TNew ==
    /\ IsEvent("new")
    /\ tr' = Ev.tr
    /\ d' = [perRes |-> Ev.perres, invalid |-> ToSet(Ev.invalid), rejects |-> Ev.rejects, ordered |-> Ev.ordered,
             near |-> Ev.near, probes |-> Ev.probes, mod |-> Ev.mod]
    /\ want' = [r \in ToSet(Ev.res) |-> << >>]
    /\ lastOf' = [s \in ToSet(Ev.res) \cup {All} |-> None]
    /\ failed' = FALSE
    /\ Unused

\* ---- what one recorded operation must look like if the rules in force are w
W(w, r) == IF r \in DOMAIN w THEN w[r] ELSE << >>
RepOK(e, w)    == Has(e, "rep") => \A r \in DOMAIN e.rep : SameRules(d, e.rep[r], W(w, r))
AllOK(e, w)    == \A r \in DOMAIN e.all : SameRules(d, e.all[r], W(w, r))
ProbeOK(p, w)  == IF Has(p, "hit") THEN p.hit = ProbeBlocked(W(w, p.res), ToSet(d.probes[p.p]))
                  ELSE p.by \in ProbeAnswers(d, W(w, p.res), ToSet(d.probes[p.p]))
ProbesOK(e, w) == \A i \in DOMAIN e.probes : ProbeOK(e.probes[i], w)
\* probes answered by a rule that is not in force although a NEAR-EQUAL variant of it is (same resource): the
\* controller of the earlier variant survived the reload (RuleStore!NoStaleVariant on the observed behaviour)
StaleProbes(e, w) == SelectSeq(e.probes, LAMBDA p : Has(p, "by") /\ StaleVariants(d, << <<p.by, p.res>> >>, W(w, p.res)) # {})
ObsOK(e, w)    == RepOK(e, w) /\ AllOK(e, w) /\ ProbesOK(e, w)

\* a load / clear: scope All or a resource, list of elements (empty for a clear)
TOp ==
    /\ (IsEvent("load") \/ IsEvent("clear"))
    /\ LET e       == Ev
           list    == e.list
           sc      == e.scope
           applied == WantAfter(d, want, sc, list)
           idn     == e.op = "load" /\ Identical(lastOf, sc, list)
           \* an operation that returns an error may leave its scope as it was (RejectedLoad)
           rejected == e.err /\ ~ObsOK(e, applied) /\ ObsOK(e, want)
           w       == IF rejected THEN want ELSE applied
           why     == SelectSeq(<<"panic", "unchanged", "reported", "getrules", "probe", "stale">>,
                         LAMBDA c : CASE c = "panic"     -> e.panic
                                      [] c = "unchanged" -> ~e.panic /\ idn /\ (e.changed \/ e.err)
                                      [] c = "reported"  -> ~e.panic /\ ~RepOK(e, w)
                                      [] c = "getrules"  -> ~e.panic /\ ~AllOK(e, w)
                                      [] c = "probe"     -> ~e.panic /\ ~ProbesOK(e, w)
                                      [] c = "stale"     -> ~e.panic /\ StaleProbes(e, w) # << >>)
       IN  /\ want' = w
           /\ lastOf' = IF e.err \/ e.panic THEN LastAfter(lastOf, sc, << >>) ELSE LastAfter(lastOf, sc, list)
           /\ Judge(why = << >>,
                    [why |-> why, mod |-> d.mod, op |-> e.op, want |-> w,
                     \* what exactly is wrong (used by the check to name the failing pattern)
                     badp   |-> IF e.panic THEN << >> ELSE SelectSeq(e.probes, LAMBDA p : ~ProbeOK(p, w)),
                     stale  |-> IF e.panic THEN << >> ELSE StaleProbes(e, w),
                     badrep |-> IF e.panic \/ ~Has(e, "rep") THEN {} ELSE {r \in DOMAIN e.rep : ~SameRules(d, e.rep[r], W(w, r))},
                     badall |-> IF e.panic THEN {} ELSE {r \in DOMAIN e.all : ~SameRules(d, e.all[r], W(w, r))}])
    /\ UNCHANGED <<tr, d>>
    /\ Unused

TInit ==
    /\ l = 1 /\ tr = 0 /\ failed = FALSE
    /\ d = [perRes |-> TRUE, invalid |-> {}, rejects |-> FALSE, ordered |-> TRUE, near |-> << >>, probes |-> << >>, mod |-> ""]
    /\ want = << >> /\ lastOf = << >>
    /\ raw = << >> /\ enforced = << >> /\ reported = << >> /\ ret = [changed |-> FALSE, err |-> FALSE]
    /\ ident = FALSE /\ h = << >>
TNext == TNew \/ TOp
TSpec == TInit /\ [][TNext]_tvars
=============================================================================
