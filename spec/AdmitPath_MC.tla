---------------------------- MODULE AdmitPath_MC ----------------------------
(* Bounded instances of AdmitPath and the emission of complete schedules.   *)
(* h stays in the state (no VIEW): every interleaving is a distinct         *)
(* behaviour, so Emit prints every complete schedule exactly once.          *)
EXTENDS AdmitPath, Json
MCTsQps  == {<<0, 1>>, <<1, 2>>, <<1, 1>>, <<2, 1>>, <<5, 2>>, <<3, 1>>}
MCTsConc == {<<1, 1>>, <<2, 1>>, <<3, 1>>}
MCTsGen  == {<<2, 1>>, <<5, 2>>}
MCTsGenC == {<<1, 1>>, <<2, 1>>}
Emit == IF PathDone(st')
          THEN PrintT(ToJson([T |-> T, w0 |-> w0, bs |-> bs, sched |-> h', dec |-> st'.dec, win |-> st'.win]))
          ELSE TRUE
=============================================================================
