\* AdmitPath => FlowQps through a lag of at most K-1 pending records: LagInv + LagSimQ, K = 3 callers
\* (checks/REFINE.py generates this and the other instances, the mutant runs and the runs with one restriction dropped)
SPECIFICATION RSpec
CONSTANTS
  K = 3
  Mode = "qps"
  Ts <- MCTsQps
  W0s = {0, 1, 2}
  Bs = {0, 1, 2}
  Mutant = "none"
  SeqMut = "none"
VIEW rview
INVARIANTS LagInv
PROPERTIES LagSimQ
CHECK_DEADLOCK FALSE
