SPECIFICATION TSpec
CONSTANTS
  Keys = {"k0"}
  Vals = {0}
  Caps = {1}
  NonPos = {}
  Mutant = "none"
CHECK_DEADLOCK FALSE
