------------------------------ MODULE Lru_Trace ------------------------------
(***************************************************************************)
(* "Total mode" validation of recorded executions of the REAL cache        *)
(* (harness/cmd/c23: cache.NewLRU with an eviction callback, and           *)
(* cache.NewLRUCacheMap behind the ConcurrentCounterCache interface).      *)
(* Every recorded call is replayed through the operators of spec/Lru.tla   *)
(* on the abstract state; after EVERY call the return value, Keys() (order *)
(* oldest to newest), Len() and the callbacks made during the call must be *)
(* exactly what the operator gives.  A "conc" line is the quiescent record *)
(* of a free-running concurrent phase, judged by QuiescentOK.              *)
(* Many traces are concatenated; "new" (or "conc") starts one.             *)
(***************************************************************************)
EXTENDS Lru, Json

Trace == ndJsonDeserialize("trace.ndjson")
VARIABLES l, tr, failed, kind
tvars == <<vars, l, tr, failed, kind>>
Ev == Trace[l]
IsEvent(ops) == l <= Len(Trace) /\ Ev.op \in ops /\ l' = l + 1

Judge(ok, expected) ==
    IF failed \/ ok THEN failed' = failed
    ELSE /\ failed' = TRUE
         /\ PrintT("MISMATCH " \o ToString(tr) \o " " \o ToString(l) \o " " \o ToJson(expected))

Methods == {"add", "addabs", "get", "peek", "contains", "remove", "removeoldest", "getoldest", "keys", "len", "purge", "resize"}

\* NewLRU refuses a size <= 0 (error); NewLRUCacheMap then returns nil
TNew ==
    /\ IsEvent({"new"})
    /\ tr' = Ev.tr /\ kind' = Ev.kind
    /\ order' = << >> /\ val' = Empty /\ cap' = Ev.cap /\ evlog' = << >>
    /\ last' = [o |-> NoOp, obs |-> Obs(Plain(NewCache(Ev.cap)))]
    /\ IF Ev.err = (Ev.cap <= 0) THEN failed' = FALSE
       ELSE /\ failed' = TRUE
            /\ PrintT("MISMATCH " \o ToString(Ev.tr) \o " " \o ToString(l) \o " " \o ToJson([expected_err |-> Ev.cap <= 0]))

TOp ==
    /\ IsEvent(Methods)
    /\ LET o == [op |-> Ev.op, k |-> Ev.k, v |-> Ev.v, n |-> Ev.n]
           R == Step(Cur, o)
           X == Obs(R)
       IN /\ Judge(/\ ~Ev.panic
                   /\ Ev.found = X.found /\ Ev.rk = X.rk /\ Ev.rv = X.rv /\ Ev.rn = X.rn
                   /\ Ev.keys = X.keys /\ Ev.len = X.len
                   /\ (kind = "lru" => EvMatches(o.op, Ev.ev, X.ev)),      \* (LruCacheMap has no callback to observe)
                  [expected |-> X, before |-> Cur])
          \* the abstract state follows the specification (a mismatch ends the judgement of this trace anyway)
          /\ order' = R.C.order /\ val' = R.C.val /\ cap' = R.C.cap /\ evlog' = evlog \o R.ev
          /\ last' = [o |-> o, obs |-> X]
    /\ UNCHANGED <<tr, kind>>

TConc ==
    /\ IsEvent({"conc"})
    /\ tr' = Ev.tr /\ kind' = "map"
    /\ order' = << >> /\ val' = Empty /\ cap' = Ev.cap /\ evlog' = << >>
    /\ last' = [o |-> NoOp, obs |-> Obs(Plain(NewCache(Ev.cap)))]
    /\ IF QuiescentOK(Ev) THEN failed' = FALSE
       ELSE /\ failed' = TRUE
            /\ PrintT("MISMATCH " \o ToString(Ev.tr) \o " " \o ToString(l) \o " " \o ToJson([quiescent |-> "QuiescentOK is false", cap |-> Ev.cap, removes |-> Ev.removes]))

TInit == /\ l = 1 /\ tr = 0 /\ failed = FALSE /\ kind = "lru"
         /\ order = << >> /\ val = Empty /\ cap = 1 /\ evlog = << >>
         /\ last = [o |-> NoOp, obs |-> Obs(Plain(NewCache(1)))]
TNext == TNew \/ TOp \/ TConc
TSpec == TInit /\ [][TNext]_tvars
=============================================================================
