SPECIFICATION Spec
CONSTANTS
  Configs <- MCConfigs2
  Mut = "none"
  SAT = SAT
  InScope <- ScopeHealthy
  ExcuseStuck = FALSE
VIEW view
INVARIANTS TypeOK AllowedDefined AllowedInRange AdmittedLeT ColdAfterIdle ColdAfterIdleObs WarmAfterSat WarmAfterSatThr NoStarvation
CHECK_DEADLOCK FALSE
