SPECIFICATION Spec
CONSTANTS
  Configs <- MCConfigs2
  Mut = "none"
  Targets <- NoTargets
  MaxReload = 0
  LCMP = 10
  SAT = SAT
  InScope <- ScopeHealthy
  ExcuseStuck = FALSE
VIEW view
INVARIANTS TypeOK AllowedDefined AllowedInRange AdmittedLeT ColdAfterIdle ColdAfterIdleObs WarmAfterSat WarmAfterSatThr NoStarvation ProgressOK
CHECK_DEADLOCK FALSE
