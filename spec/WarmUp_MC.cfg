SPECIFICATION Spec
CONSTANTS
  Configs <- MCConfigs
  SAT = SAT
  InScope <- ScopeHealthy
  ExcuseStuck = FALSE
VIEW view
INVARIANTS TypeOK AllowedDefined AllowedInRange AdmittedLeT ColdAfterIdle ColdAfterIdleObs WarmAfterSat NoStarvation
CHECK_DEADLOCK FALSE
