SPECIFICATION Spec
CONSTANTS
  Configs <- MCConfigs
  SAT = SAT
  InScope <- ScopeHealthy
  ExcuseStuck = TRUE
VIEW view
INVARIANTS TypeOK AllowedDefined AllowedInRange AdmittedLeT ColdAfterIdle ColdAfterIdleObs WarmAfterSat NoStarvation
CHECK_DEADLOCK FALSE
