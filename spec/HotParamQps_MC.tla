--------------------------- MODULE HotParamQps_MC ---------------------------
(* Bounded instances of HotParamQps for exhaustive TLC runs and for scenario generation    *)
(* (ACTION_CONSTRAINT Emit prints the history leading to every generated transition).      *)
(* The configuration record is assembled from scalar constants so that a .cfg can set it;  *)
(* its capacity is derived from PCap (explicit, or 0 = default from CapBase / CapMax).      *)
EXTENDS HotParamQps, Json

CONSTANTS MCMode, MCT, MCB, MCD, MCMQ, MCItemsSel

MCItems == CASE MCItemsSel = 0 -> << >>
             [] MCItemsSel = 1 -> [a |-> 0, b |-> 5]
             [] MCItemsSel = 2 -> [a |-> 3]
             [] OTHER          -> [b |-> 1]
MCCf == [mode |-> MCMode, T |-> MCT, B |-> MCB, D |-> MCD, MQ |-> MCMQ, items |-> MCItems, cap |-> EffCap(PCap, MCD, CapBase, CapMax)]

Emit == PrintT(ToJson(h'))
=============================================================================
