--------------------------------- MODULE Lru ---------------------------------
(***************************************************************************)
(* Sequential meaning of the bounded LRU cache the hot-parameter modules   *)
(* keep their per-value state in (core/hotspot/cache/lru.go, wrapped by    *)
(* concurrent_lru.go).  C05 / C06 speak of "while the configured parameter *)
(* capacity is not exceeded": that clause rests on this module.            *)
(*                                                                         *)
(* Abstract state: `order' - the keys present, OLDEST FIRST, most recently *)
(* used last; `val' - the value of every key present; `cap' - the          *)
(* capacity; `evlog' - every (key, value) handed to the eviction callback, *)
(* in call order.  `last' is the last operation with its return value and  *)
(* the callbacks it made.                                                  *)
(*                                                                         *)
(* The first half (pure operators on a record C = [order, val, cap]) is    *)
(* shared with spec/Lru_Trace.tla, which replays recorded executions of    *)
(* the REAL cache through the same operators.                              *)
(***************************************************************************)
EXTENDS Integers, Sequences, FiniteSets, TLC

CONSTANTS Keys,      \* keys explored by the model
          Vals,      \* values explored by the model (integers >= 0)
          Caps,      \* capacities (initial, and targets of Resize), all >= 1
          NonPos,    \* sizes <= 0 offered to ResizeNonPositive (empty = the defect action is off)
          Mutant     \* "none", or the name of a deliberately wrong variant that TLC must reject

NoKey == ""
NoVal == -1

\* ------------------------------------------------------------------ helpers
Range(s)      == { s[i] : i \in 1..Len(s) }
Without(s, k) == SelectSeq(s, LAMBDA x : x # k)
Touch(s, k)   == Append(Without(s, k), k)                \* k becomes the most recently used
Has(C, k)     == k \in Range(C.order)
Put(f, k, v)  == [x \in DOMAIN f \cup {k} |-> IF x = k THEN v ELSE f[x]]
Drop(f, ks)   == [x \in DOMAIN f \ ks |-> f[x]]
Pos(s, k)     == CHOOSE i \in 1..Len(s) : s[i] = k
Before(s, a, b) == Pos(s, a) < Pos(s, b)
Pairs(C, ks)  == [i \in 1..Len(ks) |-> [k |-> ks[i], v |-> C.val[ks[i]]]]     \* callback arguments for the keys ks, in that order
Empty         == [x \in {} |-> NoVal]
NewCache(c)   == [order |-> << >>, val |-> Empty, cap |-> c]

\* the result of one call: the new cache, the return value (found / key / value / number) and the callbacks made
Res(C, found, rk, rv, rn, ev) == [C |-> C, found |-> found, rk |-> rk, rv |-> rv, rn |-> rn, ev |-> ev]
Plain(C) == Res(C, FALSE, NoKey, NoVal, 0, << >>)

\* remove the first n keys (the n oldest)
DropOldest(C, n) ==
    LET m  == IF n > Len(C.order) THEN Len(C.order) ELSE n
        ks == SubSeq(C.order, 1, m)
    IN  [C |-> [C EXCEPT !.order = SubSeq(C.order, m + 1, Len(C.order)), !.val = Drop(C.val, Range(ks))], ev |-> Pairs(C, ks)]

\* insertion of an ABSENT key: appended as most recently used; beyond capacity exactly the oldest goes, with one callback
Insert(C, k, v) ==
    LET C1 == [C EXCEPT !.order = Append(C.order, k), !.val = Put(C.val, k, v)] IN
    IF Len(C1.order) > C1.cap
    THEN LET victim == IF Mutant = "evictNewest" THEN C1.order[Len(C1.order)] ELSE C1.order[1] IN
         [C |-> [C1 EXCEPT !.order = Without(C1.order, victim), !.val = Drop(C1.val, {victim})], ev |-> Pairs(C1, <<victim>>)]
    ELSE [C |-> C1, ev |-> << >>]

\* ------------------------------------------------------------------ one operator per public method
\* Add: an existing key is overwritten and refreshed (no callback for the value replaced); a new key is inserted
OpAdd(C, k, v) ==
    IF Has(C, k)
    THEN Plain([C EXCEPT !.order = IF Mutant = "addNoRefresh" THEN @ ELSE Touch(@, k), !.val = Put(@, k, v)])
    ELSE LET I == Insert(C, k, v) IN Res(I.C, FALSE, NoKey, NoVal, 0, I.ev)

\* AddIfAbsent: an existing key keeps its value, is refreshed, and its value is returned; a new key is inserted and "nothing" returned
OpAddIfAbsent(C, k, v) ==
    IF Has(C, k)
    THEN Res([C EXCEPT !.order = Touch(@, k), !.val = IF Mutant = "absentOverwrites" THEN Put(@, k, v) ELSE @],
             TRUE, NoKey, C.val[k], 0, << >>)
    ELSE LET I == Insert(C, k, v) IN Res(I.C, FALSE, NoKey, NoVal, 0, I.ev)

\* Get refreshes, Peek and Contains do not
OpGet(C, k) ==
    IF Has(C, k) THEN Res([C EXCEPT !.order = IF Mutant = "getNoRefresh" THEN @ ELSE Touch(@, k)], TRUE, NoKey, C.val[k], 0, << >>)
    ELSE Plain(C)
OpPeek(C, k) ==
    IF Has(C, k) THEN Res([C EXCEPT !.order = IF Mutant = "peekRefreshes" THEN Touch(@, k) ELSE @], TRUE, NoKey, C.val[k], 0, << >>)
    ELSE Plain(C)
OpContains(C, k) == Res(C, Has(C, k), NoKey, NoVal, 0, << >>)

\* Remove: the key goes, the callback is called for it (as for every departure), "was present" is returned
OpRemove(C, k) ==
    IF Has(C, k)
    THEN Res([C EXCEPT !.order = Without(@, k), !.val = Drop(@, {k})], TRUE, NoKey, NoVal, 0,
             IF Mutant = "removeSilent" THEN << >> ELSE Pairs(C, <<k>>))
    ELSE Plain(C)

OpRemoveOldest(C) ==
    IF C.order = << >> THEN Plain(C)
    ELSE LET D == DropOldest(C, 1) IN Res(D.C, TRUE, C.order[1], C.val[C.order[1]], 0, D.ev)
OpGetOldest(C) ==
    IF C.order = << >> THEN Plain(C) ELSE Res(C, TRUE, C.order[1], C.val[C.order[1]], 0, << >>)

\* Keys (oldest to newest) and Len: the whole key order / the size are part of EVERY result (see Obs), these two change nothing
OpKeys(C) == Res(C, FALSE, NoKey, NoVal, Len(C.order), << >>)
OpLen(C)  == Res(C, FALSE, NoKey, NoVal, Len(C.order), << >>)

\* Purge: everything goes, one callback per entry.  The ORDER of these callbacks is unspecified (the code ranges over a Go
\* map); the model lists them oldest first and EvMatches compares them as a set.
OpPurge(C) == LET D == DropOldest(C, Len(C.order)) IN Res(D.C, FALSE, NoKey, NoVal, 0, D.ev)

\* Resize to n >= 1: the oldest Len - n entries go (oldest first, one callback each); their number is returned
OpResize(C, n) ==
    LET diff == IF Len(C.order) > n THEN Len(C.order) - n ELSE 0
        D    == DropOldest(C, IF Mutant = "resizeOffByOne" /\ diff > 0 THEN diff - 1 ELSE diff)
    IN  Res([D.C EXCEPT !.cap = n], FALSE, NoKey, NoVal, diff, D.ev)

\* DEFECT (named, not part of the evident meaning): Resize accepts a size <= 0 although NewLRU refuses one.  What the code does:
\* the loop runs Len - n times (more often than there are entries when n < 0), everything is evicted, the RETURN VALUE is
\* Len - n (more than the number evicted when n < 0), and the capacity becomes n - after which every insertion evicts the key
\* just inserted (callback included), so the cache stays empty for ever, and for n < 0 "size <= capacity" is false.
OpResizeNonPositive(C, n) ==
    LET D == DropOldest(C, Len(C.order)) IN Res([D.C EXCEPT !.cap = n], FALSE, NoKey, NoVal, Len(C.order) - n, D.ev)

\* dispatch on an operation record o = [op, k, v, n]
Step(C, o) ==
    CASE o.op = "add"          -> OpAdd(C, o.k, o.v)
      [] o.op = "addabs"       -> OpAddIfAbsent(C, o.k, o.v)
      [] o.op = "get"          -> OpGet(C, o.k)
      [] o.op = "peek"         -> OpPeek(C, o.k)
      [] o.op = "contains"     -> OpContains(C, o.k)
      [] o.op = "remove"       -> OpRemove(C, o.k)
      [] o.op = "removeoldest" -> OpRemoveOldest(C)
      [] o.op = "getoldest"    -> OpGetOldest(C)
      [] o.op = "keys"         -> OpKeys(C)
      [] o.op = "len"          -> OpLen(C)
      [] o.op = "purge"        -> OpPurge(C)
      [] o.op = "resize"       -> IF o.n >= 1 THEN OpResize(C, o.n) ELSE OpResizeNonPositive(C, o.n)

\* do the callbacks observed match the ones the operator lists (Purge: in any order)?
EvMatches(op, observed, expected) ==
    IF op = "purge" THEN Len(observed) = Len(expected) /\ Range(observed) = Range(expected)
    ELSE observed = expected

\* what a caller can see after a call: return value, Keys(), Len(), the callbacks of the call
Obs(R) == [found |-> R.found, rk |-> R.rk, rv |-> R.rv, rn |-> R.rn, keys |-> R.C.order, len |-> Len(R.C.order), ev |-> R.ev]

(***************************************************************************)
(* Quiescent judgement of a free-running concurrent phase on LruCacheMap:  *)
(* G goroutines call AddIfAbsent / Get / Remove on a few keys; the values  *)
(* are counters (pointers to int64) the goroutines add to.  Per key:     *)
(*   ins     callers of AddIfAbsent that were told "absent" (they inserted)*)
(*   rem     calls of Remove that returned true                            *)
(*   objs    distinct counter objects any caller was handed for the key    *)
(*   foreign objects handed out for the key that nobody inserted under it  *)
(*   applied sum of all increments the goroutines applied for the key      *)
(*   read    the counter read back through Get at quiescence (0 if absent) *)
(* Every linearisation of the calls through the sequential operators above *)
(* gives: one object per key per generation (objs = ins, foreign = 0); with*)
(* no eviction possible (cap >= number of keys) a key is present iff       *)
(* ins - rem = 1 and never ins - rem > 1; without Remove there is exactly  *)
(* one generation, so the increments applied are the increments read back. *)
(***************************************************************************)
QuiescentOK(q) ==
    LET n == Len(q.perkey)
        P(i) == q.perkey[i]
        present == { i \in 1..n : P(i).present }
    IN  /\ ~q.panic
        /\ q.len = Cardinality(present) /\ q.len <= q.cap
        /\ \A i \in 1..n :
             /\ P(i).foreign = 0 /\ P(i).objs = P(i).ins
             /\ P(i).ins - P(i).rem >= (IF P(i).present THEN 1 ELSE 0)
             /\ (q.cap >= n) => P(i).ins - P(i).rem = (IF P(i).present THEN 1 ELSE 0)
             /\ (q.cap >= n /\ ~q.removes) => /\ P(i).ins <= 1
                                              /\ P(i).applied = P(i).read
                                              /\ (P(i).touched <=> P(i).present)

\* ------------------------------------------------------------------ the model
VARIABLES order, val, cap, evlog, last
vars == <<order, val, cap, evlog, last>>
Cur  == [order |-> order, val |-> val, cap |-> cap]

NoOp == [op |-> "new", k |-> NoKey, v |-> NoVal, n |-> 0]
Init == /\ cap \in Caps /\ order = << >> /\ val = Empty /\ evlog = << >>
        /\ last = [o |-> NoOp, obs |-> Obs(Plain(NewCache(cap)))]

Do(o) == LET R == Step(Cur, o) IN
         /\ order' = R.C.order /\ val' = R.C.val /\ cap' = R.C.cap
         /\ evlog' = evlog \o R.ev
         /\ last' = [o |-> o, obs |-> Obs(R)]

Op(name, k, v, n) == [op |-> name, k |-> k, v |-> v, n |-> n]
Add(k, v)         == Do(Op("add", k, v, 0))
AddIfAbsent(k, v) == Do(Op("addabs", k, v, 0))
Get(k)            == Do(Op("get", k, NoVal, 0))
Peek(k)           == Do(Op("peek", k, NoVal, 0))
Contains(k)       == Do(Op("contains", k, NoVal, 0))
Remove(k)         == Do(Op("remove", k, NoVal, 0))
RemoveOldest      == Do(Op("removeoldest", NoKey, NoVal, 0))
GetOldest         == Do(Op("getoldest", NoKey, NoVal, 0))
KeysOp            == Do(Op("keys", NoKey, NoVal, 0))
LenOp             == Do(Op("len", NoKey, NoVal, 0))
Purge             == Do(Op("purge", NoKey, NoVal, 0))
Resize(n)         == n >= 1 /\ Do(Op("resize", NoKey, NoVal, n))
ResizeNonPositive(n) == n <= 0 /\ Do(Op("resize", NoKey, NoVal, n))     \* the named defect, off unless NonPos # {}

Next == \/ \E k \in Keys, v \in Vals : Add(k, v) \/ AddIfAbsent(k, v)
        \/ \E k \in Keys : Get(k) \/ Peek(k) \/ Contains(k) \/ Remove(k)
        \/ RemoveOldest \/ GetOldest \/ KeysOp \/ LenOp \/ Purge
        \/ \E n \in Caps : Resize(n)
        \/ \E n \in NonPos : ResizeNonPositive(n)
Spec == Init /\ [][Next]_vars

\* ------------------------------------------------------------------ properties
ReadOnly  == {"peek", "contains", "getoldest", "keys", "len"}
Inserting == {"add", "addabs"}
EvKeys(ev) == [i \in 1..Len(ev) |-> ev[i].k]

TypeOK == /\ order \in Seq(Keys) /\ DOMAIN val = Range(order) /\ \A k \in DOMAIN val : val[k] \in Vals
          /\ cap \in Caps \cup NonPos
SizeBound    == Len(order) <= cap
KeysDistinct == Cardinality(Range(order)) = Len(order) /\ DOMAIN val = Range(order)

\* nothing is evicted while there is room: an insertion makes a callback only when the cache was full, then exactly one; an
\* operation on a key that is present, and every read-only operation, evicts nothing
NoSpuriousEviction ==
    [][LET o == last'.o IN
       /\ (o.op \in Inserting /\ (Len(order) < cap \/ o.k \in Range(order))) => last'.obs.ev = << >> /\ Range(order) \subseteq Range(order')
       /\ (o.op \in Inserting /\ Len(order) >= cap /\ o.k \notin Range(order)) => Len(last'.obs.ev) = 1
       /\ (o.op \in ReadOnly \cup {"get"}) => last'.obs.ev = << >> /\ Range(order') = Range(order) /\ val' = val]_vars

\* capacity evictions (insertion, Resize) and RemoveOldest take the oldest entries, oldest first, never the key just used
OldestFirst ==
    [][LET o == last'.o  ev == last'.obs.ev IN
       (o.op \in Inserting \cup {"resize", "removeoldest"} /\ ev # << >>) =>
           /\ Len(ev) <= Len(order) /\ ev = Pairs(Cur, SubSeq(order, 1, Len(ev)))
           /\ order' = SubSeq(IF o.op \in Inserting THEN Append(order, o.k) ELSE order, Len(ev) + 1,
                              Len(order) + (IF o.op \in Inserting THEN 1 ELSE 0))]_vars

\* AddIfAbsent never replaces: present -> value kept and returned; absent -> "nothing" returned and the value stored
AbsentMeansAbsent ==
    [][LET o == last'.o IN o.op = "addabs" =>
         IF o.k \in Range(order) THEN /\ last'.obs.found /\ last'.obs.rv = val[o.k] /\ val' = val
                                 ELSE /\ ~last'.obs.found /\ last'.obs.rv = NoVal
                                      /\ (o.k \in Range(order') => val'[o.k] = o.v)]_vars
\* Add always stores the value given
AddStores == [][last'.o.op = "add" /\ last'.o.k \in Range(order') => val'[last'.o.k] = last'.o.v]_vars

\* Keys() lists oldest to newest: the key used by Add / AddIfAbsent / Get becomes the newest, every other pair of keys keeps
\* its relative order across every operation, and the operations that do not refresh leave the order alone
KeysOrder ==
    [][LET o == last'.o IN
       /\ last'.obs.keys = order' /\ last'.obs.len = Len(order')
       /\ (o.op \in Inserting \cup {"get"} /\ o.k \in Range(order')) => order'[Len(order')] = o.k
       /\ \A a, b \in (Range(order) \cap Range(order')) \ {o.k} : Before(order, a, b) <=> Before(order', a, b)
       /\ (o.op \in ReadOnly) => order' = order]_vars

\* every departure is reported to the callback exactly once, with the value the key had; Add / Get / Peek return that value
Accounted ==
    [][LET ev == last'.obs.ev IN
       /\ Range(EvKeys(ev)) = (Range(order) \cup (IF last'.o.op \in Inserting THEN {last'.o.k} ELSE {})) \ Range(order')
       /\ Cardinality(Range(EvKeys(ev))) = Len(ev)
       /\ evlog' = evlog \o ev]_vars
ReadsValue == [][(last'.o.op \in {"get", "peek"}) =>
                    /\ last'.obs.found = (last'.o.k \in Range(order))
                    /\ last'.obs.found => last'.obs.rv = val[last'.o.k]]_vars
ContainsRight == [][(last'.o.op \in {"contains", "remove"}) => last'.obs.found = (last'.o.k \in Range(order))]_vars

\* Resize: afterwards min(Len, n) entries, the number returned is the number evicted (= callbacks made)
ResizeExact ==
    [][last'.o.op = "resize" =>
         /\ Len(order') = (IF Len(order) > last'.o.n THEN last'.o.n ELSE Len(order))
         /\ last'.obs.rn = Len(order) - Len(order') /\ last'.obs.rn = Len(last'.obs.ev)
         /\ cap' = last'.o.n]_vars
=============================================================================
