--------------------------- MODULE SystemGateOps ---------------------------
(***************************************************************************)
(* Property-level operators of the system-protection gate (property C07).  *)
(* Constant-free, so that SystemGate (design-level model checking) and     *)
(* SystemGate_Trace (validation of executions of the real code) use the    *)
(* SAME definitions.                                                       *)
(*                                                                         *)
(* The inbound aggregate is a WindowRef reference over the default         *)
(* geometry of a resource node: parent buckets of 500 ms, read through the *)
(* 2 x 500 ms = 1 s view.  Kinds recorded: pass (admitted inbound tokens), *)
(* complete (completed inbound tokens), rt (response time of a completed   *)
(* inbound entry, ms), error (tokens of inbound entries that completed     *)
(* WITH an error: Exit(WithError(err)), or TraceError / SetError before    *)
(* the Exit).                                                              *)
(*                                                                         *)
(* An entry completes exactly once, however it completes: a completion     *)
(* that carries an error is a completion like any other for everything the *)
(* gate reads (completion count, RT sum, minimum RT, peak completion rate, *)
(* in-flight gauge) - the error flag only feeds the `error` kind, which no *)
(* system rule reads (OnCompleteE).                                        *)
(*                                                                         *)
(* Fractions (triggers, load, cpu) are rationals [num, den], den > 0;      *)
(* comparisons are cross-multiplied.  "not sampled" load / cpu is -1/1.    *)
(***************************************************************************)
EXTENDS WindowRef

GKinds == {"pass", "complete", "rt", "error"}
GPBL   == 500      \* parent bucket length (ms)
GVI    == 1000     \* view interval (ms) = 1 s, so a sum over the view is a per-second rate

\* total inbound admitted QPS
Qps(ref, t)       == RefSum(ref, GPBL, t, GVI, "pass")
Completes(ref, t) == RefSum(ref, GPBL, t, GVI, "complete")
\* inbound tokens that completed with an error (a subset of the completions; read by no system rule)
Errors(ref, t)    == RefSum(ref, GPBL, t, GVI, "error")
RtSum(ref, t)     == RefSum(ref, GPBL, t, GVI, "rt")
\* inbound average response time: integer division, 0 without completions
AvgRt(ref, t)     == IF Completes(ref, t) > 0 THEN RefSum(ref, GPBL, t, GVI, "rt") \div Completes(ref, t) ELSE 0
\* minimum response time, never below 1 ms (MaxRt = 60000 when nothing completed)
MinRt(ref, t)     == Max2(1, RefMinRt(ref, GPBL, t, GVI))
\* peak completion rate per second: the best 500 ms bucket, scaled to one second
Peak(ref, t)      == 2 * RefMaxB(ref, GPBL, t, GVI, "complete")
\* BBR: in-flight exceeds the estimated capacity (peak completions/s x min RT in s).
\* DOCUMENTED DEVIATION from the one-line statement: the code never sheds the first in-flight
\* request (conc > 1 guard).
OverCapacity(conc, ref, t) == conc > 1 /\ conc * 1000 > Peak(ref, t) * MinRt(ref, t)

\* rational comparisons
RGeq(xn, xd, yn, yd) == xn * yd >= yn * xd
RGt(xn, xd, yn, yd)  == xn * yd >  yn * xd

MetricTypes == {"load", "rt", "conc", "qps", "cpu"}

\* everything a rule reads from the inbound aggregate, computed once per decision
Readings(ref, t, conc) ==
    [qps |-> Qps(ref, t), avgrt |-> AvgRt(ref, t), conc |-> conc, over |-> OverCapacity(conc, ref, t)]

\* A system rule r = [mt, num, den, bbr] is violated under the readings q and the samples load, cpu
ViolatedQ(r, q, load, cpu) ==
    CASE r.mt = "qps"  -> RGeq(q.qps, 1, r.num, r.den)
      [] r.mt = "conc" -> RGeq(q.conc, 1, r.num, r.den)
      [] r.mt = "rt"   -> RGeq(q.avgrt, 1, r.num, r.den)
      [] r.mt = "load" -> RGt(load.num, load.den, r.num, r.den) /\ (r.bbr => q.over)
      [] r.mt = "cpu"  -> RGt(cpu.num, cpu.den, r.num, r.den)   /\ (r.bbr => q.over)
      [] OTHER         -> FALSE
Violated(r, ref, t, conc, load, cpu) == ViolatedQ(r, Readings(ref, t, conc), load, cpu)

\* the value the rule compares (what a block reports), as a rational
ComparedQ(r, q, load, cpu) ==
    CASE r.mt = "qps"  -> [num |-> q.qps, den |-> 1]
      [] r.mt = "conc" -> [num |-> q.conc, den |-> 1]
      [] r.mt = "rt"   -> [num |-> q.avgrt, den |-> 1]
      [] r.mt = "load" -> load
      [] r.mt = "cpu"  -> cpu
      [] OTHER         -> [num |-> 0, den |-> 1]

\* indices of the violated rules of a rule list
ViolatedIdxQ(rules, q, load, cpu) == { i \in DOMAIN rules : ViolatedQ(rules[i], q, load, cpu) }
ViolatedIdx(rules, ref, t, conc, load, cpu) == ViolatedIdxQ(rules, Readings(ref, t, conc), load, cpu)

\* THE PROPERTY: outbound traffic is never gated; an inbound request is blocked iff some rule is violated
MustBlockQ(ty, rules, q, load, cpu) == ty = "in" /\ ViolatedIdxQ(rules, q, load, cpu) # {}
MustBlock(ty, rules, ref, t, conc, load, cpu) == MustBlockQ(ty, rules, Readings(ref, t, conc), load, cpu)

\* bookkeeping of the inbound aggregate
OnPass(ref, t, b)         == RefAdd(ref, GKinds, GPBL, t, "pass", b)
OnComplete(ref, t, rt, b) == RefAdd(RefAdd(ref, GKinds, GPBL, t, "rt", rt), GKinds, GPBL, t, "complete", b)
\* one completion of an inbound entry of b tokens after rt ms, with or without an error: the RT, the completion
\* count (hence min RT and the per-bucket peak) are recorded in BOTH cases; err adds the tokens to the error kind
OnCompleteE(ref, t, rt, b, err) ==
    LET r == OnComplete(ref, t, rt, b) IN IF err THEN RefAdd(r, GKinds, GPBL, t, "error", b) ELSE r
GPrune(ref, t)            == Prune(ref, GPBL, GVI, t)
=============================================================================
