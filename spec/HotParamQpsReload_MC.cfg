SPECIFICATION Spec
CONSTANTS
  Values = {"a", "b"}
  RuleSets <- MCRuleSets
  D = 1000
  B = 0
  Batches = {1}
  Steps = {500, 1001}
  MaxT = 1501
  MaxOps = 5
  Mutant = ""
VIEW view
INVARIANTS TypeOK OwnBooks E3OK
CHECK_DEADLOCK FALSE
