\* BreakerConc => Breaker under the five restrictions, 3 clients, breaker initially Open
\* (checks/REFINE.py generates this and the other instances, the mutant runs and the runs with one restriction dropped)
SPECIFICATION RSpec
CONSTANTS
  NC = 3
  Errs <- MCErrs
  Timeout = 2
  ProbeNum = 0
  Thr = 1
  MinAmt = 1
  MaxT = 4
  InitOpen = TRUE
  DlFirst = TRUE
  Restrict = {"stale", "stalled", "pushed", "alone", "park"}
VIEW rview
INVARIANTS ExclusiveProbe ReportedOnce SeqInvs ListenAgrees
PROPERTIES RefInit Refines RejectJustified
CHECK_DEADLOCK FALSE
