-------------------------- MODULE MetricPipelineOps --------------------------
(***************************************************************************)
(* The metric pipeline end to end (growth item 4 of DESIGN section 4):     *)
(* Entry / Exit  ->  per-resource sliding-window statistics (WindowRef,    *)
(* 20 x 500 ms)  ->  aggregator task (every aggregation fetches the        *)
(* per-second items of the seconds in [lastFetch, current second) that are *)
(* still inside the array, and moves lastFetch)  ->  metric log  ->        *)
(* searcher.  Pure operators over a state record                           *)
(*   P = [now, ref, infl, ent, lastFetch, logged]                          *)
(* ref[res] : WindowRef reference of resource res; infl[res] : in-flight   *)
(* entries; ent : id -> [res, b, start]; logged : set of per-second items. *)
(* Times in ms.  Used by MetricPipeline (model) and MetricPipeline_Trace.   *)
(***************************************************************************)
EXTENDS WindowRef, TLC

Kinds5 == {"pass", "block", "complete", "error", "rt"}
PBL == 500
PINT == 10000
SEC == 1000

Dom(f) == DOMAIN f

\* Entry admitted: pass += b, concurrency gauge + 1 and sampled
OnPass(P, id, res, b) ==
    LET c  == P.infl[res] + 1
        r1 == RefAdd(P.ref[res], Kinds5, PBL, P.now, "pass", b)
        r2 == RefConc(r1, Kinds5, PBL, P.now, c)
    IN  [P EXCEPT !.ref[res] = r2, !.infl[res] = c,
                  !.ent = [x \in Dom(P.ent) \cup {id} |-> IF x = id THEN [res |-> res, b |-> b, start |-> P.now] ELSE P.ent[x]]]
\* Entry blocked: block += b
OnBlock(P, res, b) == [P EXCEPT !.ref[res] = RefAdd(P.ref[res], Kinds5, PBL, P.now, "block", b)]
\* Exit of an admitted entry: (error += b), rt += now - start, complete += b, gauge - 1
OnExit(P, id, err) ==
    LET e  == P.ent[id]
        r0 == P.ref[e.res]
        r1 == IF err THEN RefAdd(r0, Kinds5, PBL, P.now, "error", e.b) ELSE r0
        r2 == RefAdd(r1, Kinds5, PBL, P.now, "rt", P.now - e.start)
        r3 == RefAdd(r2, Kinds5, PBL, P.now, "complete", e.b)
    IN  [P EXCEPT !.ref[e.res] = r3, !.infl[e.res] = @ - 1,
                  !.ent = [x \in Dom(P.ent) \ {id} |-> P.ent[x]]]
OnTick(P, t) == [P EXCEPT !.now = t]

\* one run of the aggregator at P.now
CurSec(P) == Align(P.now, SEC)
ItemsOf(P, res) == { [res |-> res] @@ it : it \in RefItems(P.ref[res], PBL, PINT, P.now, P.lastFetch, CurSec(P), SEC) }
OnAggregate(P, Res) ==
    IF CurSec(P) <= P.lastFetch THEN P
    ELSE [P EXCEPT !.logged = @ \cup UNION { ItemsOf(P, r) : r \in Res }, !.lastFetch = CurSec(P)]
=============================================================================
