--------------------------- MODULE RuleSwitch_Trace ---------------------------
(***************************************************************************)
(* Second sentence of property C15 judged on free-running executions of    *)
(* the real code (harness/cmd/c15, built with -race): while rule lists of  *)
(* resources <m>_r1 (m = flow, isolation, hotspot) are switched through versions    *)
(* 2..K, every request on <m>_r1 must be decided entirely by one version   *)
(* that was current at some instant between its invocation and its return  *)
(* (OldOrNew of RuleSwitch.tla, same version scheme: a mixture or an empty *)
(* list lets the request PASS), and every request on <m>_r2, whose single  *)
(* rule never changes, must be blocked by that rule (updates of one        *)
(* resource never affect another).  inv/ret/ls/le are numbers drawn from   *)
(* one atomic counter before a call resp. after its return.                *)
(*                                                                         *)
(* FIRST USE (events fu / probe / reload / release / stat; invariants       *)
(* Enforced and StatAgrees of RuleSwitch.tla).  A round releases several   *)
(* first requests of a never-seen resource together with rule loads for    *)
(* that very resource; the "fu" event is recorded when all of them have    *)
(* returned: how many were admitted / rejected and the threshold now in    *)
(* force (-1 = no rule).  From then on everything is sequential and the    *)
(* clock is frozen, so the spec knows exactly what the statistic of the    *)
(* resource must show (fu.adm admitted in the window, fu.held in flight,   *)
(* fu.blk rejected, fu.compl completed) and judges                         *)
(*   probe : admitted iff ~Rejects(count, threshold in force), where the   *)
(*           count is the admitted requests of the window (kind "flow"),   *)
(*           the requests in flight (kind "iso"), or the admitted requests *)
(*           of the REFERENCED fresh resource (kind "assoc", probe on "a"; *)
(*           requests of the fresh resource itself are never limited);     *)
(*           a rejection names the threshold in force;                     *)
(*   stat  : the statistics getters of the resource's registered node show *)
(*           exactly fu.adm / fu.blk / fu.held / fu.compl;                 *)
(*   reload: a sequential reload puts the new threshold in force.          *)
(* What the racing requests themselves decided is constrained only by      *)
(* "rejected => by a threshold that was being loaded".                     *)
(***************************************************************************)
EXTENDS Integers, Sequences, FiniteSets, TLC, Json

Trace == ndJsonDeserialize("trace.ndjson")
VARIABLES l, g, loads, failed, fu
tvars == <<l, g, loads, failed, fu>>
Ev == Trace[l]
IsEvent(op) == l <= Len(Trace) /\ Ev.op = op /\ l' = l + 1
Mods == {"flow", "iso", "hot"}
ModOf(res) == IF res \in {"f_r1", "f_r2"} THEN "flow" ELSE IF res \in {"i_r1", "i_r2"} THEN "iso" ELSE "hot"

Judge(ok, expected) ==
    IF failed \/ ok THEN failed' = failed
    ELSE /\ failed' = TRUE
         /\ PrintT("MISMATCH " \o ToString(g.tr) \o " " \o ToString(l) \o " " \o ToJson(expected))

CurrentDuring(L, k, inv, ret) ==
    /\ k \in DOMAIN L /\ L[k].ls < ret
    /\ (k + 1 \in DOMAIN L) => inv < L[k+1].le

\* the admission rule of RuleSwitch.tla (operator Rejects there): a rule with threshold thr rejects when n are counted
Rejects(n, thr) == n + 1 > thr
NoFu == [kind |-> "", thr |-> -1, adm |-> 0, blk |-> 0, held |-> 0, compl |-> 0]
SeqSet(s) == {s[i] : i \in DOMAIN s}
\* expected decision of a sequential probe on the fresh resource ("res") or on the resource referring to it ("a")
Admitted(f, on) ==
    CASE f.kind = "flow" -> f.thr = -1 \/ ~Rejects(f.adm, f.thr)
      [] f.kind = "iso" -> f.thr = -1 \/ ~Rejects(f.held, f.thr)
      [] OTHER -> IF on = "a" THEN f.thr = -1 \/ ~Rejects(f.adm, f.thr) ELSE TRUE

TNew ==
    /\ IsEvent("new")
    /\ fu' = NoFu
    /\ g' = [tr |-> Ev.tr, const |-> Ev.const]
    /\ loads' = [m \in Mods |-> << >>]
    /\ failed' = FALSE

TLoad ==
    /\ IsEvent("load")
    /\ loads' = [loads EXCEPT ![Ev.mod] = @ @@ (Ev.k :> [ls |-> Ev.ls, le |-> Ev.le])]
    /\ UNCHANGED <<g, failed, fu>>

TReq ==
    /\ IsEvent("req")
    /\ UNCHANGED <<g, loads, fu>>
    /\ IF Ev.res \in {"f_r1", "i_r1", "p_r1"}
       THEN Judge(~Ev.pass /\ CurrentDuring(loads[ModOf(Ev.res)], Ev.marker, Ev.inv, Ev.ret),
                  [why |-> "request not decided entirely by one version current during it", req |-> Ev])
       ELSE Judge(~Ev.pass /\ Ev.marker = g.const,
                  [why |-> "decision on a resource whose rules never changed was disturbed", req |-> Ev])

TFirstUse ==
    /\ IsEvent("fu")
    /\ UNCHANGED <<g, loads>>
    /\ fu' = [kind |-> Ev.kind, thr |-> Ev.thr, adm |-> Ev.rpass, blk |-> Ev.rblock, held |-> Ev.rpass, compl |-> 0]
    /\ Judge(/\ Ev.rpass + Ev.rblock = Ev.ne
             /\ \A i \in DOMAIN Ev.rmarks : Ev.rmarks[i] \in SeqSet(Ev.loaded)
             /\ Ev.kind = "assoc" => Ev.rblock = 0
             /\ IF Len(Ev.loaded) = 0 THEN Ev.thr = -1 /\ Ev.rblock = 0 ELSE Ev.thr \in SeqSet(Ev.loaded),
             [why |-> "first use: the racing first requests / rule loads of a fresh resource left no admissible rule list in force", round |-> Ev])

TProbe ==
    /\ IsEvent("probe")
    /\ UNCHANGED <<g, loads>>
    /\ LET exp == Admitted(fu, Ev.on) IN
       /\ Judge(Ev.pass = exp /\ (~Ev.pass => Ev.marker = fu.thr),
                [why |-> "first use: after quiescence the rule list in force is not enforced exactly", expected_pass |-> exp, state |-> fu, probe |-> Ev])
       \* the abstract counters follow the observed outcome; only requests of the fresh resource are counted on it
       /\ fu' = IF Ev.on # "res" THEN fu
                ELSE IF Ev.pass THEN [fu EXCEPT !.adm = @ + 1, !.held = @ + 1] ELSE [fu EXCEPT !.blk = @ + 1]

TReload ==
    /\ IsEvent("reload")
    /\ UNCHANGED <<g, loads>>
    /\ fu' = [fu EXCEPT !.thr = Ev.thr]
    /\ Judge(Ev.thr = Ev.want, [why |-> "first use: a sequential reload did not put the new threshold in force", reload |-> Ev])

TRelease ==
    /\ IsEvent("release")
    /\ UNCHANGED <<g, loads, failed>>
    /\ fu' = [fu EXCEPT !.compl = @ + fu.held, !.held = 0]

TStat ==
    /\ IsEvent("stat")
    /\ UNCHANGED <<g, loads, fu>>
    /\ Judge(Ev.node /\ Ev.pass = fu.adm /\ Ev.block = fu.blk /\ Ev.conc = fu.held /\ Ev.complete = fu.compl,
             [why |-> "first use: the statistics getters of the resource disagree with the requests made on it", expected |-> fu, got |-> Ev])

TEnd ==
    /\ IsEvent("end")
    /\ UNCHANGED <<g, loads, fu>>
    /\ Judge(Ev.panics = 0, [why |-> "a panic escaped a public API call", panics |-> Ev.panics])

TInit == l = 1 /\ g = [tr |-> 0, const |-> 0] /\ loads = [m \in Mods |-> << >>] /\ failed = FALSE /\ fu = NoFu
TNext == TNew \/ TLoad \/ TReq \/ TEnd \/ TFirstUse \/ TProbe \/ TReload \/ TRelease \/ TStat
TSpec == TInit /\ [][TNext]_tvars
=============================================================================
