--------------------------- MODULE RuleSwitch_Trace ---------------------------
(***************************************************************************)
(* Second sentence of property C15 judged on free-running executions of    *)
(* the real code (harness/cmd/c15, built with -race): while rule lists of  *)
(* resources <m>_r1 (m = flow, isolation, hotspot) are switched through versions    *)
(* 2..K, every request on <m>_r1 must be decided entirely by one version   *)
(* that was current at some instant between its invocation and its return  *)
(* (OldOrNew of RuleSwitch.tla, same version scheme: a mixture or an empty *)
(* list lets the request PASS), and every request on <m>_r2, whose single  *)
(* rule never changes, must be blocked by that rule (updates of one        *)
(* resource never affect another).  inv/ret/ls/le are numbers drawn from   *)
(* one atomic counter before a call resp. after its return.                *)
(***************************************************************************)
EXTENDS Integers, Sequences, FiniteSets, TLC, Json

Trace == ndJsonDeserialize("trace.ndjson")
VARIABLES l, g, loads, failed
tvars == <<l, g, loads, failed>>
Ev == Trace[l]
IsEvent(op) == l <= Len(Trace) /\ Ev.op = op /\ l' = l + 1
Mods == {"flow", "iso", "hot"}
ModOf(res) == IF res \in {"f_r1", "f_r2"} THEN "flow" ELSE IF res \in {"i_r1", "i_r2"} THEN "iso" ELSE "hot"

Judge(ok, expected) ==
    IF failed \/ ok THEN failed' = failed
    ELSE /\ failed' = TRUE
         /\ PrintT("MISMATCH " \o ToString(g.tr) \o " " \o ToString(l) \o " " \o ToJson(expected))

CurrentDuring(L, k, inv, ret) ==
    /\ k \in DOMAIN L /\ L[k].ls < ret
    /\ (k + 1 \in DOMAIN L) => inv < L[k+1].le

TNew ==
    /\ IsEvent("new")
    /\ g' = [tr |-> Ev.tr, const |-> Ev.const]
    /\ loads' = [m \in Mods |-> << >>]
    /\ failed' = FALSE

TLoad ==
    /\ IsEvent("load")
    /\ loads' = [loads EXCEPT ![Ev.mod] = @ @@ (Ev.k :> [ls |-> Ev.ls, le |-> Ev.le])]
    /\ UNCHANGED <<g, failed>>

TReq ==
    /\ IsEvent("req")
    /\ UNCHANGED <<g, loads>>
    /\ IF Ev.res \in {"f_r1", "i_r1", "p_r1"}
       THEN Judge(~Ev.pass /\ CurrentDuring(loads[ModOf(Ev.res)], Ev.marker, Ev.inv, Ev.ret),
                  [why |-> "request not decided entirely by one version current during it", req |-> Ev])
       ELSE Judge(~Ev.pass /\ Ev.marker = g.const,
                  [why |-> "decision on a resource whose rules never changed was disturbed", req |-> Ev])

TEnd ==
    /\ IsEvent("end")
    /\ UNCHANGED <<g, loads>>
    /\ Judge(Ev.panics = 0, [why |-> "a panic escaped a public API call", panics |-> Ev.panics])

TInit == l = 1 /\ g = [tr |-> 0, const |-> 0] /\ loads = [m \in Mods |-> << >>] /\ failed = FALSE
TNext == TNew \/ TLoad \/ TReq \/ TEnd
TSpec == TInit /\ [][TNext]_tvars
=============================================================================
