------------------------- MODULE BreakerConcReload -------------------------
(***************************************************************************)
(* Property C12 across a RULE RELOAD: the BreakerConc model (fixed order   *)
(* of the stores: deadline, swap, notify) generalised from one breaker to  *)
(* breaker OBJECTS, plus a loader process.                                 *)
(*                                                                         *)
(* circuitbreaker.LoadRules / LoadRulesOfResource replaces the breaker     *)
(* list of the resource between two atomic steps of the callers (it has no *)
(* yield point of its own: one atomic step).  A caller keeps the object it *)
(* fetched: Entry fetches the list once before TryPass (step "start"),     *)
(* Exit fetches it AGAIN before OnRequestComplete (step from "drv.exit").  *)
(*   Reload = "same"     identical rule: the object is kept (no-op)        *)
(*   Reload = "changed"  statistic-reusable rule (another threshold Thr2): *)
(*                       a NEW object, Closed, deadline 0, probe count 0,  *)
(*                       counting on with the statistic of the old one     *)
(*   Reload = "none"     no loader                                         *)
(* (BreakerConc.tla itself is left as it is: Refine_Breaker.tla extends it *)
(* by variable and action name.)                                           *)
(*                                                                         *)
(* What C12 demands across a reload:                                       *)
(*  - per breaker OBJECT every clause as before: its swaps form a legal    *)
(*    path from ITS initial state (LegalPerObject), each is reported once  *)
(*    (ReportedOnce), probes exclusive per state word (ExclusiveProbe);    *)
(*  - for the breaker IN SERVICE: no probe is admitted while it is open    *)
(*    before a full retry timeout since IT (the state word it looks at)    *)
(*    opened, whoever opened it (NoEarlyProbePub; the ghosts openedAt /    *)
(*    pubAt / ntrans are kept per state WORD, the deadline per OBJECT).    *)
(*                                                                         *)
(* ShareState = TRUE is the spec-level mutant "the new object continues    *)
(* the state machine of the one it replaces": it SHARES the state word of  *)
(* the old object but COPIES deadline and probe count by value at reload   *)
(* time.  One state, two deadlines: an operation still in flight on the    *)
(* replaced object opens the word after the copy; the object in service    *)
(* sees Open with a stale deadline and probes at once.  TLC must reject it *)
(* (NoEarlyProbePub and LegalPerObject).                                   *)
(*                                                                         *)
(* sched (hidden by VIEW): who moved: client i, 0 = clock tick, -1 = the   *)
(* loader.  The threshold is evaluated on the counters as they were when   *)
(* Exit added to them (stot, serrs), as the code does.                     *)
(***************************************************************************)
EXTENDS Integers, Sequences, FiniteSets, TLC

CONSTANTS NC, Errs, Timeout, ProbeNum, Thr, MinAmt, MaxT, InitOpen,
          Reload, Thr2, ShareState

Clients == 1..NC
LoaderId == NC + 1
Objs == 0..1
ThrOf(b) == IF b = 0 THEN Thr ELSE Thr2

(* --algorithm BreakerConcReload {
variables
    svc = 0,                                   \* the object in service (head of the resource's breaker list)
    word = [b \in Objs |-> b],                 \* object -> the state word it uses
    state = [w \in Objs |-> IF w = 0 /\ InitOpen THEN "O" ELSE "C"],
    retryAt = [b \in Objs |-> IF b = 0 /\ InitOpen THEN 1 + Timeout ELSE 0],
    probes = [b \in Objs |-> 0],
    tot = IF InitOpen THEN MinAmt ELSE 0, errs = IF InitOpen THEN Thr ELSE 0,   \* the (reused) statistic
    now = 1,
    listen = << >>,            \* listener callbacks in call order: <<object, from, to, who>>
    \* ghosts, per state word
    openedAt = [w \in Objs |-> IF w = 0 /\ InitOpen THEN 1 ELSE 0],
    pubAt = [w \in Objs |-> IF w = 0 /\ InitOpen THEN 1 ELSE -1],
    epoch = [w \in Objs |-> 0],
    admittedIn = [w \in Objs |-> [e \in 0..(2*NC) |-> 0]],
    ntrans = [w \in Objs |-> 0],
    \* ghosts, per object: the state the object is in according to ITS OWN swaps
    ost = [b \in Objs |-> IF b = 0 /\ InitOpen THEN "O" ELSE "C"],
    illegal = FALSE,           \* some object swapped from a state it was not in
    early = FALSE, earlyStale = FALSE, earlyStalled = FALSE, earlyPub = FALSE,
    reloaded = FALSE,
    sched = << >>;

define {
    NoEarlyProbe    == ~early
    NoEarlyProbePub == ~earlyPub
    NoStaleEarly    == ~earlyStale
    NoStalledEarly  == ~earlyStalled
    LegalPerObject  == ~illegal
    ExclusiveProbe == ProbeNum = 0 => \A w \in Objs : \A e \in 1..(2*NC) : admittedIn[w][e] <= 1
    ReportedOnce   == (\A c \in Clients : pc[c] = "Done") => Len(listen) = ntrans[0] + ntrans[1]
}

macro Note() { sched := Append(sched, self); }

process (c \in Clients)
variables ob = 0, cur = "C", arrived = FALSE, tread = 0, admitted = FALSE, pub = -1, nread = 0, stot = 0, serrs = 0;
{
  en_start: \* (goroutine start) Entry() fetches the breaker list and runs up to the first yield point of TryPass
    ob := svc; Note();
  \* ---------------- TryPass
  tp_get:   \* cb.get
    cur := state[word[ob]]; Note();
    if (cur = "C") { admitted := TRUE; goto ex_start; }
    else if (cur = "H") {
        if (ProbeNum > 0) { admitted := TRUE;
                            admittedIn[word[ob]][epoch[word[ob]]] := admittedIn[word[ob]][epoch[word[ob]]] + 1; goto ex_start; }
        else { goto Done; }
    };
  tp_dl:    \* cb.deadline.load
    arrived := now >= retryAt[ob]; tread := now; nread := ntrans[word[ob]]; Note();
    if (~arrived) { goto Done; };
  tp_cas:   \* cb.cas (Open -> HalfOpen)
    Note();
    if (state[word[ob]] = "O") {
        if (tread < openedAt[word[ob]] + Timeout) {
            early := TRUE;
            if (nread # ntrans[word[ob]]) { earlyStale := TRUE; }
            else if (pubAt[word[ob]] >= 0 /\ tread >= pubAt[word[ob]] + Timeout) { earlyStalled := TRUE; }
            else { earlyPub := TRUE; };
        };
        if (ost[ob] # "O") { illegal := TRUE; };
        ost[ob] := "H";
        state[word[ob]] := "H"; ntrans[word[ob]] := ntrans[word[ob]] + 1;
        admittedIn[word[ob]][epoch[word[ob]] + 1] := admittedIn[word[ob]][epoch[word[ob]] + 1] + 1;
        epoch[word[ob]] := epoch[word[ob]] + 1;
    } else { goto Done; };
  tp_notify: \* cb.notify
    listen := Append(listen, <<ob, "O", "H", self>>); admitted := TRUE; Note();
  \* ---------------- Exit -> OnRequestComplete
  ex_start: \* drv.exit: Exit() fetches the breaker list again; the counters are updated and read before the first cb.get
    ob := svc;
    tot := tot + 1; errs := errs + (IF Errs[self] THEN 1 ELSE 0);
    stot := tot; serrs := errs; Note();
  oc_get:   \* cb.get
    cur := state[word[ob]]; Note();
    if (cur = "O") { goto Done; }
    else if (cur = "H") {
        if (Errs[self]) { goto ho_dl1; } else { goto pr_add; };
    } else {
        if (stot < MinAmt \/ serrs < ThrOf(ob)) { goto Done; };
    };
  oc_get2:  \* cb.get (re-read before opening)
    cur := state[word[ob]]; Note();
    if (cur = "C") { goto co_dl1; }
    else if (cur = "H") { goto ho_dl1; } else { goto Done; };
  \* fromClosedToOpen: deadline, swap, notify
  co_dl1:   \* cb.deadline.store
    retryAt[ob] := now + Timeout; pub := now; Note();
  co_cas1:  \* cb.cas
    Note();
    if (state[word[ob]] = "C") {
        if (ost[ob] # "C") { illegal := TRUE; };
        ost[ob] := "O";
        state[word[ob]] := "O"; ntrans[word[ob]] := ntrans[word[ob]] + 1; openedAt[word[ob]] := now; pubAt[word[ob]] := pub;
    } else { goto Done; };
  co_notify: \* cb.notify
    listen := Append(listen, <<ob, "C", "O", self>>); Note(); goto Done;
  \* fromHalfOpenToOpen: deadline, swap, reset, notify
  ho_dl1:   \* cb.deadline.store
    retryAt[ob] := now + Timeout; pub := now; Note();
  ho_cas1:  \* cb.cas
    Note();
    if (state[word[ob]] = "H") {
        if (ost[ob] # "H") { illegal := TRUE; };
        ost[ob] := "O";
        state[word[ob]] := "O"; ntrans[word[ob]] := ntrans[word[ob]] + 1; openedAt[word[ob]] := now; pubAt[word[ob]] := pub;
    } else { goto Done; };
  ho_reset1: \* cb.probe.reset
    probes[ob] := 0; Note();
  ho_notify: \* cb.notify
    listen := Append(listen, <<ob, "H", "O", self>>); Note(); goto Done;
  \* successful probe
  pr_add:   \* cb.probe.add
    probes[ob] := probes[ob] + 1; Note();
    if (~(ProbeNum = 0 \/ probes[ob] >= ProbeNum)) { goto Done; };
  hc_cas:   \* cb.cas (HalfOpen -> Closed)
    Note();
    if (state[word[ob]] = "H") {
        if (ost[ob] # "H") { illegal := TRUE; };
        ost[ob] := "C";
        state[word[ob]] := "C"; ntrans[word[ob]] := ntrans[word[ob]] + 1;
    } else { goto hc_resetm; };
  hc_reset: \* cb.probe.reset
    probes[ob] := 0; Note();
  hc_notify: \* cb.notify
    listen := Append(listen, <<ob, "H", "C", self>>); Note();
  hc_resetm: \* resetMetric (no yield point inside)
    tot := 0; errs := 0;
}

process (loader = LoaderId)
{
  ld_go: \* circuitbreaker.LoadRules: one atomic step between the steps of the callers
    await Reload # "none";
    if (Reload = "changed") {
        svc := 1;
        if (ShareState) {      \* mutant: state word shared, deadline and probe count copied by value
            word[1] := word[0]; retryAt[1] := retryAt[0]; probes[1] := probes[0]; ost[1] := state[word[0]];
        };
    };
    reloaded := TRUE;
    sched := Append(sched, -1);
}

process (clock = 0)
{
  tick: while (now < MaxT) { now := now + 1; sched := Append(sched, 0); }
}
} *)
\* BEGIN TRANSLATION (chksum(pcal) = "df2f2ab4" /\ chksum(tla) = "48427a86")
VARIABLES pc, svc, word, state, retryAt, probes, tot, errs, now, listen, 
          openedAt, pubAt, epoch, admittedIn, ntrans, ost, illegal, early, 
          earlyStale, earlyStalled, earlyPub, reloaded, sched

(* define statement *)
NoEarlyProbe    == ~early
NoEarlyProbePub == ~earlyPub
NoStaleEarly    == ~earlyStale
NoStalledEarly  == ~earlyStalled
LegalPerObject  == ~illegal
ExclusiveProbe == ProbeNum = 0 => \A w \in Objs : \A e \in 1..(2*NC) : admittedIn[w][e] <= 1
ReportedOnce   == (\A c \in Clients : pc[c] = "Done") => Len(listen) = ntrans[0] + ntrans[1]

VARIABLES ob, cur, arrived, tread, admitted, pub, nread, stot, serrs

vars == << pc, svc, word, state, retryAt, probes, tot, errs, now, listen, 
           openedAt, pubAt, epoch, admittedIn, ntrans, ost, illegal, early, 
           earlyStale, earlyStalled, earlyPub, reloaded, sched, ob, cur, 
           arrived, tread, admitted, pub, nread, stot, serrs >>

ProcSet == (Clients) \cup {LoaderId} \cup {0}

Init == (* Global variables *)
        /\ svc = 0
        /\ word = [b \in Objs |-> b]
        /\ state = [w \in Objs |-> IF w = 0 /\ InitOpen THEN "O" ELSE "C"]
        /\ retryAt = [b \in Objs |-> IF b = 0 /\ InitOpen THEN 1 + Timeout ELSE 0]
        /\ probes = [b \in Objs |-> 0]
        /\ tot = IF InitOpen THEN MinAmt ELSE 0
        /\ errs = IF InitOpen THEN Thr ELSE 0
        /\ now = 1
        /\ listen = << >>
        /\ openedAt = [w \in Objs |-> IF w = 0 /\ InitOpen THEN 1 ELSE 0]
        /\ pubAt = [w \in Objs |-> IF w = 0 /\ InitOpen THEN 1 ELSE -1]
        /\ epoch = [w \in Objs |-> 0]
        /\ admittedIn = [w \in Objs |-> [e \in 0..(2*NC) |-> 0]]
        /\ ntrans = [w \in Objs |-> 0]
        /\ ost = [b \in Objs |-> IF b = 0 /\ InitOpen THEN "O" ELSE "C"]
        /\ illegal = FALSE
        /\ early = FALSE
        /\ earlyStale = FALSE
        /\ earlyStalled = FALSE
        /\ earlyPub = FALSE
        /\ reloaded = FALSE
        /\ sched = << >>
        (* Process c *)
        /\ ob = [self \in Clients |-> 0]
        /\ cur = [self \in Clients |-> "C"]
        /\ arrived = [self \in Clients |-> FALSE]
        /\ tread = [self \in Clients |-> 0]
        /\ admitted = [self \in Clients |-> FALSE]
        /\ pub = [self \in Clients |-> -1]
        /\ nread = [self \in Clients |-> 0]
        /\ stot = [self \in Clients |-> 0]
        /\ serrs = [self \in Clients |-> 0]
        /\ pc = [self \in ProcSet |-> CASE self \in Clients -> "en_start"
                                        [] self = LoaderId -> "ld_go"
                                        [] self = 0 -> "tick"]

en_start(self) == /\ pc[self] = "en_start"
                  /\ ob' = [ob EXCEPT ![self] = svc]
                  /\ sched' = Append(sched, self)
                  /\ pc' = [pc EXCEPT ![self] = "tp_get"]
                  /\ UNCHANGED << svc, word, state, retryAt, probes, tot, errs, 
                                  now, listen, openedAt, pubAt, epoch, 
                                  admittedIn, ntrans, ost, illegal, early, 
                                  earlyStale, earlyStalled, earlyPub, reloaded, 
                                  cur, arrived, tread, admitted, pub, nread, 
                                  stot, serrs >>

tp_get(self) == /\ pc[self] = "tp_get"
                /\ cur' = [cur EXCEPT ![self] = state[word[ob[self]]]]
                /\ sched' = Append(sched, self)
                /\ IF cur'[self] = "C"
                      THEN /\ admitted' = [admitted EXCEPT ![self] = TRUE]
                           /\ pc' = [pc EXCEPT ![self] = "ex_start"]
                           /\ UNCHANGED admittedIn
                      ELSE /\ IF cur'[self] = "H"
                                 THEN /\ IF ProbeNum > 0
                                            THEN /\ admitted' = [admitted EXCEPT ![self] = TRUE]
                                                 /\ admittedIn' = [admittedIn EXCEPT ![word[ob[self]]][epoch[word[ob[self]]]] = admittedIn[word[ob[self]]][epoch[word[ob[self]]]] + 1]
                                                 /\ pc' = [pc EXCEPT ![self] = "ex_start"]
                                            ELSE /\ pc' = [pc EXCEPT ![self] = "Done"]
                                                 /\ UNCHANGED << admittedIn, 
                                                                 admitted >>
                                 ELSE /\ pc' = [pc EXCEPT ![self] = "tp_dl"]
                                      /\ UNCHANGED << admittedIn, admitted >>
                /\ UNCHANGED << svc, word, state, retryAt, probes, tot, errs, 
                                now, listen, openedAt, pubAt, epoch, ntrans, 
                                ost, illegal, early, earlyStale, earlyStalled, 
                                earlyPub, reloaded, ob, arrived, tread, pub, 
                                nread, stot, serrs >>

tp_dl(self) == /\ pc[self] = "tp_dl"
               /\ arrived' = [arrived EXCEPT ![self] = now >= retryAt[ob[self]]]
               /\ tread' = [tread EXCEPT ![self] = now]
               /\ nread' = [nread EXCEPT ![self] = ntrans[word[ob[self]]]]
               /\ sched' = Append(sched, self)
               /\ IF ~arrived'[self]
                     THEN /\ pc' = [pc EXCEPT ![self] = "Done"]
                     ELSE /\ pc' = [pc EXCEPT ![self] = "tp_cas"]
               /\ UNCHANGED << svc, word, state, retryAt, probes, tot, errs, 
                               now, listen, openedAt, pubAt, epoch, admittedIn, 
                               ntrans, ost, illegal, early, earlyStale, 
                               earlyStalled, earlyPub, reloaded, ob, cur, 
                               admitted, pub, stot, serrs >>

tp_cas(self) == /\ pc[self] = "tp_cas"
                /\ sched' = Append(sched, self)
                /\ IF state[word[ob[self]]] = "O"
                      THEN /\ IF tread[self] < openedAt[word[ob[self]]] + Timeout
                                 THEN /\ early' = TRUE
                                      /\ IF nread[self] # ntrans[word[ob[self]]]
                                            THEN /\ earlyStale' = TRUE
                                                 /\ UNCHANGED << earlyStalled, 
                                                                 earlyPub >>
                                            ELSE /\ IF pubAt[word[ob[self]]] >= 0 /\ tread[self] >= pubAt[word[ob[self]]] + Timeout
                                                       THEN /\ earlyStalled' = TRUE
                                                            /\ UNCHANGED earlyPub
                                                       ELSE /\ earlyPub' = TRUE
                                                            /\ UNCHANGED earlyStalled
                                                 /\ UNCHANGED earlyStale
                                 ELSE /\ TRUE
                                      /\ UNCHANGED << early, earlyStale, 
                                                      earlyStalled, earlyPub >>
                           /\ IF ost[ob[self]] # "O"
                                 THEN /\ illegal' = TRUE
                                 ELSE /\ TRUE
                                      /\ UNCHANGED illegal
                           /\ ost' = [ost EXCEPT ![ob[self]] = "H"]
                           /\ state' = [state EXCEPT ![word[ob[self]]] = "H"]
                           /\ ntrans' = [ntrans EXCEPT ![word[ob[self]]] = ntrans[word[ob[self]]] + 1]
                           /\ admittedIn' = [admittedIn EXCEPT ![word[ob[self]]][epoch[word[ob[self]]] + 1] = admittedIn[word[ob[self]]][epoch[word[ob[self]]] + 1] + 1]
                           /\ epoch' = [epoch EXCEPT ![word[ob[self]]] = epoch[word[ob[self]]] + 1]
                           /\ pc' = [pc EXCEPT ![self] = "tp_notify"]
                      ELSE /\ pc' = [pc EXCEPT ![self] = "Done"]
                           /\ UNCHANGED << state, epoch, admittedIn, ntrans, 
                                           ost, illegal, early, earlyStale, 
                                           earlyStalled, earlyPub >>
                /\ UNCHANGED << svc, word, retryAt, probes, tot, errs, now, 
                                listen, openedAt, pubAt, reloaded, ob, cur, 
                                arrived, tread, admitted, pub, nread, stot, 
                                serrs >>

tp_notify(self) == /\ pc[self] = "tp_notify"
                   /\ listen' = Append(listen, <<ob[self], "O", "H", self>>)
                   /\ admitted' = [admitted EXCEPT ![self] = TRUE]
                   /\ sched' = Append(sched, self)
                   /\ pc' = [pc EXCEPT ![self] = "ex_start"]
                   /\ UNCHANGED << svc, word, state, retryAt, probes, tot, 
                                   errs, now, openedAt, pubAt, epoch, 
                                   admittedIn, ntrans, ost, illegal, early, 
                                   earlyStale, earlyStalled, earlyPub, 
                                   reloaded, ob, cur, arrived, tread, pub, 
                                   nread, stot, serrs >>

ex_start(self) == /\ pc[self] = "ex_start"
                  /\ ob' = [ob EXCEPT ![self] = svc]
                  /\ tot' = tot + 1
                  /\ errs' = errs + (IF Errs[self] THEN 1 ELSE 0)
                  /\ stot' = [stot EXCEPT ![self] = tot']
                  /\ serrs' = [serrs EXCEPT ![self] = errs']
                  /\ sched' = Append(sched, self)
                  /\ pc' = [pc EXCEPT ![self] = "oc_get"]
                  /\ UNCHANGED << svc, word, state, retryAt, probes, now, 
                                  listen, openedAt, pubAt, epoch, admittedIn, 
                                  ntrans, ost, illegal, early, earlyStale, 
                                  earlyStalled, earlyPub, reloaded, cur, 
                                  arrived, tread, admitted, pub, nread >>

oc_get(self) == /\ pc[self] = "oc_get"
                /\ cur' = [cur EXCEPT ![self] = state[word[ob[self]]]]
                /\ sched' = Append(sched, self)
                /\ IF cur'[self] = "O"
                      THEN /\ pc' = [pc EXCEPT ![self] = "Done"]
                      ELSE /\ IF cur'[self] = "H"
                                 THEN /\ IF Errs[self]
                                            THEN /\ pc' = [pc EXCEPT ![self] = "ho_dl1"]
                                            ELSE /\ pc' = [pc EXCEPT ![self] = "pr_add"]
                                 ELSE /\ IF stot[self] < MinAmt \/ serrs[self] < ThrOf(ob[self])
                                            THEN /\ pc' = [pc EXCEPT ![self] = "Done"]
                                            ELSE /\ pc' = [pc EXCEPT ![self] = "oc_get2"]
                /\ UNCHANGED << svc, word, state, retryAt, probes, tot, errs, 
                                now, listen, openedAt, pubAt, epoch, 
                                admittedIn, ntrans, ost, illegal, early, 
                                earlyStale, earlyStalled, earlyPub, reloaded, 
                                ob, arrived, tread, admitted, pub, nread, stot, 
                                serrs >>

oc_get2(self) == /\ pc[self] = "oc_get2"
                 /\ cur' = [cur EXCEPT ![self] = state[word[ob[self]]]]
                 /\ sched' = Append(sched, self)
                 /\ IF cur'[self] = "C"
                       THEN /\ pc' = [pc EXCEPT ![self] = "co_dl1"]
                       ELSE /\ IF cur'[self] = "H"
                                  THEN /\ pc' = [pc EXCEPT ![self] = "ho_dl1"]
                                  ELSE /\ pc' = [pc EXCEPT ![self] = "Done"]
                 /\ UNCHANGED << svc, word, state, retryAt, probes, tot, errs, 
                                 now, listen, openedAt, pubAt, epoch, 
                                 admittedIn, ntrans, ost, illegal, early, 
                                 earlyStale, earlyStalled, earlyPub, reloaded, 
                                 ob, arrived, tread, admitted, pub, nread, 
                                 stot, serrs >>

co_dl1(self) == /\ pc[self] = "co_dl1"
                /\ retryAt' = [retryAt EXCEPT ![ob[self]] = now + Timeout]
                /\ pub' = [pub EXCEPT ![self] = now]
                /\ sched' = Append(sched, self)
                /\ pc' = [pc EXCEPT ![self] = "co_cas1"]
                /\ UNCHANGED << svc, word, state, probes, tot, errs, now, 
                                listen, openedAt, pubAt, epoch, admittedIn, 
                                ntrans, ost, illegal, early, earlyStale, 
                                earlyStalled, earlyPub, reloaded, ob, cur, 
                                arrived, tread, admitted, nread, stot, serrs >>

co_cas1(self) == /\ pc[self] = "co_cas1"
                 /\ sched' = Append(sched, self)
                 /\ IF state[word[ob[self]]] = "C"
                       THEN /\ IF ost[ob[self]] # "C"
                                  THEN /\ illegal' = TRUE
                                  ELSE /\ TRUE
                                       /\ UNCHANGED illegal
                            /\ ost' = [ost EXCEPT ![ob[self]] = "O"]
                            /\ state' = [state EXCEPT ![word[ob[self]]] = "O"]
                            /\ ntrans' = [ntrans EXCEPT ![word[ob[self]]] = ntrans[word[ob[self]]] + 1]
                            /\ openedAt' = [openedAt EXCEPT ![word[ob[self]]] = now]
                            /\ pubAt' = [pubAt EXCEPT ![word[ob[self]]] = pub[self]]
                            /\ pc' = [pc EXCEPT ![self] = "co_notify"]
                       ELSE /\ pc' = [pc EXCEPT ![self] = "Done"]
                            /\ UNCHANGED << state, openedAt, pubAt, ntrans, 
                                            ost, illegal >>
                 /\ UNCHANGED << svc, word, retryAt, probes, tot, errs, now, 
                                 listen, epoch, admittedIn, early, earlyStale, 
                                 earlyStalled, earlyPub, reloaded, ob, cur, 
                                 arrived, tread, admitted, pub, nread, stot, 
                                 serrs >>

co_notify(self) == /\ pc[self] = "co_notify"
                   /\ listen' = Append(listen, <<ob[self], "C", "O", self>>)
                   /\ sched' = Append(sched, self)
                   /\ pc' = [pc EXCEPT ![self] = "Done"]
                   /\ UNCHANGED << svc, word, state, retryAt, probes, tot, 
                                   errs, now, openedAt, pubAt, epoch, 
                                   admittedIn, ntrans, ost, illegal, early, 
                                   earlyStale, earlyStalled, earlyPub, 
                                   reloaded, ob, cur, arrived, tread, admitted, 
                                   pub, nread, stot, serrs >>

ho_dl1(self) == /\ pc[self] = "ho_dl1"
                /\ retryAt' = [retryAt EXCEPT ![ob[self]] = now + Timeout]
                /\ pub' = [pub EXCEPT ![self] = now]
                /\ sched' = Append(sched, self)
                /\ pc' = [pc EXCEPT ![self] = "ho_cas1"]
                /\ UNCHANGED << svc, word, state, probes, tot, errs, now, 
                                listen, openedAt, pubAt, epoch, admittedIn, 
                                ntrans, ost, illegal, early, earlyStale, 
                                earlyStalled, earlyPub, reloaded, ob, cur, 
                                arrived, tread, admitted, nread, stot, serrs >>

ho_cas1(self) == /\ pc[self] = "ho_cas1"
                 /\ sched' = Append(sched, self)
                 /\ IF state[word[ob[self]]] = "H"
                       THEN /\ IF ost[ob[self]] # "H"
                                  THEN /\ illegal' = TRUE
                                  ELSE /\ TRUE
                                       /\ UNCHANGED illegal
                            /\ ost' = [ost EXCEPT ![ob[self]] = "O"]
                            /\ state' = [state EXCEPT ![word[ob[self]]] = "O"]
                            /\ ntrans' = [ntrans EXCEPT ![word[ob[self]]] = ntrans[word[ob[self]]] + 1]
                            /\ openedAt' = [openedAt EXCEPT ![word[ob[self]]] = now]
                            /\ pubAt' = [pubAt EXCEPT ![word[ob[self]]] = pub[self]]
                            /\ pc' = [pc EXCEPT ![self] = "ho_reset1"]
                       ELSE /\ pc' = [pc EXCEPT ![self] = "Done"]
                            /\ UNCHANGED << state, openedAt, pubAt, ntrans, 
                                            ost, illegal >>
                 /\ UNCHANGED << svc, word, retryAt, probes, tot, errs, now, 
                                 listen, epoch, admittedIn, early, earlyStale, 
                                 earlyStalled, earlyPub, reloaded, ob, cur, 
                                 arrived, tread, admitted, pub, nread, stot, 
                                 serrs >>

ho_reset1(self) == /\ pc[self] = "ho_reset1"
                   /\ probes' = [probes EXCEPT ![ob[self]] = 0]
                   /\ sched' = Append(sched, self)
                   /\ pc' = [pc EXCEPT ![self] = "ho_notify"]
                   /\ UNCHANGED << svc, word, state, retryAt, tot, errs, now, 
                                   listen, openedAt, pubAt, epoch, admittedIn, 
                                   ntrans, ost, illegal, early, earlyStale, 
                                   earlyStalled, earlyPub, reloaded, ob, cur, 
                                   arrived, tread, admitted, pub, nread, stot, 
                                   serrs >>

ho_notify(self) == /\ pc[self] = "ho_notify"
                   /\ listen' = Append(listen, <<ob[self], "H", "O", self>>)
                   /\ sched' = Append(sched, self)
                   /\ pc' = [pc EXCEPT ![self] = "Done"]
                   /\ UNCHANGED << svc, word, state, retryAt, probes, tot, 
                                   errs, now, openedAt, pubAt, epoch, 
                                   admittedIn, ntrans, ost, illegal, early, 
                                   earlyStale, earlyStalled, earlyPub, 
                                   reloaded, ob, cur, arrived, tread, admitted, 
                                   pub, nread, stot, serrs >>

pr_add(self) == /\ pc[self] = "pr_add"
                /\ probes' = [probes EXCEPT ![ob[self]] = probes[ob[self]] + 1]
                /\ sched' = Append(sched, self)
                /\ IF ~(ProbeNum = 0 \/ probes'[ob[self]] >= ProbeNum)
                      THEN /\ pc' = [pc EXCEPT ![self] = "Done"]
                      ELSE /\ pc' = [pc EXCEPT ![self] = "hc_cas"]
                /\ UNCHANGED << svc, word, state, retryAt, tot, errs, now, 
                                listen, openedAt, pubAt, epoch, admittedIn, 
                                ntrans, ost, illegal, early, earlyStale, 
                                earlyStalled, earlyPub, reloaded, ob, cur, 
                                arrived, tread, admitted, pub, nread, stot, 
                                serrs >>

hc_cas(self) == /\ pc[self] = "hc_cas"
                /\ sched' = Append(sched, self)
                /\ IF state[word[ob[self]]] = "H"
                      THEN /\ IF ost[ob[self]] # "H"
                                 THEN /\ illegal' = TRUE
                                 ELSE /\ TRUE
                                      /\ UNCHANGED illegal
                           /\ ost' = [ost EXCEPT ![ob[self]] = "C"]
                           /\ state' = [state EXCEPT ![word[ob[self]]] = "C"]
                           /\ ntrans' = [ntrans EXCEPT ![word[ob[self]]] = ntrans[word[ob[self]]] + 1]
                           /\ pc' = [pc EXCEPT ![self] = "hc_reset"]
                      ELSE /\ pc' = [pc EXCEPT ![self] = "hc_resetm"]
                           /\ UNCHANGED << state, ntrans, ost, illegal >>
                /\ UNCHANGED << svc, word, retryAt, probes, tot, errs, now, 
                                listen, openedAt, pubAt, epoch, admittedIn, 
                                early, earlyStale, earlyStalled, earlyPub, 
                                reloaded, ob, cur, arrived, tread, admitted, 
                                pub, nread, stot, serrs >>

hc_reset(self) == /\ pc[self] = "hc_reset"
                  /\ probes' = [probes EXCEPT ![ob[self]] = 0]
                  /\ sched' = Append(sched, self)
                  /\ pc' = [pc EXCEPT ![self] = "hc_notify"]
                  /\ UNCHANGED << svc, word, state, retryAt, tot, errs, now, 
                                  listen, openedAt, pubAt, epoch, admittedIn, 
                                  ntrans, ost, illegal, early, earlyStale, 
                                  earlyStalled, earlyPub, reloaded, ob, cur, 
                                  arrived, tread, admitted, pub, nread, stot, 
                                  serrs >>

hc_notify(self) == /\ pc[self] = "hc_notify"
                   /\ listen' = Append(listen, <<ob[self], "H", "C", self>>)
                   /\ sched' = Append(sched, self)
                   /\ pc' = [pc EXCEPT ![self] = "hc_resetm"]
                   /\ UNCHANGED << svc, word, state, retryAt, probes, tot, 
                                   errs, now, openedAt, pubAt, epoch, 
                                   admittedIn, ntrans, ost, illegal, early, 
                                   earlyStale, earlyStalled, earlyPub, 
                                   reloaded, ob, cur, arrived, tread, admitted, 
                                   pub, nread, stot, serrs >>

hc_resetm(self) == /\ pc[self] = "hc_resetm"
                   /\ tot' = 0
                   /\ errs' = 0
                   /\ pc' = [pc EXCEPT ![self] = "Done"]
                   /\ UNCHANGED << svc, word, state, retryAt, probes, now, 
                                   listen, openedAt, pubAt, epoch, admittedIn, 
                                   ntrans, ost, illegal, early, earlyStale, 
                                   earlyStalled, earlyPub, reloaded, sched, ob, 
                                   cur, arrived, tread, admitted, pub, nread, 
                                   stot, serrs >>

c(self) == en_start(self) \/ tp_get(self) \/ tp_dl(self) \/ tp_cas(self)
              \/ tp_notify(self) \/ ex_start(self) \/ oc_get(self)
              \/ oc_get2(self) \/ co_dl1(self) \/ co_cas1(self)
              \/ co_notify(self) \/ ho_dl1(self) \/ ho_cas1(self)
              \/ ho_reset1(self) \/ ho_notify(self) \/ pr_add(self)
              \/ hc_cas(self) \/ hc_reset(self) \/ hc_notify(self)
              \/ hc_resetm(self)

ld_go == /\ pc[LoaderId] = "ld_go"
         /\ Reload # "none"
         /\ IF Reload = "changed"
               THEN /\ svc' = 1
                    /\ IF ShareState
                          THEN /\ word' = [word EXCEPT ![1] = word[0]]
                               /\ retryAt' = [retryAt EXCEPT ![1] = retryAt[0]]
                               /\ probes' = [probes EXCEPT ![1] = probes[0]]
                               /\ ost' = [ost EXCEPT ![1] = state[word'[0]]]
                          ELSE /\ TRUE
                               /\ UNCHANGED << word, retryAt, probes, ost >>
               ELSE /\ TRUE
                    /\ UNCHANGED << svc, word, retryAt, probes, ost >>
         /\ reloaded' = TRUE
         /\ sched' = Append(sched, -1)
         /\ pc' = [pc EXCEPT ![LoaderId] = "Done"]
         /\ UNCHANGED << state, tot, errs, now, listen, openedAt, pubAt, epoch, 
                         admittedIn, ntrans, illegal, early, earlyStale, 
                         earlyStalled, earlyPub, ob, cur, arrived, tread, 
                         admitted, pub, nread, stot, serrs >>

loader == ld_go

tick == /\ pc[0] = "tick"
        /\ IF now < MaxT
              THEN /\ now' = now + 1
                   /\ sched' = Append(sched, 0)
                   /\ pc' = [pc EXCEPT ![0] = "tick"]
              ELSE /\ pc' = [pc EXCEPT ![0] = "Done"]
                   /\ UNCHANGED << now, sched >>
        /\ UNCHANGED << svc, word, state, retryAt, probes, tot, errs, listen, 
                        openedAt, pubAt, epoch, admittedIn, ntrans, ost, 
                        illegal, early, earlyStale, earlyStalled, earlyPub, 
                        reloaded, ob, cur, arrived, tread, admitted, pub, 
                        nread, stot, serrs >>

clock == tick

(* Allow infinite stuttering to prevent deadlock on termination. *)
Terminating == /\ \A self \in ProcSet: pc[self] = "Done"
               /\ UNCHANGED vars

Next == loader \/ clock
           \/ (\E self \in Clients: c(self))
           \/ Terminating

Spec == Init /\ [][Next]_vars

Termination == <>(\A self \in ProcSet: pc[self] = "Done")

\* END TRANSLATION 
=============================================================================
