---------------------------- MODULE WindowConc_MC ----------------------------
EXTENDS WindowConc
CONSTANTS K1, K2, K3, K4                \* the statistic process 1..4 records into / reads (cfg files cannot hold functions)
MCAmt == [p \in Writers |-> p]          \* writer p records amount p (distinguishable)
KOf(p) == CASE p = 1 -> K1 [] p = 2 -> K2 [] p = 3 -> K3 [] OTHER -> K4
MCWKind == [p \in Writers |-> KOf(p)]
MCRKind == [p \in Readers |-> KOf(p)]
view == <<start, cnt, mn, mx, lock, now, seq, ops, pend, pc, ts, bs, idx, rts, rbs, ridx, si, incl, sum>>
=============================================================================
