---------------------------- MODULE WindowConc_MC ----------------------------
EXTENDS WindowConc
MCAmt == [p \in Writers |-> p]          \* writer p records amount p (distinguishable)
view == <<start, cnt, lock, now, seq, ops, pend, pc, ts, bs, idx, rts, rbs, ridx, si, incl, sum>>
=============================================================================
