---------------------------- MODULE EntryChain_MC ----------------------------
(* Bounded instances of EntryChain for exhaustive TLC runs and for scenario generation.          *)
(*  "chain" instance (C16): chains of <= MaxPre/MaxRule/MaxStat recording slots with colliding   *)
(*    order values and every behaviour, followed by a few entries;                               *)
(*  "acct" instance (C01): a fixed accounting chain (real prepare slot, scripted prepare slot,   *)
(*    scripted rule slot, real stat slot, recording stat slot), several resources, ticks.        *)
EXTENDS EntryChain, Json

MCAcctChain == [pre  |-> << [ord |-> 1, id |-> 1, beh |-> "real"], [ord |-> 2, id |-> 2, beh |-> "script"] >>,
                rule |-> << [ord |-> 1, id |-> 3, beh |-> "script"] >>,
                stat |-> << [ord |-> 1, id |-> 4, beh |-> "real"], [ord |-> 2, id |-> 5, beh |-> "pass"] >>]
MCEmptyChain == EmptyChain
MCNone == {}
MCBool == BOOLEAN
MCOutbound == {FALSE}
MCSteps == {1, PBL, VInt, PInt + PBL}
MCStepsQ == {1, PBL, PInt + PBL}
MCMaxT == 2 * PInt + 3

\* slots are added kind by kind in the exhaustive runs (ids stay canonical); generators interleave freely
Phased ==
    /\ Len(chain'.pre) > Len(chain.pre) => Len(chain.rule) = 0 /\ Len(chain.stat) = 0
    /\ Len(chain'.rule) > Len(chain.rule) => Len(chain.stat) = 0

\* scenario generation: one line per generated transition
Emit == PrintT(ToJson(h'))
PhasedEmit == Phased /\ Emit
=============================================================================
