SPECIFICATION Spec
CONSTANTS
  PN = 2
  PBL = 2
  T0Set <- MCT0
  Steps <- MCSteps
  Kinds = {"pass", "rt"}
  Amounts = {1, 2}
  Concs = {2}
  MaxOps = 3
  MaxT <- MCMaxT
VIEW view
INVARIANTS TypeOK ArrayOK ViewOK MaxBOK PrevOK CondOK
CHECK_DEADLOCK FALSE
