---------------------------- MODULE Outlier_Trace ----------------------------
(***************************************************************************)
(* Validation of executions of the real outlier-ejection code (a slot      *)
(* chain BuildDefaultSlotChain + outlier.DefaultSlot / DefaultMetricStat-  *)
(* Slot, driven through api.Entry / TraceCallee / TraceError / Exit under  *)
(* the virtual clock) against the operators of OutlierOps (property C20).  *)
(*                                                                         *)
(* harness/cmd/c20 records one ndjson line per operation:                  *)
(*   new     tr, cfgs [[rule (record as in OutlierOps, times in ms),       *)
(*           pct [num,den], active], ...]   one configuration per resource *)
(*           of the scenario (resources 1..Len(cfgs); they share the slot  *)
(*           chain and therefore the pooled entry contexts)                *)
(*           (old replay files: rule, pct, active = one resource)          *)
(*   req     id, res, filter [nodes], half [nodes]   what FilterNodes() /  *)
(*           HalfOpenNodes() of the admitted entry of resource res         *)
(*           returned (as sets); res defaults to 1                         *)
(*   done    id, node, err      the entry exits after TraceCallee(node)    *)
(*   leave   id                 the entry exits without a callee address   *)
(*   obs     res, filter, half  = req directly followed by leave           *)
(*   tick    t                  ms since the start of the scenario         *)
(*   reload  res, rule, pct, active, clear   the outlier rule of resource  *)
(*           res was loaded again in the middle of the scenario (through   *)
(*           outlier.LoadRuleOfResource or outlier.LoadRules, "via"); the  *)
(*           logged rule is the one in force from now on.  clear = false:  *)
(*           the embedded circuit-breaker rule is the old one (only the    *)
(*           percentage / recovery mode / intervals differ, or nothing);   *)
(*           clear = true: the rule was cleared first.  As in Outlier's    *)
(*           Reload: known nodes and breakers survive unless cleared, the  *)
(*           recycle marks always survive, and every later answer is       *)
(*           judged by the rule now in force.                              *)
(*   active  node               the retryer's health check of node was     *)
(*                              answered "healthy" (real timer, thorough)  *)
(*   recycle visible [nodes]    the recycle timers have fired (real timer, *)
(*                              thorough tier); visible = filter + half of *)
(*                              an observation request with pct = 1        *)
(*                                                                         *)
(* "total" mode: every step is replayed on the abstract state; the first   *)
(* step of a trace whose recorded answer the PROPERTY forbids is printed   *)
(* (MISMATCH <trace> <line> <expected>), the rest of that trace is skipped.*)
(* The state always follows what the spec computes (the answer sets do not *)
(* feed back into the state), except `recycle', where the set of forgotten *)
(* nodes is read off the observation.                                      *)
(* Every request of every resource must be told EXACTLY: filter = a subset *)
(* of the nodes of ITS resource whose breaker rejects now, of size <= cap; *)
(* half = the nodes of its resource this request probes passively - in     *)
(* particular two empty lists when nothing rejects and nothing is probed,  *)
(* whatever an earlier entry left in the pooled context (`pool' keeps the  *)
(* answers of the finished entries of the trace: the expected record says  *)
(* whether a forbidden answer is such a left-over, "stale").               *)
(* Non-maximal filter sets are not forbidden by the statement: they are    *)
(* printed as "DRIFT <trace> <line>" and only counted.                     *)
(***************************************************************************)
EXTENDS OutlierOps, Json

Trace == ndJsonDeserialize("trace.ndjson")

VARIABLES
    l,        \* next line of Trace
    g,        \* [tr, cfgs] of the running trace; cfgs[r] = [rule, pct, active] of resource r NOW in force (see TReload)
    failed,   \* the running trace already mismatched
    now,
    nbk,      \* resource -> (node -> breaker)
    inflight, \* id -> [t, res, ans]
    rec,      \* resource -> recycler marks
    pool      \* answers left in the contexts of finished entries (diagnostic only: which one an entry draws is not observable)

tvars == <<l, g, failed, now, nbk, inflight, rec, pool>>

Ev == Trace[l]
SetOf(s) == { s[i] : i \in DOMAIN s }
ResOf(e) == IF "res" \in DOMAIN e THEN e.res ELSE 1
CfgsOf(e) == IF "cfgs" \in DOMAIN e THEN e.cfgs ELSE << [rule |-> e.rule, pct |-> e.pct, active |-> e.active] >>

Judge(ok, expected) ==
    IF failed \/ ok THEN failed' = failed
    ELSE /\ failed' = TRUE
         /\ PrintT("MISMATCH " \o ToString(g.tr) \o " " \o ToString(l) \o " " \o ToJson(expected))

IsEvent(op) == l <= Len(Trace) /\ Ev.op = op /\ l' = l + 1

TNew ==
    /\ IsEvent("new")
    /\ g' = [tr |-> Ev.tr, cfgs |-> CfgsOf(Ev)]
    /\ now' = 0 /\ inflight' = << >> /\ pool' = {}
    /\ nbk' = [r \in DOMAIN CfgsOf(Ev) |-> << >>]
    /\ rec' = [r \in DOMAIN CfgsOf(Ev) |-> << >>]
    /\ failed' = FALSE

\* the judgement of one request of resource r (answer F, H as recorded in event e); ans = what stays in the context
Ask(e, r, keepOpen) ==
    LET c == g.cfgs[r]
        v == View(nbk[r], c.rule, now)
        F == SetOf(e.filter)
        H == SetOf(e.half)
        R == Rejecting(v)
    IN  /\ r \in DOMAIN g.cfgs
        /\ nbk' = [nbk EXCEPT ![r] = After(v)]
        /\ rec' = IF R = {} THEN rec ELSE [rec EXCEPT ![r] = Sched(@, R)]
        /\ IF keepOpen THEN /\ inflight' = With(inflight, e.id, [t |-> now, res |-> r, ans |-> Answer(F, H)])
                            /\ pool' = pool
                       ELSE /\ inflight' = inflight
                            /\ pool' = pool \cup {Answer(F, H)}
        /\ (IF ~failed /\ FilterOK(F, v, c.pct) /\ HalfOK(H, v, c.active) /\ ~FilterTight(F, v, c.pct)
              THEN PrintT("DRIFT " \o ToString(g.tr) \o " " \o ToString(l)) ELSE TRUE)
        /\ Judge(/\ Len(e.filter) = Cardinality(F) /\ Len(e.half) = Cardinality(H)    \* no duplicates
                 /\ FilterOK(F, v, c.pct)
                 /\ HalfOK(H, v, c.active)
                 /\ QuietOK(F, H, v, c.active),
                 [res |-> r, known |-> Cardinality(DOMAIN v), cap |-> Cap(Cardinality(DOMAIN v), c.pct),
                  rejecting |-> Rejecting(v), half |-> ExpHalf(v, c.active), quiet |-> Quiet(v, c.active),
                  stale |-> Answer(F, H) # FreshCtx /\ Answer(F, H) \in pool])

TReq ==
    /\ IsEvent("req")
    /\ Ask(Ev, ResOf(Ev), TRUE)
    /\ UNCHANGED <<now, g>>

TObs ==
    /\ IsEvent("obs")
    /\ Ask(Ev, ResOf(Ev), FALSE)
    /\ UNCHANGED <<now, g>>

TDone ==
    /\ IsEvent("done")
    /\ Ev.id \in DOMAIN inflight
    /\ LET r == inflight[Ev.id].res
       IN  /\ nbk' = [nbk EXCEPT ![r] = CompleteAt(@, g.cfgs[r].rule, Ev.node, now, now - inflight[Ev.id].t, Ev.err)]
           /\ rec' = IF Ev.err THEN rec ELSE [rec EXCEPT ![r] = Recover(@, Ev.node)]
    /\ pool' = pool \cup {inflight[Ev.id].ans}
    /\ inflight' = Without(inflight, {Ev.id})
    /\ UNCHANGED <<now, g, failed>>

TLeave ==
    /\ IsEvent("leave")
    /\ Ev.id \in DOMAIN inflight
    /\ pool' = pool \cup {inflight[Ev.id].ans}
    /\ inflight' = Without(inflight, {Ev.id})
    /\ UNCHANGED <<now, g, failed, nbk, rec>>

TTick ==
    /\ IsEvent("tick")
    /\ Ev.t >= now
    /\ now' = Ev.t
    /\ nbk' = [r \in DOMAIN nbk |-> [n \in DOMAIN nbk[r] |->
                  [nbk[r][n] EXCEPT !.ref = Prune(@, BL(g.cfgs[r].rule), g.cfgs[r].rule.I, Ev.t)]]]
    /\ UNCHANGED <<g, failed, inflight, rec, pool>>

\* the rule of one resource is loaded again (Reload of Outlier): the rule in force changes; known nodes and their
\* breakers stay unless the rule was cleared first; recycle marks, open entries and pooled contexts stay.
\* There is no observable to judge here: what the reload did shows in the answers of the later requests and in
\* which nodes the recycle timers forget.
TReload ==
    /\ IsEvent("reload")
    /\ LET r == ResOf(Ev)
           c == [rule |-> Ev.rule, pct |-> Ev.pct, active |-> Ev.active]
       IN  /\ r \in DOMAIN g.cfgs
           /\ Ev.clear \/ c.rule = g.cfgs[r].rule
           /\ g' = [g EXCEPT !.cfgs[r] = c]
           /\ nbk' = IF Ev.clear THEN [nbk EXCEPT ![r] = << >>] ELSE nbk
    /\ UNCHANGED <<now, failed, inflight, rec, pool>>

TActive ==
    /\ IsEvent("active")
    /\ LET r == ResOf(Ev)
       IN  /\ rec' = [rec EXCEPT ![r] = Recover(@, Ev.node)]
           /\ nbk' = IF Ev.node \in DOMAIN nbk[r] THEN [nbk EXCEPT ![r][Ev.node] = OnComplete(@, g.cfgs[r].rule, now, 0, FALSE)] ELSE nbk
    /\ UNCHANGED <<now, g, failed, inflight, pool>>

\* All recycle timers armed so far have fired.  The observation request (pct = 1, so the cap hides nothing)
\* shows which of the nodes that must be visible are gone: exactly those were forgotten.  The property:
\* none of them completed a request successfully since it was scheduled.  The observation request itself
\* hands the still rejecting nodes to the recycler again.
TRecycle ==
    /\ IsEvent("recycle")
    /\ LET r    == ResOf(Ev)
           c    == g.cfgs[r]
           v    == View(nbk[r], c.rule, now)
           vis  == Visible(v, c.active)
           gone == vis \ SetOf(Ev.visible)
           keep == Without(After(v), gone)
           R2   == Rejecting(v) \ gone
       IN  /\ nbk' = [nbk EXCEPT ![r] = keep]
           /\ rec' = [rec EXCEPT ![r] = [n \in R2 |-> "sched"]]
           /\ Judge(/\ \A n \in gone : n \in DOMAIN rec[r] /\ rec[r][n] = "sched"
                    /\ SetOf(Ev.visible) \subseteq vis,
                    [visible |-> vis, recovered |-> { n \in DOMAIN rec[r] : rec[r][n] = "rec" },
                     scheduled |-> { n \in DOMAIN rec[r] : rec[r][n] = "sched" }])
    /\ UNCHANGED <<now, g, inflight, pool>>

TInit == /\ l = 1 /\ now = 0 /\ nbk = << >> /\ inflight = << >> /\ rec = << >> /\ pool = {} /\ failed = FALSE
         /\ g = [tr |-> 0, cfgs |-> << >>]
TNext == TNew \/ TReq \/ TObs \/ TDone \/ TLeave \/ TTick \/ TReload \/ TActive \/ TRecycle
TSpec == TInit /\ [][TNext]_tvars
=============================================================================
