---------------------------- MODULE Outlier_Trace ----------------------------
(***************************************************************************)
(* Validation of executions of the real outlier-ejection code (a slot      *)
(* chain BuildDefaultSlotChain + outlier.DefaultSlot / DefaultMetricStat-  *)
(* Slot, driven through api.Entry / TraceCallee / TraceError / Exit under  *)
(* the virtual clock) against the operators of OutlierOps (property C20).  *)
(*                                                                         *)
(* harness/cmd/c20 records one ndjson line per operation:                  *)
(*   new     tr, rule (record as in OutlierOps, times in ms), pct [num,den],*)
(*           active                                                        *)
(*   req     id, filter [nodes], half [nodes]   what FilterNodes() /       *)
(*           HalfOpenNodes() of the admitted entry returned (as sets)      *)
(*   done    id, node, err      the entry exits after TraceCallee(node)    *)
(*   tick    t                  ms since the start of the scenario         *)
(*   active  node               the retryer's health check of node was     *)
(*                              answered "healthy" (real timer, thorough)  *)
(*   recycle visible [nodes]    the recycle timers have fired (real timer, *)
(*                              thorough tier); visible = filter + half of *)
(*                              an observation request with pct = 1        *)
(*                                                                         *)
(* "total" mode: every step is replayed on the abstract state; the first   *)
(* step of a trace whose recorded answer the PROPERTY forbids is printed   *)
(* (MISMATCH <trace> <line> <expected>), the rest of that trace is skipped.*)
(* The state always follows what the spec computes (the answer sets do not *)
(* feed back into the state), except `recycle', where the set of forgotten *)
(* nodes is read off the observation.                                      *)
(* Non-maximal filter sets are not forbidden by the statement: they are    *)
(* printed as "DRIFT <trace> <line>" and only counted.                     *)
(***************************************************************************)
EXTENDS OutlierOps, Json

Trace == ndJsonDeserialize("trace.ndjson")

VARIABLES
    l,        \* next line of Trace
    g,        \* [tr, rule, pct, active] of the running trace
    failed,   \* the running trace already mismatched
    now, nbk, inflight, rec

tvars == <<l, g, failed, now, nbk, inflight, rec>>

Ev == Trace[l]
SetOf(s) == { s[i] : i \in DOMAIN s }

Judge(ok, expected) ==
    IF failed \/ ok THEN failed' = failed
    ELSE /\ failed' = TRUE
         /\ PrintT("MISMATCH " \o ToString(g.tr) \o " " \o ToString(l) \o " " \o ToJson(expected))

IsEvent(op) == l <= Len(Trace) /\ Ev.op = op /\ l' = l + 1

TNew ==
    /\ IsEvent("new")
    /\ g' = [tr |-> Ev.tr, rule |-> Ev.rule, pct |-> Ev.pct, active |-> Ev.active]
    /\ now' = 0 /\ nbk' = << >> /\ inflight' = << >> /\ rec' = << >>
    /\ failed' = FALSE

TReq ==
    /\ IsEvent("req")
    /\ LET v == View(nbk, g.rule, now)
           F == SetOf(Ev.filter)
           H == SetOf(Ev.half)
           R == Rejecting(v)
       IN  /\ nbk' = After(v)
           /\ rec' = IF R = {} THEN rec ELSE Sched(rec, R)
           /\ inflight' = With(inflight, Ev.id, now)
           /\ (IF ~failed /\ FilterOK(F, v, g.pct) /\ HalfOK(H, v, g.active) /\ ~FilterTight(F, v, g.pct)
                 THEN PrintT("DRIFT " \o ToString(g.tr) \o " " \o ToString(l)) ELSE TRUE)
           /\ Judge(/\ Len(Ev.filter) = Cardinality(F) /\ Len(Ev.half) = Cardinality(H)    \* no duplicates
                    /\ FilterOK(F, v, g.pct)
                    /\ HalfOK(H, v, g.active),
                    [known |-> Cardinality(DOMAIN v), cap |-> Cap(Cardinality(DOMAIN v), g.pct),
                     rejecting |-> Rejecting(v), half |-> ExpHalf(v, g.active)])
    /\ UNCHANGED <<now, g>>

TDone ==
    /\ IsEvent("done")
    /\ Ev.id \in DOMAIN inflight
    /\ nbk' = CompleteAt(nbk, g.rule, Ev.node, now, now - inflight[Ev.id], Ev.err)
    /\ rec' = IF Ev.err THEN rec ELSE Recover(rec, Ev.node)
    /\ inflight' = Without(inflight, {Ev.id})
    /\ UNCHANGED <<now, g, failed>>

TTick ==
    /\ IsEvent("tick")
    /\ Ev.t >= now
    /\ now' = Ev.t
    /\ nbk' = [n \in DOMAIN nbk |-> [nbk[n] EXCEPT !.ref = Prune(@, BL(g.rule), g.rule.I, Ev.t)]]
    /\ UNCHANGED <<g, failed, inflight, rec>>

TActive ==
    /\ IsEvent("active")
    /\ rec' = Recover(rec, Ev.node)
    /\ nbk' = IF Ev.node \in DOMAIN nbk THEN [nbk EXCEPT ![Ev.node] = OnComplete(@, g.rule, now, 0, FALSE)] ELSE nbk
    /\ UNCHANGED <<now, g, failed, inflight>>

\* All recycle timers armed so far have fired.  The observation request (pct = 1, so the cap hides nothing)
\* shows which of the nodes that must be visible are gone: exactly those were forgotten.  The property:
\* none of them completed a request successfully since it was scheduled.  The observation request itself
\* hands the still rejecting nodes to the recycler again.
TRecycle ==
    /\ IsEvent("recycle")
    /\ LET v    == View(nbk, g.rule, now)
           vis  == Visible(v, g.active)
           gone == vis \ SetOf(Ev.visible)
           keep == Without(After(v), gone)
           R2   == Rejecting(v) \ gone
       IN  /\ nbk' = keep
           /\ rec' = [n \in R2 |-> "sched"]
           /\ Judge(/\ \A n \in gone : n \in DOMAIN rec /\ rec[n] = "sched"
                    /\ SetOf(Ev.visible) \subseteq vis,
                    [visible |-> vis, recovered |-> { n \in DOMAIN rec : rec[n] = "rec" },
                     scheduled |-> { n \in DOMAIN rec : rec[n] = "sched" }])
    /\ UNCHANGED <<now, g, inflight>>

TInit == /\ l = 1 /\ now = 0 /\ nbk = << >> /\ inflight = << >> /\ rec = << >> /\ failed = FALSE
         /\ g = [tr |-> 0, rule |-> << >>, pct |-> <<0, 1>>, active |-> FALSE]
TNext == TNew \/ TReq \/ TDone \/ TTick \/ TActive \/ TRecycle
TSpec == TInit /\ [][TNext]_tvars
=============================================================================
