---------------------------- MODULE Refine_Admit ----------------------------
(***************************************************************************)
(* REFINEMENT  AdmitPath  =>  FlowQps  (Mode "qps")  /  Isolation  ("conc")*)
(* (growth item 2 of DESIGN section 4; k-callers clauses of C02 and C04).  *)
(*                                                                         *)
(* AdmitPath: K callers, each  chk (read the shared cell, decide) - yield  *)
(* "chain.checked" - rec (an admitted caller adds to the cell).  FlowQps / *)
(* Isolation: one atomic Request = decide AND record.                      *)
(*                                                                         *)
(* MAPPING (state functions of the AdmitPath state; only the two pure      *)
(* history variables last / h of the sequential specs are carried as       *)
(* auxiliary variables aLast / aH, and the request ordinals of Isolation   *)
(* as aOrd):                                                               *)
(*   a request is LINEARIZED AT ITS chk STEP: the abstract window / set of *)
(*   in-flight entries holds w0 plus every caller that has DECIDED         *)
(*   "admitted" (pc = rec or done), whether it has recorded or not:        *)
(*      qps :  adm[1]      <- per-tick reference with  Logical  tokens at  *)
(*                            tick 1,  Logical = w0 + SUM { bs[i] : dec[i],*)
(*                            pc[i] # "chk" }                              *)
(*      conc:  inflight[1] <- (1..w0) \cup { aOrd[i] : dec[i], pc[i] #     *)
(*                            "chk" }                                      *)
(*      now <- 1 (the clock does not move while callers are in the path),  *)
(*      rules <- the single rule [T, default window] / [N = T],            *)
(*      nops / nreq <- number of callers that have decided (+ w0 for conc).*)
(*   rec steps are stuttering steps of the sequential spec.                *)
(*                                                                         *)
(* WHAT IS ESTABLISHED (and what is not).  A plain refinement does NOT     *)
(* hold and is not claimed: a caller decides on the PHYSICAL cell, which   *)
(* lacks the records of the callers that decided before it and have not    *)
(* recorded yet - that is the k-callers overshoot the statement allows.    *)
(* TLC checks the following, over all interleavings:                       *)
(*   LagInv    physical cell = abstract window MINUS the pending records   *)
(*             (Lag), at every state; the pending records are those of at  *)
(*             most K callers, and of at most K-1 callers whenever some    *)
(*             caller is still to decide.                                  *)
(*   LagSim    every step is a step of the sequential spec AS SEEN THROUGH *)
(*             THE LAG: the chk step of caller i is exactly                *)
(*             Seq!Request(1, bs[i]) of the instance in which the window   *)
(*             (set of entries) is the abstract one minus the pending      *)
(*             records P of the other callers, |P| <= K-1  - decision,     *)
(*             reported rule and reported value included - and the         *)
(*             admitted batch / entry is added to the ABSTRACT window at   *)
(*             once; every other step stutters.  ("Stuttering refinement   *)
(*             with a lag of at most K-1 records".)                        *)
(*   SeqSpec   under the action constraint NoOverlap (no caller checks     *)
(*             while a record is pending, i.e. Lag = 0 at every chk - this *)
(*             includes all sequential schedules) the behaviour satisfies  *)
(*             the UNMODIFIED specification Seq!Spec (Seq!Init only for    *)
(*             w0 = 0: a non-empty initial cell is an arbitrary, not       *)
(*             necessarily reachable, window content; then only the step   *)
(*             simulation [][Seq!Next]_Seq!vars is claimed).               *)
(* Not established: anything about time (no Tick), several rules, several  *)
(* resources, Exit (Isolation) - AdmitPath does not contain them.          *)
(*                                                                         *)
(* NON-VACUITY.  AdmitPath has no spec-level mutants of its own; Mutant    *)
(* selects deliberately broken variants of the CONCURRENT model:           *)
(*   "ge"         the check compares with >=          -> violates LagSim   *)
(*   "recblocked" a rejected caller records as well   -> violates LagInv   *)
(*   "twice"      an admitted caller records twice    -> violates LagInv   *)
(*   "norec"      an admitted caller never records    -> violates LagInv   *)
(*                (LagInv's second conjunct: nothing stays pending when    *)
(*                everybody has left the path)                             *)
(* and SeqMut = "ge" / "countblocked" selects the broken DESIGNS of FlowQps*)
(* as the abstract side: the correct AdmitPath must not refine them.       *)
(***************************************************************************)
EXTENDS AdmitPath_MC      \* = AdmitPath + the bounded threshold sets MCTsQps / MCTsConc

CONSTANTS Mutant,       \* "none" | "ge" | "recblocked" | "twice" | "norec"
          SeqMut        \* Mut of the FlowQps instance ("none" for the real check)

VARIABLES aLast, aH, aOrd
rvars == <<T, w0, bs, st, h, aLast, aH, aOrd>>

Callers  == 1..K
MaxW0    == MaxOf(W0s)
---------------------------------------------------------------------------
(* the (possibly broken) concurrent model                                  *)
MStep(s, i) ==
    IF s.pc[i] = "chk"
      THEN [s EXCEPT !.dec[i] = IF Mutant = "ge" THEN ~ExceedsGe(s.win, bs[i], T) ELSE ~Exceeds(s.win, bs[i], T),
                     !.pc[i] = "rec"]
    ELSE IF s.pc[i] = "rec"
      THEN [s EXCEPT !.win = IF Mutant = "norec" THEN @
                             ELSE IF s.dec[i] \/ Mutant = "recblocked"
                                  THEN @ + (IF Mutant = "twice" THEN 2 ELSE 1) * PathInc(Mode, bs[i]) ELSE @,
                     !.pc[i] = "done"]
    ELSE s
MMove(i) == IF Mutant = "none" THEN Move(i)          \* the unmodified action of AdmitPath
            ELSE /\ st.pc[i] # "done"
                 /\ st' = MStep(st, i)
                 /\ h' = Append(h, i)
                 /\ UNCHANGED <<T, w0, bs>>

---------------------------------------------------------------------------
(* the mapping                                                             *)
Decided == { i \in Callers : st.pc[i] # "chk" }
Counted == { i \in Decided : st.dec[i] }                       \* linearized as admitted
Pending == { i \in Counted : st.pc[i] = "rec" }                \* ... and not yet recorded
RECURSIVE SumB(_)
SumB(S) == IF S = {} THEN 0 ELSE LET i == CHOOSE x \in S : TRUE IN PathInc(Mode, bs[i]) + SumB(S \ {i})
Logical == w0 + SumB(Counted)                                  \* abstract contents
Lag     == SumB(Pending)                                       \* what the physical cell lacks

\* qps: per-tick reference holding n tokens at tick 1, seen with d tokens missing
RefOf(n, d) == IF n = 0 THEN << >>
               ELSE (1 :> [sum |-> [pass |-> n - d], minrt |-> 60000, maxc |-> 0])
QRules == << [res |-> 1, T |-> T, I |-> 0, ref |-> 0] >>
QCfgs  == { << [res |-> 1, T |-> t, I |-> 0, ref |-> 0] >> : t \in Ts }
SeqQ     == INSTANCE FlowQps WITH now <- 1, rules <- QRules, adm <- [r \in {1} |-> RefOf(Logical, 0)], last <- aLast,
                nops <- Cardinality(Decided), h <- aH, Res <- {1}, RuleCfgs <- QCfgs, B <- 1, GN <- 20, Batches <- Bs,
                Steps <- {1}, MaxT <- 1, MaxOps <- K, Mut <- SeqMut
SeqQL(d) == INSTANCE FlowQps WITH now <- 1, rules <- QRules, adm <- [r \in {1} |-> RefOf(Logical, d)], last <- aLast,
                nops <- Cardinality(Decided), h <- aH, Res <- {1}, RuleCfgs <- QCfgs, B <- 1, GN <- 20, Batches <- Bs,
                Steps <- {1}, MaxT <- 1, MaxOps <- K, Mut <- SeqMut

\* conc: ids are request ordinals; the w0 entries already in flight are the requests 1..w0
Ids     == { aOrd[i] : i \in Counted }
PendIds == { aOrd[i] : i \in Pending }
CRules == << [res |-> 1, N |-> USmall(T[1])] >>
CCfgs  == { << [res |-> 1, N |-> USmall(t[1])] >> : t \in Ts }
SeqC     == INSTANCE Isolation WITH rules <- CRules, inflight <- [r \in {1} |-> (1..w0) \cup Ids], nreq <- w0 + Cardinality(Decided),
                last <- aLast, h <- aH, Res <- {1}, RuleCfgs <- CCfgs, Batches <- { USmall(b) : b \in Bs },
                MaxReq <- MaxW0 + K, Wrap <- FALSE
SeqCL(P) == INSTANCE Isolation WITH rules <- CRules, inflight <- [r \in {1} |-> ((1..w0) \cup Ids) \ P], nreq <- w0 + Cardinality(Decided),
                last <- aLast, h <- aH, Res <- {1}, RuleCfgs <- CCfgs, Batches <- { USmall(b) : b \in Bs },
                MaxReq <- MaxW0 + K, Wrap <- FALSE

---------------------------------------------------------------------------
(* the history variables of the sequential specs, updated from what the    *)
(* CONCURRENT step did (decision taken, value seen)                        *)
QLast(i) == LET ok == st'.dec[i]
                d  == [ok |-> ok, rule |-> IF ok THEN 0 ELSE 1, val |-> IF ok THEN 0 ELSE st.win] IN
            [res |-> 1, b |-> bs[i], ok |-> d.ok, rule |-> d.rule, val |-> d.val, want |-> d]
CLast(i) == LET ok == st'.dec[i]
                d  == [ok |-> ok, rule |-> IF ok THEN 0 ELSE 1] IN
            [res |-> 1, ok |-> d.ok, rule |-> d.rule, want |-> d]

RInit ==
    /\ Init
    /\ aOrd = [i \in Callers |-> 0]
    /\ IF Mode = "qps"
         THEN aLast = SeqQ!NoLast /\ aH = << [op |-> "new", t |-> 1, rules |-> QRules] >>
         ELSE aLast = SeqC!NoLast /\ aH = << [op |-> "new", rules |-> CRules] >>

RMove(i) ==
    /\ MMove(i)
    /\ IF st.pc[i] = "chk"
         THEN /\ aOrd' = [aOrd EXCEPT ![i] = w0 + Cardinality(Decided) + 1]
              /\ IF Mode = "qps"
                   THEN aLast' = QLast(i) /\ aH' = Append(aH, [op |-> "req", res |-> 1, b |-> bs[i]])
                   ELSE aLast' = CLast(i) /\ aH' = Append(aH, [op |-> "req", res |-> 1, b |-> USmall(bs[i]), id |-> aOrd'[i]])
         ELSE UNCHANGED <<aLast, aH, aOrd>>

RNext == \E i \in Callers : RMove(i)
RSpec == RInit /\ [][RNext]_rvars

---------------------------------------------------------------------------
(* what is checked                                                         *)

\* the physical cell lags the abstract contents by exactly the pending records, of at most K-1 callers while somebody
\* has still to decide; nothing stays pending once everybody has left the path
LagInv ==
    /\ st.win = Logical - Lag
    /\ PathDone(st) => Lag = 0 /\ Pending = {}
    /\ Cardinality(Pending) <= K
    /\ Decided # Callers => Cardinality(Pending) <= K - 1

\* every step is a step of the sequential spec seen through the lag (at most K-1 pending records), or stutters
LagSimQ == [][ \E d \in 0..(K * MaxOf(Bs)) :
                  /\ d = Lag /\ (Decided # Callers => Cardinality(Pending) <= K - 1)   \* a caller that decides sees at most K-1 pending
                  /\ SeqQL(d)!Next \/ UNCHANGED SeqQL(d)!vars ]_rvars
LagSimC == [][ \E P \in SUBSET (1..(MaxW0 + K)) :
                  /\ P = PendIds /\ (Decided # Callers => Cardinality(P) <= K - 1)
                  /\ SeqCL(P)!Next \/ UNCHANGED SeqCL(P)!vars ]_rvars

\* schedules without overlap of a check with a pending record: the unmodified sequential specification
\* (NoOverlap is used as ACTION_CONSTRAINT to prune the search AND as the guard of the step properties: TLC evaluates
\* action properties also on the transitions an action constraint excludes)
NoOverlap == \A i \in Callers : (st.pc[i] = "chk" /\ st'.pc[i] = "rec") => Lag = 0
SeqInitQ == (w0 = 0) => SeqQ!Init
SeqStepQ == [][NoOverlap => SeqQ!Next]_(SeqQ!vars)
SeqInitC == (w0 = 0) => SeqC!Init
SeqStepC == [][NoOverlap => SeqC!Next]_(SeqC!vars)
\* the PLAIN refinement (no restriction): expected to be VIOLATED - the overshoot of overlapping callers is not a behaviour
\* of the sequential specs (REFINE.py requires the violation: it shows that the restriction above is not vacuous)
PlainQ == [][SeqQ!Next]_(SeqQ!vars)
PlainC == [][SeqC!Next]_(SeqC!vars)
\* the invariants of the sequential specs, evaluated on the mapped state of the no-overlap behaviours
SeqCapQ  == SeqQ!Cap
SeqIffQ  == SeqQ!Iff
SeqIffC  == SeqC!Iff

\* aH and the schedule h are pure histories
rview == <<T, w0, bs, st, aLast, aOrd>>
=============================================================================
