---------------------------- MODULE Window_Trace ----------------------------
(***************************************************************************)
(* Validation of executions of the real sliding-window code against the    *)
(* reference of WindowRef (property C08).  The conformance driver records  *)
(* one ndjson line per operation, carrying every statistic it read back    *)
(* right after the operation; this module replays the operations on the    *)
(* reference and demands that each recorded read equals the reference read.*)
(*                                                                         *)
(* Many traces are concatenated in one file; a "new" event starts a trace  *)
(* (fresh array with its own geometry).  A mismatch does not stop TLC: it  *)
(* is printed ("MISMATCH <trace no> <line> <expected reads as JSON>") and the rest of*)
(* that trace is skipped, so one run reports every failing trace.          *)
(***************************************************************************)
EXTENDS WindowRef, TLC, Json

Trace == ndJsonDeserialize("trace.ndjson")
AllKinds == {"pass", "block", "complete", "error", "rt"}

VARIABLES
    l,        \* next line of Trace
    now,      \* current time of the running trace
    ref,      \* reference of the running trace
    g,        \* [tr, pn, pbl, sec] of the running trace
    failed    \* the running trace already mismatched

tvars == <<l, now, ref, g, failed>>

Ev == Trace[l]
Has(r, f) == f \in DOMAIN r
PInt == g.pn * g.pbl

\* expected reads of one view record o = [vn, vi, ...] at time t
ExpView(o, t, r) ==
    [vn |-> o.vn, vi |-> o.vi,
     sum   |-> [k \in AllKinds |-> RefSum(r, g.pbl, t, o.vi, k)],
     prev  |-> [k \in AllKinds |-> RefPrevSum(r, g.pbl, t, o.vi \div o.vn, o.vi, k)],
     minrt |-> Max2(1, RefMinRt(r, g.pbl, t, o.vi)),
     maxc  |-> RefMaxC(r, g.pbl, t, o.vi),
     maxb  |-> [k \in AllKinds |-> RefMaxB(r, g.pbl, t, o.vi, k)]]

ViewOK(o, t, r) ==
    LET x == ExpView(o, t, r) IN
    /\ Has(o, "sum")   => \A k \in DOMAIN o.sum : o.sum[k] = x.sum[k]
    \* GetQPS is reported as round(qps * vi): must be 1000 * sum
    /\ Has(o, "qps")   => \A k \in DOMAIN o.qps : o.qps[k] = 1000 * x.sum[k]
    \* previous-window reads: only for views shorter than the array by one view bucket
    \* and not when the shifted read instant is time 0 itself (time 0 is outside the domain: now > 0)
    /\ (Has(o, "prev") /\ o.vi + (o.vi \div o.vn) <= PInt /\ t # o.vi \div o.vn)
                       => \A k \in DOMAIN o.prev : o.prev[k] = 1000 * x.prev[k]
    /\ Has(o, "minrt") => o.minrt = x.minrt
    /\ Has(o, "maxc")  => o.maxc = x.maxc
    /\ Has(o, "maxb")  => \A k \in DOMAIN o.maxb : o.maxb[k] = x.maxb[k]
    \* node-level AvgRT: floor(sum rt / complete), 0 without completions
    /\ Has(o, "avgrt") => o.avgrt = (IF x.sum["complete"] > 0 THEN x.sum["rt"] \div x.sum["complete"] ELSE 0)

ObsOK(e, t, r) == Has(e, "obs") => \A i \in DOMAIN e.obs : ViewOK(e.obs[i], t, r)
ExpObs(e, t, r) == IF Has(e, "obs") THEN [i \in DOMAIN e.obs |-> ExpView(e.obs[i], t, r)] ELSE << >>

\* judge a step: if the trace has not failed yet and the recorded reads are wrong, report once
Judge(ok, expected) ==
    IF failed \/ ok THEN failed' = failed
    ELSE /\ failed' = TRUE
         /\ PrintT("MISMATCH " \o ToString(g.tr) \o " " \o ToString(l) \o " " \o ToJson(expected))

IsEvent(op) == l <= Len(Trace) /\ Ev.op = op /\ l' = l + 1

TNew ==
    /\ IsEvent("new")
    /\ now' = Ev.t /\ Ev.t > 0
    /\ ref' = << >>
    /\ g' = [tr |-> Ev.tr, pn |-> Ev.pn, pbl |-> Ev.pbl, sec |-> Ev.sec]
    /\ failed' = FALSE

TAdd ==
    /\ IsEvent("add")
    /\ Ev.k \in AllKinds
    /\ ref' = RefAdd(ref, AllKinds, g.pbl, now, Ev.k, Ev.n)
    /\ UNCHANGED <<now, g>>
    /\ Judge(ObsOK(Ev, now, ref'), ExpObs(Ev, now, ref'))

TConc ==
    /\ IsEvent("conc")
    /\ ref' = RefConc(ref, AllKinds, g.pbl, now, Ev.c)
    /\ UNCHANGED <<now, g>>
    /\ Judge(ObsOK(Ev, now, ref'), ExpObs(Ev, now, ref'))

TTick ==
    /\ IsEvent("tick")
    /\ Ev.t >= now                       \* time is non-decreasing (a driver error otherwise)
    /\ now' = Ev.t
    /\ ref' = Prune(ref, g.pbl, PInt, Ev.t)
    /\ UNCHANGED g
    /\ Judge(ObsOK(Ev, Ev.t, ref'), ExpObs(Ev, Ev.t, ref'))

\* whole-array reads (Count / MinRt / MaxConcurrency of the leap array itself)
ExpArr == [sum   |-> [k \in AllKinds |-> RefSum(ref, g.pbl, now, PInt, k)],
           minrt |-> RefMinRt(ref, g.pbl, now, PInt),
           maxc  |-> RefMaxC(ref, g.pbl, now, PInt)]
TReadArr ==
    /\ IsEvent("readarr")
    /\ UNCHANGED <<now, ref, g>>
    /\ Judge(/\ \A k \in DOMAIN Ev.arr.sum : Ev.arr.sum[k] = ExpArr.sum[k]
             /\ Has(Ev.arr, "minrt") => Ev.arr.minrt = ExpArr.minrt
             /\ Has(Ev.arr, "maxc") => Ev.arr.maxc = ExpArr.maxc
             /\ ObsOK(Ev, now, ref),
             <<ExpArr, ExpObs(Ev, now, ref)>>)

\* constructing a view: accepted only if it tiles the parent buckets
TNewView ==
    /\ IsEvent("newview")
    /\ UNCHANGED <<now, ref, g>>
    /\ Judge(Ev.ok => Tiles(Ev.vn, Ev.vi, g.pn, PInt), <<"not-tiling view accepted">>)

\* per-second metric items for the predicate lo <= bucketStart < hi (all-zero items dropped by the driver)
ExpItems == RefItems(ref, g.pbl, PInt, now, Ev.lo, Ev.hi, g.sec)
TCond ==
    /\ IsEvent("cond")
    /\ UNCHANGED <<now, ref, g>>
    /\ Judge({ Ev.items[i] : i \in DOMAIN Ev.items } = ExpItems /\ Len(Ev.items) = Cardinality(ExpItems),
             ExpItems)

TInit == l = 1 /\ now = 0 /\ ref = << >> /\ g = [tr |-> 0, pn |-> 1, pbl |-> 1, sec |-> 1000] /\ failed = FALSE
TNext == TNew \/ TAdd \/ TConc \/ TTick \/ TReadArr \/ TNewView \/ TCond
TSpec == TInit /\ [][TNext]_tvars
=============================================================================
