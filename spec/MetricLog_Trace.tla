-------------------------- MODULE MetricLog_Trace --------------------------
(***************************************************************************)
(* Validation of executions of the real metric log (writer + searcher)     *)
(* against the PROPERTY level of MetricLog (C17).  The driver records one  *)
(* ndjson line per operation:                                              *)
(*   new    tr, maxsize, maxfiles, t0, day, fx, drift, files               *)
(*   write  t, items, ws, err, panic, files                                *)
(*   find   s, b, e, res, items, err, panic [, f_items, f_err, f_panic]    *)
(*   from   s, b, n,      items, err, panic [, f_items, f_err, f_panic]    *)
(*   cut    doff, ioff, dsize, isize, ends, idx                            *)
(* (times in ms relative to a local midnight; `files' = the directory as   *)
(* the driver sees it: per data file day, n, number of lines, decoded      *)
(* index entries; s = searcher instance, 0 = a fresh one; f_* = the same   *)
(* query through a fresh searcher).                                        *)
(*                                                                         *)
(* What is judged (a MISMATCH line per failing event and class set):                     *)
(*  - an item is ACCEPTED iff its second is >= every earlier accepted      *)
(*    second and >= the creation second; `written' = all accepted items;   *)
(*  - the directory never holds more than maxfiles data files, and the     *)
(*    lines it holds are the last lines written (a suffix of `written');   *)
(*  - every search answer, of long-lived and of fresh searchers alike,     *)
(*    satisfies RangeOK / FromOK of MetricLog against that suffix (after a *)
(*    cut: against the must-set MustItems), without error or panic.        *)
(* Each MISMATCH carries the defect classes of the failing answer          *)
(* ("cache", "torn", "create", "roll", "bound", "other") for the verdict.  *)
(*                                                                         *)
(* What is only compared (DRIFT lines, conformance of the implementation-  *)
(* shaped layer, never a verdict): the files and index entries predicted   *)
(* by DoWrite and the answers predicted by ImplFind for the variant `fx'   *)
(* of the implementation layer named in the "new" event.                   *)
(***************************************************************************)
EXTENDS MetricLogRef, Json

Trace == ndJsonDeserialize("trace.ndjson")

VARIABLES
    l,        \* next line of Trace
    g,        \* configuration of the running trace
    written,  \* accepted items so far
    ofs,      \* the directory as last observed
    latest,   \* largest accepted second (initially the creation second)
    cut,      \* the active truncation, or NoCut
    mfs,      \* implementation-shaped model: files
    caches,   \* implementation-shaped model: searcher id -> position cache
    seen,     \* class sets of the mismatches already reported for the running trace
    ndrift    \* drift reports for the running trace (-1: drift comparison switched off)

tvars == <<l, g, written, ofs, latest, cut, mfs, caches, seen, ndrift>>

Ev == Trace[l]
In(r, f) == f \in DOMAIN r
NoCut == [on |-> FALSE]

Norm(it, t) == [t |-> t, sec |-> t \div 1000, res |-> it.res, p |-> it.p, b |-> it.b, c |-> it.c, e |-> it.e,
                rt |-> it.rt, oc |-> it.oc, cc |-> it.cc, cl |-> it.cl]
NormSeq(its) == [i \in 1..Len(its) |-> Norm(its[i], its[i].t)]
\* model item = the written item plus its width and a tag
MItem(it, w) == [t |-> it.t, sec |-> it.sec, res |-> it.res, p |-> it.p, b |-> it.b, c |-> it.c, e |-> it.e,
                 rt |-> it.rt, oc |-> it.oc, cc |-> it.cc, cl |-> it.cl, w |-> w, tag |-> "ok"]
Strip(its) == [i \in 1..Len(its) |-> Norm(its[i], its[i].t)]
Ids(its) == [i \in 1..Len(its) |-> its[i].p]

Min2(a, b) == IF a < b THEN a ELSE b
Max2(a, b) == IF a > b THEN a ELSE b
SafeSub(s, a, b) == SubSeq(s, Max2(a, 1), Min2(b, Len(s)))
RECURSIVE SumNl(_, _)
SumNl(fl, k) == IF k = 0 THEN 0 ELSE fl[k].nl + SumNl(fl, k - 1)

\* the observed directory with the lines it must hold: the last SumNl lines of `written'
OFiles(fl, wr) ==
    LET tot == SumNl(fl, Len(fl)) IN
    [j \in 1..Len(fl) |->
        [day |-> fl[j].day, n |-> fl[j].n,
         lines |-> SafeSub(wr, Len(wr) - tot + SumNl(fl, j - 1) + 1, Len(wr) - tot + SumNl(fl, j)),
         idx |-> [k \in 1..Len(fl[j].idx) |-> [sec |-> fl[j].idx[k][1], off |-> fl[j].idx[k][2]]]]]

ObsShape(fl) == [j \in 1..Len(fl) |-> [day |-> fl[j].day, n |-> fl[j].n, nl |-> fl[j].nl, idx |-> fl[j].idx]]
ModShape(fs) == [j \in 1..Len(fs) |-> [day |-> fs[j].day, n |-> fs[j].n, nl |-> Len(fs[j].lines),
                                       idx |-> [k \in 1..Len(fs[j].idx) |-> <<fs[j].idx[k].sec, fs[j].idx[k].off>>]]]

---------------------------------------------------------------------------
Report(what, x) == PrintT(what \o " " \o ToString(g.tr) \o " " \o ToString(l) \o " " \o ToJson(x))

\* property verdict of one event (cls = defect classes of the event, {} = fine): never disables the
\* action; every distinct class set is reported once per trace
Judge(cls, expected) ==
    IF cls = {} \/ cls \in seen THEN seen' = seen
    ELSE seen' = seen \cup {cls} /\ Report("MISMATCH", expected)

\* conformance of the implementation-shaped layer: first difference of a trace only
Drift(same, x) ==
    IF ndrift # 0 \/ same THEN ndrift' = ndrift
    ELSE ndrift' = 1 /\ Report("DRIFT", x)

IsEvent(ops) == l <= Len(Trace) /\ Ev.op \in ops /\ l' = l + 1

TNew ==
    /\ IsEvent({"new"})
    /\ LET t0s == Ev.t0 \div 1000
           cfg == [tr |-> Ev.tr, maxsize |-> Ev.maxsize, maxfiles |-> Ev.maxfiles, t0 |-> t0s, day |-> Ev.day,
                   fx |-> { Ev.fx[i] : i \in 1..Len(Ev.fx) }]
           m0  == << EmptyFile(DayOf(t0s, Ev.day), 0) >> IN
       /\ g' = cfg
       /\ written' = << >> /\ ofs' = Ev.files /\ latest' = t0s /\ cut' = NoCut
       /\ mfs' = m0 /\ caches' = [x \in {} |-> EmptyCache]
       /\ seen' = IF Len(Ev.files) <= Ev.maxfiles THEN {} ELSE {{"bound"}}
       /\ Len(Ev.files) > Ev.maxfiles => PrintT("MISMATCH " \o ToString(Ev.tr) \o " " \o ToString(l) \o " " \o ToJson([cls |-> {"bound"}]))
       /\ ndrift' = IF ~Ev.drift THEN -1 ELSE IF ModShape(m0) = ObsShape(Ev.files) THEN 0 ELSE 1
       /\ (Ev.drift /\ ModShape(m0) # ObsShape(Ev.files)) => PrintT("DRIFT " \o ToString(Ev.tr) \o " " \o ToString(l) \o " " \o ToJson(ModShape(m0)))

TWrite ==
    /\ IsEvent({"write"})
    /\ LET sec  == Ev.t \div 1000
           acc  == sec >= latest /\ Len(Ev.items) > 0
           its  == [i \in 1..Len(Ev.items) |-> Norm(Ev.items[i], Ev.t)]
           wr   == IF acc THEN written \o its ELSE written
           mits == [i \in 1..Len(its) |-> MItem(its[i], Ev.ws[i])]
           m    == DoWrite(mfs, latest, sec, mits, g.maxfiles, g.maxsize, g.day, g.fx).files
           cls  == (IF Len(Ev.files) > g.maxfiles THEN {"bound"} ELSE {})
                   \cup (IF Ev.err \/ Ev.panic \/ Len(Ev.files) < 1 \/ SumNl(Ev.files, Len(Ev.files)) > Len(wr)
                         THEN {"other"} ELSE {}) IN
       /\ written' = wr
       /\ ofs' = Ev.files
       /\ latest' = IF acc THEN sec ELSE latest
       /\ mfs' = m
       /\ Judge(cls, [cls |-> cls, nfiles |-> Len(Ev.files), max |-> g.maxfiles, accepted |-> Len(wr)])
       /\ Drift(ModShape(m) = ObsShape(Ev.files), ModShape(m))
    /\ UNCHANGED <<g, cut, caches>>

---------------------------------------------------------------------------
(* searches                                                                *)

Query == IF Ev.op = "find" THEN [op |-> "find", b |-> Ev.b \div 1000, e |-> Ev.e \div 1000, res |-> Ev.res]
         ELSE [op |-> "from", b |-> Ev.b \div 1000, n |-> Ev.n]

FS   == OFiles(ofs, written)
RetA == Flatten(FS)
MustA == IF cut.on THEN MustItems(FS, cut.dk, cut.ik) ELSE RetA
RefOf(q, its) == IF q.op = "find" THEN RefRange(its, q.b, q.e, q.res) ELSE RefFrom(its, q.b)

AnsOK(P, q) == IF q.op = "find" THEN RangeOK(P, RefOf(q, RetA), RefOf(q, MustA))
               ELSE FromOK(P, RefOf(q, RetA), RefOf(q, MustA), q.n)

\* class of a must-item that is absent: its second has no index entry in its own file ("create": it is
\* the creation second, "roll": any other second), or it has one ("other")
MissClass(m) ==
    LET j == CHOOSE j \in 1..Len(FS) : Has(FS[j].lines, m) IN
    IF HasEntry(FS[j].idx, m.sec) THEN "other" ELSE IF m.sec = g.t0 THEN "create" ELSE "roll"

Classes(P, q) ==
    LET R      == RefOf(q, RetA)
        M      == RefOf(q, MustA)
        extras == { i \in 1..Len(P) : Pos(R, P[i]) = 0 }
        miss   == IF q.op = "find" THEN RangeMissing(P, M) ELSE FromMissing(P, R, M, q.n)
        clean  == PickIdx(P, 1, (1..Len(P)) \ extras)
        torn   == cut.on /\ cut.dk < cut.nl /\ \A i \in extras : Pos(written, P[i]) = 0 IN
    (IF extras = {} THEN {} ELSE IF torn THEN {"torn"} ELSE {"other"})
    \cup { MissClass(M[i]) : i \in miss }
    \cup (IF ~SubseqOf(clean, R) THEN {"other"} ELSE {})
    \cup (IF q.op = "from" /\ ~FromLimitOK(P, q.n) THEN {"other"} ELSE {})

TFind ==
    /\ IsEvent({"find", "from"})
    /\ LET q    == Query
           P    == NormSeq(Ev.items)
           two  == In(Ev, "f_items")
           Pf   == IF two THEN NormSeq(Ev.f_items) ELSE P
           okP  == AnsOK(P, q)
           okF  == AnsOK(Pf, q)
           bad  == Ev.err \/ Ev.panic \/ (two /\ (Ev.f_err \/ Ev.f_panic))
           cls0 == (IF bad THEN {"other"} ELSE {})
                   \cup (IF ~okF THEN Classes(Pf, q) ELSE {})
                   \cup (IF two /\ ~okP /\ (okF \/ P # Pf) THEN {"cache"} ELSE {})
           cls  == IF okP /\ okF /\ ~bad THEN {} ELSE IF cls0 = {} THEN {"other"} ELSE cls0
           c0   == IF Ev.s \in DOMAIN caches THEN caches[Ev.s] ELSE EmptyCache
           mi   == ImplFind(mfs, c0, q, g.fx)
           mf   == ImplFind(mfs, EmptyCache, q, g.fx) IN
       /\ Judge(cls,
                [cls |-> cls, q |-> q, want |-> Ids(RefOf(q, RetA)), must |-> Ids(RefOf(q, MustA)),
                 got |-> Ids(P), fresh |-> Ids(Pf), s |-> Ev.s])
       /\ caches' = IF Ev.s = 0 THEN caches ELSE (Ev.s :> mi.cache) @@ caches
       /\ IF cut.on \/ ndrift # 0 THEN ndrift' = (IF cut.on THEN -1 ELSE ndrift)
          ELSE Drift((mi.exact => Strip(mi.items) = P) /\ (two /\ mf.exact => Strip(mf.items) = Pf),
                     [model |-> Ids(mi.items), got |-> Ids(P), modelfresh |-> Ids(mf.items), fresh |-> Ids(Pf)])
    /\ UNCHANGED <<g, written, ofs, latest, cut, mfs>>

\* truncation of the last data file at byte doff and of its index file at byte ioff (restores first)
TCut ==
    /\ IsEvent({"cut"})
    /\ cut' = IF Ev.doff >= Ev.dsize /\ Ev.ioff >= Ev.isize THEN NoCut
              ELSE [on |-> TRUE, dk |-> Cardinality({ i \in 1..Len(Ev.ends) : Ev.ends[i] <= Ev.doff }),
                    nl |-> Len(Ev.ends), ik |-> Ev.ioff \div 16]
    \* the driver's view of the last file must be the one of the last listing (else the trace is malformed)
    /\ Len(ofs) > 0 /\ Len(Ev.ends) = ofs[Len(ofs)].nl /\ Ev.idx = ofs[Len(ofs)].idx
    /\ seen' = seen
    /\ ndrift' = IF Ev.doff >= Ev.dsize /\ Ev.ioff >= Ev.isize THEN ndrift ELSE -1
    /\ UNCHANGED <<g, written, ofs, latest, mfs, caches>>

TInit == /\ l = 1 /\ g = [tr |-> 0] /\ written = << >> /\ ofs = << >> /\ latest = 0 /\ cut = NoCut
         /\ mfs = << >> /\ caches = [x \in {} |-> EmptyCache] /\ seen = {} /\ ndrift = 0
TNext == TNew \/ TWrite \/ TFind \/ TCut
TSpec == TInit /\ [][TNext]_tvars
=============================================================================
