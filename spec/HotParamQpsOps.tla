--------------------------- MODULE HotParamQpsOps ---------------------------
(***************************************************************************)
(* Operators shared by HotParamQps (design spec, model-checked) and        *)
(* HotParamQps_Trace (validation of executions of the real code), C05.     *)
(*                                                                         *)
(* A rule configuration is a record                                        *)
(*   cf = [mode  : "reject" | "throttle",                                  *)
(*         T     : general threshold (tokens per duration),                *)
(*         B     : burst (reject mode),                                    *)
(*         D     : duration in ms,                                         *)
(*         MQ    : maximum queueing time in ms (throttle mode),            *)
(*         items : value -> specific threshold,                            *)
(*         cap   : the configured parameter capacity (EffCap below: the    *)
(*                 rule's ParamsMaxCapacity, or the documented default)]   *)
(*                                                                         *)
(* PART 1 - the PROPERTY: predicates over the history of ONE value.        *)
(*   first      time the value was first seen                              *)
(*   adm        sequence of [t, b]: admitted requests (reject mode)        *)
(*   sched      sequence of [at, b]: scheduled pass times = arrival + wait *)
(*              of admitted requests (throttle mode)                       *)
(*   "While the configured parameter capacity is not exceeded": per value  *)
(*   the RECENCY RANK = number of distinct OTHER values used since the     *)
(*   value's last admitted request (named ones as a set `since', the fresh *)
(*   values of floods as a count `fl').  The state of a value may be       *)
(*   forgotten only when its rank has reached the capacity.                *)
(* PART 2 - the ALGORITHM of core/hotspot/traffic_shaping.go, branch by    *)
(*   branch, over two LRU caches with capacity (RuleTimeCounter,           *)
(*   RuleTokenCounter); a flood of n fresh values is n anonymous entries.  *)
(***************************************************************************)
EXTENDS HotParamArgs, FiniteSets

Tv(cf, v) == ThrOf(cf.items, cf.T, v)

(***************************************************************************)
(* PART 1 - envelopes                                                      *)
(***************************************************************************)
RECURSIVE SumB(_)
SumB(s) == IF s = << >> THEN 0 ELSE Head(s).b + SumB(Tail(s))
\* tokens admitted at times in (lo, hi]
In(s, lo, hi) == SelectSeq(s, LAMBDA e : e.t > lo /\ e.t <= hi)

\* E1: the tokens admitted for one value never exceed (threshold+burst) plus threshold per elapsed
\*     duration since the value was first seen   (cross-multiplied by D; t = any instant >= the last admission)
E1(cf, v, first, adm, t) ==
    SumB(adm) * cf.D <= (Tv(cf, v) + cf.B) * cf.D + Tv(cf, v) * (t - first)

\* E2: never more than twice (threshold+burst) inside any single duration.  A window (s, s+D] holding the most
\*     tokens can be shifted until it ends at an admission instant, so those windows suffice.
E2(cf, v, adm) ==
    \A i \in DOMAIN adm : SumB(In(adm, adm[i].t - cf.D, adm[i].t)) <= 2 * (Tv(cf, v) + cf.B)

\* E3: a value idle for longer than the duration (never seen = idle for ever) is granted a batch up to its threshold.
\*     last = time of the previous request for the value (any outcome), -1 if none
E3Premise(cf, v, last, t, b) == (last < 0 \/ t - last > cf.D) /\ b >= 1 /\ b <= Tv(cf, v)

\* P1: admitted requests of a value are scheduled at least batch*duration/threshold apart (1 ms clock: floor).
\*     With threshold 0 the spacing is unbounded: at most one request can ever be scheduled.
P1(cf, v, sched) ==
    IF Tv(cf, v) <= 0 THEN Len(sched) <= 1
    ELSE \A i \in 2..Len(sched) : sched[i].at - sched[i-1].at >= (sched[i].b * cf.D) \div Tv(cf, v)

\* P2: nobody is asked to wait as long as the maximum queueing time
P2(cf, wait) == wait = 0 \/ wait < cf.MQ

\* ---- the configured parameter capacity ------------------------------------------------------------------
\* Rule.ParamsMaxCapacity when positive (whatever its size), otherwise the documented default
\* min(capMax, capBase * DurationInSec); library: ParamsCapacityBase = 4000, ParamsMaxCapacity = 20000.
EffCap(pcap, D, capBase, capMax) ==
    IF pcap > 0 THEN pcap
    ELSE LET d == capBase * (D \div 1000) IN IF d <= 0 \/ d > capMax THEN capMax ELSE d
LibCapBase == 4000
LibCapMax  == 20000

\* recency rank of v: distinct other values used since v's last admitted request (since it was first seen, if none)
\*   since : value -> set of named values,   fl : value -> number of fresh (flood) values
\*   (both are only meaningful for values that have been seen: a value never seen has no state to forget, rank 0)
Rank(since, fl, v) == Cardinality(since[v]) + fl[v]
\* the capacity is exceeded for v: that many other values have been in use since - v may have been forgotten
\* (seen = v has been requested before)
MayForget(cf, since, fl, v, seen) == seen /\ Rank(since, fl, v) >= cf.cap
\* bookkeeping: a request of v (ok = admitted) is a use of v by everybody else's count; an admission - or being seen for
\* the first time - restarts v's own
SinceAfter(since, v, ok, seen) == [x \in DOMAIN since |-> IF x = v THEN (IF ok \/ ~seen THEN {} ELSE since[x]) ELSE since[x] \cup {v}]
FlAfter(fl, v, ok, seen) == [x \in DOMAIN fl |-> IF x = v /\ (ok \/ ~seen) THEN 0 ELSE fl[x]]
FlAfterFlood(fl, n) == [x \in DOMAIN fl |-> fl[x] + n]

\* a flood: n requests (batch 1) with n values never seen before.  A value never seen is idle for ever (E3) and its own
\* sub-history is that single request (throttling: scheduled at once): with a general threshold >= 1 every one of them
\* is admitted without waiting; with threshold + burst = 0 (reject) none can be (E1).
FloodOK(cf, n, adm, wait) ==
    /\ cf.T >= 1 => (adm = n /\ wait = 0)
    /\ (cf.mode = "reject" /\ cf.T + cf.B <= 0) => adm = 0
    /\ cf.mode = "reject" => wait = 0

(***************************************************************************)
(* PART 2 - LRU caches and the two controllers                             *)
(***************************************************************************)
\* an LRU cache.  Only the TRACKED keys are stored by name (ord = tracked keys, most recently used first;
\* val = key -> stored integer); the cache also holds ANONYMOUS entries - the fresh values of a flood, each used
\* once and never again - which only matter through the room they take: pos[k] = number of entries (tracked or
\* anonymous) in front of k = distinct keys used since k was last used, size = number of entries held.
EmptyCache == [ord |-> << >>, val |-> << >>, pos |-> << >>, size |-> 0]
Has(c, k) == k \in DOMAIN c.val
Touch(c, k) == [c EXCEPT !.ord = <<k>> \o SelectSeq(c.ord, LAMBDA x : x # k),
                         !.pos = [y \in DOMAIN c.pos |-> IF y = k THEN 0
                                                         ELSE IF c.pos[y] < c.pos[k] THEN c.pos[y] + 1 ELSE c.pos[y]]]
\* store through the pointer handed out earlier: no reordering
Set(c, k, x) == [c EXCEPT !.val = [y \in DOMAIN c.val |-> IF y = k THEN x ELSE c.val[y]]]
\* the cache holds at most cap entries: everything at position cap or beyond (the least recently used) is evicted
Shrink(cap, ord1, val1, pos1, size1) ==
    LET live == { y \in DOMAIN val1 : pos1[y] < cap } IN
    [ord  |-> SelectSeq(ord1, LAMBDA x : x \in live),
     val  |-> IF live = {} THEN << >> ELSE [y \in live |-> val1[y]],
     pos  |-> IF live = {} THEN << >> ELSE [y \in live |-> pos1[y]],
     size |-> IF size1 > cap THEN cap ELSE size1]
\* insert an absent key at the front; evict the least recently used entry beyond the capacity
Put(c, cap, k, x) ==
    Shrink(cap, <<k>> \o c.ord,
           [y \in DOMAIN c.val \cup {k} |-> IF y = k THEN x ELSE c.val[y]],
           [y \in DOMAIN c.val \cup {k} |-> IF y = k THEN 0 ELSE c.pos[y] + 1],
           c.size + 1)
\* n insertions of n fresh keys that are never used again (one after the other; only the end result matters)
FloodCache(c, cap, n) ==
    Shrink(cap, c.ord, c.val, [y \in DOMAIN c.pos |-> c.pos[y] + n], c.size + n)
\* LruCacheMap.AddIfAbsent: present -> move to front, keep the value; absent -> insert
AddIfAbsent(c, cap, k, x) == IF Has(c, k) THEN Touch(c, k) ELSE Put(c, cap, k, x)

\* result of one PerformChecking: ok / wait (ms) / the caches afterwards / hang (the retry loop can never leave)
Res(ok, wait, tc, kc, hang) == [ok |-> ok, wait |-> wait, tc |-> tc, kc |-> kc, hang |-> hang]

\* rejectTrafficShapingController.PerformChecking(arg = v, batchCount = b) at time t (ms)
RejectStep(cf, tc, kc, v, b, t) ==
    LET tok == Tv(cf, v)
        max == tok + cf.B
    IN
    IF tok <= 0 THEN Res(FALSE, 0, tc, kc, FALSE)                      \* "threshold is <= 0"
    ELSE IF b > max THEN Res(FALSE, 0, tc, kc, FALSE)                  \* "batch count is more than max token count"
    ELSE IF ~Has(tc, v)
      THEN \* first to fill token, and consume token immediately
           Res(TRUE, 0, Put(tc, cf.cap, v, t), AddIfAbsent(kc, cf.cap, v, max - b), FALSE)
    ELSE LET tc1  == Touch(tc, v)
             pass == t - tc.val[v]
         IN
         IF pass > cf.D
           THEN IF ~Has(kc, v)
                  THEN Res(TRUE, 0, Set(tc1, v, t), Put(kc, cf.cap, v, max - b), FALSE)
                  ELSE LET kc1   == Touch(kc, v)
                           rest  == kc.val[v]
                           toAdd == (pass * tok) \div cf.D
                           new   == IF toAdd + rest > max THEN max - b ELSE toAdd + rest - b
                       IN  IF new < 0 THEN Res(FALSE, 0, tc1, kc1, FALSE)
                           ELSE Res(TRUE, 0, Set(tc1, v, t), Set(kc1, v, new), FALSE)
           ELSE IF Has(kc, v)
                  THEN LET kc1 == Touch(kc, v)  rest == kc.val[v] IN
                       IF rest - b >= 0 THEN Res(TRUE, 0, tc1, Set(kc1, v, rest - b), FALSE)
                       ELSE Res(FALSE, 0, tc1, kc1, FALSE)
                  ELSE \* time cell present, token cell gone, window not over: the loop spins until it is
                       Res(FALSE, 0, tc1, kc, TRUE)

\* throttlingTrafficShapingController.PerformChecking
ThrottleStep(cf, tc, kc, v, b, t) ==
    LET tok == Tv(cf, v) IN
    IF tok <= 0 THEN Res(FALSE, 0, tc, kc, FALSE)
    ELSE LET iv == (b * cf.D) \div tok IN                 \* intervalCostTime (integer division, then Round)
         IF ~Has(tc, v) THEN Res(TRUE, 0, Put(tc, cf.cap, v, t), kc, FALSE)      \* first access
         ELSE LET tc1 == Touch(tc, v)
                  exp == tc.val[v] + iv                    \* expected pass time
              IN  IF exp <= t \/ exp - t < cf.MQ
                    THEN IF exp - t > 0 THEN Res(TRUE, exp - t, Set(tc1, v, exp), kc, FALSE)
                         ELSE Res(TRUE, 0, Set(tc1, v, t), kc, FALSE)
                    ELSE Res(FALSE, 0, tc1, kc, FALSE)

Step(cf, tc, kc, v, b, t) ==
    IF cf.mode = "reject" THEN RejectStep(cf, tc, kc, v, b, t) ELSE ThrottleStep(cf, tc, kc, v, b, t)

\* n requests (batch 1) with n FRESH values - never used before or afterwards, no specific item: every one takes the
\* "first access" branch of its controller.  adm = how many of them are admitted.
FloodStep(cf, tc, kc, n) ==
    IF cf.T <= 0 THEN [adm |-> 0, tc |-> tc, kc |-> kc]
    ELSE IF cf.mode = "reject" THEN [adm |-> n, tc |-> FloodCache(tc, cf.cap, n), kc |-> FloodCache(kc, cf.cap, n)]
    ELSE [adm |-> n, tc |-> FloodCache(tc, cf.cap, n), kc |-> kc]
=============================================================================
