--------------------------- MODULE HotParamQpsOps ---------------------------
(***************************************************************************)
(* Operators shared by HotParamQps (design spec, model-checked) and        *)
(* HotParamQps_Trace (validation of executions of the real code), C05.     *)
(*                                                                         *)
(* A rule configuration is a record                                        *)
(*   cf = [mode  : "reject" | "throttle",                                  *)
(*         T     : general threshold (tokens per duration),                *)
(*         B     : burst (reject mode),                                    *)
(*         D     : duration in ms,                                         *)
(*         MQ    : maximum queueing time in ms (throttle mode),            *)
(*         items : value -> specific threshold,                            *)
(*         cap   : parameter capacity (size of the per-value caches)]      *)
(*                                                                         *)
(* PART 1 - the PROPERTY: predicates over the history of ONE value.        *)
(*   first      time the value was first seen                              *)
(*   adm        sequence of [t, b]: admitted requests (reject mode)        *)
(*   sched      sequence of [at, b]: scheduled pass times = arrival + wait *)
(*              of admitted requests (throttle mode)                       *)
(* PART 2 - the ALGORITHM of core/hotspot/traffic_shaping.go, branch by    *)
(*   branch, over two LRU caches with capacity (RuleTimeCounter,           *)
(*   RuleTokenCounter).                                                    *)
(***************************************************************************)
EXTENDS HotParamArgs, FiniteSets

Tv(cf, v) == ThrOf(cf.items, cf.T, v)

(***************************************************************************)
(* PART 1 - envelopes                                                      *)
(***************************************************************************)
RECURSIVE SumB(_)
SumB(s) == IF s = << >> THEN 0 ELSE Head(s).b + SumB(Tail(s))
\* tokens admitted at times in (lo, hi]
In(s, lo, hi) == SelectSeq(s, LAMBDA e : e.t > lo /\ e.t <= hi)

\* E1: the tokens admitted for one value never exceed (threshold+burst) plus threshold per elapsed
\*     duration since the value was first seen   (cross-multiplied by D; t = any instant >= the last admission)
E1(cf, v, first, adm, t) ==
    SumB(adm) * cf.D <= (Tv(cf, v) + cf.B) * cf.D + Tv(cf, v) * (t - first)

\* E2: never more than twice (threshold+burst) inside any single duration.  A window (s, s+D] holding the most
\*     tokens can be shifted until it ends at an admission instant, so those windows suffice.
E2(cf, v, adm) ==
    \A i \in DOMAIN adm : SumB(In(adm, adm[i].t - cf.D, adm[i].t)) <= 2 * (Tv(cf, v) + cf.B)

\* E3: a value idle for longer than the duration (never seen = idle for ever) is granted a batch up to its threshold.
\*     last = time of the previous request for the value (any outcome), -1 if none
E3Premise(cf, v, last, t, b) == (last < 0 \/ t - last > cf.D) /\ b >= 1 /\ b <= Tv(cf, v)

\* P1: admitted requests of a value are scheduled at least batch*duration/threshold apart (1 ms clock: floor).
\*     With threshold 0 the spacing is unbounded: at most one request can ever be scheduled.
P1(cf, v, sched) ==
    IF Tv(cf, v) <= 0 THEN Len(sched) <= 1
    ELSE \A i \in 2..Len(sched) : sched[i].at - sched[i-1].at >= (sched[i].b * cf.D) \div Tv(cf, v)

\* P2: nobody is asked to wait as long as the maximum queueing time
P2(cf, wait) == wait = 0 \/ wait < cf.MQ

(***************************************************************************)
(* PART 2 - LRU caches and the two controllers                             *)
(***************************************************************************)
\* an LRU cache: ord = keys, most recently used first; val = key -> stored integer
EmptyCache == [ord |-> << >>, val |-> << >>]
Has(c, k) == k \in DOMAIN c.val
Touch(c, k) == [c EXCEPT !.ord = <<k>> \o SelectSeq(c.ord, LAMBDA x : x # k)]
\* store through the pointer handed out earlier: no reordering
Set(c, k, x) == [c EXCEPT !.val = [y \in DOMAIN c.val |-> IF y = k THEN x ELSE c.val[y]]]
\* insert an absent key at the front; evict the least recently used one beyond the capacity
Put(c, cap, k, x) ==
    LET ord1 == <<k>> \o c.ord
        val1 == [y \in DOMAIN c.val \cup {k} |-> IF y = k THEN x ELSE c.val[y]]
    IN  IF Len(ord1) > cap
          THEN LET old == ord1[Len(ord1)] IN
               [ord |-> SubSeq(ord1, 1, Len(ord1) - 1), val |-> [y \in DOMAIN val1 \ {old} |-> val1[y]]]
          ELSE [ord |-> ord1, val |-> val1]
\* LruCacheMap.AddIfAbsent: present -> move to front, keep the value; absent -> insert
AddIfAbsent(c, cap, k, x) == IF Has(c, k) THEN Touch(c, k) ELSE Put(c, cap, k, x)

\* result of one PerformChecking: ok / wait (ms) / the caches afterwards / hang (the retry loop can never leave)
Res(ok, wait, tc, kc, hang) == [ok |-> ok, wait |-> wait, tc |-> tc, kc |-> kc, hang |-> hang]

\* rejectTrafficShapingController.PerformChecking(arg = v, batchCount = b) at time t (ms)
RejectStep(cf, tc, kc, v, b, t) ==
    LET tok == Tv(cf, v)
        max == tok + cf.B
    IN
    IF tok <= 0 THEN Res(FALSE, 0, tc, kc, FALSE)                      \* "threshold is <= 0"
    ELSE IF b > max THEN Res(FALSE, 0, tc, kc, FALSE)                  \* "batch count is more than max token count"
    ELSE IF ~Has(tc, v)
      THEN \* first to fill token, and consume token immediately
           Res(TRUE, 0, Put(tc, cf.cap, v, t), AddIfAbsent(kc, cf.cap, v, max - b), FALSE)
    ELSE LET tc1  == Touch(tc, v)
             pass == t - tc.val[v]
         IN
         IF pass > cf.D
           THEN IF ~Has(kc, v)
                  THEN Res(TRUE, 0, Set(tc1, v, t), Put(kc, cf.cap, v, max - b), FALSE)
                  ELSE LET kc1   == Touch(kc, v)
                           rest  == kc.val[v]
                           toAdd == (pass * tok) \div cf.D
                           new   == IF toAdd + rest > max THEN max - b ELSE toAdd + rest - b
                       IN  IF new < 0 THEN Res(FALSE, 0, tc1, kc1, FALSE)
                           ELSE Res(TRUE, 0, Set(tc1, v, t), Set(kc1, v, new), FALSE)
           ELSE IF Has(kc, v)
                  THEN LET kc1 == Touch(kc, v)  rest == kc.val[v] IN
                       IF rest - b >= 0 THEN Res(TRUE, 0, tc1, Set(kc1, v, rest - b), FALSE)
                       ELSE Res(FALSE, 0, tc1, kc1, FALSE)
                  ELSE \* time cell present, token cell gone, window not over: the loop spins until it is
                       Res(FALSE, 0, tc1, kc, TRUE)

\* throttlingTrafficShapingController.PerformChecking
ThrottleStep(cf, tc, kc, v, b, t) ==
    LET tok == Tv(cf, v) IN
    IF tok <= 0 THEN Res(FALSE, 0, tc, kc, FALSE)
    ELSE LET iv == (b * cf.D) \div tok IN                 \* intervalCostTime (integer division, then Round)
         IF ~Has(tc, v) THEN Res(TRUE, 0, Put(tc, cf.cap, v, t), kc, FALSE)      \* first access
         ELSE LET tc1 == Touch(tc, v)
                  exp == tc.val[v] + iv                    \* expected pass time
              IN  IF exp <= t \/ exp - t < cf.MQ
                    THEN IF exp - t > 0 THEN Res(TRUE, exp - t, Set(tc1, v, exp), kc, FALSE)
                         ELSE Res(TRUE, 0, Set(tc1, v, t), kc, FALSE)
                    ELSE Res(FALSE, 0, tc1, kc, FALSE)

Step(cf, tc, kc, v, b, t) ==
    IF cf.mode = "reject" THEN RejectStep(cf, tc, kc, v, b, t) ELSE ThrottleStep(cf, tc, kc, v, b, t)
=============================================================================
