-------------------------- MODULE SystemGate_Trace --------------------------
(***************************************************************************)
(* Validation of executions of the real system-protection stage (property  *)
(* C07) against the operators of SystemGateOps.  The conformance driver    *)
(* (harness/cmd/c07) loads system rules, injects load / cpu readings and   *)
(* issues inbound and outbound api.Entry calls on several resources under  *)
(* the virtual clock, holding entries open and exiting them later.         *)
(*                                                                         *)
(* Events (one ndjson line each; many traces are concatenated):            *)
(*   new   tr, t, rules : [ [mt, num, den, bbr] ]                          *)
(*   load  num, den          system_metric.SetSystemLoad(num/den)          *)
(*   cpu   num, den          system_metric.SetSystemCpuUsage(num/den)      *)
(*   rules rules             system.LoadRules (replaces the rule list)     *)
(*   enter id, res, ty, b, ok, [sys, rule, mt, vnum, vden]                 *)
(*           one api.Entry(res, WithTrafficType(ty), WithBatchCount(b)):   *)
(*           ok = admitted; otherwise sys = block type is SystemFlow,      *)
(*           rule = 1-based index of the reported rule (0 = none / unknown)*)
(*           mt = its metric type, vnum/vden = the reported value          *)
(*   exit  id, err           THE completion of an admitted entry: Exit()   *)
(*                           (err = FALSE) or Exit(WithError(e)) (err =    *)
(*                           TRUE); the completion also carries an error   *)
(*                           when a `trace` event marked the open entry    *)
(*   trace id                api.TraceError / entry.SetError on an OPEN    *)
(*                           entry: nothing the gate reads changes now     *)
(*   late  id, how           Exit(WithError) / TraceError on an entry that *)
(*                           has already completed: changes nothing        *)
(*   tick  t                 the clock moved to t                          *)
(*                                                                         *)
(* The decision is judged by the PROPERTY: blocked iff MustBlock; a block  *)
(* must be a system block naming ONE OF the violated rules (the code       *)
(* iterates a map: which one is an unlogged choice) with the value that    *)
(* rule compares.  The abstract state follows the OBSERVED outcome.        *)
(* Every completion - plain, with an error, TraceError then Exit - updates *)
(* the aggregate through SystemGateOps!OnCompleteE: completion count, RT   *)
(* sum, min RT and per-bucket peak include them all, so every later        *)
(* decision (and every reported avg-RT value) is judged against an         *)
(* aggregate that contains the completions that carried an error.          *)
(***************************************************************************)
EXTENDS SystemGateOps, TLC, Json

Trace == ndJsonDeserialize("trace.ndjson")

VARIABLES
    l,        \* next line of Trace
    now,      \* current time of the running trace
    rs,       \* rule list in force
    ref,      \* inbound aggregate
    conc,     \* inbound in-flight gauge
    open,     \* id -> [ty, b, start, terr] of admitted, not yet exited entries (terr: an error was traced on it)
    load, cpu,
    g,        \* [tr] of the running trace
    failed    \* the running trace already mismatched

tvars == <<l, now, rs, ref, conc, open, load, cpu, g, failed>>

Ev == Trace[l]
Has(r, f) == f \in DOMAIN r

Judge(ok, expected) ==
    IF failed \/ ok THEN failed' = failed
    ELSE /\ failed' = TRUE
         /\ PrintT("MISMATCH " \o ToString(g.tr) \o " " \o ToString(l) \o " " \o ToJson(expected))

IsEvent(op) == l <= Len(Trace) /\ Ev.op = op /\ l' = l + 1

NoSample == [num |-> -1, den |-> 1]

TNew ==
    /\ IsEvent("new")
    /\ now' = Ev.t /\ Ev.t > 0
    /\ rs' = Ev.rules
    /\ ref' = << >> /\ conc' = 0 /\ open' = << >>
    /\ load' = NoSample /\ cpu' = NoSample
    /\ g' = [tr |-> Ev.tr]
    /\ failed' = FALSE

TLoad ==
    /\ IsEvent("load")
    /\ load' = [num |-> Ev.num, den |-> Ev.den]
    /\ UNCHANGED <<now, rs, ref, conc, open, cpu, g, failed>>
TCpu ==
    /\ IsEvent("cpu")
    /\ cpu' = [num |-> Ev.num, den |-> Ev.den]
    /\ UNCHANGED <<now, rs, ref, conc, open, load, g, failed>>
TRules ==
    /\ IsEvent("rules")
    /\ rs' = Ev.rules
    /\ UNCHANGED <<now, ref, conc, open, load, cpu, g, failed>>

\* what the property demands of this request, for the report
Expected(ty, q) ==
    LET V == ViolatedIdxQ(rs, q, load, cpu) IN
    [block |-> (ty = "in" /\ V # {}), violated |-> V, qps |-> q.qps, avgrt |-> q.avgrt, conc |-> q.conc, over |-> q.over,
     \* the inbound aggregate behind those readings (all completions, of which `errs` carried an error)
     compl |-> Completes(ref, now), rtsum |-> RtSum(ref, now), errs |-> Errors(ref, now),
     minrt |-> MinRt(ref, now), peak |-> Peak(ref, now)]

\* a block must be a system block that names one of the violated rules and reports the value that rule compares
BlockOK(e, q) ==
    LET V == ViolatedIdxQ(rs, q, load, cpu) IN
    /\ e.sys
    /\ e.rule \in V
    /\ e.mt = rs[e.rule].mt
    /\ LET c == ComparedQ(rs[e.rule], q, load, cpu) IN e.vnum * c.den = c.num * e.vden

TEnter ==
    /\ IsEvent("enter")
    /\ \E q \in {Readings(ref, now, conc)} :
         Judge(IF Ev.ok THEN ~MustBlockQ(Ev.ty, rs, q, load, cpu)
                        ELSE MustBlockQ(Ev.ty, rs, q, load, cpu) /\ BlockOK(Ev, q),
               Expected(Ev.ty, q))
    /\ IF Ev.ok
         THEN /\ open' = [i \in DOMAIN open \cup {Ev.id} |->
                             IF i = Ev.id THEN [ty |-> Ev.ty, b |-> Ev.b, start |-> now, terr |-> FALSE] ELSE open[i]]
              /\ IF Ev.ty = "in" THEN ref' = OnPass(ref, now, Ev.b) /\ conc' = conc + 1
                                 ELSE UNCHANGED <<ref, conc>>
         ELSE UNCHANGED <<open, ref, conc>>       \* a blocked request leaves the gate's inputs untouched
    /\ UNCHANGED <<now, rs, load, cpu, g>>

\* (an exit of an id that is not open changes nothing: only possible in a corrupted trace)
TExit ==
    /\ IsEvent("exit")
    /\ IF Ev.id \in DOMAIN open
         THEN /\ LET e == open[Ev.id] IN
                 IF e.ty = "in" THEN /\ ref' = OnCompleteE(ref, now, now - e.start, e.b, (Has(Ev, "err") /\ Ev.err) \/ e.terr)
                                     /\ conc' = conc - 1
                                ELSE UNCHANGED <<ref, conc>>
              /\ open' = [i \in DOMAIN open \ {Ev.id} |-> open[i]]
         ELSE UNCHANGED <<ref, conc, open>>
    /\ UNCHANGED <<now, rs, load, cpu, g, failed>>

\* an error traced on an open entry is carried by its completion; on any other id nothing changes
TTrace ==
    /\ IsEvent("trace")
    /\ open' = [i \in DOMAIN open |-> IF i = Ev.id THEN [open[i] EXCEPT !.terr = TRUE] ELSE open[i]]
    /\ UNCHANGED <<now, rs, ref, conc, load, cpu, g, failed>>
\* an entry completes once: a second Exit / a TraceError after the completion changes nothing
TLate ==
    /\ IsEvent("late")
    /\ UNCHANGED <<now, rs, ref, conc, open, load, cpu, g, failed>>

TTick ==
    /\ IsEvent("tick")
    /\ Ev.t >= now
    /\ now' = Ev.t
    /\ ref' = GPrune(ref, Ev.t)
    /\ UNCHANGED <<rs, conc, open, load, cpu, g, failed>>

TInit == /\ l = 1 /\ now = 0 /\ rs = << >> /\ ref = << >> /\ conc = 0 /\ open = << >>
         /\ load = NoSample /\ cpu = NoSample /\ g = [tr |-> 0] /\ failed = FALSE
\* emitted by the driver only when, after EVERY entry of the trace has been exited, the library's inbound in-flight count is not
\* back to zero (the count is the subject of the concurrency rule and of BBR): never acceptable
TEnd ==
    /\ IsEvent("end")
    /\ Judge(Ev.gauge = 0, [gauge |-> 0, why |-> "inbound in-flight count after every entry was exited"])
    /\ UNCHANGED <<now, rs, ref, conc, open, load, cpu, g>>

TNext == TNew \/ TLoad \/ TCpu \/ TRules \/ TEnter \/ TExit \/ TTrace \/ TLate \/ TTick \/ TEnd
TSpec == TInit /\ [][TNext]_tvars
=============================================================================
