------------------------------- MODULE Breaker -------------------------------
(***************************************************************************)
(* Circuit breaking of sentinel-golang (core/circuitbreaker), property C03.*)
(*                                                                         *)
(* Every circuit-breaking rule owns one breaker: a three-state machine     *)
(* Closed / HalfOpen / Open driven only by completed requests and time.    *)
(* A resource carries a SEQUENCE of breakers (one per rule, list order).   *)
(*                                                                         *)
(*   Request(res)   the breakers of res are consulted in order;            *)
(*                  Closed admits; Open rejects until retryAt, then the    *)
(*                  breaker goes HalfOpen and this request is its probe;   *)
(*                  HalfOpen admits iff probeNum > 0.  The first rejecting *)
(*                  breaker blocks the request (BlockTypeCircuitBreaking,  *)
(*                  that breaker's rule); breakers after it are not        *)
(*                  consulted; every breaker this request turned HalfOpen  *)
(*                  rolls back to Open WITHOUT a new deadline.             *)
(*   Complete(id,err) (rt = now - start) every breaker of the resource     *)
(*                  counts the completion in its aligned statistic window  *)
(*                  (WindowRef), then: Closed /\ total >= minAmt /\ ratio  *)
(*                  or count reaches the threshold => Open for `timeout';  *)
(*                  HalfOpen: bad => Open for a full timeout, good =>      *)
(*                  probes+1 and (probeNum = 0 \/ probes >= probeNum) =>   *)
(*                  Closed with all statistics cleared; Open: count only.  *)
(*   Tick(d)        time passes; nothing else changes.                     *)
(*                                                                         *)
(* Named deviation StragglerCompletesWhileHalfOpen: a request admitted     *)
(* BEFORE the current half-open phase of a breaker that completes during   *)
(* it is treated exactly like a probe result.  The statement says the      *)
(* machine is "driven only by completed requests and time", so this is     *)
(* legal; it is a separate action so that it is visible and counted.       *)
(*                                                                         *)
(* Fractional parameters are rationals <<num, den>>; every comparison is   *)
(* cross-multiplied.  Times are integers (ticks or ms, the spec does not   *)
(* care).  The operators Outcome / OnComplete are reused verbatim by       *)
(* Breaker_Trace to judge executions of the real code.                     *)
(***************************************************************************)
EXTENDS WindowRef, TLC

Closed   == "C"
HalfOpen == "H"
Open     == "O"
States   == {Closed, HalfOpen, Open}
Edges    == { <<Closed, Open>>, <<Open, HalfOpen>>, <<HalfOpen, Open>>, <<HalfOpen, Closed>> }
CKinds   == {"tot", "bad"}

---------------------------------------------------------------------------
(* Rules.  [strategy, thr = <<num,den>>, minAmt, timeout, I, nb, maxRt, probeNum] *)

Strategies == {"slow", "eratio", "ecount"}
IsRatio(r) == r.strategy \in {"slow", "eratio"}

\* StatSlidingWindowBucketCount: 0 or not dividing the interval => 1 bucket (documented on the Rule type)
EffNb(r) == IF r.nb = 0 \/ r.I % r.nb # 0 THEN 1 ELSE r.nb
BL(r)    == r.I \div EffNb(r)

ValidRule(r) ==
    /\ r.strategy \in Strategies
    /\ r.I > 0 /\ r.timeout > 0
    /\ r.thr[2] > 0 /\ r.thr[1] >= 0
    /\ IsRatio(r) => r.thr[1] <= r.thr[2]

\* a completion is "bad" for a breaker: slow for the slow-ratio strategy, failed for the error strategies
IsBad(r, rt, err) == IF r.strategy = "slow" THEN rt > r.maxRt ELSE err

\* "the slow-ratio / error-ratio / error-count reaches the threshold" (T = total, D = bad, T >= 1)
Reached(r, T, D) == IF IsRatio(r) THEN D * r.thr[2] >= r.thr[1] * T
                    ELSE D * r.thr[2] >= r.thr[1]

---------------------------------------------------------------------------
(* One breaker: [st, retryAt, probes, ref]; ref = WindowRef reference of its own counters *)

NewBreaker == [st |-> Closed, retryAt |-> 0, probes |-> 0, ref |-> << >>]

Cb(f, t, res, i) == [f |-> f, t |-> t, res |-> res, b |-> i]      \* one listener callback

\* consulting one breaker at time t
Consult(b, r, t) ==
    CASE b.st = Closed                   -> [ok |-> TRUE,  b |-> b, probe |-> FALSE]
      [] b.st = Open /\ t >= b.retryAt   -> [ok |-> TRUE,  b |-> [b EXCEPT !.st = HalfOpen], probe |-> TRUE]
      [] b.st = Open /\ t < b.retryAt    -> [ok |-> FALSE, b |-> b, probe |-> FALSE]
      [] b.st = HalfOpen                 -> [ok |-> r.probeNum > 0, b |-> b, probe |-> FALSE]

RECURSIVE Walk(_, _, _, _, _, _)
Walk(rs, res, t, i, bs, acc) ==          \* acc = [made : set of indices, log : callbacks so far]
    IF i > Len(bs) THEN [bs |-> bs, blocked |-> 0, made |-> acc.made, log |-> acc.log]
    ELSE LET c == Consult(bs[i], rs[i], t) IN
         IF ~c.ok THEN [bs |-> bs, blocked |-> i, made |-> acc.made, log |-> acc.log]
         ELSE Walk(rs, res, t, i + 1, [bs EXCEPT ![i] = c.b],
                   IF c.probe THEN [made |-> acc.made \cup {i}, log |-> Append(acc.log, Cb(Open, HalfOpen, res, i))]
                   ELSE acc)

\* Outcome of a request to resource res at time t: new breaker states, index of the rejecting breaker
\* (0 = admitted), the callbacks in order, and the breakers for which the admitted request is a probe.
Outcome(rs, res, t, bs) ==
    LET w    == Walk(rs, res, t, 1, bs, [made |-> {}, log |-> << >>])
        ids  == SelectSeq([i \in 1..Len(bs) |-> i], LAMBDA i : i \in w.made)
        back == [k \in 1..Len(ids) |-> Cb(HalfOpen, Open, res, ids[k])]
    IN  IF w.blocked = 0
          THEN [bs |-> w.bs, blocked |-> 0, log |-> w.log,
                probeOf |-> { i \in 1..Len(bs) : w.bs[i].st = HalfOpen }]
          ELSE [bs |-> [i \in 1..Len(bs) |-> IF i \in w.made THEN [w.bs[i] EXCEPT !.st = Open] ELSE w.bs[i]],
                blocked |-> w.blocked, log |-> w.log \o back, probeOf |-> {}]

\* one breaker sees a completion (rt, err) at time t: <<new breaker, callbacks>>
OnComplete(b, r, res, i, t, rt, err) ==
    LET bad  == IsBad(r, rt, err)
        ref1 == RefAdd(RefAdd(Prune(b.ref, BL(r), r.I, t), CKinds, BL(r), t, "tot", 1),
                       CKinds, BL(r), t, "bad", IF bad THEN 1 ELSE 0)
        T    == RefSum(ref1, BL(r), t, r.I, "tot")
        D    == RefSum(ref1, BL(r), t, r.I, "bad")
    IN  CASE b.st = Open -> << [b EXCEPT !.ref = ref1], << >> >>
          [] b.st = HalfOpen ->
               IF bad THEN << [st |-> Open, retryAt |-> t + r.timeout, probes |-> 0, ref |-> ref1],
                              << Cb(HalfOpen, Open, res, i) >> >>
               ELSE IF r.probeNum = 0 \/ b.probes + 1 >= r.probeNum
                    THEN << NewBreaker, << Cb(HalfOpen, Closed, res, i) >> >>      \* statistics cleared
                    ELSE << [b EXCEPT !.probes = @ + 1, !.ref = ref1], << >> >>
          [] b.st = Closed ->
               IF T >= r.minAmt /\ Reached(r, T, D)
                    THEN << [st |-> Open, retryAt |-> t + r.timeout, probes |-> 0, ref |-> ref1],
                            << Cb(Closed, Open, res, i) >> >>
                    ELSE << [b EXCEPT !.ref = ref1], << >> >>

RECURSIVE Flat(_)
Flat(ss) == IF ss = << >> THEN << >> ELSE Head(ss) \o Flat(Tail(ss))

\* all breakers of a resource see the completion, in list order
CompleteAll(rs, res, t, rt, err, bs) ==
    LET each == [i \in 1..Len(bs) |-> OnComplete(bs[i], rs[i], res, i, t, rt, err)] IN
    [bs |-> [i \in 1..Len(bs) |-> each[i][1]], log |-> Flat([i \in 1..Len(bs) |-> each[i][2]])]

\* breakers that left HalfOpen in a step are no longer probed by anybody
Leaves(bs, bs2) == { i \in 1..Len(bs) : bs[i].st = HalfOpen /\ bs2[i].st # HalfOpen }

---------------------------------------------------------------------------
(* The model                                                               *)

CONSTANTS
    RuleSets,       \* set of configurations; each maps a resource name to its sequence of rules
    Steps,          \* clock increments
    MaxT,           \* bound on the clock
    MaxReq,         \* bound on the number of requests
    MaxInflight     \* bound on concurrently open entries (stragglers)

VARIABLES
    now,        \* current time
    rules,      \* the configuration in force: resource -> Seq(rule)
    br,         \* resource -> Seq(breaker)
    inflight,   \* id -> [res, start, probeOf]   (admitted, not yet completed)
    nreq,       \* requests issued so far
    listen,     \* listener log: sequence of callbacks                      (history, hidden by VIEW)
    last,       \* description of the last step, for the action properties  (history, hidden by VIEW)
    h           \* scenario for the conformance driver                      (history, hidden by VIEW)

vars == <<now, rules, br, inflight, nreq, listen, last, h>>
view == <<now, rules, br, inflight, nreq>>

Resources == DOMAIN rules
Ids == 1..MaxInflight
FreeId == CHOOSE i \in Ids \ DOMAIN inflight : \A j \in Ids \ DOMAIN inflight : i <= j

NeedsErr(res) == \E i \in 1..Len(rules[res]) : rules[res][i].strategy # "slow"

Init ==
    /\ now = 1
    /\ rules \in RuleSets
    /\ br = [res \in DOMAIN rules |-> [i \in 1..Len(rules[res]) |-> NewBreaker]]
    /\ inflight = << >>
    /\ nreq = 0
    /\ listen = << >>
    /\ last = [op |-> "init"]
    /\ h = << [op |-> "new", rules |-> rules] >>

Request(res) ==
    /\ nreq < MaxReq
    /\ Ids \ DOMAIN inflight # {}
    /\ LET o == Outcome(rules[res], res, now, br[res])  id == FreeId  gone == Leaves(br[res], o.bs) IN
       /\ br' = [br EXCEPT ![res] = o.bs]
       /\ listen' = listen \o o.log
       /\ inflight' =
            LET keep == [j \in DOMAIN inflight |->
                           IF inflight[j].res = res THEN [inflight[j] EXCEPT !.probeOf = @ \ gone] ELSE inflight[j]]
            IN  IF o.blocked = 0
                  THEN [j \in DOMAIN keep \cup {id} |-> IF j = id THEN [res |-> res, start |-> now, probeOf |-> o.probeOf]
                                                       ELSE keep[j]]
                  ELSE keep
       /\ last' = [op |-> "req", res |-> res, pass |-> o.blocked = 0, trig |-> o.blocked, log |-> o.log]
       /\ h' = Append(h, [op |-> "req", res |-> res, id |-> id])
    /\ nreq' = nreq + 1
    /\ UNCHANGED <<now, rules>>

\* is the completing request a probe of every breaker of its resource that is HalfOpen right now?
AllProbed(id) ==
    LET res == inflight[id].res IN
    \A i \in 1..Len(br[res]) : br[res][i].st = HalfOpen => i \in inflight[id].probeOf

Finish(id, err, kind) ==
    LET res == inflight[id].res
        rt  == now - inflight[id].start
        o   == CompleteAll(rules[res], res, now, rt, err, br[res])
        gone == Leaves(br[res], o.bs)
    IN  /\ br' = [br EXCEPT ![res] = o.bs]
        /\ listen' = listen \o o.log
        /\ inflight' = [j \in DOMAIN inflight \ {id} |->
                          IF inflight[j].res = res THEN [inflight[j] EXCEPT !.probeOf = @ \ gone] ELSE inflight[j]]
        /\ last' = [op |-> kind, res |-> res, rt |-> rt, err |-> err, log |-> o.log]
        /\ h' = Append(h, [op |-> "done", id |-> id, err |-> err])
        /\ UNCHANGED <<now, rules, nreq>>

\* (the error flag is irrelevant for resources that carry slow-ratio breakers only: not enumerated there)
ErrOK(id, err) == err => NeedsErr(inflight[id].res)

Complete(id, err) ==
    /\ id \in DOMAIN inflight
    /\ ErrOK(id, err)
    /\ AllProbed(id)
    /\ Finish(id, err, "done")

StragglerCompletesWhileHalfOpen(id, err) ==
    /\ id \in DOMAIN inflight
    /\ ErrOK(id, err)
    /\ ~AllProbed(id)
    /\ Finish(id, err, "straggler")

Tick(d) ==
    /\ now + d <= MaxT
    /\ now' = now + d
    /\ br' = [res \in DOMAIN br |-> [i \in 1..Len(br[res]) |->
                [br[res][i] EXCEPT !.ref = Prune(@, BL(rules[res][i]), rules[res][i].I, now + d)]]]
    /\ last' = [op |-> "tick"]
    /\ h' = Append(h, [op |-> "tick", d |-> d])
    /\ UNCHANGED <<rules, inflight, nreq, listen>>

Next ==
    \/ \E res \in Resources : Request(res)
    \/ \E id \in Ids, err \in BOOLEAN : Complete(id, err)
    \/ \E id \in Ids, err \in BOOLEAN : StragglerCompletesWhileHalfOpen(id, err)
    \/ \E d \in Steps : Tick(d)

Spec == Init /\ [][Next]_vars

---------------------------------------------------------------------------
(* The property                                                            *)

AllBreakers == UNION { { <<res, i>> : i \in 1..Len(rules[res]) } : res \in Resources }
B(p)  == br[p[1]][p[2]]
Rl(p) == rules[p[1]][p[2]]
Tot(p) == RefSum(B(p).ref, BL(Rl(p)), now, Rl(p).I, "tot")
Bad(p) == RefSum(B(p).ref, BL(Rl(p)), now, Rl(p).I, "bad")

TypeOK ==
    /\ now >= 1 /\ nreq \in 0..MaxReq
    /\ \A res \in Resources : \A i \in 1..Len(rules[res]) : ValidRule(rules[res][i])
    /\ \A p \in AllBreakers : B(p).st \in States /\ B(p).probes >= 0 /\ B(p).retryAt >= 0
    /\ \A id \in DOMAIN inflight : inflight[id].start <= now

\* the callbacks of one breaker
LogOf(lg, p) == SelectSeq(lg, LAMBDA c : c.res = p[1] /\ c.b = p[2])
\* a sequence of callbacks of one breaker is a path of legal edges from state `from'
IsPath(s, from) ==
    /\ \A k \in 1..Len(s) : <<s[k].f, s[k].t>> \in Edges
    /\ Len(s) > 0 => s[1].f = from
    /\ \A k \in 1..(Len(s) - 1) : s[k].t = s[k + 1].f
EndOf(s, from) == IF Len(s) = 0 THEN from ELSE s[Len(s)].t

\* ListenerPath: per breaker the listener log is a legal path starting at Closed that ends in the current state
ListenerPath ==
    \A p \in AllBreakers : LET s == LogOf(listen, p) IN IsPath(s, Closed) /\ EndOf(s, Closed) = B(p).st

\* each transition is reported exactly once, when it happens: the callbacks appended by a step are, per
\* breaker, a path from the old to the new state, with no superfluous edges (a blocked probe is the only
\* step that reports two edges for one breaker: O->H and the roll-back H->O)
LoggedOnce ==
    /\ Len(listen') >= Len(listen) /\ SubSeq(listen', 1, Len(listen)) = listen
    /\ LET add == SubSeq(listen', Len(listen) + 1, Len(listen')) IN
       \A p \in AllBreakers :
          LET s == LogOf(add, p) IN
          /\ IsPath(s, B(p).st) /\ EndOf(s, B(p).st) = B(p)'.st
          /\ B(p).st # B(p)'.st => Len(s) = 1
          /\ B(p).st = B(p)'.st => (Len(s) = 0 \/ (Len(s) = 2 /\ last'.op = "req" /\ ~last'.pass /\ B(p).st = Open))

IsDone == last'.op \in {"done", "straggler"}

\* opens exactly when: a completion while closed, window total >= minAmt, ratio / count reached
OpensExactlyWhen ==
    \A p \in AllBreakers :
       (B(p).st = Closed /\ B(p)'.st # Closed)
         <=> /\ B(p).st = Closed /\ IsDone /\ last'.res = p[1]
             /\ B(p)'.st = Open /\ B(p)'.retryAt = now + Rl(p).timeout
             /\ LET T == Tot(p)'  D == Bad(p)' IN T >= Rl(p).minAmt /\ T >= 1 /\ Reached(Rl(p), T, D)
\* ... and a completion while closed that satisfies the predicate does open
OpensWhenReached ==
    \A p \in AllBreakers :
       (B(p).st = Closed /\ IsDone /\ last'.res = p[1] /\ B(p)'.st = Closed)
         => LET T == Tot(p)'  D == Bad(p)' IN ~(T >= Rl(p).minAmt /\ Reached(Rl(p), T, D))

\* while open and before the deadline every request to the resource is rejected, by this breaker or an earlier one
OpenRejects ==
    \A p \in AllBreakers :
       (B(p).st = Open /\ now < B(p).retryAt /\ last'.op = "req" /\ last'.res = p[1])
         => ~last'.pass /\ last'.trig >= 1 /\ last'.trig <= p[2] /\ B(p)' = B(p)

\* Open is left only for HalfOpen, only by a request at or after the deadline
ProbeAfterTimeout ==
    \A p \in AllBreakers :
       LET s == LogOf(last'.log, p) IN
       (last'.op = "req" /\ Len(s) > 0) =>
           /\ B(p).st = Open /\ now >= B(p).retryAt /\ last'.res = p[1]
           /\ s[1] = Cb(Open, HalfOpen, p[1], p[2])
           /\ last'.pass => B(p)'.st = HalfOpen /\ Len(s) = 1
           \* the probe was blocked by a later breaker: rolled back, deadline untouched
           /\ ~last'.pass => B(p)' = B(p) /\ last'.trig > p[2]
\* once the deadline has passed, a request that reaches the breaker is admitted by it (one probe)
ProbeAdmitted ==
    \A p \in AllBreakers :
       (B(p).st = Open /\ now >= B(p).retryAt /\ last'.op = "req" /\ last'.res = p[1])
         => last'.trig # p[2]
\* with probeNum = 0 the probe is exclusive: every further request while half-open is rejected
HalfOpenGate ==
    \A p \in AllBreakers :
       (B(p).st = HalfOpen /\ last'.op = "req" /\ last'.res = p[1] /\ Rl(p).probeNum = 0)
         => ~last'.pass /\ last'.trig <= p[2]

\* leaving HalfOpen: only by a completion; a bad one re-opens for a FULL timeout, the required number of good ones
\* closes and clears the statistics; (a request leaves it only through the roll-back of ProbeAfterTimeout)
HalfOpenExit ==
    \A p \in AllBreakers :
       (B(p).st = HalfOpen /\ B(p)'.st # HalfOpen) =>
           /\ IsDone /\ last'.res = p[1]
           /\ LET bad == IsBad(Rl(p), last'.rt, last'.err) IN
              /\ bad => B(p)'.st = Open /\ B(p)'.retryAt = now + Rl(p).timeout /\ B(p)'.probes = 0
              /\ ~bad => /\ B(p)' = NewBreaker
                         /\ Rl(p).probeNum = 0 \/ B(p).probes + 1 >= Rl(p).probeNum
HalfOpenStays ==
    \A p \in AllBreakers :
       (B(p).st = HalfOpen /\ IsDone /\ last'.res = p[1] /\ B(p)'.st = HalfOpen)
         => /\ ~IsBad(Rl(p), last'.rt, last'.err)
            /\ B(p)'.probes = B(p).probes + 1 /\ B(p)'.probes < Rl(p).probeNum

\* time alone changes nothing; requests never move Closed; completions never move Open
OnlyCompletionsAndTime ==
    /\ last'.op = "tick" => \A p \in AllBreakers : B(p)'.st = B(p).st /\ B(p)'.retryAt = B(p).retryAt
    /\ last'.op = "req"  => \A p \in AllBreakers : B(p).st = Closed => B(p)' = B(p)
    /\ IsDone => \A p \in AllBreakers : B(p).st = Open => B(p)'.st = Open /\ B(p)'.retryAt = B(p).retryAt
    /\ \A p \in AllBreakers : (last'.op \in {"req", "done", "straggler"} /\ last'.res # p[1]) => B(p)' = B(p)

\* state invariants
Sane ==
    \A p \in AllBreakers :
       /\ B(p).st = Open => B(p).retryAt > 0 /\ B(p).retryAt <= now + Rl(p).timeout
       /\ B(p).st # HalfOpen => B(p).probes = 0
       /\ B(p).st = HalfOpen => (Rl(p).probeNum = 0 => B(p).probes = 0) /\ (Rl(p).probeNum > 0 => B(p).probes < Rl(p).probeNum)
       /\ Bad(p) <= Tot(p)
\* an admitted request is a probe only of breakers that are half-open now
ProbesSane ==
    \A id \in DOMAIN inflight : \A i \in inflight[id].probeOf : br[inflight[id].res][i].st = HalfOpen

Machine == [][/\ LoggedOnce /\ OpensExactlyWhen /\ OpensWhenReached /\ OpenRejects /\ ProbeAfterTimeout
              /\ ProbeAdmitted /\ HalfOpenGate /\ HalfOpenExit /\ HalfOpenStays /\ OnlyCompletionsAndTime]_vars
=============================================================================
