--------------------------- MODULE RuleReuse_Trace ---------------------------
(***************************************************************************)
(* Validation of metamorphic executions of the real code against C14.      *)
(* harness/cmd/c14 runs, for one scenario, the PAIR                        *)
(*    A = load(old); traffic with reload(new) inserted at position pos     *)
(*    B = the same traffic with the reload erased            (mode erase)  *)
(*        or with `new' loaded from the start            (mode fromstart)  *)
(* on fresh module state under identical clocks and records both decision  *)
(* traces.  This module decides, with the operators of RuleReuse, what the *)
(* statement demands of the pair:                                          *)
(*  - erase: the watched rule "X" is field-for-field identical in old and  *)
(*    new (Unchanged) => every decision of A equals that of B.  If the     *)
(*    reload adds copies of X (Duplicated) a fresh copy may refuse or      *)
(*    delay more, never less: the traces may part only in that direction.  *)
(*  - fromstart: new contains "Xm" (X modified, statistic parameters       *)
(*    unchanged) and the statement's reuse relation hands X's statistics   *)
(*    to it => every decision after the reload equals that of the run in   *)
(*    which Xm was there from the start (the history before the reload is  *)
(*    chosen so that both rules decide alike - checked).                   *)
(*  - kept: the watched rule is a circuit-breaker rule (error count,       *)
(*    threshold brk.thr, one statistic bucket of brk.win ms that contains  *)
(*    the whole history) and new contains "Xr" instead: X with only the    *)
(*    retry timeout changed (brk.retry) - the statistic parameters and the *)
(*    way the statistics are read are unchanged, and the statement's reuse *)
(*    relation hands X's statistics to Xr WHATEVER the state of the old    *)
(*    breaker (MatchT: Reuse = "statement" ignores the tripped set; with   *)
(*    Reuse = "closedOnly" this module would accept the loss).  There is   *)
(*    no reference run: the error count accumulated before the reload is   *)
(*    read off the recorded history (observed outcomes), the regenerated   *)
(*    breaker starts Closed on the KEPT count, and every decision after    *)
(*    the reload is computed by the breaker model below (Closed -> Open on *)
(*    the first completion with count >= threshold, Open -> probe at the   *)
(*    retry deadline); after the reload every request completes at once    *)
(*    (no probe stays in flight), before it a probe may be held in flight  *)
(*    so that the old breaker is HalfOpen at the reload.                   *)
(* The entry point is a parameter of every load (RuleReuse: Reload(path,   *)
(* new)): the pair records the entry point of the INITIAL load (p0:        *)
(* "whole" | "res") and of the reload (path: "whole" | "wholeOther" |      *)
(* "res") separately, so one history may mix LoadRules and                 *)
(* LoadRulesOfResource.  Tokens are caller-visible tuples BEFORE the       *)
(* module's defaulting: `opt' names the concrete spelling of the optional  *)
(* fields ("unset": left at their zero value, "set": defaults spelled out, *)
(* ...); both runs of a pair and all their loads send the same spelling,   *)
(* so the watched rule is field-for-field identical whatever the entry     *)
(* point does with defaults.  `reached' says (spec: Skipped) whether the   *)
(* entry point's unchanged-detection lets the reload through to the reuse  *)
(* algorithm; the driver reports what the code said (ld) for coverage.     *)
(* A scenario that is not of one of these forms is malformed: TLC stops    *)
(* there and the check reports a machinery error, never a violation.       *)
(***************************************************************************)
EXTENDS RuleReuse, Json

Trace == ndJsonDeserialize("trace.ndjson")

VARIABLES l, g, failed, parted,
          bk      \* mode kept: the watched breaker [st: "Closed" | "Open" | "HalfOpen", err: kept error count, dl: retry deadline]
tvars == <<l, g, failed, parted, bk, P, Sh, n, ok, kept, h>>
Unused == UNCHANGED <<ok, h>>

Ev == Trace[l]

Judge(okk, expected) ==
    IF failed \/ okk THEN failed' = failed
    ELSE /\ failed' = TRUE
         /\ PrintT("MISMATCH " \o ToString(g.tr) \o " " \o ToString(l) \o " " \o ToJson(expected))

IsEvent(op) == l <= Len(Trace) /\ Ev.op = op /\ l' = l + 1

PosOf(s, t) == NthPos(s, t, 1)
\* the scenario is one the statement speaks about
WellFormedLists(e) ==
    \/ e.mode = "erase" /\ Unchanged(e.old, e.new, "X")
    \/ /\ e.mode = "fromstart"
       /\ Count(e.old, "X") = 1 /\ Count(e.new, "Xm") = 1 /\ Count(e.new, "X") = 0 /\ Count(e.old, "Xm") = 0
       /\ e.stat["X"] # "none"
       /\ LET m == ReuseStatement(e.stat, e.old, e.new) IN m[PosOf(e.new, "Xm")].s = PosOf(e.old, "X")
WellFormedKept(e) ==
    /\ e.mode = "kept"
    /\ Count(e.old, "X") = 1 /\ Count(e.new, "Xr") = 1 /\ Count(e.new, "X") = 0 /\ Count(e.old, "Xr") = 0
    /\ e.stat["X"] # "none" /\ e.stat["Xr"] = e.stat["X"]
    /\ e.brk.thr > 0 /\ e.brk.retry > 0 /\ e.brk.win > 0
    \* the relation of the statement hands X's statistics to Xr
    /\ LET m == ReuseStatement(e.stat, e.old, e.new) IN m[PosOf(e.new, "Xr")].s = PosOf(e.old, "X")
WellFormed(e) ==
    /\ e.p0 \in {"whole", "res"} /\ e.path \in Paths /\ Paths \subseteq AllPaths
    /\ (WellFormedLists(e) \/ WellFormedKept(e))

TNew ==
    /\ IsEvent("new")
    /\ WellFormed(Ev)
    /\ g' = [tr |-> Ev.tr, kind |-> Ev.kind, mod |-> Ev.mod, mode |-> Ev.mode, old |-> Ev.old, new |-> Ev.new, pos |-> Ev.pos,
             stat |-> Ev.stat, brk |-> Ev.brk, p0 |-> Ev.p0, path |-> Ev.path, opt |-> Ev.opt, reached |-> ~Skipped(Ev.path, Ev.old, Ev.new),
             relaxed |-> (Ev.mode = "erase" /\ Duplicated(Ev.old, Ev.new, "X"))]
    /\ failed' = FALSE /\ parted' = FALSE
    /\ bk' = [st |-> "Closed", err |-> 0, dl |-> 0]
    \* the design-level state of the pair: primary = run A, shadow = run B, both after the initial load through p0
    /\ P' = LoadSC(Reuse, Ev.stat, << >>, Ev.p0, Ev.old)
    /\ Sh' = LoadSC(Reuse, Ev.stat, << >>, Ev.p0, IF Ev.mode = "erase" THEN Ev.old ELSE Ev.new)
    /\ kept' = Count(Ev.old, Watched) /\ n' = 0
    /\ Unused

\* A decided no more generously than B
NotMoreGenerous(a, b) == (a.d = "B" /\ b.d = "P") \/ (a.d = "P" /\ b.d = "P" /\ a.w >= b.w)

TStep ==
    /\ IsEvent("step")
    /\ g.mode # "kept"
    /\ UNCHANGED bk
    \* replay on the design-level state: the recorded reload is RuleReuse's load of g.new through entry point g.path
    \* on the primary (the shadow skips it), every step is one traffic event.  The design under test (constants of the
    \* cfg: Reuse = "statement", Defaulting = {}) must make this reload invisible for the watched rule whatever entry
    \* points the history mixes - otherwise the scenario is not one the spec speaks about (malformed, TLC stops).
    /\ LET rl == (Ev.i = g.pos + 1)
           p1 == Aged(g.stat, IF rl THEN LoadSC(Reuse, g.stat, P, g.path, g.new) ELSE P)
           s1 == Aged(g.stat, Sh)
           k1 == IF rl THEN Min2(kept, Count(g.new, Watched)) ELSE kept
       IN  /\ P' = p1 /\ Sh' = s1 /\ kept' = k1 /\ n' = n + 1
           /\ g.mode = "erase" => InvisibleOn(p1, s1, k1)
    /\ LET a == Ev.a  b == Ev.b IN
       \* fromstart: before the reload both rules must decide alike, or the scenario proves nothing
       /\ (g.mode = "fromstart" /\ Ev.i <= g.pos) => a = b
       /\ parted' = (parted \/ (g.relaxed /\ a # b))
       /\ Judge(parted \/ a = b \/ (g.relaxed /\ NotMoreGenerous(a, b)),
                [kind |-> g.kind, mod |-> g.mod, mode |-> g.mode, old |-> g.old, new |-> g.new, pos |-> g.pos, p0 |-> g.p0, path |-> g.path, opt |-> g.opt,
                 reached |-> g.reached, step |-> Ev.i, a |-> a, b |-> b])
    /\ UNCHANGED g
    /\ Unused

---------------------------------------------------------------------------
(* mode kept: the breaker model                                            *)
Bool2Int(b) == IF b THEN 1 ELSE 0
\* before the reload the model FOLLOWS the observed outcomes (the old breaker is judged elsewhere): a completed request
\* adds its error to the count; the breaker is tripped once the count reaches the threshold.  A request that is admitted
\* by a tripped breaker is a probe: it must stay in flight ("hold"), a completed probe could reset the statistics.
PreStep(b, e) ==
    IF e.a.d = "P" /\ e.o = "req"
    THEN LET c == b.err + Bool2Int(e.f) IN [st |-> IF c >= g.brk.thr THEN "Open" ELSE "Closed", err |-> c, dl |-> 0]
    ELSE IF e.a.d = "P" /\ b.st # "Closed" THEN [b EXCEPT !.st = "HalfOpen"] ELSE b
PreOK(b, e) == (e.a.d = "P" /\ e.o = "req") => b.st = "Closed"
\* the breaker generated by the reload: Closed, on the statistics the reuse relation hands to Xr - with the relation under
\* test, whatever the state of the old breaker (trp = its position if it is tripped)
AfterReload(b) ==
    LET posX == PosOf(g.old, "X")
        m    == MatchT(Reuse, g.stat, KeysOf(P), KeyList(g.path, g.new), IF b.st # "Closed" THEN {posX} ELSE {})
    IN  [st |-> "Closed", err |-> IF m[PosOf(g.new, "Xr")].s = posX THEN b.err ELSE 0, dl |-> 0]
\* after the reload: the decision the model demands for step e, and the breaker after it
Demand(b, e) == IF b.st = "Closed" \/ (b.st = "Open" /\ e.t >= b.dl) THEN "P" ELSE "B"
PostStep(b, e) ==
    IF b.st = "Closed"
    THEN LET c == b.err + Bool2Int(e.f) IN IF c >= g.brk.thr THEN [st |-> "Open", err |-> c, dl |-> e.t + g.brk.retry] ELSE [b EXCEPT !.err = c]
    ELSE IF e.t >= b.dl                 \* Open, the retry deadline has come: this request is the probe
         THEN IF e.f THEN [st |-> "Open", err |-> b.err + 1, dl |-> e.t + g.brk.retry] ELSE [st |-> "Closed", err |-> 0, dl |-> 0]
         ELSE b

TStepKept ==
    /\ IsEvent("step")
    /\ g.mode = "kept"
    /\ Ev.o \in {"req", "hold"} /\ Ev.t < g.brk.win          \* one statistic bucket, no releases: else not a scenario of this form
    /\ Ev.i > g.pos => Ev.o = "req"
    /\ LET rl == (Ev.i = g.pos + 1)
           b0 == IF rl THEN AfterReload(bk) ELSE bk
       IN  IF Ev.i <= g.pos
           THEN /\ PreOK(bk, Ev)
                /\ bk' = PreStep(bk, Ev)
                /\ failed' = failed
           ELSE /\ bk' = PostStep(b0, Ev)
                /\ Judge(Ev.a.d = Demand(b0, Ev),
                         [kind |-> g.kind, mod |-> g.mod, mode |-> g.mode, old |-> g.old, new |-> g.new, pos |-> g.pos, p0 |-> g.p0, path |-> g.path,
                          opt |-> g.opt, reached |-> g.reached, step |-> Ev.i, a |-> Ev.a, b |-> [d |-> Demand(b0, Ev), w |-> 0],
                          breaker |-> b0, tripped_at_reload |-> (IF rl THEN bk.st ELSE "-")])
    /\ P' = Aged(g.stat, IF Ev.i = g.pos + 1 THEN LoadSC(Reuse, g.stat, P, g.path, g.new) ELSE P)
    /\ Sh' = Sh /\ kept' = kept /\ n' = n + 1
    /\ UNCHANGED <<g, parted>>
    /\ Unused

TInit ==
    /\ l = 1 /\ failed = FALSE /\ parted = FALSE /\ bk = [st |-> "Closed", err |-> 0, dl |-> 0]
    /\ g = [tr |-> 0, kind |-> "", mod |-> "", mode |-> "", old |-> << >>, new |-> << >>, pos |-> 0, stat |-> << >>, brk |-> << >>, p0 |-> "", path |-> "", opt |-> "",
            reached |-> FALSE, relaxed |-> FALSE]
    /\ P = << >> /\ Sh = << >> /\ n = 0 /\ ok = TRUE /\ kept = 0 /\ h = << >>
TNext == TNew \/ TStep \/ TStepKept
TSpec == TInit /\ [][TNext]_tvars
=============================================================================
