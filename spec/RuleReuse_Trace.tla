--------------------------- MODULE RuleReuse_Trace ---------------------------
(***************************************************************************)
(* Validation of metamorphic executions of the real code against C14.      *)
(* harness/cmd/c14 runs, for one scenario, the PAIR                        *)
(*    A = load(old); traffic with reload(new) inserted at position pos     *)
(*    B = the same traffic with the reload erased            (mode erase)  *)
(*        or with `new' loaded from the start            (mode fromstart)  *)
(* on fresh module state under identical clocks and records both decision  *)
(* traces.  This module decides, with the operators of RuleReuse, what the *)
(* statement demands of the pair:                                          *)
(*  - erase: the watched rule "X" is field-for-field identical in old and  *)
(*    new (Unchanged) => every decision of A equals that of B.  If the     *)
(*    reload adds copies of X (Duplicated) a fresh copy may refuse or      *)
(*    delay more, never less: the traces may part only in that direction.  *)
(*  - fromstart: new contains "Xm" (X modified, statistic parameters       *)
(*    unchanged) and the statement's reuse relation hands X's statistics   *)
(*    to it => every decision after the reload equals that of the run in   *)
(*    which Xm was there from the start (the history before the reload is  *)
(*    chosen so that both rules decide alike - checked).                   *)
(* The entry point is a parameter of every load (RuleReuse: Reload(path,   *)
(* new)): the pair records the entry point of the INITIAL load (p0:        *)
(* "whole" | "res") and of the reload (path: "whole" | "wholeOther" |      *)
(* "res") separately, so one history may mix LoadRules and                 *)
(* LoadRulesOfResource.  Tokens are caller-visible tuples BEFORE the       *)
(* module's defaulting: `opt' names the concrete spelling of the optional  *)
(* fields ("unset": left at their zero value, "set": defaults spelled out, *)
(* ...); both runs of a pair and all their loads send the same spelling,   *)
(* so the watched rule is field-for-field identical whatever the entry     *)
(* point does with defaults.  `reached' says (spec: Skipped) whether the   *)
(* entry point's unchanged-detection lets the reload through to the reuse  *)
(* algorithm; the driver reports what the code said (ld) for coverage.     *)
(* A scenario that is not of one of these forms is malformed: TLC stops    *)
(* there and the check reports a machinery error, never a violation.       *)
(***************************************************************************)
EXTENDS RuleReuse, Json

Trace == ndJsonDeserialize("trace.ndjson")

VARIABLES l, g, failed, parted
tvars == <<l, g, failed, parted, P, Sh, n, ok, kept, h>>
Unused == UNCHANGED <<ok, h>>

Ev == Trace[l]

Judge(okk, expected) ==
    IF failed \/ okk THEN failed' = failed
    ELSE /\ failed' = TRUE
         /\ PrintT("MISMATCH " \o ToString(g.tr) \o " " \o ToString(l) \o " " \o ToJson(expected))

IsEvent(op) == l <= Len(Trace) /\ Ev.op = op /\ l' = l + 1

PosOf(s, t) == NthPos(s, t, 1)
\* the scenario is one the statement speaks about
WellFormedLists(e) ==
    \/ e.mode = "erase" /\ Unchanged(e.old, e.new, "X")
    \/ /\ e.mode = "fromstart"
       /\ Count(e.old, "X") = 1 /\ Count(e.new, "Xm") = 1 /\ Count(e.new, "X") = 0 /\ Count(e.old, "Xm") = 0
       /\ e.stat["X"] # "none"
       /\ LET m == ReuseStatement(e.stat, e.old, e.new) IN m[PosOf(e.new, "Xm")].s = PosOf(e.old, "X")
WellFormed(e) ==
    /\ e.p0 \in {"whole", "res"} /\ e.path \in Paths /\ Paths \subseteq AllPaths
    /\ WellFormedLists(e)

TNew ==
    /\ IsEvent("new")
    /\ WellFormed(Ev)
    /\ g' = [tr |-> Ev.tr, kind |-> Ev.kind, mod |-> Ev.mod, mode |-> Ev.mode, old |-> Ev.old, new |-> Ev.new, pos |-> Ev.pos,
             stat |-> Ev.stat, p0 |-> Ev.p0, path |-> Ev.path, opt |-> Ev.opt, reached |-> ~Skipped(Ev.path, Ev.old, Ev.new),
             relaxed |-> (Ev.mode = "erase" /\ Duplicated(Ev.old, Ev.new, "X"))]
    /\ failed' = FALSE /\ parted' = FALSE
    \* the design-level state of the pair: primary = run A, shadow = run B, both after the initial load through p0
    /\ P' = LoadSC(Reuse, Ev.stat, << >>, Ev.p0, Ev.old)
    /\ Sh' = LoadSC(Reuse, Ev.stat, << >>, Ev.p0, IF Ev.mode = "erase" THEN Ev.old ELSE Ev.new)
    /\ kept' = Count(Ev.old, Watched) /\ n' = 0
    /\ Unused

\* A decided no more generously than B
NotMoreGenerous(a, b) == (a.d = "B" /\ b.d = "P") \/ (a.d = "P" /\ b.d = "P" /\ a.w >= b.w)

TStep ==
    /\ IsEvent("step")
    \* replay on the design-level state: the recorded reload is RuleReuse's load of g.new through entry point g.path
    \* on the primary (the shadow skips it), every step is one traffic event.  The design under test (constants of the
    \* cfg: Reuse = "statement", Defaulting = {}) must make this reload invisible for the watched rule whatever entry
    \* points the history mixes - otherwise the scenario is not one the spec speaks about (malformed, TLC stops).
    /\ LET rl == (Ev.i = g.pos + 1)
           p1 == Aged(g.stat, IF rl THEN LoadSC(Reuse, g.stat, P, g.path, g.new) ELSE P)
           s1 == Aged(g.stat, Sh)
           k1 == IF rl THEN Min2(kept, Count(g.new, Watched)) ELSE kept
       IN  /\ P' = p1 /\ Sh' = s1 /\ kept' = k1 /\ n' = n + 1
           /\ g.mode = "erase" => InvisibleOn(p1, s1, k1)
    /\ LET a == Ev.a  b == Ev.b IN
       \* fromstart: before the reload both rules must decide alike, or the scenario proves nothing
       /\ (g.mode = "fromstart" /\ Ev.i <= g.pos) => a = b
       /\ parted' = (parted \/ (g.relaxed /\ a # b))
       /\ Judge(parted \/ a = b \/ (g.relaxed /\ NotMoreGenerous(a, b)),
                [kind |-> g.kind, mod |-> g.mod, mode |-> g.mode, old |-> g.old, new |-> g.new, pos |-> g.pos, p0 |-> g.p0, path |-> g.path, opt |-> g.opt,
                 reached |-> g.reached, step |-> Ev.i, a |-> a, b |-> b])
    /\ UNCHANGED g
    /\ Unused

TInit ==
    /\ l = 1 /\ failed = FALSE /\ parted = FALSE
    /\ g = [tr |-> 0, kind |-> "", mod |-> "", mode |-> "", old |-> << >>, new |-> << >>, pos |-> 0, stat |-> << >>, p0 |-> "", path |-> "", opt |-> "",
            reached |-> FALSE, relaxed |-> FALSE]
    /\ P = << >> /\ Sh = << >> /\ n = 0 /\ ok = TRUE /\ kept = 0 /\ h = << >>
TNext == TNew \/ TStep
TSpec == TInit /\ [][TNext]_tvars
=============================================================================
