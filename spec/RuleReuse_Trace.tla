--------------------------- MODULE RuleReuse_Trace ---------------------------
(***************************************************************************)
(* Validation of metamorphic executions of the real code against C14.      *)
(* harness/cmd/c14 runs, for one scenario, the PAIR                        *)
(*    A = load(old); traffic with reload(new) inserted at position pos     *)
(*    B = the same traffic with the reload erased            (mode erase)  *)
(*        or with `new' loaded from the start            (mode fromstart)  *)
(* on fresh module state under identical clocks and records both decision  *)
(* traces.  This module decides, with the operators of RuleReuse, what the *)
(* statement demands of the pair:                                          *)
(*  - erase: the watched rule "X" is field-for-field identical in old and  *)
(*    new (Unchanged) => every decision of A equals that of B.  If the     *)
(*    reload adds copies of X (Duplicated) a fresh copy may refuse or      *)
(*    delay more, never less: the traces may part only in that direction.  *)
(*  - fromstart: new contains "Xm" (X modified, statistic parameters       *)
(*    unchanged) and the statement's reuse relation hands X's statistics   *)
(*    to it => every decision after the reload equals that of the run in   *)
(*    which Xm was there from the start (the history before the reload is  *)
(*    chosen so that both rules decide alike - checked).                   *)
(* A scenario that is not of one of these forms is malformed: TLC stops    *)
(* there and the check reports a machinery error, never a violation.       *)
(***************************************************************************)
EXTENDS RuleReuse, Json

Trace == ndJsonDeserialize("trace.ndjson")

VARIABLES l, g, failed, parted
tvars == <<l, g, failed, parted, P, Sh, n, ok, kept, h>>
Unused == UNCHANGED <<P, Sh, n, ok, kept, h>>

Ev == Trace[l]

Judge(okk, expected) ==
    IF failed \/ okk THEN failed' = failed
    ELSE /\ failed' = TRUE
         /\ PrintT("MISMATCH " \o ToString(g.tr) \o " " \o ToString(l) \o " " \o ToJson(expected))

IsEvent(op) == l <= Len(Trace) /\ Ev.op = op /\ l' = l + 1

PosOf(s, t) == NthPos(s, t, 1)
\* the scenario is one the statement speaks about
WellFormed(e) ==
    \/ e.mode = "erase" /\ Unchanged(e.old, e.new, "X")
    \/ /\ e.mode = "fromstart"
       /\ Count(e.old, "X") = 1 /\ Count(e.new, "Xm") = 1 /\ Count(e.new, "X") = 0 /\ Count(e.old, "Xm") = 0
       /\ e.stat["X"] # "none"
       /\ LET m == ReuseStatement(e.stat, e.old, e.new) IN m[PosOf(e.new, "Xm")].s = PosOf(e.old, "X")

TNew ==
    /\ IsEvent("new")
    /\ WellFormed(Ev)
    /\ g' = [tr |-> Ev.tr, kind |-> Ev.kind, mod |-> Ev.mod, mode |-> Ev.mode, old |-> Ev.old, new |-> Ev.new, pos |-> Ev.pos,
             path |-> Ev.path, relaxed |-> (Ev.mode = "erase" /\ Duplicated(Ev.old, Ev.new, "X"))]
    /\ failed' = FALSE /\ parted' = FALSE
    /\ Unused

\* A decided no more generously than B
NotMoreGenerous(a, b) == (a.d = "B" /\ b.d = "P") \/ (a.d = "P" /\ b.d = "P" /\ a.w >= b.w)

TStep ==
    /\ IsEvent("step")
    /\ LET a == Ev.a  b == Ev.b IN
       \* fromstart: before the reload both rules must decide alike, or the scenario proves nothing
       /\ (g.mode = "fromstart" /\ Ev.i <= g.pos) => a = b
       /\ parted' = (parted \/ (g.relaxed /\ a # b))
       /\ Judge(parted \/ a = b \/ (g.relaxed /\ NotMoreGenerous(a, b)),
                [kind |-> g.kind, mod |-> g.mod, mode |-> g.mode, old |-> g.old, new |-> g.new, pos |-> g.pos, path |-> g.path,
                 step |-> Ev.i, a |-> a, b |-> b])
    /\ UNCHANGED g
    /\ Unused

TInit ==
    /\ l = 1 /\ failed = FALSE /\ parted = FALSE
    /\ g = [tr |-> 0, kind |-> "", mod |-> "", mode |-> "", old |-> << >>, new |-> << >>, pos |-> 0, path |-> "", relaxed |-> FALSE]
    /\ P = << >> /\ Sh = << >> /\ n = 0 /\ ok = TRUE /\ kept = 0 /\ h = << >>
TNext == TNew \/ TStep
TSpec == TInit /\ [][TNext]_tvars
=============================================================================
