---------------------------- MODULE HotParamArgs ----------------------------
(***************************************************************************)
(* Which argument of a request a hot-parameter rule selects (C05, C06).    *)
(*                                                                         *)
(* A request carries a list of positional arguments `args' and a table of  *)
(* attachments `atts' (key -> value).  A rule selects by attachment key    *)
(* when it has one and the request carries that key ("ParamKey has the     *)
(* higher priority than ParamIndex"), otherwise by position: index i >= 0  *)
(* is the i-th argument, i < 0 counts from the end (-1 = last).  A request *)
(* that carries neither has no selected argument (None) and is outside the *)
(* scope of the rule.                                                      *)
(***************************************************************************)
EXTENDS Integers, Sequences

None == "-"

Sel(args, atts, idx, key) ==
    IF key # "" /\ key \in DOMAIN atts THEN atts[key]
    ELSE LET n == Len(args)
             i == IF idx < 0 THEN n + idx ELSE idx      \* 0-based position
         IN  IF i >= 0 /\ i < n THEN args[i + 1] ELSE None

\* threshold in force for value v: the specific item when configured, else the general one
ThrOf(items, general, v) == IF v \in DOMAIN items THEN items[v] ELSE general
=============================================================================
