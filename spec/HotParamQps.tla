----------------------------- MODULE HotParamQps -----------------------------
(***************************************************************************)
(* Hot-parameter QPS rules of sentinel-golang (core/hotspot), property C05.*)
(*                                                                         *)
(* Two layers over the same multi-value arrival history:                   *)
(*                                                                         *)
(*  - PROPERTY level: per value the history (first seen, previous request, *)
(*    admitted (t, b) list, scheduled pass times); the statement's clauses *)
(*    are predicates over that history (HotParamQpsOps part 1):            *)
(*    E1, E2, E3 (reject), P1, P2 (throttle), NoArg, Independence.         *)
(*                                                                         *)
(*  - IMPLEMENTATION-SHAPED layer: the lazy-refill token bucket and the    *)
(*    pacing cell over two LRU caches with capacity (HotParamQpsOps part   *)
(*    2), plus, for Independence, a shadow instance per value that only    *)
(*    ever sees that value's own sub-history.                              *)
(*                                                                         *)
(* "While the configured parameter capacity is not exceeded" is read per   *)
(* value: lost[v] becomes (and stays) TRUE when a request of v arrives     *)
(* after at least `capacity' distinct OTHER values have been used since    *)
(* v's last admitted request (its recency rank, HotParamQpsOps).  LARGE    *)
(* numbers of other values are modelled by the action Flood(n): n requests *)
(* with n fresh values that are never used again - at the property level   *)
(* they add n to every value's rank, in the algorithm they are n anonymous *)
(* entries of the LRU caches.                                              *)
(*                                                                         *)
(* TLC checks that the decisions of the algorithm satisfy the envelopes    *)
(* and equal the decisions of the single-value shadows for every value     *)
(* that is not lost (so a flood BELOW the capacity never changes a         *)
(* decision), that the state of a value is kept while its rank is below    *)
(* the capacity (KeepOK), that every fresh value of a flood is admitted    *)
(* (FloodFreshOK); E3, P2 and NoArg hold regardless of the capacity; the   *)
(* retry loop never spins (NoHang).  The capacity is the rule's explicit   *)
(* ParamsMaxCapacity or the derived default (EffCap over PCap, CapBase,    *)
(* CapMax - scaled down here); Mutant selects a wrong sizing of the caches *)
(* (the invariants must reject it).                                        *)
(* Time is in ms (1 ms = clock resolution of the code).                    *)
(***************************************************************************)
EXTENDS HotParamQpsOps, TLC

CONSTANTS
    Values,     \* parameter values
    Cf,         \* rule configuration (see HotParamQpsOps)
    Batches,    \* batch counts of a request
    Steps,      \* clock increments (ms)
    MaxT,       \* bound on the clock
    MaxOps,     \* bound on the number of requests
    Floods,     \* sizes of floods (numbers of fresh values); {} = no floods
    PCap,       \* Rule.ParamsMaxCapacity as configured (0 = not configured: the derived default)
    CapBase, CapMax,    \* the constants of the default capacity (library: 4000 per second of duration, at most 20000)
    Mutant      \* "" = the sizing of the caches as specified; "clamp" = the upper bound CapMax meant for the derived
                \* default also cuts an explicit capacity; "offbyone" = one entry less than configured

ASSUME Cf.cap = EffCap(PCap, Cf.D, CapBase, CapMax)

VARIABLES
    now,
    first,      \* [Values -> time first seen, -1 = never]
    last,       \* [Values -> time of the previous request, -1 = none]
    adm,        \* [Values -> sequence of [t, b]]      admitted (reject mode)
    sched,      \* [Values -> sequence of [at, b]]     scheduled pass times (throttle mode)
    since,      \* [Values -> set of other values requested since its last admitted request]
    fl,         \* [Values -> number of fresh (flood) values since its last admitted request]
    lost,       \* [Values -> BOOLEAN] a request of the value arrived when its rank had reached the capacity
    tc, kc,     \* implementation: RuleTimeCounter / RuleTokenCounter
    sh,         \* shadow: [Values -> [tc, kc]] private caches of a single-value instance
    dec,        \* the last decision and what the property says about it
    nops,
    h           \* history of operations (scenario for the conformance driver; hidden by VIEW)

vars == <<now, first, last, adm, sched, since, fl, lost, tc, kc, sh, dec, nops, h>>
view == <<now, first, last, adm, sched, since, fl, lost, tc, kc, sh, dec>>

Seen == { v \in Values : first[v] >= 0 }
ShadowCf == [Cf EXCEPT !.cap = 1]       \* a shadow instance only ever holds its own value
\* the size the implementation gives its caches
ImplCap == CASE Mutant = "clamp"    -> (LET s0 == IF PCap > 0 THEN PCap ELSE CapBase * (Cf.D \div 1000)
                                       IN  IF s0 <= 0 \/ s0 > CapMax THEN CapMax ELSE s0)
             [] Mutant = "offbyone" -> IF Cf.cap > 1 THEN Cf.cap - 1 ELSE Cf.cap
             [] OTHER               -> Cf.cap
ImplCf == [Cf EXCEPT !.cap = ImplCap]

NoDec == [v |-> None, b |-> 0, ok |-> TRUE, wait |-> 0, sok |-> TRUE, swait |-> 0, e3 |-> FALSE, hang |-> FALSE, over |-> FALSE,
          n |-> 0, fadm |-> 0]

Init ==
    /\ now = 0
    /\ first = [v \in Values |-> -1]
    /\ last = [v \in Values |-> -1]
    /\ adm = [v \in Values |-> << >>]
    /\ sched = [v \in Values |-> << >>]
    /\ since = [v \in Values |-> {}]
    /\ fl = [v \in Values |-> 0]
    /\ lost = [v \in Values |-> FALSE]
    /\ tc = EmptyCache /\ kc = EmptyCache
    /\ sh = [v \in Values |-> [tc |-> EmptyCache, kc |-> EmptyCache]]
    /\ dec = NoDec
    /\ nops = 0
    /\ h = << >>

\* a request that carries the selected argument with value v
Request(v, b) ==
    /\ nops < MaxOps
    /\ LET r == Step(ImplCf, tc, kc, v, b, now)
           s == Step(ShadowCf, sh[v].tc, sh[v].kc, v, b, now)
           f == [first EXCEPT ![v] = IF @ < 0 THEN now ELSE @]
           lo == [lost EXCEPT ![v] = @ \/ MayForget(Cf, since, fl, v, first[v] >= 0)]
       IN  /\ tc' = r.tc /\ kc' = r.kc
           /\ lost' = lo
           /\ since' = SinceAfter(since, v, r.ok, first[v] >= 0)
           /\ fl' = FlAfter(fl, v, r.ok, first[v] >= 0)
           /\ sh' = [sh EXCEPT ![v] = [tc |-> s.tc, kc |-> s.kc]]
           /\ first' = f
           /\ last' = [last EXCEPT ![v] = now]
           /\ adm' = IF r.ok /\ Cf.mode = "reject" THEN [adm EXCEPT ![v] = Append(@, [t |-> now, b |-> b])] ELSE adm
           /\ sched' = IF r.ok /\ Cf.mode = "throttle"
                         THEN [sched EXCEPT ![v] = Append(@, [at |-> now + r.wait, b |-> b])] ELSE sched
           /\ dec' = [v |-> v, b |-> b, ok |-> r.ok, wait |-> r.wait, sok |-> s.ok, swait |-> s.wait,
                      e3 |-> Cf.mode = "reject" /\ E3Premise(Cf, v, last[v], now, b), hang |-> r.hang, over |-> lo[v],
                      n |-> 0, fadm |-> 0]
    /\ nops' = nops + 1
    /\ h' = Append(h, [op |-> "req", t |-> now, v |-> v, b |-> b])
    /\ UNCHANGED now

\* a request without the selected argument: the rule does not apply (Slot.Check skips it)
RequestNoArg(b) ==
    /\ nops < MaxOps
    /\ dec' = [NoDec EXCEPT !.b = b]
    /\ nops' = nops + 1
    /\ h' = Append(h, [op |-> "req", t |-> now, v |-> None, b |-> b])
    /\ UNCHANGED <<now, first, last, adm, sched, since, fl, lost, tc, kc, sh>>

\* n requests (batch 1) with n fresh values - values outside Values, never used before or afterwards.  Their own
\* histories need no state (each is a single request, judged at once: FloodFreshOK); for everybody else they are n
\* more distinct values in use.
Flood(n) ==
    /\ nops < MaxOps
    /\ LET r == FloodStep(ImplCf, tc, kc, n) IN
       /\ tc' = r.tc /\ kc' = r.kc
       /\ dec' = [NoDec EXCEPT !.n = n, !.fadm = r.adm]
    /\ fl' = FlAfterFlood(fl, n)
    /\ nops' = nops + 1
    /\ h' = Append(h, [op |-> "flood", t |-> now, n |-> n])
    /\ UNCHANGED <<now, first, last, adm, sched, since, lost, sh>>

Tick(d) ==
    /\ now + d <= MaxT
    /\ now' = now + d
    /\ UNCHANGED <<first, last, adm, sched, since, fl, lost, tc, kc, sh, dec, nops, h>>

Next ==
    \/ \E v \in Values, b \in Batches : Request(v, b)
    \/ \E b \in Batches : RequestNoArg(b)
    \/ \E n \in Floods : Flood(n)
    \/ \E d \in Steps : Tick(d)

Spec == Init /\ [][Next]_vars

---------------------------------------------------------------------------
(* Properties *)

\* the clauses scoped by "while the configured parameter capacity is not exceeded" are demanded for every value that
\* was never lost (lost[v] only changes at a request of v, and nothing is admitted for v in between)
Kept == { v \in Seen : ~lost[v] }

E1OK == Cf.mode = "reject" => \A v \in Kept : E1(Cf, v, first[v], adm[v], now)
E2OK == Cf.mode = "reject" => \A v \in Kept : E2(Cf, v, adm[v])
E3OK == dec.e3 => dec.ok                                        \* whatever the capacity
P1OK == Cf.mode = "throttle" => \A v \in Kept : P1(Cf, v, sched[v])
P2OK == (Cf.mode = "throttle" /\ dec.ok) => P2(Cf, dec.wait)    \* whatever the capacity
NoArgOK == dec.v = None => dec.ok /\ dec.wait = 0
\* traffic on other values - floods included - never changes the decision for this one while the capacity is not
\* exceeded: the decision is EXACTLY the one of the value's own sub-history
IndepOK == ~dec.over => (dec.ok = dec.sok /\ dec.wait = dec.swait)
\* the state of a value (it has one: something was admitted for it) is kept while its rank is below the capacity
KeepOK == \A v \in Seen : ((adm[v] # << >> \/ sched[v] # << >>) /\ ~MayForget(Cf, since, fl, v, TRUE))
                              => (Has(tc, v) /\ (Cf.mode = "reject" => Has(kc, v)))
\* every fresh value of a flood is admitted (threshold >= 1) / none is (reject, threshold + burst = 0)
FloodFreshOK == dec.n > 0 => FloodOK(Cf, dec.n, dec.fadm, 0)
NoHang  == ~dec.hang
\* both caches always hold the same keys in the same order (sequentially)
CachesAgree == Cf.mode = "reject" => (tc.ord = kc.ord /\ tc.pos = kc.pos /\ tc.size = kc.size)
CapOK == /\ tc.size <= ImplCap /\ kc.size <= ImplCap
         /\ \A k \in DOMAIN tc.pos : tc.pos[k] < tc.size
         /\ \A k \in DOMAIN kc.pos : kc.pos[k] < kc.size

TypeOK == now \in 0..MaxT /\ nops \in 0..MaxOps
=============================================================================
