----------------------------- MODULE HotParamQps -----------------------------
(***************************************************************************)
(* Hot-parameter QPS rules of sentinel-golang (core/hotspot), property C05.*)
(*                                                                         *)
(* Two layers over the same multi-value arrival history:                   *)
(*                                                                         *)
(*  - PROPERTY level: per value the history (first seen, previous request, *)
(*    admitted (t, b) list, scheduled pass times); the statement's clauses *)
(*    are predicates over that history (HotParamQpsOps part 1):            *)
(*    E1, E2, E3 (reject), P1, P2 (throttle), NoArg, Independence.         *)
(*                                                                         *)
(*  - IMPLEMENTATION-SHAPED layer: the lazy-refill token bucket and the    *)
(*    pacing cell over two LRU caches with capacity (HotParamQpsOps part   *)
(*    2), plus, for Independence, a shadow instance per value that only    *)
(*    ever sees that value's own sub-history.                              *)
(*                                                                         *)
(* TLC checks that the decisions of the algorithm satisfy the envelopes    *)
(* and equal the decisions of the single-value shadows while the number of *)
(* distinct values does not exceed the capacity; E3, P2 and NoArg hold     *)
(* regardless of the capacity; the retry loop never spins (NoHang).        *)
(* Time is in ms (1 ms = clock resolution of the code).                    *)
(***************************************************************************)
EXTENDS HotParamQpsOps, TLC

CONSTANTS
    Values,     \* parameter values
    Cf,         \* rule configuration (see HotParamQpsOps)
    Batches,    \* batch counts of a request
    Steps,      \* clock increments (ms)
    MaxT,       \* bound on the clock
    MaxOps      \* bound on the number of requests

VARIABLES
    now,
    first,      \* [Values -> time first seen, -1 = never]
    last,       \* [Values -> time of the previous request, -1 = none]
    adm,        \* [Values -> sequence of [t, b]]      admitted (reject mode)
    sched,      \* [Values -> sequence of [at, b]]     scheduled pass times (throttle mode)
    tc, kc,     \* implementation: RuleTimeCounter / RuleTokenCounter
    sh,         \* shadow: [Values -> [tc, kc]] private caches of a single-value instance
    dec,        \* the last decision and what the property says about it
    nops,
    h           \* history of operations (scenario for the conformance driver; hidden by VIEW)

vars == <<now, first, last, adm, sched, tc, kc, sh, dec, nops, h>>
view == <<now, first, last, adm, sched, tc, kc, sh, dec>>

Seen == { v \in Values : first[v] >= 0 }
\* the configured parameter capacity is exceeded: per-value state may have been evicted
Over(f) == Cardinality({ v \in Values : f[v] >= 0 }) > Cf.cap
ShadowCf == [Cf EXCEPT !.cap = 1]       \* a shadow instance only ever holds its own value

NoDec == [v |-> None, b |-> 0, ok |-> TRUE, wait |-> 0, sok |-> TRUE, swait |-> 0, e3 |-> FALSE, hang |-> FALSE, over |-> FALSE]

Init ==
    /\ now = 0
    /\ first = [v \in Values |-> -1]
    /\ last = [v \in Values |-> -1]
    /\ adm = [v \in Values |-> << >>]
    /\ sched = [v \in Values |-> << >>]
    /\ tc = EmptyCache /\ kc = EmptyCache
    /\ sh = [v \in Values |-> [tc |-> EmptyCache, kc |-> EmptyCache]]
    /\ dec = NoDec
    /\ nops = 0
    /\ h = << >>

\* a request that carries the selected argument with value v
Request(v, b) ==
    /\ nops < MaxOps
    /\ LET r == Step(Cf, tc, kc, v, b, now)
           s == Step(ShadowCf, sh[v].tc, sh[v].kc, v, b, now)
           f == [first EXCEPT ![v] = IF @ < 0 THEN now ELSE @]
       IN  /\ tc' = r.tc /\ kc' = r.kc
           /\ sh' = [sh EXCEPT ![v] = [tc |-> s.tc, kc |-> s.kc]]
           /\ first' = f
           /\ last' = [last EXCEPT ![v] = now]
           /\ adm' = IF r.ok /\ Cf.mode = "reject" THEN [adm EXCEPT ![v] = Append(@, [t |-> now, b |-> b])] ELSE adm
           /\ sched' = IF r.ok /\ Cf.mode = "throttle"
                         THEN [sched EXCEPT ![v] = Append(@, [at |-> now + r.wait, b |-> b])] ELSE sched
           /\ dec' = [v |-> v, b |-> b, ok |-> r.ok, wait |-> r.wait, sok |-> s.ok, swait |-> s.wait,
                      e3 |-> Cf.mode = "reject" /\ E3Premise(Cf, v, last[v], now, b), hang |-> r.hang, over |-> Over(f)]
    /\ nops' = nops + 1
    /\ h' = Append(h, [op |-> "req", t |-> now, v |-> v, b |-> b])
    /\ UNCHANGED now

\* a request without the selected argument: the rule does not apply (Slot.Check skips it)
RequestNoArg(b) ==
    /\ nops < MaxOps
    /\ dec' = [NoDec EXCEPT !.b = b]
    /\ nops' = nops + 1
    /\ h' = Append(h, [op |-> "req", t |-> now, v |-> None, b |-> b])
    /\ UNCHANGED <<now, first, last, adm, sched, tc, kc, sh>>

Tick(d) ==
    /\ now + d <= MaxT
    /\ now' = now + d
    /\ UNCHANGED <<first, last, adm, sched, tc, kc, sh, dec, nops, h>>

Next ==
    \/ \E v \in Values, b \in Batches : Request(v, b)
    \/ \E b \in Batches : RequestNoArg(b)
    \/ \E d \in Steps : Tick(d)

Spec == Init /\ [][Next]_vars

---------------------------------------------------------------------------
(* Properties *)

Within == ~Over(first)

E1OK == (Cf.mode = "reject" /\ Within) => \A v \in Seen : E1(Cf, v, first[v], adm[v], now)
E2OK == (Cf.mode = "reject" /\ Within) => \A v \in Seen : E2(Cf, v, adm[v])
E3OK == dec.e3 => dec.ok                                        \* whatever the capacity
P1OK == (Cf.mode = "throttle" /\ Within) => \A v \in Seen : P1(Cf, v, sched[v])
P2OK == (Cf.mode = "throttle" /\ dec.ok) => P2(Cf, dec.wait)    \* whatever the capacity
NoArgOK == dec.v = None => dec.ok /\ dec.wait = 0
\* traffic on other values never changes the decision for this one while the capacity is not exceeded
IndepOK == ~dec.over => (dec.ok = dec.sok /\ dec.wait = dec.swait)
NoHang  == ~dec.hang
\* both caches always hold the same keys in the same order (sequentially)
CachesAgree == Cf.mode = "reject" => tc.ord = kc.ord
CapOK == Len(tc.ord) <= Cf.cap /\ Len(kc.ord) <= Cf.cap

TypeOK == now \in 0..MaxT /\ nops \in 0..MaxOps
=============================================================================
