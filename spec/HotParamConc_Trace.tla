-------------------------- MODULE HotParamConc_Trace --------------------------
(***************************************************************************)
(* Validation of executions of the real hot-parameter concurrency code     *)
(* against the property-level part of HotParamConc (C06).                  *)
(*                                                                         *)
(* The driver (harness/cmd/c06) opens and exits entries through api.Entry  *)
(* and records, per operation: the decision, the TriggeredValue of a       *)
(* rejection, and what Input.Args of EVERY live entry reads right after    *)
(* the operation.  "probe" counts how many further entries for a value are *)
(* admitted right now (after a drain: the post-drain admission count).     *)
(*                                                                         *)
(* Judged, with the same operators as the design spec (Sel, ThrOf, the     *)
(* admission predicate over the set of live entries):                      *)
(*   decision   admitted <=> |live entries for (res, v)| < thr(res, v)     *)
(*   tv         a rejection reports |live entries| + 1                     *)
(*   live-args  every live entry still reads the arguments it was opened   *)
(*              with (the entry remembers its value)                       *)
(*   probe      exactly max(0, thr - |live|) further entries are admitted  *)
(* Concurrent admission (HotParamConc with K >= 1): "chk" = a caller was    *)
(* started on its own goroutine and is parked between the rule check and   *)
(* the statistic slot (yield point chain.checked); "rec" = it was released *)
(* and api.Entry returned.  Other operations (req, exit, probe, further    *)
(* chk / rec) happen in between.  As in Check / Record of the design spec: *)
(*   decision   the outcome reported at "rec" is the admission predicate   *)
(*              over the entries that were live AT THE CHECK               *)
(*   tv         a rejection reports |live at the check| + 1                *)
(*   cap        live entries of a value never exceed thr + (k - 1), k =    *)
(*              the largest number of callers that were inside the         *)
(*              admission path at the same time in this trace              *)
(* and an entry counts as live from its "rec" until its exit, whatever     *)
(* happened between its check and its record: every later decision and     *)
(* every probe (exactly thr - live further entries are admitted) is judged *)
(* against that set.                                                       *)
(* First use (HotParamConc with Fresh = TRUE: Lookup / Create / Record of  *)
(* up to K callers interleave freely).  There is no yield point inside the *)
(* cache, so these executions are FREE-RUNNING: "burst" = G goroutines     *)
(* issued one request each for the same (usually never-seen) value at the  *)
(* same instant (spin barrier, real parallelism) and all of them have      *)
(* returned; with hold = FALSE every goroutine also exited its own entry.  *)
(* The interleaving is unknown, so the outcomes are judged by the RELATION *)
(* the design allows (the existential is inside the judgement): every      *)
(* caller took its decision by the admission predicate over the entries    *)
(* live at ITS check - the n0 entries live before the burst plus some of   *)
(* the other callers admitted in the burst:                                *)
(*   burst      for every caller there is a number L, n0 <= L <= n0 + (the *)
(*              OTHER callers admitted in this burst), with                *)
(*              admitted <=> L < thr, and a rejection reports L + 1        *)
(*   cap        as above with k = G                                        *)
(* The deterministic part is what follows at quiescence: the entries that  *)
(* were admitted and held are live, each for exactly one unit (OneObject / *)
(* CounterOK of the design: no unit is recorded on a counter object that   *)
(* is replaced afterwards), so every later "probe" admits exactly          *)
(* thr - live further entries - after all have exited: exactly thr.        *)
(* Reload (Reload of HotParamConc): "reload" = the rule table was replaced *)
(* in the middle of the history (hotspot.LoadRules, LoadRulesOfResource,   *)
(* or ClearRules followed by LoadRules) while entries are live.  For every *)
(* resource the spec keeps the rule version `ver' (bumped when its rule    *)
(* changed) and `base' = the version with which the counters in use        *)
(* started: a reload brings FRESH counters for a resource when a statistic *)
(* parameter of its rule changed (capacity), when the rule was removed and *)
(* loaded again (clear), or when the resource had no rule before; an       *)
(* identical or merely modified rule (thresholds, items, selector) KEEPS   *)
(* the counters (the clause of C14).  Every live entry is stamped with the *)
(* version it was admitted under and keeps the value it was admitted with. *)
(* As in the design spec, what the statement leaves open after a reload    *)
(* with fresh counters is accepted both ways: the figure a decision for    *)
(* (res, v) is taken on lies in                                            *)
(*     lo = live entries for v admitted since the counters in use started  *)
(*     hi = all live entries for v                                         *)
(* (lo = hi in a trace without such a reload: every judgement is then      *)
(* exactly the old one):                                                   *)
(*   decision   admitted only if lo < thr, refused only if hi >= thr       *)
(*   tv         a rejection reports f + 1 for a figure f, thr <= f, in     *)
(*              lo..hi                                                     *)
(*   probe      between thr - hi and thr - lo further entries are admitted *)
(*   cap        counts the entries admitted under the rule version in force*)
(* In particular (FigureInRange of the design spec) an entry admitted      *)
(* BEFORE the reload, whenever it exits, never makes room for more than    *)
(* thr - lo entries: it releases the unit it occupied, not a unit of the   *)
(* entries admitted after the reload.  `stale' remembers the resources on  *)
(* which such an earlier entry has exited since the counters in use        *)
(* started; a mismatch reports it together with `over' (the observed       *)
(* outcome needs a figure BELOW lo) - the check classifies by these two.   *)
(* A reload that changes the selector of a rule (position / attachment     *)
(* key) keeps the counters; an entry in flight keeps the value it was      *)
(* admitted with and releases that unit (Reload with sel of the design     *)
(* spec).  `resel' remembers the resources on which an entry has exited    *)
(* whose arguments, read with the rule in force at its exit, no longer     *)
(* give the value it was admitted with; a mismatch reports it.             *)
(* Other slots that fail (Points of HotParamConc).  With "chain" in the    *)
(* "new" event the entries go through a chain of their own (api.            *)
(* WithSlotChain): the default slots, or only the hot-parameter slots, plus *)
(* three user slots - a rule-check slot in front of every check, a         *)
(* statistic slot in front of and one behind the hot-parameter statistic   *)
(* slot; "pp" of a request says which of them panics while it is served    *)
(* (chk / sb / sa when told "passed"; cb / ca when told "completed").      *)
(* Judged as in the design spec:                                           *)
(*   panic      never reaches the caller of api.Entry or Exit               *)
(*   decision   pp = chk: admitted (fail-open, the check never ran); else   *)
(*              the usual decision - the request is admitted iff the check  *)
(*              admits it, whoever panics afterwards                        *)
(* and an admitted entry is COUNTED unless pp is chk or sb (the             *)
(* hot-parameter statistic slot was never told): every figure (lo, hi,      *)
(* cap) ranges over the live entries that were counted; a counted entry     *)
(* holds its unit until its exit and releases it then, whatever panics at   *)
(* the exit.  `cbx' remembers the resources on which a counted entry whose  *)
(* completion panics in an EARLIER slot (cb) has exited; a mismatch reports *)
(* it together with `under' (the outcome needs a figure ABOVE hi).          *)
(* The abstract state follows the OBSERVED outcome, so it stays in step    *)
(* with the real code after a reported mismatch.  Many traces are          *)
(* concatenated; "new" starts one; the first mismatch of a trace is        *)
(* printed and the rest of that trace skipped.                             *)
(***************************************************************************)
EXTENDS HotParamArgs, FiniteSets, TLC, Json

Trace == ndJsonDeserialize("trace.ndjson")

VARIABLES
    l,        \* next line
    live,     \* id -> [res, v, args] of the live entries
    seen,     \* <<res, v>> pairs requested so far in this trace
    g,        \* [tr, rules] of the running trace
    pend,     \* id -> [res, v, args, lo, hi, thr, lim, first] of the callers parked between check and record
    peak,     \* largest number of callers inside the admission path at the same time so far in this trace
    rv,       \* [ver, base]: resource name -> rule version in force / version with which the counters in use started (absent: 0)
    stale,    \* resources on which an entry admitted before the counters in use started has exited since
    resel,    \* resources on which an entry has exited that the rule in force then read as another value than it was admitted with
    cbx,      \* resources on which a counted entry has exited while a statistic slot in front of the hot-parameter one panicked (cb)
    failed

tvars == <<l, live, seen, g, pend, peak, rv, stale, resel, cbx, failed>>
Ev == Trace[l]
Has(r, f) == f \in DOMAIN r

Ruled(res)  == res \in DOMAIN g.rules
RuleOf(res) == g.rules[res]
VOf(e) == IF Ruled(e.res) THEN Sel(e.args, e.atts, RuleOf(e.res).idx, RuleOf(e.res).key) ELSE None
Thr(res, v) == ThrOf(RuleOf(res).items, RuleOf(res).thr, v)
Get(f, k) == IF k \in DOMAIN f THEN f[k] ELSE 0
Ver(res)  == Get(rv.ver, res)
Base(res) == Get(rv.base, res)
Limited(res, v) == v # None /\ Ruled(res)
\* hi: all live entries for the value; lo: those admitted since the counters in use started (LiveFor / LiveSince of HotParamConc)
\* (only the live entries that were COUNTED: lv[id].c)
Count(lv, res, v)      == Cardinality({ id \in DOMAIN lv : lv[id].res = res /\ lv[id].v = v /\ lv[id].c })
CountSince(lv, res, v) == Cardinality({ id \in DOMAIN lv : lv[id].res = res /\ lv[id].v = v /\ lv[id].c /\ lv[id].ver >= Base(res) })
CountCur(lv, res, v)   == Cardinality({ id \in DOMAIN lv : lv[id].res = res /\ lv[id].v = v /\ lv[id].c /\ lv[id].ver = Ver(res) })
\* the point at which a user slot panics while the request of this event is served
PP(e) == IF Has(e, "pp") THEN e.pp ELSE "none"
Max(a, b) == IF a > b THEN a ELSE b
\* the admission predicate of HotParamConc over a figure n
AdmitF(thr, n) == n < thr
\* is the outcome ok the decision of the admission predicate on SOME figure in lo..hi ?
DecOK(ok, lo, hi, thr) == \E n \in lo..hi : ok = AdmitF(thr, n)
\* ... and does a rejection report f + 1 for a figure f in lo..hi that refuses ?
TvOK(ok, tv, lo, hi, thr) == ok \/ \E n \in lo..hi : ~AdmitF(thr, n) /\ tv = n + 1
\* ... and if not: does the outcome need a figure BELOW lo (more room than the entries admitted since the reload leave) ?
DecOver(ok, tv, lo, thr) == IF ok THEN ~AdmitF(thr, lo) ELSE tv < Max(lo, thr) + 1
\* ... or a figure ABOVE hi (a unit is held that no live counted entry occupies) ?
DecUnder(ok, tv, hi, thr) == ~ok /\ (AdmitF(thr, hi) \/ tv > hi + 1)

\* what every live entry must read back: the arguments it was opened with
LiveArgsOK(obs, lv) ==
    /\ Len(obs) = Cardinality(DOMAIN lv)
    /\ \A i \in DOMAIN obs : obs[i].id \in DOMAIN lv /\ obs[i].args = lv[obs[i].id].args
ExpLive(lv) == [id \in DOMAIN lv |-> lv[id].args]
\* Capped of HotParamConc: at most thr + (k - 1) live entries for a value admitted under the rule in force, k = callers that overlapped
CapOK(lv, res, v, k) == v = None \/ ~Ruled(res) \/ CountCur(lv, res, v) <= Thr(res, v) + Max(k - 1, 0)

Judge(ok, expected) ==
    IF failed \/ ok THEN failed' = failed
    ELSE /\ failed' = TRUE
         /\ PrintT("MISMATCH " \o ToString(g.tr) \o " " \o ToString(l) \o " " \o ToJson(expected))

IsEvent(op) == l <= Len(Trace) /\ Ev.op = op /\ l' = l + 1

TNew ==
    /\ IsEvent("new")
    /\ live' = << >>
    /\ seen' = {}
    /\ g' = [tr |-> Ev.tr, rules |-> Ev.rules]
    /\ pend' = << >>
    /\ peak' = 0
    /\ rv' = [ver |-> << >>, base |-> << >>]
    /\ stale' = {}
    /\ resel' = {}
    /\ cbx' = {}
    /\ failed' = FALSE

TReq ==
    /\ IsEvent("req")
    /\ LET v     == VOf(Ev)
           lim   == Limited(Ev.res, v)
           hi    == IF lim THEN Count(live, Ev.res, v) ELSE 0
           lo    == IF lim THEN CountSince(live, Ev.res, v) ELSE 0
           thr   == IF lim THEN Thr(Ev.res, v) ELSE -1
           pp    == PP(Ev)
           live2 == IF Ev.ok THEN live @@ (Ev.id :> [res |-> Ev.res, v |-> v, args |-> Ev.args, atts |-> Ev.atts, ver |-> Ver(Ev.res),
                                                     c |-> (lim /\ pp \notin {"chk", "sb"}), pp |-> pp]) ELSE live
           pk    == Max(peak, Cardinality(DOMAIN pend) + 1)
           why   == IF Has(Ev, "panic") /\ Ev.panic THEN "panic"
                    ELSE IF (~lim \/ pp = "chk") /\ ~Ev.ok THEN "decision"
                    ELSE IF lim /\ pp # "chk" /\ ~DecOK(Ev.ok, lo, hi, thr) THEN "decision"
                    ELSE IF lim /\ pp # "chk" /\ ~TvOK(Ev.ok, Ev.tv, lo, hi, thr) THEN "tv"
                    ELSE IF ~CapOK(live2, Ev.res, v, pk) THEN "cap"
                    ELSE IF ~LiveArgsOK(Ev.live, live2) THEN "live-args"
                    ELSE "ok"
       IN  /\ live' = live2
           /\ peak' = pk
           /\ seen' = seen \cup {<<Ev.res, v>>}
           /\ Judge(why = "ok",
                    [why |-> why, admit |-> ~Ev.ok, inflight |-> hi, since |-> lo, v |-> v, thr |-> thr,
                     first |-> (<<Ev.res, v>> \notin seen), tv |-> hi + 1, live |-> ExpLive(live2),
                     res |-> Ev.res, stale |-> (Ev.res \in stale), resel |-> (Ev.res \in resel), over |-> (lim /\ DecOver(Ev.ok, Ev.tv, lo, thr)),
                     pp |-> pp, cbx |-> (Ev.res \in cbx), under |-> (lim /\ DecUnder(Ev.ok, Ev.tv, hi, thr))])
    /\ UNCHANGED <<g, pend, rv, stale, resel, cbx>>

\* Check of HotParamConc: a caller has taken its decision and is parked before the statistic slot.  The decision
\* the property demands is fixed HERE, from the entries live now; it is compared with the outcome at "rec".
TChk ==
    /\ IsEvent("chk")
    /\ LET v   == VOf(Ev)
           lim == Limited(Ev.res, v)
       IN  /\ pend' = pend @@ (Ev.id :> [res |-> Ev.res, v |-> v, args |-> Ev.args, atts |-> Ev.atts, lim |-> lim, pp |-> PP(Ev),
                                         hi |-> IF lim THEN Count(live, Ev.res, v) ELSE 0,
                                         lo |-> IF lim THEN CountSince(live, Ev.res, v) ELSE 0,
                                         thr |-> IF lim THEN Thr(Ev.res, v) ELSE -1,
                                         first |-> (<<Ev.res, v>> \notin seen)])
           /\ seen' = seen \cup {<<Ev.res, v>>}
           /\ peak' = Max(peak, Cardinality(DOMAIN pend) + 1)
           \* a parked caller is not a live entry yet, and it leaves the live entries alone
           /\ Judge(Ev.id \notin DOMAIN pend /\ Ev.id \notin DOMAIN live /\ LiveArgsOK(Ev.live, live),
                    [why |-> IF Ev.id \in DOMAIN pend \cup DOMAIN live THEN "chk-of-known-entry" ELSE "live-args",
                     live |-> ExpLive(live)])
    /\ UNCHANGED <<live, g, rv, stale, resel, cbx>>

\* Record of HotParamConc: the parked caller went through the statistic slot and api.Entry returned
TRec ==
    /\ IsEvent("rec")
    /\ IF Ev.id \notin DOMAIN pend
         THEN /\ Judge(FALSE, [why |-> "rec-of-unknown-caller"])
              /\ UNCHANGED <<live, pend>>
         ELSE LET p     == pend[Ev.id]
                  live2 == IF Ev.ok THEN live @@ (Ev.id :> [res |-> p.res, v |-> p.v, args |-> p.args, atts |-> p.atts, ver |-> Ver(p.res),
                                                            c |-> (p.lim /\ p.pp # "sb"), pp |-> p.pp]) ELSE live
                  why   == IF Has(Ev, "panic") /\ Ev.panic THEN "panic"
                           ELSE IF ~p.lim /\ ~Ev.ok THEN "decision"
                           ELSE IF p.lim /\ ~DecOK(Ev.ok, p.lo, p.hi, p.thr) THEN "decision"
                           ELSE IF p.lim /\ ~TvOK(Ev.ok, Ev.tv, p.lo, p.hi, p.thr) THEN "tv"
                           ELSE IF ~CapOK(live2, p.res, p.v, peak) THEN "cap"
                           ELSE IF ~LiveArgsOK(Ev.live, live2) THEN "live-args"
                           ELSE "ok"
              IN  /\ live' = live2
                  /\ pend' = [i \in DOMAIN pend \ {Ev.id} |-> pend[i]]
                  /\ Judge(why = "ok",
                           [why |-> why, admit |-> ~Ev.ok, inflight |-> p.hi, since |-> p.lo, v |-> p.v, thr |-> p.thr,
                            first |-> p.first, tv |-> p.hi + 1, live |-> ExpLive(live2),
                            cap |-> IF ~p.lim \/ ~Ruled(p.res) THEN -1 ELSE Thr(p.res, p.v) + Max(peak - 1, 0),
                            res |-> p.res, stale |-> (p.res \in stale), resel |-> (p.res \in resel), over |-> (p.lim /\ DecOver(Ev.ok, Ev.tv, p.lo, p.thr)),
                            pp |-> p.pp, cbx |-> (p.res \in cbx), under |-> (p.lim /\ DecUnder(Ev.ok, Ev.tv, p.hi, p.thr))])
    /\ UNCHANGED <<seen, g, peak, rv, stale, resel, cbx>>

TExit ==
    /\ IsEvent("exit")
    /\ live' = [i \in DOMAIN live \ {Ev.id} |-> live[i]]
    \* an entry admitted before the counters in use started leaves: from now on the figure of its resource is at stake
    /\ stale' = IF Ev.id \in DOMAIN live /\ live[Ev.id].ver < Base(live[Ev.id].res) THEN stale \cup {live[Ev.id].res} ELSE stale
    \* ... or one whose arguments the rule in force reads as another value than the one it occupies a unit of
    /\ resel' = IF Ev.id \in DOMAIN live /\ VOf(live[Ev.id]) # live[Ev.id].v THEN resel \cup {live[Ev.id].res} ELSE resel
    /\ cbx' = IF Ev.id \in DOMAIN live /\ live[Ev.id].c /\ live[Ev.id].pp = "cb" THEN cbx \cup {live[Ev.id].res} ELSE cbx
    /\ Judge(Ev.id \in DOMAIN live /\ ~(Has(Ev, "panic") /\ Ev.panic) /\ LiveArgsOK(Ev.live, live'),
             [why |-> IF Ev.id \notin DOMAIN live THEN "exit-of-unknown-entry" ELSE IF Has(Ev, "panic") /\ Ev.panic THEN "panic" ELSE "live-args",
              live |-> ExpLive(live')])
    /\ UNCHANGED <<seen, g, pend, peak, rv>>

\* how many further entries for (res, args) are admitted now; they are exited again by the driver
TProbe ==
    /\ IsEvent("probe")
    /\ LET v    == VOf(Ev)
           hi   == Count(live, Ev.res, v)
           lo   == CountSince(live, Ev.res, v)
           thr  == Thr(Ev.res, v)
           \* the figure f at the start of the probe lies in lo..hi; Ev.n entries were admitted one after the other (f, f+1, ...
           \* all below thr), then one was refused (f + Ev.n >= thr) and reported f + Ev.n + 1
           nOK(f)  == (Ev.n = 0 \/ f + Ev.n - 1 < thr) /\ f + Ev.n >= thr
           nmin == IF thr > hi THEN thr - hi ELSE 0
           nmax == IF thr > lo THEN thr - lo ELSE 0
           why  == IF ~\E f \in lo..hi : nOK(f) THEN "probe"
                   ELSE IF ~\E f \in lo..hi : nOK(f) /\ Ev.tv = f + Ev.n + 1 THEN "probe-tv"
                   ELSE IF ~LiveArgsOK(Ev.live, live) THEN "live-args" ELSE "ok"
       IN  /\ v # None /\ Ruled(Ev.res)
           /\ Judge(why = "ok", [why |-> why, n |-> nmin, nmax |-> nmax, tv |-> nmin + hi + 1, v |-> v, inflight |-> hi, since |-> lo,
                                 live |-> ExpLive(live), res |-> Ev.res, stale |-> (Ev.res \in stale), resel |-> (Ev.res \in resel),
                                 over |-> (Ev.n > nmax \/ (Ev.n = nmax /\ Ev.tv < Max(lo, thr) + 1)),
                                 cbx |-> (Ev.res \in cbx), under |-> (Ev.n < nmin \/ (Ev.n = nmin /\ Ev.tv > nmin + hi + 1))])
    /\ seen' = seen \cup {<<Ev.res, VOf(Ev)>>}
    /\ UNCHANGED <<live, g, pend, peak, rv, stale, resel, cbx>>

\* many goroutines opened and exited entries concurrently; all of them have exited (quiescence).
\* Nothing is judged here: the probes that follow judge conservation.
TStress ==
    /\ IsEvent("stress")
    /\ seen' = seen \cup { <<Ev.used[i][1], Ev.used[i][2]>> : i \in DOMAIN Ev.used }
    /\ Judge(live = << >> /\ pend = << >>, [why |-> "stress-with-live-entries"])
    /\ UNCHANGED <<live, g, pend, peak, rv, stale, resel, cbx>>

\* Lookup / Create / Record (/ Exit) of G callers of one value, free-running: see the header.  out[i] = [id, ok, tv]
AdmitN(res, v, n) == v = None \/ ~Ruled(res) \/ AdmitF(Thr(res, v), n)
TBurst ==
    /\ IsEvent("burst")
    /\ LET v     == VOf(Ev)
           lim   == v # None /\ Ruled(Ev.res)
           n0    == IF lim THEN CountSince(live, Ev.res, v) ELSE 0      \* (lo; = hi0 unless a reload brought fresh counters)
           hi0   == IF lim THEN Count(live, Ev.res, v) ELSE 0
           G     == Len(Ev.out)
           adm   == { i \in 1..G : Ev.out[i].ok }
           a     == Cardinality(adm)
           ids   == { Ev.out[i].id : i \in 1..G }
           \* the decision of caller i is the admission predicate over some number of live entries it can have met
           okI(i) == \E n \in n0..(hi0 + a - (IF i \in adm THEN 1 ELSE 0)) :
                        /\ Ev.out[i].ok = AdmitN(Ev.res, v, n)
                        /\ (~Ev.out[i].ok => Ev.out[i].tv = n + 1)
           live2 == IF Ev.hold THEN live @@ [id \in { Ev.out[i].id : i \in adm } |->
                                                [res |-> Ev.res, v |-> v, args |-> Ev.args, atts |-> Ev.atts, ver |-> Ver(Ev.res), c |-> lim, pp |-> "none"]] ELSE live
           pk    == Max(peak, Cardinality(DOMAIN pend) + G)
           thr   == IF lim THEN Thr(Ev.res, v) ELSE -1
           why   == IF Cardinality(ids) # G \/ ids \cap (DOMAIN live \cup DOMAIN pend) # {} THEN "burst-of-known-entry"
                    ELSE IF \E i \in 1..G : Has(Ev.out[i], "panic") /\ Ev.out[i].panic THEN "panic"
                    ELSE IF \E i \in 1..G : ~okI(i) THEN "burst"
                    ELSE IF ~CapOK(live2, Ev.res, v, pk) THEN "cap"
                    ELSE IF ~LiveArgsOK(Ev.live, live2) THEN "live-args"
                    ELSE "ok"
       IN  /\ live' = live2
           /\ peak' = pk
           /\ seen' = seen \cup {<<Ev.res, v>>}
           /\ Judge(why = "ok",
                    [why |-> why, v |-> v, thr |-> thr, inflight |-> hi0, since |-> n0, g |-> G, admitted |-> a,
                     res |-> Ev.res, stale |-> (Ev.res \in stale), resel |-> (Ev.res \in resel), over |-> FALSE,
                     \* the number of admitted callers the design allows
                     lo |-> IF ~lim THEN G ELSE IF thr - n0 <= 0 THEN 0 ELSE IF thr - n0 < G THEN thr - n0 ELSE G,
                     hi |-> IF ~lim \/ n0 < thr THEN G ELSE 0,
                     first |-> (<<Ev.res, v>> \notin seen), cap |-> IF lim THEN thr + Max(pk - 1, 0) ELSE -1,
                     live |-> ExpLive(live2)])
    /\ UNCHANGED <<g, pend, rv, stale, resel, cbx>>

\* Reload of HotParamConc: the rule table was replaced (Ev.rules = the table now in force, Ev.via = "load" | "res" | "clear").
\* Per resource: the rule version is bumped when its rule changed (or was cleared and loaded again); the counters in use start
\* anew (base = the new version) when the rule was cleared, the resource had no rule, or its capacity changed - else they are kept.
TReload ==
    /\ IsEvent("reload")
    /\ LET old == g.rules
           new == Ev.rules
           all == DOMAIN old \cup DOMAIN new \cup DOMAIN rv.ver
           changed(r) == Ev.via = "clear" \/ (r \in DOMAIN old) # (r \in DOMAIN new) \/ (r \in DOMAIN old /\ r \in DOMAIN new /\ old[r] # new[r])
           fresh(r)   == r \in DOMAIN new /\ (Ev.via = "clear" \/ r \notin DOMAIN old \/ old[r].cap # new[r].cap)
           ver2 == [r \in all |-> IF changed(r) THEN Ver(r) + 1 ELSE Ver(r)]
       IN  /\ g' = [g EXCEPT !.rules = new]
           /\ rv' = [ver |-> ver2, base |-> [r \in all |-> IF fresh(r) THEN ver2[r] ELSE Base(r)]]
           /\ stale' = { r \in stale : ~fresh(r) }
           /\ resel' = { r \in resel : ~fresh(r) }
           /\ cbx' = { r \in cbx : ~fresh(r) }
           /\ Judge(Ev.n = Cardinality(DOMAIN new) /\ LiveArgsOK(Ev.live, live),
                    [why |-> IF Ev.n # Cardinality(DOMAIN new) THEN "reload-rules-not-in-force" ELSE "live-args", live |-> ExpLive(live)])
    /\ UNCHANGED <<live, seen, pend, peak>>

TInit == /\ l = 1 /\ live = << >> /\ seen = {} /\ g = [tr |-> 0, rules |-> << >>] /\ pend = << >> /\ peak = 0
         /\ rv = [ver |-> << >>, base |-> << >>] /\ stale = {} /\ resel = {} /\ cbx = {} /\ failed = FALSE
TNext == TNew \/ TReq \/ TChk \/ TRec \/ TExit \/ TProbe \/ TStress \/ TBurst \/ TReload
TSpec == TInit /\ [][TNext]_tvars
=============================================================================
