-------------------------- MODULE HotParamConc_Trace --------------------------
(***************************************************************************)
(* Validation of executions of the real hot-parameter concurrency code     *)
(* against the property-level part of HotParamConc (C06).                  *)
(*                                                                         *)
(* The driver (harness/cmd/c06) opens and exits entries through api.Entry  *)
(* and records, per operation: the decision, the TriggeredValue of a       *)
(* rejection, and what Input.Args of EVERY live entry reads right after    *)
(* the operation.  "probe" counts how many further entries for a value are *)
(* admitted right now (after a drain: the post-drain admission count).     *)
(*                                                                         *)
(* Judged, with the same operators as the design spec (Sel, ThrOf, the     *)
(* admission predicate over the set of live entries):                      *)
(*   decision   admitted <=> |live entries for (res, v)| < thr(res, v)     *)
(*   tv         a rejection reports |live entries| + 1                     *)
(*   live-args  every live entry still reads the arguments it was opened   *)
(*              with (the entry remembers its value)                       *)
(*   probe      exactly max(0, thr - |live|) further entries are admitted  *)
(* Concurrent admission (HotParamConc with K >= 1): "chk" = a caller was    *)
(* started on its own goroutine and is parked between the rule check and   *)
(* the statistic slot (yield point chain.checked); "rec" = it was released *)
(* and api.Entry returned.  Other operations (req, exit, probe, further    *)
(* chk / rec) happen in between.  As in Check / Record of the design spec: *)
(*   decision   the outcome reported at "rec" is the admission predicate   *)
(*              over the entries that were live AT THE CHECK               *)
(*   tv         a rejection reports |live at the check| + 1                *)
(*   cap        live entries of a value never exceed thr + (k - 1), k =    *)
(*              the largest number of callers that were inside the         *)
(*              admission path at the same time in this trace              *)
(* and an entry counts as live from its "rec" until its exit, whatever     *)
(* happened between its check and its record: every later decision and     *)
(* every probe (exactly thr - live further entries are admitted) is judged *)
(* against that set.                                                       *)
(* First use (HotParamConc with Fresh = TRUE: Lookup / Create / Record of  *)
(* up to K callers interleave freely).  There is no yield point inside the *)
(* cache, so these executions are FREE-RUNNING: "burst" = G goroutines     *)
(* issued one request each for the same (usually never-seen) value at the  *)
(* same instant (spin barrier, real parallelism) and all of them have      *)
(* returned; with hold = FALSE every goroutine also exited its own entry.  *)
(* The interleaving is unknown, so the outcomes are judged by the RELATION *)
(* the design allows (the existential is inside the judgement): every      *)
(* caller took its decision by the admission predicate over the entries    *)
(* live at ITS check - the n0 entries live before the burst plus some of   *)
(* the other callers admitted in the burst:                                *)
(*   burst      for every caller there is a number L, n0 <= L <= n0 + (the *)
(*              OTHER callers admitted in this burst), with                *)
(*              admitted <=> L < thr, and a rejection reports L + 1        *)
(*   cap        as above with k = G                                        *)
(* The deterministic part is what follows at quiescence: the entries that  *)
(* were admitted and held are live, each for exactly one unit (OneObject / *)
(* CounterOK of the design: no unit is recorded on a counter object that   *)
(* is replaced afterwards), so every later "probe" admits exactly          *)
(* thr - live further entries - after all have exited: exactly thr.        *)
(* The abstract state follows the OBSERVED outcome, so it stays in step    *)
(* with the real code after a reported mismatch.  Many traces are          *)
(* concatenated; "new" starts one; the first mismatch of a trace is        *)
(* printed and the rest of that trace skipped.                             *)
(***************************************************************************)
EXTENDS HotParamArgs, FiniteSets, TLC, Json

Trace == ndJsonDeserialize("trace.ndjson")

VARIABLES
    l,        \* next line
    live,     \* id -> [res, v, args] of the live entries
    seen,     \* <<res, v>> pairs requested so far in this trace
    g,        \* [tr, rules] of the running trace
    pend,     \* id -> [res, v, args, adm, n, first] of the callers parked between check and record
    peak,     \* largest number of callers inside the admission path at the same time so far in this trace
    failed

tvars == <<l, live, seen, g, pend, peak, failed>>
Ev == Trace[l]
Has(r, f) == f \in DOMAIN r

Ruled(res)  == res \in DOMAIN g.rules
RuleOf(res) == g.rules[res]
VOf(e) == IF Ruled(e.res) THEN Sel(e.args, e.atts, RuleOf(e.res).idx, RuleOf(e.res).key) ELSE None
Thr(res, v) == ThrOf(RuleOf(res).items, RuleOf(res).thr, v)
Count(lv, res, v) == Cardinality({ id \in DOMAIN lv : lv[id].res = res /\ lv[id].v = v })
\* the admission predicate of HotParamConc over the set of live entries
Admit(lv, res, v) == v = None \/ ~Ruled(res) \/ Count(lv, res, v) < Thr(res, v)

\* what every live entry must read back: the arguments it was opened with
LiveArgsOK(obs, lv) ==
    /\ Len(obs) = Cardinality(DOMAIN lv)
    /\ \A i \in DOMAIN obs : obs[i].id \in DOMAIN lv /\ obs[i].args = lv[obs[i].id].args
ExpLive(lv) == [id \in DOMAIN lv |-> lv[id].args]
\* Capped of HotParamConc: at most thr + (k - 1) live entries for a value, k = callers that overlapped
Max(a, b) == IF a > b THEN a ELSE b
CapOK(lv, res, v, k) == v = None \/ ~Ruled(res) \/ Count(lv, res, v) <= Thr(res, v) + Max(k - 1, 0)

Judge(ok, expected) ==
    IF failed \/ ok THEN failed' = failed
    ELSE /\ failed' = TRUE
         /\ PrintT("MISMATCH " \o ToString(g.tr) \o " " \o ToString(l) \o " " \o ToJson(expected))

IsEvent(op) == l <= Len(Trace) /\ Ev.op = op /\ l' = l + 1

TNew ==
    /\ IsEvent("new")
    /\ live' = << >>
    /\ seen' = {}
    /\ g' = [tr |-> Ev.tr, rules |-> Ev.rules]
    /\ pend' = << >>
    /\ peak' = 0
    /\ failed' = FALSE

TReq ==
    /\ IsEvent("req")
    /\ LET v     == VOf(Ev)
           n     == IF v = None \/ ~Ruled(Ev.res) THEN 0 ELSE Count(live, Ev.res, v)
           adm   == Admit(live, Ev.res, v)
           live2 == IF Ev.ok THEN live @@ (Ev.id :> [res |-> Ev.res, v |-> v, args |-> Ev.args]) ELSE live
           pk    == Max(peak, Cardinality(DOMAIN pend) + 1)
           why   == IF Has(Ev, "panic") /\ Ev.panic THEN "panic"
                    ELSE IF Ev.ok # adm THEN "decision"
                    ELSE IF ~Ev.ok /\ Ev.tv # n + 1 THEN "tv"
                    ELSE IF ~CapOK(live2, Ev.res, v, pk) THEN "cap"
                    ELSE IF ~LiveArgsOK(Ev.live, live2) THEN "live-args"
                    ELSE "ok"
       IN  /\ live' = live2
           /\ peak' = pk
           /\ seen' = seen \cup {<<Ev.res, v>>}
           /\ Judge(why = "ok",
                    [why |-> why, admit |-> adm, inflight |-> n, v |-> v,
                     thr |-> IF v = None \/ ~Ruled(Ev.res) THEN -1 ELSE Thr(Ev.res, v),
                     first |-> (<<Ev.res, v>> \notin seen), tv |-> n + 1, live |-> ExpLive(live2)])
    /\ UNCHANGED <<g, pend>>

\* Check of HotParamConc: a caller has taken its decision and is parked before the statistic slot.  The decision
\* the property demands is fixed HERE, from the entries live now; it is compared with the outcome at "rec".
TChk ==
    /\ IsEvent("chk")
    /\ LET v == VOf(Ev)
           n == IF v = None \/ ~Ruled(Ev.res) THEN 0 ELSE Count(live, Ev.res, v)
       IN  /\ pend' = pend @@ (Ev.id :> [res |-> Ev.res, v |-> v, args |-> Ev.args, adm |-> Admit(live, Ev.res, v), n |-> n,
                                         first |-> (<<Ev.res, v>> \notin seen)])
           /\ seen' = seen \cup {<<Ev.res, v>>}
           /\ peak' = Max(peak, Cardinality(DOMAIN pend) + 1)
           \* a parked caller is not a live entry yet, and it leaves the live entries alone
           /\ Judge(Ev.id \notin DOMAIN pend /\ Ev.id \notin DOMAIN live /\ LiveArgsOK(Ev.live, live),
                    [why |-> IF Ev.id \in DOMAIN pend \cup DOMAIN live THEN "chk-of-known-entry" ELSE "live-args",
                     live |-> ExpLive(live)])
    /\ UNCHANGED <<live, g>>

\* Record of HotParamConc: the parked caller went through the statistic slot and api.Entry returned
TRec ==
    /\ IsEvent("rec")
    /\ IF Ev.id \notin DOMAIN pend
         THEN /\ Judge(FALSE, [why |-> "rec-of-unknown-caller"])
              /\ UNCHANGED <<live, pend>>
         ELSE LET p     == pend[Ev.id]
                  live2 == IF Ev.ok THEN live @@ (Ev.id :> [res |-> p.res, v |-> p.v, args |-> p.args]) ELSE live
                  why   == IF Has(Ev, "panic") /\ Ev.panic THEN "panic"
                           ELSE IF Ev.ok # p.adm THEN "decision"
                           ELSE IF ~Ev.ok /\ Ev.tv # p.n + 1 THEN "tv"
                           ELSE IF ~CapOK(live2, p.res, p.v, peak) THEN "cap"
                           ELSE IF ~LiveArgsOK(Ev.live, live2) THEN "live-args"
                           ELSE "ok"
              IN  /\ live' = live2
                  /\ pend' = [i \in DOMAIN pend \ {Ev.id} |-> pend[i]]
                  /\ Judge(why = "ok",
                           [why |-> why, admit |-> p.adm, inflight |-> p.n, v |-> p.v,
                            thr |-> IF p.v = None \/ ~Ruled(p.res) THEN -1 ELSE Thr(p.res, p.v),
                            first |-> p.first, tv |-> p.n + 1, live |-> ExpLive(live2),
                            cap |-> IF p.v = None \/ ~Ruled(p.res) THEN -1 ELSE Thr(p.res, p.v) + Max(peak - 1, 0)])
    /\ UNCHANGED <<seen, g, peak>>

TExit ==
    /\ IsEvent("exit")
    /\ live' = [i \in DOMAIN live \ {Ev.id} |-> live[i]]
    /\ Judge(Ev.id \in DOMAIN live /\ LiveArgsOK(Ev.live, live'),
             [why |-> IF Ev.id \in DOMAIN live THEN "live-args" ELSE "exit-of-unknown-entry", live |-> ExpLive(live')])
    /\ UNCHANGED <<seen, g, pend, peak>>

\* how many further entries for (res, args) are admitted now; they are exited again by the driver
TProbe ==
    /\ IsEvent("probe")
    /\ LET v   == VOf(Ev)
           n   == Count(live, Ev.res, v)
           exp == IF Thr(Ev.res, v) > n THEN Thr(Ev.res, v) - n ELSE 0
           why == IF Ev.n # exp THEN "probe"
                  ELSE IF Ev.tv # Ev.n + n + 1 THEN "probe-tv"
                  ELSE IF ~LiveArgsOK(Ev.live, live) THEN "live-args" ELSE "ok"
       IN  /\ v # None /\ Ruled(Ev.res)
           /\ Judge(why = "ok", [why |-> why, n |-> exp, tv |-> exp + n + 1, v |-> v, inflight |-> n,
                                 live |-> ExpLive(live)])
    /\ seen' = seen \cup {<<Ev.res, VOf(Ev)>>}
    /\ UNCHANGED <<live, g, pend, peak>>

\* many goroutines opened and exited entries concurrently; all of them have exited (quiescence).
\* Nothing is judged here: the probes that follow judge conservation.
TStress ==
    /\ IsEvent("stress")
    /\ seen' = seen \cup { <<Ev.used[i][1], Ev.used[i][2]>> : i \in DOMAIN Ev.used }
    /\ Judge(live = << >> /\ pend = << >>, [why |-> "stress-with-live-entries"])
    /\ UNCHANGED <<live, g, pend, peak>>

\* Lookup / Create / Record (/ Exit) of G callers of one value, free-running: see the header.  out[i] = [id, ok, tv]
AdmitN(res, v, n) == v = None \/ ~Ruled(res) \/ n < Thr(res, v)
TBurst ==
    /\ IsEvent("burst")
    /\ LET v     == VOf(Ev)
           lim   == v # None /\ Ruled(Ev.res)
           n0    == IF lim THEN Count(live, Ev.res, v) ELSE 0
           G     == Len(Ev.out)
           adm   == { i \in 1..G : Ev.out[i].ok }
           a     == Cardinality(adm)
           ids   == { Ev.out[i].id : i \in 1..G }
           \* the decision of caller i is the admission predicate over some number of live entries it can have met
           okI(i) == \E n \in n0..(n0 + a - (IF i \in adm THEN 1 ELSE 0)) :
                        /\ Ev.out[i].ok = AdmitN(Ev.res, v, n)
                        /\ (~Ev.out[i].ok => Ev.out[i].tv = n + 1)
           live2 == IF Ev.hold THEN live @@ [id \in { Ev.out[i].id : i \in adm } |-> [res |-> Ev.res, v |-> v, args |-> Ev.args]] ELSE live
           pk    == Max(peak, Cardinality(DOMAIN pend) + G)
           thr   == IF lim THEN Thr(Ev.res, v) ELSE -1
           why   == IF Cardinality(ids) # G \/ ids \cap (DOMAIN live \cup DOMAIN pend) # {} THEN "burst-of-known-entry"
                    ELSE IF \E i \in 1..G : Has(Ev.out[i], "panic") /\ Ev.out[i].panic THEN "panic"
                    ELSE IF \E i \in 1..G : ~okI(i) THEN "burst"
                    ELSE IF ~CapOK(live2, Ev.res, v, pk) THEN "cap"
                    ELSE IF ~LiveArgsOK(Ev.live, live2) THEN "live-args"
                    ELSE "ok"
       IN  /\ live' = live2
           /\ peak' = pk
           /\ seen' = seen \cup {<<Ev.res, v>>}
           /\ Judge(why = "ok",
                    [why |-> why, v |-> v, thr |-> thr, inflight |-> n0, g |-> G, admitted |-> a,
                     \* the number of admitted callers the design allows
                     lo |-> IF ~lim THEN G ELSE IF thr - n0 <= 0 THEN 0 ELSE IF thr - n0 < G THEN thr - n0 ELSE G,
                     hi |-> IF ~lim \/ n0 < thr THEN G ELSE 0,
                     first |-> (<<Ev.res, v>> \notin seen), cap |-> IF lim THEN thr + Max(pk - 1, 0) ELSE -1,
                     live |-> ExpLive(live2)])
    /\ UNCHANGED <<g, pend>>

TInit == l = 1 /\ live = << >> /\ seen = {} /\ g = [tr |-> 0, rules |-> << >>] /\ pend = << >> /\ peak = 0 /\ failed = FALSE
TNext == TNew \/ TReq \/ TChk \/ TRec \/ TExit \/ TProbe \/ TStress \/ TBurst
TSpec == TInit /\ [][TNext]_tvars
=============================================================================
