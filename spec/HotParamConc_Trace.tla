-------------------------- MODULE HotParamConc_Trace --------------------------
(***************************************************************************)
(* Validation of executions of the real hot-parameter concurrency code     *)
(* against the property-level part of HotParamConc (C06).                  *)
(*                                                                         *)
(* The driver (harness/cmd/c06) opens and exits entries through api.Entry  *)
(* and records, per operation: the decision, the TriggeredValue of a       *)
(* rejection, and what Input.Args of EVERY live entry reads right after    *)
(* the operation.  "probe" counts how many further entries for a value are *)
(* admitted right now (after a drain: the post-drain admission count).     *)
(*                                                                         *)
(* Judged, with the same operators as the design spec (Sel, ThrOf, the     *)
(* admission predicate over the set of live entries):                      *)
(*   decision   admitted <=> |live entries for (res, v)| < thr(res, v)     *)
(*   tv         a rejection reports |live entries| + 1                     *)
(*   live-args  every live entry still reads the arguments it was opened   *)
(*              with (the entry remembers its value)                       *)
(*   probe      exactly max(0, thr - |live|) further entries are admitted  *)
(* The abstract state follows the OBSERVED outcome, so it stays in step    *)
(* with the real code after a reported mismatch.  Many traces are          *)
(* concatenated; "new" starts one; the first mismatch of a trace is        *)
(* printed and the rest of that trace skipped.                             *)
(***************************************************************************)
EXTENDS HotParamArgs, FiniteSets, TLC, Json

Trace == ndJsonDeserialize("trace.ndjson")

VARIABLES
    l,        \* next line
    live,     \* id -> [res, v, args] of the live entries
    seen,     \* <<res, v>> pairs requested so far in this trace
    g,        \* [tr, rules] of the running trace
    failed

tvars == <<l, live, seen, g, failed>>
Ev == Trace[l]
Has(r, f) == f \in DOMAIN r

Ruled(res)  == res \in DOMAIN g.rules
RuleOf(res) == g.rules[res]
VOf(e) == IF Ruled(e.res) THEN Sel(e.args, e.atts, RuleOf(e.res).idx, RuleOf(e.res).key) ELSE None
Thr(res, v) == ThrOf(RuleOf(res).items, RuleOf(res).thr, v)
Count(lv, res, v) == Cardinality({ id \in DOMAIN lv : lv[id].res = res /\ lv[id].v = v })
\* the admission predicate of HotParamConc over the set of live entries
Admit(lv, res, v) == v = None \/ ~Ruled(res) \/ Count(lv, res, v) < Thr(res, v)

\* what every live entry must read back: the arguments it was opened with
LiveArgsOK(obs, lv) ==
    /\ Len(obs) = Cardinality(DOMAIN lv)
    /\ \A i \in DOMAIN obs : obs[i].id \in DOMAIN lv /\ obs[i].args = lv[obs[i].id].args
ExpLive(lv) == [id \in DOMAIN lv |-> lv[id].args]

Judge(ok, expected) ==
    IF failed \/ ok THEN failed' = failed
    ELSE /\ failed' = TRUE
         /\ PrintT("MISMATCH " \o ToString(g.tr) \o " " \o ToString(l) \o " " \o ToJson(expected))

IsEvent(op) == l <= Len(Trace) /\ Ev.op = op /\ l' = l + 1

TNew ==
    /\ IsEvent("new")
    /\ live' = << >>
    /\ seen' = {}
    /\ g' = [tr |-> Ev.tr, rules |-> Ev.rules]
    /\ failed' = FALSE

TReq ==
    /\ IsEvent("req")
    /\ LET v     == VOf(Ev)
           n     == IF v = None \/ ~Ruled(Ev.res) THEN 0 ELSE Count(live, Ev.res, v)
           adm   == Admit(live, Ev.res, v)
           live2 == IF Ev.ok THEN live @@ (Ev.id :> [res |-> Ev.res, v |-> v, args |-> Ev.args]) ELSE live
           why   == IF Has(Ev, "panic") /\ Ev.panic THEN "panic"
                    ELSE IF Ev.ok # adm THEN "decision"
                    ELSE IF ~Ev.ok /\ Ev.tv # n + 1 THEN "tv"
                    ELSE IF ~LiveArgsOK(Ev.live, live2) THEN "live-args"
                    ELSE "ok"
       IN  /\ live' = live2
           /\ seen' = seen \cup {<<Ev.res, v>>}
           /\ Judge(why = "ok",
                    [why |-> why, admit |-> adm, inflight |-> n, v |-> v,
                     thr |-> IF v = None \/ ~Ruled(Ev.res) THEN -1 ELSE Thr(Ev.res, v),
                     first |-> (<<Ev.res, v>> \notin seen), tv |-> n + 1, live |-> ExpLive(live2)])
    /\ UNCHANGED g

TExit ==
    /\ IsEvent("exit")
    /\ live' = [i \in DOMAIN live \ {Ev.id} |-> live[i]]
    /\ Judge(Ev.id \in DOMAIN live /\ LiveArgsOK(Ev.live, live'),
             [why |-> IF Ev.id \in DOMAIN live THEN "live-args" ELSE "exit-of-unknown-entry", live |-> ExpLive(live')])
    /\ UNCHANGED <<seen, g>>

\* how many further entries for (res, args) are admitted now; they are exited again by the driver
TProbe ==
    /\ IsEvent("probe")
    /\ LET v   == VOf(Ev)
           n   == Count(live, Ev.res, v)
           exp == IF Thr(Ev.res, v) > n THEN Thr(Ev.res, v) - n ELSE 0
           why == IF Ev.n # exp THEN "probe"
                  ELSE IF Ev.tv # Ev.n + n + 1 THEN "probe-tv"
                  ELSE IF ~LiveArgsOK(Ev.live, live) THEN "live-args" ELSE "ok"
       IN  /\ v # None /\ Ruled(Ev.res)
           /\ Judge(why = "ok", [why |-> why, n |-> exp, tv |-> exp + n + 1, v |-> v, inflight |-> n,
                                 live |-> ExpLive(live)])
    /\ seen' = seen \cup {<<Ev.res, VOf(Ev)>>}
    /\ UNCHANGED <<live, g>>

\* many goroutines opened and exited entries concurrently; all of them have exited (quiescence).
\* Nothing is judged here: the probes that follow judge conservation.
TStress ==
    /\ IsEvent("stress")
    /\ seen' = seen \cup { <<Ev.used[i][1], Ev.used[i][2]>> : i \in DOMAIN Ev.used }
    /\ Judge(live = << >>, [why |-> "stress-with-live-entries"])
    /\ UNCHANGED <<live, g>>

TInit == l = 1 /\ live = << >> /\ seen = {} /\ g = [tr |-> 0, rules |-> << >>] /\ failed = FALSE
TNext == TNew \/ TReq \/ TExit \/ TProbe \/ TStress
TSpec == TInit /\ [][TNext]_tvars
=============================================================================
