SPECIFICATION MCSpec
CONSTANTS
  K = 3
  Classes <- MCClasses
  Limits <- MCLimits
  Mut = "none"
INVARIANTS TypeOK ContractHonoured GaugeExact GaugeReturns NoHandlerWhenBlocked HandlerOnce ExitOnce ErrorTraced FallbackProduced SystemProtects ClientNeverSystemBlocked BlockHasCause InboundExact
CHECK_DEADLOCK FALSE
