SPECIFICATION Spec
CONSTANTS
  K = 3
  Classes <- MCClasses
  Mut = "none"
INVARIANTS TypeOK ContractHonoured GaugeExact GaugeReturns NoHandlerWhenBlocked HandlerOnce ExitOnce ErrorTraced FallbackProduced
CHECK_DEADLOCK FALSE
