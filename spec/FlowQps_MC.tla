----------------------------- MODULE FlowQps_MC -----------------------------
(* Bounded instances of FlowQps.  Time unit: one tick = B-th part of the    *)
(* global bucket (B = 1: 500 ms ticks, B = 2: 250 ms ticks).                *)
EXTENDS FlowQps, Json

R(res, n, d, I, ref) == [res |-> res, T |-> <<n, d>>, I |-> I, ref |-> ref]
Thr == {<<0, 1>>, <<1, 2>>, <<1, 1>>, <<2, 1>>, <<5, 2>>, <<3, 1>>}

\* one rule on resource 1, its own statistic: every threshold x every kind of window
\* (B = 1: default, explicit default, reused 2000/2500 ms views, standalone 3 x 500 ms;
\*  B = 2: standalone single buckets of 250 and 750 ms, default)
MCSingle(Is) == { << R(1, T[1], T[2], I, 0) >> : T \in Thr, I \in Is }

\* two rules on resource 1 (different thresholds and windows), first failing rule must be reported
MCDouble(Is) == { << R(1, T1[1], T1[2], I1, 0), R(1, T2[1], T2[2], I2, 0) >> :
                    T1 \in {<<1, 1>>, <<5, 2>>}, T2 \in {<<2, 1>>, <<1, 2>>}, I1 \in Is, I2 \in Is }

\* associated rule: resource 1 is limited by the admitted tokens of resource 2 (with and without own rules)
MCAssoc(Is) == { << R(1, T[1], T[2], I, 2) >> : T \in {<<0, 1>>, <<1, 1>>, <<5, 2>>}, I \in Is }
          \cup { << R(1, 2, 1, I, 2), R(2, 3, 1, 0, 0), R(1, 3, 1, 0, 0) >> : I \in Is }

MCSingleB1 == MCSingle({0, 2, 3, 4, 5})     \* B = 1
MCSingleB2 == MCSingle({0, 1, 3, 6})        \* B = 2: 250 ms and 750 ms single buckets, default, 3 x 500 ms standalone
MCDoubleB1 == MCDouble({0, 3, 4})
MCAssocB1  == MCAssoc({0, 3, 4})
MCGenB1    == { << R(1, T[1], T[2], I, 0) >> : T \in {<<1, 2>>, <<2, 1>>, <<5, 2>>}, I \in {0, 3, 4} }
              \cup { << R(1, 2, 1, I, 2), R(1, 3, 1, 0, 0) >> : I \in {0, 3} }
              \cup { << R(1, 1, 1, 3, 0), R(1, 2, 1, 4, 0) >> }
MCGenB2    == { << R(1, T[1], T[2], I, 0) >> : T \in {<<0, 1>>, <<1, 1>>, <<5, 2>>}, I \in {1, 3} }

\* larger mix for random simulation: all kinds of windows, two rules, associated rules on both resources
MCSimB1    == MCGenB1 \cup MCDoubleB1 \cup MCAssocB1
              \cup { << R(1, 3, 1, 20, 0) >>, << R(1, 2, 1, 10, 0), R(2, 1, 1, 4, 1) >>, << R(1, 5, 2, 40, 0) >> }
MCStepsLong == {1, B, 2 * B - 1, 2 * B, 3 * B, GN * B - 1, GN * B, GN * B + 1, 2 * GN * B + 1}

MCSteps == {1, B, 2 * B - 1, 2 * B, 3 * B}
Emit == PrintT(ToJson(h'))
=============================================================================
