--------------------------- MODULE Refine_Breaker ---------------------------
(***************************************************************************)
(* REFINEMENT  BreakerConc (C12)  =>  Breaker (C03)                        *)
(* (growth item 2 of DESIGN section 4).                                    *)
(*                                                                         *)
(* BreakerConc: ONE breaker (error-count strategy) at the grain of its     *)
(* atomic accesses - TryPass = cb.get, cb.deadline.load, cb.cas;           *)
(* OnRequestComplete = counter add, cb.get, (cb.get), cb.deadline.store,   *)
(* cb.cas, cb.probe.*, cb.notify, resetMetric - NC clients and a clock.    *)
(* The order of the FIXED code is used (DlFirst = TRUE: the retry deadline *)
(* is stored before the swap to Open).  Breaker: one action per public     *)
(* call (Request / Complete / Tick) over <<now, br, inflight, listen>>.    *)
(* Breaker is instantiated with one resource "r1" carrying one error-count *)
(* rule [thr = Thr, minAmt = MinAmt, timeout = Timeout, probeNum =         *)
(* ProbeNum] whose statistic window is a single bucket that never rolls    *)
(* within MaxT (BreakerConc has plain counters).                           *)
(*                                                                         *)
(* MAPPING.                                                                *)
(*   br["r1"][1].st <- state   THE PHYSICAL STATE WORD: every transition   *)
(*                     of the abstract machine happens at the successful   *)
(*                     compare-and-swap, nowhere else;                     *)
(*   now <- now, rules <- the rule above;                                  *)
(*   the rest of the abstract state is carried by auxiliary (history)      *)
(*   variables that are updated AT THE LINEARIZATION POINTS from what the  *)
(*   concurrent step did - never by evaluating Breaker's own operators:    *)
(*     aRetry   retryAt:  now + Timeout at a swap to Open, 0 at a swap to  *)
(*              Closed (NOT the physical deadline word, which the fixed    *)
(*              code publishes before the swap),                           *)
(*     aProbes  probes, aTot / aBad  the window counters (ref), cleared at *)
(*              the swap to Closed (NOT the physical counters, which       *)
(*              resetMetric clears later),                                 *)
(*     aInfl    inflight (ids = smallest free id, as Breaker assigns them),*)
(*     aListen  listen: appended at the swap (the physical log is written  *)
(*              at cb.notify, in any order; ListenAgrees ties the two),    *)
(*     aLast, aH  Breaker's own history variables (hidden by the VIEW).    *)
(*   Linearization points:                                                 *)
(*     admitted request    cb.get that reads Closed (or HalfOpen with      *)
(*                         ProbeNum > 0) / the successful cb.cas O -> H;   *)
(*     rejected request    a STUTTERING step (it changes nothing in br /   *)
(*                         inflight / listen); that it is legal is checked *)
(*                         separately, see RejectJustified;                *)
(*     completion          the step that decides its fate: cb.get reading  *)
(*                         Open; cb.get reading Closed for a successful    *)
(*                         request or with the counters below the          *)
(*                         threshold; cb.probe.add that leaves the breaker *)
(*                         half-open; its own cb.cas, successful or not.   *)
(*                         A swap performed by a client whose completion   *)
(*                         is already linearized (a SUCCESSFUL request     *)
(*                         that saw another client's error in the counters *)
(*                         and opens the breaker) is the linearization     *)
(*                         point of a waiting FAILED completion (helping). *)
(*   The linearization points are fixed functions of the step (no prophecy *)
(*   variables); see "artefacts" below.                                    *)
(*                                                                         *)
(* WHAT IS ESTABLISHED.  For the restricted model RSpec (below):           *)
(*   RefInit          Abs!Init (when the model starts Closed; with         *)
(*                    InitOpen the initial state is "opened at t = 1",     *)
(*                    reachable in Breaker, and only the step simulation   *)
(*                    is claimed)                                          *)
(*   Refines          [][Abs!Next \/ UNCHANGED Abs!vars]_vars : every      *)
(*                    step is a Request / Complete / Straggler / Tick step *)
(*                    of Breaker on the mapped state, or stutters          *)
(*   RejectJustified  (ProbeNum = 0) every rejected TryPass is rejected by *)
(*                    the abstract breaker at SOME instant of the call, so *)
(*                    the rejection can be inserted there as a Request step*)
(*                    (it has no effect on br / inflight / listen)         *)
(*   RejectRaced      (ProbeNum > 0) ... or the call overlapped a swap or  *)
(*                    a deadline store of another goroutine: with probes   *)
(*                    allowed in HalfOpen the loser of the race Open ->    *)
(*                    HalfOpen is rejected although HalfOpen admits, and a *)
(*                    pre-published deadline is honoured while the state   *)
(*                    is still HalfOpen / Closed - spurious rejections,    *)
(*                    NOT behaviours of Breaker (RejectJustified is        *)
(*                    violated for ProbeNum > 0; REFINE.py requires that)  *)
(*   SeqInvs, ListenAgrees  Breaker's invariants on the mapped state; the  *)
(*                    physical listener log is a permutation of aListen at *)
(*                    quiescence.                                          *)
(*                                                                         *)
(* RESTRICTIONS.  The unrestricted concurrent model is NOT a refinement.   *)
(* Restrict (a constant) names the restrictions in force; RSpec disables   *)
(* the steps they exclude.  Each one is NECESSARY for this mapping: TLC    *)
(* finds a violation when it alone is dropped (REFINE.py runs that).       *)
(*   "stale"    ~earlyStale'   - known finding C12/aba-deadline-compared-  *)
(*              before-an-intervening-reopen: TryPass compares the         *)
(*              deadline, another goroutine probes, fails and re-opens,    *)
(*              the first swap Open -> HalfOpen still succeeds.   (real)   *)
(*   "stalled"  ~earlyStalled' - known finding C12/opener-stalled-...: the *)
(*              clock advances between the deadline store and the swap to  *)
(*              Open, a probe is admitted before openedAt + Timeout. (real)*)
(*   "pushed"   no deadline store while the breaker is already Open: a     *)
(*              completer that lost the race to open (it may even be a     *)
(*              SUCCESSFUL request that saw another's error) stores ITS    *)
(*              deadline, later than the winner's; requests are then       *)
(*              rejected after openedAt + Timeout, where Breaker must      *)
(*              admit the probe (violates RejectJustified).    (real, NEW) *)
(*   "alone"    a completion that has observed HalfOpen (probe result,     *)
(*              straggler) runs alone among completions until it returns.  *)
(*              Otherwise (a) a failed completion counted between the swap *)
(*              to Closed and resetMetric is wiped and never opens the     *)
(*              breaker, (b) a failed completion whose swap HalfOpen ->    *)
(*              Open loses against a concurrent close is dropped: the      *)
(*              breaker ends Closed where every sequential order ends      *)
(*              Open.                                           (real, NEW)*)
(*   "park"     no completer is parked inside OnRequestComplete for a      *)
(*              whole retry timeout.  Otherwise a completer that decided   *)
(*              on counters read in Closed re-reads HalfOpen one timeout   *)
(*              later and re-opens the breaker (even a successful one),    *)
(*              or its failed swap Closed -> Open is the last thing it     *)
(*              does while the breaker is HalfOpen.  (first: real, NEW;    *)
(*              second: an ARTEFACT of the fixed linearization point - the *)
(*              completion could be linearized right after the winner's    *)
(*              swap, which needs a prophecy variable)                     *)
(* NOT established: anything for Thr > 1 or MinAmt > 1 (counter add and    *)
(* threshold evaluation are separate accesses: the evaluation may see the  *)
(* adds of completions that are not linearized yet), several breakers per  *)
(* resource, the slow-ratio / error-ratio strategies, rolling windows.     *)
(*                                                                         *)
(* NON-VACUITY.  DlFirst = FALSE (the pinned order: swap, then store the   *)
(* deadline) violates Refines under ALL restrictions; so does dropping any *)
(* single restriction.  Refine_Breaker_Diag lists every class of failing   *)
(* step of the unrestricted model.                                         *)
(***************************************************************************)
EXTENDS BreakerConc_MC

CONSTANTS Restrict      \* set of names of the restrictions in force (see below)

VARIABLES aRetry, aProbes, aTot, aBad,      \* the abstract breaker besides its state word
          aInfl, aListen, aLast, aH,        \* abstract in-flight entries, listener log, last-step record, scenario
          aid,                              \* client -> abstract entry id (0: none)
          lin,                              \* client -> its completion has been linearized
          rj,                               \* client inside TryPass -> the abstract breaker would have rejected it at some instant of the call
          rc,                               \* client inside TryPass -> another goroutine swapped the state or stored a deadline during the call
          tin                               \* client -> clock value at which its OnRequestComplete began (0: not yet)
aux   == <<aRetry, aProbes, aTot, aBad, aInfl, aListen, aLast, aH, aid, lin, rj, rc, tin>>
rvars == <<vars, aux>>

BigI == 1000            \* statistic interval: one bucket that never rolls within MaxT
Rule == [strategy |-> "ecount", thr |-> <<Thr, 1>>, minAmt |-> MinAmt, timeout |-> Timeout,
         I |-> BigI, nb |-> 1, maxRt |-> 0, probeNum |-> ProbeNum]
ARules == [r1 |-> <<Rule>>]
ARef   == IF aTot = 0 THEN << >>
          ELSE (0 :> [sum |-> [tot |-> aTot, bad |-> aBad], minrt |-> 60000, maxc |-> 0])
ABr    == [r1 |-> << [st |-> state, retryAt |-> aRetry, probes |-> aProbes, ref |-> ARef] >>]
ANreq  == Cardinality({ k \in Clients : aid[k] # 0 })

Abs == INSTANCE Breaker WITH now <- now, rules <- ARules, br <- ABr, inflight <- aInfl, nreq <- ANreq,
           listen <- aListen, last <- aLast, h <- aH,
           RuleSets <- {ARules}, Steps <- {1}, MaxT <- MaxT, MaxReq <- NC, MaxInflight <- NC

Cb(f, t) == [f |-> f, t |-> t, res |-> "r1", b |-> 1]
FreeIds  == (1..NC) \ DOMAIN aInfl
MinFree  == CHOOSE i \in FreeIds : \A j \in FreeIds : i <= j

\* the abstract breaker would reject a request at this instant
AbsRejects == (state = "O" /\ now < aRetry) \/ (state = "H" /\ ProbeNum = 0)

---------------------------------------------------------------------------
RInit ==
    /\ Init
    /\ aRetry = IF InitOpen THEN 1 + Timeout ELSE 0
    /\ aProbes = 0
    /\ aTot = IF InitOpen THEN MinAmt ELSE 0
    /\ aBad = IF InitOpen THEN Thr ELSE 0
    /\ aInfl = << >>
    /\ aListen = << >>
    /\ aLast = [op |-> "init"]
    /\ aH = << [op |-> "new", rules |-> ARules] >>
    /\ aid = [k \in Clients |-> 0]
    /\ lin = [k \in Clients |-> FALSE]
    /\ rj = [k \in Clients |-> FALSE]
    /\ rc = [k \in Clients |-> FALSE]
    /\ tin = [k \in Clients |-> 0]

Same == UNCHANGED <<aRetry, aProbes, aTot, aBad, aInfl, aListen, aLast, aH, aid, lin>>

\* client k is admitted in this step (Breaker!Request with outcome "pass"); trans: the step swapped Open -> HalfOpen
Admit(k, trans) ==
    LET id  == MinFree
        log == IF trans THEN << Cb("O", "H") >> ELSE << >> IN
    /\ aid' = [aid EXCEPT ![k] = id]
    /\ aInfl' = [j \in DOMAIN aInfl \cup {id} |->
                   IF j = id THEN [res |-> "r1", start |-> now, probeOf |-> IF state' = "H" THEN {1} ELSE {}] ELSE aInfl[j]]
    /\ aListen' = aListen \o log
    /\ aLast' = [op |-> "req", res |-> "r1", pass |-> TRUE, trig |-> 0, log |-> log]
    /\ aH' = Append(aH, [op |-> "req", res |-> "r1", id |-> id])
    /\ UNCHANGED <<aRetry, aProbes, aTot, aBad, lin>>

\* the completion of client k is linearized in this step (Breaker!Complete / StragglerCompletesWhileHalfOpen);
\* the transition, if any, is the one the step performed on the state word; stay: a good probe that leaves the breaker half-open
Complete(k, stay) ==
    LET id    == aid[k]
        from  == state
        to    == state'
        trans == from # to
        log   == IF trans THEN << Cb(from, to) >> ELSE << >>
        kind  == IF from = "H" /\ 1 \notin aInfl[id].probeOf THEN "straggler" ELSE "done" IN
    /\ aInfl' = [j \in DOMAIN aInfl \ {id} |-> IF from = "H" /\ to # "H" THEN [aInfl[j] EXCEPT !.probeOf = {}] ELSE aInfl[j]]
    /\ aTot' = IF trans /\ to = "C" THEN 0 ELSE aTot + 1
    /\ aBad' = IF trans /\ to = "C" THEN 0 ELSE aBad + (IF Errs[k] THEN 1 ELSE 0)
    /\ aRetry' = IF trans /\ to = "O" THEN now + Timeout ELSE IF trans /\ to = "C" THEN 0 ELSE aRetry
    /\ aProbes' = IF trans THEN 0 ELSE IF stay THEN aProbes + 1 ELSE aProbes
    /\ aListen' = aListen \o log
    /\ aLast' = [op |-> kind, res |-> "r1", rt |-> now - aInfl[id].start, err |-> Errs[k], log |-> log]
    /\ aH' = Append(aH, [op |-> "done", id |-> id, err |-> Errs[k]])
    /\ lin' = [lin EXCEPT ![k] = TRUE]
    /\ UNCHANGED aid

\* completers that have added to the counters and whose completion is not linearized yet
Waiting == { k \in Clients : ~lin[k] /\ pc[k] \in {"oc_get", "oc_get2", "co_dl1", "co_cas1", "co_cas", "ho_cas", "ho_cas1", "pr_add", "hc_cas"} }
\* a swap performed by client k whose own completion is already linearized is attributed to a waiting failed completion
Helped(k) == LET W == { x \in Waiting \ {k} : Errs[x] } IN
             IF W = {} THEN k ELSE CHOOSE x \in W : \A y \in W : x <= y
\* the completion linearized by a swap (or failed swap) of client k
ByCas(k) == IF ~lin[k] THEN Complete(k, FALSE)
            ELSE IF state' # state /\ Helped(k) # k THEN Complete(Helped(k), FALSE)
            ELSE Same

RClient(k) ==
    \/ en_start(k) /\ Same
    \/ tp_get(k) /\ (IF state = "C" \/ (state = "H" /\ ProbeNum > 0) THEN Admit(k, FALSE) ELSE Same)
    \/ tp_dl(k) /\ Same
    \/ tp_cas(k) /\ (IF state = "O" THEN Admit(k, TRUE) ELSE Same)
    \/ tp_notify(k) /\ Same
    \/ ex_start(k) /\ Same
    \/ oc_get(k) /\ (IF lin[k] THEN Same
                     ELSE IF state = "O" THEN Complete(k, FALSE)
                     ELSE IF state = "C" /\ (~Errs[k] \/ tot < MinAmt \/ errs < Thr) THEN Complete(k, FALSE)
                     ELSE Same)
    \/ oc_get2(k) /\ (IF state = "O" /\ ~lin[k] THEN Complete(k, FALSE) ELSE Same)
    \/ co_dl1(k) /\ Same
    \/ co_cas1(k) /\ ByCas(k)
    \/ co_cas(k) /\ ByCas(k)
    \/ co_dl(k) /\ Same
    \/ co_notify(k) /\ Same
    \/ ho_cas(k) /\ (IF DlFirst THEN Same ELSE ByCas(k))
    \/ ho_reset(k) /\ Same
    \/ ho_dl(k) /\ Same
    \/ ho_notify(k) /\ Same
    \/ ho_cas1(k) /\ ByCas(k)
    \/ ho_reset1(k) /\ Same
    \/ pr_add(k) /\ (IF ~lin[k] /\ ~(ProbeNum = 0 \/ probes + 1 >= ProbeNum) THEN Complete(k, state = "H") ELSE Same)
    \/ hc_cas(k) /\ ByCas(k)
    \/ hc_reset(k) /\ Same
    \/ hc_notify(k) /\ Same
    \/ hc_resetm(k) /\ Same

ATick ==
    /\ aLast' = IF now' # now THEN [op |-> "tick"] ELSE aLast
    /\ aH' = IF now' # now THEN Append(aH, [op |-> "tick", d |-> 1]) ELSE aH
    /\ UNCHANGED <<aRetry, aProbes, aTot, aBad, aInfl, aListen, aid, lin>>

InTryPass(p) == p \in {"tp_dl", "tp_cas"}
RjNext == rj' = [k \in Clients |->
                   IF InTryPass(pc'[k]) THEN (IF InTryPass(pc[k]) THEN rj[k] ELSE FALSE) \/ AbsRejects' ELSE FALSE]

RcNext == rc' = [k \in Clients |->
                   IF InTryPass(pc'[k]) THEN (IF InTryPass(pc[k]) THEN rc[k] ELSE FALSE) \/ (pc'[k] = pc[k] /\ (state' # state \/ retryAt' # retryAt))
                   ELSE FALSE]
TinNext == tin' = [k \in Clients |-> IF pc[k] = "ex_start" /\ pc'[k] # "ex_start" THEN now ELSE tin[k]]

\* ---- the restrictions (elements of Restrict) ------------------------------------------------------------
InComplete(k) == pc[k] \in {"oc_get", "oc_get2", "co_dl1", "co_cas1", "co_cas", "co_dl", "co_notify", "ho_cas", "ho_reset", "ho_dl",
                            "ho_notify", "ho_cas1", "ho_reset1", "pr_add", "hc_cas", "hc_reset", "hc_notify", "hc_resetm"}
SawHalfOpen(k) == pc[k] \in {"ho_cas", "ho_reset", "ho_dl", "ho_notify", "ho_cas1", "ho_reset1", "pr_add", "hc_cas", "hc_reset", "hc_notify", "hc_resetm"}
On(x) == x \in Restrict
RStale   == On("stale")   => ~earlyStale'
RStalled == On("stalled") => ~earlyStalled'
RPushed  == (On("pushed") /\ DlFirst) => ~(state = "O" /\ retryAt' # retryAt)
RAlone   == On("alone")   => \A k \in Clients : SawHalfOpen(k)' => \A j \in Clients \ {k} : ~InComplete(j)'
RPark    == On("park")    => (now' # now => \A k \in Clients : InComplete(k) => now' - tin[k] < Timeout)
Allowed  == RStale /\ RStalled /\ RPushed /\ RAlone /\ RPark

RNext == /\ \/ \E k \in Clients : RClient(k)
            \/ clock /\ ATick
            \/ Terminating /\ Same
         /\ RjNext /\ RcNext /\ TinNext
         /\ Allowed
RSpec == RInit /\ [][RNext]_rvars

---------------------------------------------------------------------------
RefInit == ~InitOpen => Abs!Init
SeqInvs == ~InitOpen => (Abs!TypeOK /\ Abs!ListenerPath /\ Abs!Sane /\ Abs!ProbesSane)
\* at quiescence the physical listener log (written at cb.notify) holds exactly the transitions of aListen
NEdge(f, t)  == Cardinality({ i \in 1..Len(listen) : listen[i][1] = f /\ listen[i][2] = t })
NAEdge(f, t) == Cardinality({ i \in 1..Len(aListen) : aListen[i].f = f /\ aListen[i].t = t })
ListenAgrees == (\A k \in Clients : pc[k] = "Done") =>
                   \A e \in {<<"C", "O">>, <<"O", "H">>, <<"H", "O">>, <<"H", "C">>} : NEdge(e[1], e[2]) = NAEdge(e[1], e[2])
Refines == [][Abs!Next \/ UNCHANGED Abs!vars]_rvars
RejectJustified == [][ \A k \in Clients : (InTryPass(pc[k]) /\ pc'[k] = "Done") => rj[k] ]_rvars
RejectRaced     == [][ \A k \in Clients : (InTryPass(pc[k]) /\ pc'[k] = "Done") => (rj[k] \/ rc[k]) ]_rvars

rview == <<state, retryAt, probes, tot, errs, now, Len(listen), openedAt, pubAt, epoch, admittedIn, early, earlyStale, earlyStalled, earlyPub, ntrans,
           pc, cur, arrived, tread, admitted, won, pub, nread,
           aRetry, aProbes, aTot, aBad, aInfl, aid, lin, rj, rc, tin>>
\* search pruning for the "necessity" runs only (a witness is looked for, not a proof): the last client starts late
Staged == pc[NC] = "en_start" \/ \A k \in 1..(NC - 2) : pc[k] = "Done"
\* the same with both listener logs in the fingerprint (small instances: SeqInvs / ListenAgrees on every distinct log)
fview == <<rview, listen, aListen>>
=============================================================================
