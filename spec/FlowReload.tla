------------------------------ MODULE FlowReload ------------------------------
(***************************************************************************)
(* Reject-mode QPS flow rules whose rule list is REPLACED under traffic    *)
(* (flow.LoadRules / LoadRulesOfResource while the statistic windows hold  *)
(* tokens).  Extends the subject of FlowQps (property C02) by the clause   *)
(* of C14 that concerns it: an unchanged rule keeps its window, a modified *)
(* rule with the same statistic parameters may keep the window of the rule *)
(* it replaces, and - what C02 needs - every standalone window is fed by   *)
(* exactly ONE rule, so that a token is never counted twice.               *)
(*                                                                         *)
(* PROPERTY LEVEL.  adm[res] = per-tick reference of the tokens admitted   *)
(* for res.  A rule's window counts from the instant `since' it was        *)
(* created (0 for a view of the resource's own statistic, which has always *)
(* been counting).  A request is admitted iff for every rule of its        *)
(* resource  AlignedSum(tokens of adm recorded at or after since) + b <= T.*)
(*                                                                         *)
(* DESIGN MODEL (implementation shaped).  win[i] = [id, since] names the   *)
(* window object bound to rule i (id 0 = view of the resource statistic);  *)
(* wc[id] is what has been WRITTEN into window object id: the standalone   *)
(* statistic slot adds an admitted batch once per rule that owns a         *)
(* standalone window.  Reload matches new rules to old ones the way        *)
(* flow.buildResourceTrafficShapingController does: pass 1 - a rule equal  *)
(* to an old one takes that rule's controller; pass 2 - every other rule,  *)
(* in order, takes the window of the first old rule not yet taken whose    *)
(* statistic parameters (resource, referenced resource, interval) are the  *)
(* same, else gets a fresh window.  Mut = "sharewin" forgets to remove the *)
(* taken rule in pass 2 (two rules then write into one window), "allfresh" *)
(* builds every rule from scratch: both must violate the invariants.       *)
(***************************************************************************)
EXTENDS WindowRef, AdmitOps, TLC

CONSTANTS
    Res, RuleCfgs, B, GN, Batches, Steps, MaxT, MaxOps, MaxReloads,
    Mut         \* "none" | "sharewin" | "allfresh"

VARIABLES
    now, rules,
    win,        \* [rule index -> [id, since]]
    wc,         \* [window id -> per-tick reference of what was written into it]
    nextw,      \* window ids handed out so far
    adm, last, nops, nrel,
    h           \* history = scenario for the conformance driver (hidden by VIEW)

vars == <<now, rules, win, wc, nextw, adm, last, nops, nrel, h>>
view == <<now, rules, win, wc, adm, last, nops, nrel>>

PassKinds == {"pass"}
DefI == 2 * B
G    == GN * B
GeometryFor(I) ==
    IF I = 0 \/ I = DefI                        THEN [bl |-> B, I |-> DefI]
    ELSE IF I >= B /\ I <= G /\ I % B = 0       THEN [bl |-> B, I |-> I]
    ELSE                                             [bl |-> I, I |-> I]
ReusesGlobal(I) == I = 0 \/ I = DefI \/ (I >= B /\ I <= G /\ I % B = 0 /\ G % I = 0)

AlignedSum(ref, bl, t, I) == RefSum(ref, 1, Align(t, bl) + bl - 1, I, "pass")
Admit(ref, t, b) == IF b = 0 THEN ref ELSE RefAdd(ref, PassKinds, 1, t, "pass", b)
Since(ref, s)    == IF s = 0 THEN ref ELSE [x \in { y \in DOMAIN ref : y >= s } |-> ref[x]]
Tok(ref, s)      == IF s \in DOMAIN ref THEN ref[s].sum["pass"] ELSE 0
RulesOf(rs, res) == { i \in 1..Len(rs) : rs[i].res = res }

---------------------------------------------------------------------------
(* property level                                                          *)
WantSum(i) == LET g == GeometryFor(rules[i].I) IN AlignedSum(Since(adm[rules[i].res], win[i].since), g.bl, now, g.I)
Decision(res, b) ==
    LET S == { i \in RulesOf(rules, res) : Exceeds(WantSum(i), b, rules[i].T) } IN
    IF S = {} THEN [ok |-> TRUE, rule |-> 0, val |-> 0] ELSE [ok |-> FALSE, rule |-> MinOf(S), val |-> WantSum(MinOf(S))]

(* design model                                                            *)
ImplSum(i) == LET g == GeometryFor(rules[i].I) IN
              IF win[i].id = 0 THEN AlignedSum(adm[rules[i].res], g.bl, now, g.I)
              ELSE AlignedSum(wc[win[i].id], g.bl, now, g.I)
ImplDecision(res, b) ==
    LET S == { i \in RulesOf(rules, res) : Exceeds(ImplSum(i), b, rules[i].T) } IN
    IF S = {} THEN [ok |-> TRUE, rule |-> 0, val |-> 0] ELSE [ok |-> FALSE, rule |-> MinOf(S), val |-> ImplSum(MinOf(S))]

\* the standalone statistic slot: one write per rule of the resource that owns a standalone window
RECURSIVE WriteAll(_, _, _)
WriteAll(w, S, b) == IF S = {} THEN w
                     ELSE LET i == MinOf(S) IN WriteAll([w EXCEPT ![win[i].id] = Admit(@, now, b)], S \ {i}, b)

NoLast == [res |-> 0, b |-> 0, ok |-> TRUE, rule |-> 0, val |-> 0, want |-> [ok |-> TRUE, rule |-> 0, val |-> 0]]

FreshWin(rs, first) == [i \in 1..Len(rs) |-> IF ReusesGlobal(rs[i].I) THEN [id |-> 0, since |-> 0]
                                             ELSE [id |-> first + i, since |-> now]]
Init ==
    /\ now = 1
    /\ rules \in RuleCfgs
    /\ win = FreshWin(rules, 0)
    /\ nextw = Len(rules)
    /\ wc = [id \in { win[i].id : i \in 1..Len(rules) } \ {0} |-> << >>]
    /\ adm = [r \in Res |-> << >>]
    /\ last = NoLast /\ nops = 0 /\ nrel = 0
    /\ h = << [op |-> "new", t |-> now, rules |-> rules] >>

Request(res, b) ==
    /\ nops < MaxOps
    /\ LET d == ImplDecision(res, b) IN
       /\ last' = [res |-> res, b |-> b, ok |-> d.ok, rule |-> d.rule, val |-> d.val, want |-> Decision(res, b)]
       /\ adm' = IF d.ok THEN [adm EXCEPT ![res] = Admit(@, now, b)] ELSE adm
       /\ wc'  = IF d.ok THEN WriteAll(wc, { i \in RulesOf(rules, res) : win[i].id # 0 }, b) ELSE wc
    /\ nops' = nops + 1
    /\ h' = Append(h, [op |-> "req", res |-> res, b |-> b])
    /\ UNCHANGED <<now, rules, win, nextw, nrel>>

MaxI == MaxOr0({ GeometryFor(rules[i].I).I : i \in 1..Len(rules) })
Tick(d) ==
    /\ now + d <= MaxT
    /\ now' = now + d
    /\ adm' = [r \in Res |-> Prune(adm[r], 1, MaxI, now + d)]
    /\ wc'  = [id \in DOMAIN wc |-> Prune(wc[id], 1, MaxI, now + d)]
    /\ last' = NoLast
    /\ h' = Append(h, [op |-> "tick", d |-> d])
    /\ UNCHANGED <<rules, win, nextw, nops, nrel>>

---------------------------------------------------------------------------
(* the reload: greedy matching of new rules to old controllers             *)
StatCompat(o, n) == o.res = n.res /\ o.ref = n.ref /\ o.I = n.I

\* pass 1: claim[i] = index of the old rule equal to new rule i (each old rule taken at most once), 0 = none
RECURSIVE Pass1(_, _, _, _)
Pass1(nr, i, free, claim) ==
    IF i > Len(nr) THEN [claim |-> claim, free |-> free]
    ELSE LET C == { j \in free : rules[j] = nr[i] } IN
         IF C = {} \/ Mut = "allfresh" THEN Pass1(nr, i + 1, free, Append(claim, 0))
         ELSE Pass1(nr, i + 1, free \ {MinOf(C)}, Append(claim, MinOf(C)))
\* pass 2: a rule without an equal old rule takes the window of the first free old rule with the same statistic parameters
RECURSIVE Pass2(_, _, _, _, _)
Pass2(nr, i, free, claim, stat) ==
    IF i > Len(nr) THEN stat
    ELSE IF claim[i] # 0 THEN Pass2(nr, i + 1, free, claim, Append(stat, claim[i]))
    ELSE LET C == { j \in free : StatCompat(rules[j], nr[i]) } IN
         IF C = {} \/ Mut = "allfresh" THEN Pass2(nr, i + 1, free, claim, Append(stat, 0))
         ELSE Pass2(nr, i + 1, IF Mut = "sharewin" THEN free ELSE free \ {MinOf(C)}, claim, Append(stat, MinOf(C)))

Reload(nr) ==
    /\ nrel < MaxReloads
    /\ nr # rules
    /\ \A r \in Res : now \notin DOMAIN adm[r]          \* (keeps "recorded at or after the reload" = "at a time >= now")
    /\ LET p1   == Pass1(nr, 1, 1..Len(rules), << >>)
           from == Pass2(nr, 1, p1.free, p1.claim, << >>)     \* from[i] = old rule whose window new rule i takes, 0 = fresh
           fw   == FreshWin(nr, nextw)
           nw   == [i \in 1..Len(nr) |-> IF from[i] # 0 THEN win[from[i]] ELSE fw[i]]
           ids  == { nw[i].id : i \in 1..Len(nr) } \ {0}
       IN /\ win' = nw
          /\ wc'  = [id \in ids |-> IF id \in DOMAIN wc THEN wc[id] ELSE << >>]
    /\ rules' = nr
    /\ nextw' = nextw + Len(nr)
    /\ nrel' = nrel + 1
    /\ last' = NoLast
    /\ h' = Append(h, [op |-> "reload", rules |-> nr])
    /\ UNCHANGED <<now, adm, nops>>

Next ==
    \/ \E res \in Res, b \in Batches : Request(res, b)
    \/ \E d \in Steps : Tick(d)
    \/ \E nr \in RuleCfgs : Reload(nr)

Spec == Init /\ [][Next]_vars

---------------------------------------------------------------------------
(* the property                                                            *)
Iff               == last.ok = last.want.ok
FirstRuleReported == (~last.ok /\ ~last.want.ok) => (last.rule = last.want.rule /\ last.val = last.want.val)
\* every standalone window is fed by exactly one rule ...
OwnWindow   == \A i, j \in 1..Len(rules) : (i # j /\ win[i].id # 0) => win[i].id # win[j].id
\* ... and holds exactly the tokens admitted for its resource since it was created
WindowTruth == \A i \in 1..Len(rules) : win[i].id # 0 =>
                  LET want == Since(adm[rules[i].res], win[i].since) IN
                  \A s \in DOMAIN wc[win[i].id] \cup DOMAIN want : Tok(wc[win[i].id], s) = Tok(want, s)
\* an unchanged rule keeps its window (object and origin) across a reload
KeptOnReload == [][nrel' = nrel + 1 =>
                     \A i \in 1..Len(rules') : (\E j \in 1..Len(rules) : rules[j] = rules'[i]) =>
                                               (\E j \in 1..Len(rules) : rules[j] = rules'[i] /\ win'[i] = win[j])]_vars
\* a window is never older than the traffic nor newer than the last reload
SinceSane   == \A i \in 1..Len(rules) : win[i].since <= now /\ (win[i].id = 0 <=> ReusesGlobal(rules[i].I))
TypeOK == now > 0 /\ nops \in 0..MaxOps /\ nrel \in 0..MaxReloads /\ Len(win) = Len(rules)
=============================================================================
