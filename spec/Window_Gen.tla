----------------------------- MODULE Window_Gen -----------------------------
(* Scenario generation from the Window spec: every generated transition prints the history *)
(* of operations that leads to it (one scenario per transition of the bounded state graph, *)
(* or one per step of a random simulation).  The conformance driver replays them.          *)
EXTENDS Window_MC, Json
Emit == PrintT(ToJson(h'))
=============================================================================
