----------------------------- MODULE Sentinel_MC -----------------------------
EXTENDS Sentinel, Json
MCRules == { [flow |-> f, iso |-> i, hot |-> p, cbE |-> e, cbTO |-> 2] :
               f \in {-1, 2}, i \in {-1, 2}, p \in {-1, 1}, e \in {-1, 1} }
MCRulesAll == { [flow |-> 2, iso |-> 2, hot |-> 1, cbE |-> 1, cbTO |-> 2], [flow |-> 3, iso |-> 1, hot |-> 1, cbE |-> 2, cbTO |-> 3] }
Emit == PrintT(ToJson(h'))
=============================================================================
