--------------------------- MODULE MemAdaptiveOps ---------------------------
(***************************************************************************)
(* The memory-adaptive effective threshold (core/flow/tc_adaptive.go) as   *)
(* an exact rational function, and its envelope (property C11):            *)
(*   mem <= low water mark   =>  threshold = LowMemUsageThreshold          *)
(*   mem >= high water mark  =>  threshold = HighMemUsageThreshold         *)
(*   in between              =>  linear interpolation, monotone, in range  *)
(* A rule is r = [low, high, lw, hw, cb]: thresholds low > high > 0, water *)
(* marks 0 < lw < hw (what IsValidRule accepts), control behaviour cb      *)
(* (0 = Reject: the threshold caps the tokens of the window, 1 =           *)
(* Throttling: it spaces the admissions by 1/threshold).  The envelope is  *)
(* about the effective threshold, whatever enforces it.                    *)
(* Constant-free: used by MemAdaptive (model checking) and                 *)
(* MemAdaptive_Trace (validation of executions of the real code).          *)
(***************************************************************************)
EXTENDS Integers

\* effective threshold as a rational [n, d]
Eff(r, mem) ==
    IF mem <= r.lw THEN [n |-> r.low, d |-> 1]
    ELSE IF mem >= r.hw THEN [n |-> r.high, d |-> 1]
    ELSE \* (high - low) / (hw - lw) * (mem - lw) + low
         [n |-> (r.high - r.low) * (mem - r.lw) + r.low * (r.hw - r.lw), d |-> r.hw - r.lw]
Valid(r) == r.low > 0 /\ r.high > 0 /\ r.high < r.low /\ r.lw > 0 /\ r.hw > 0 /\ r.lw < r.hw
\* the admitted rate that shows the threshold, per second of saturating single-token demand:
\*   reject:     requests admitted at one instant into an empty window: floor(threshold)
\*   throttling: admissions spaced by 1/threshold starting with an immediate one (nothing owed to earlier admissions):
\*               at 0, 1/thr, 2/thr, ... < 1 s, i.e. ceil(threshold)
Admits(r, mem) == LET e == Eff(r, mem) IN IF r.cb = 1 THEN (e.n + e.d - 1) \div e.d ELSE e.n \div e.d
\* the rational threshold is a whole number (float rounding may then admit one token less)
Whole(r, mem)  == LET e == Eff(r, mem) IN e.n % e.d = 0

\* ENVELOPE for an observed admission count k at reading mem
EnvOK(r, mem, k) ==
    /\ mem <= r.lw => k = r.low
    /\ mem >= r.hw => k = r.high
    /\ (mem > r.lw /\ mem < r.hw) => (k >= r.high /\ k <= r.low)
\* monotone: more memory never raises the admission count
MonoOK(m1, k1, m2, k2) == (m1 <= m2 => k1 >= k2) /\ (m2 <= m1 => k2 >= k1)

=============================================================================
