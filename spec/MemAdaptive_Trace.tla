------------------------- MODULE MemAdaptive_Trace -------------------------
(***************************************************************************)
(* Validation of executions of a real memory-adaptive flow rule against    *)
(* property C11.  Events:                                                  *)
(*   new    tr, low, high, lw, hw [, cb, q]   the rule (thresholds, water  *)
(*            marks; cb = 1: throttling checker, MaxQueueingTimeMs q)      *)
(*   probe  mem, n, k                  system_metric.SetSystemMemoryUsage( *)
(*            mem), then n single-token api.Entry calls at one instant     *)
(*            into an empty window: k of them were admitted                *)
(*            (throttling rule: n requests, one per millisecond for one    *)
(*            second after an idle time; k = admissions inside the second) *)
(*   reload low, high, lw, hw, cb      the rule is replaced (LoadRules /    *)
(*            LoadRulesOfResource); the next probes are judged against the *)
(*            new rule, monotonicity restarts (an identical rule changes   *)
(*            nothing)                                                     *)
(* VERDICT: the envelope (end points, range, monotone between consecutive  *)
(* probes).  CONFORMANCE (DRIFT line, never a verdict): k = floor of the   *)
(* exact rational interpolation, k or k - 1 accepted where the rational    *)
(* threshold is a whole number (float rounding); throttling: the ceiling   *)
(* (MemAdaptiveOps!Admits), k + 1 accepted on a whole number.              *)
(***************************************************************************)
EXTENDS MemAdaptiveOps, Sequences, TLC, Json

Trace == ndJsonDeserialize("trace.ndjson")

VARIABLES l, r, pm, pk, g, failed, drifted
tvars == <<l, r, pm, pk, g, failed, drifted>>

Ev == Trace[l]
IsEvent(op) == l <= Len(Trace) /\ Ev.op = op /\ l' = l + 1
Judge(ok, expected) ==
    IF failed \/ ok THEN failed' = failed
    ELSE /\ failed' = TRUE
         /\ PrintT("MISMATCH " \o ToString(g.tr) \o " " \o ToString(l) \o " " \o ToJson(expected))
Drift(ok, expected) ==
    IF drifted \/ failed \/ ok THEN drifted' = drifted
    ELSE /\ drifted' = TRUE
         /\ PrintT("DRIFT " \o ToString(g.tr) \o " " \o ToString(l) \o " " \o ToJson(expected))

TNew ==
    /\ IsEvent("new")
    /\ r' = [low |-> Ev.low, high |-> Ev.high, lw |-> Ev.lw, hw |-> Ev.hw, cb |-> IF "cb" \in DOMAIN Ev THEN Ev.cb ELSE 0]
    /\ pm' = -2 /\ pk' = 0                 \* no previous probe
    /\ g' = [tr |-> Ev.tr]
    /\ failed' = FALSE /\ drifted' = FALSE

TProbe ==
    /\ IsEvent("probe")
    /\ LET sat == Ev.k < Ev.n             \* the demand was saturating: k is floor(threshold), not the demand
           ex  == Admits(r, Ev.mem)
       IN
       /\ Judge(/\ Ev.k <= r.low                                   \* never above the low-memory threshold
                /\ sat => EnvOK(r, Ev.mem, Ev.k)
                /\ (sat /\ pm # -2) => MonoOK(pm, pk, Ev.mem, Ev.k),
                [mem |-> Ev.mem, admitted |-> Ev.k, low |-> r.low, high |-> r.high, lw |-> r.lw, hw |-> r.hw,
                 prev_mem |-> pm, prev_admitted |-> pk, model |-> ex])
       /\ Drift(sat => (Ev.k = ex \/ (Whole(r, Ev.mem) /\ Ev.mem > r.lw /\ Ev.mem < r.hw /\ Ev.k = ex + (IF r.cb = 1 THEN 1 ELSE -1))),
                [mem |-> Ev.mem, admitted |-> Ev.k, model |-> ex])
       /\ pm' = IF sat THEN Ev.mem ELSE pm
       /\ pk' = IF sat THEN Ev.k ELSE pk
    /\ UNCHANGED <<r, g>>

TReload ==
    /\ IsEvent("reload")
    /\ LET r2 == [low |-> Ev.low, high |-> Ev.high, lw |-> Ev.lw, hw |-> Ev.hw, cb |-> Ev.cb] IN
       IF r2 = r THEN UNCHANGED <<r, pm, pk>>
       ELSE r' = r2 /\ pm' = -2 /\ pk' = 0
    /\ UNCHANGED <<g, failed, drifted>>

TInit == l = 1 /\ r = [low |-> 2, high |-> 1, lw |-> 1, hw |-> 2, cb |-> 0] /\ pm = -2 /\ pk = 0 /\ g = [tr |-> 0]
         /\ failed = FALSE /\ drifted = FALSE
TNext == TNew \/ TProbe \/ TReload
TSpec == TInit /\ [][TNext]_tvars
=============================================================================
