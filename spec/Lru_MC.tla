------------------------------- MODULE Lru_MC -------------------------------
(* Bounded instances of spec/Lru.tla for exhaustive TLC, plus the history variable `h' (hidden by VIEW) from which          *)
(* checks/LRU.py takes one scenario per transition.  The eviction log is unbounded and hidden as well: every property that *)
(* mentions it is an action property over (evlog, evlog').                                                                 *)
EXTENDS Lru, Json

VARIABLE h
mcvars == <<vars, h>>
view   == <<order, val, cap, last>>      \* exhaustive runs: everything the invariants mention
viewS  == <<order, val, cap>>            \* scenario generation: one scenario per (cache state, operation)

MCInit == Init /\ h = << [op |-> "new", cap |-> cap] >>
MCNext == Next /\ h' = Append(h, last'.o)
MCSpec == MCInit /\ [][MCNext]_mcvars

MCKeys  == {"a", "b", "c", "d"}
MCKeys3 == {"a", "b", "c"}
MCNonPos == {0, -1}
None == {}
Emit == PrintT(ToJson(h'))
\* random simulation (-simulate -depth SimDepth): print whole behaviours only (TLC evaluates the constraint for every candidate successor)
SimDepth == 32
EmitEnd == Len(h') < SimDepth \/ PrintT(ToJson(h'))
=============================================================================
