--------------------------- MODULE Datasource_Trace ---------------------------
(***************************************************************************)
(* Validation of executions of the real datasource code (property C18)     *)
(* against the property-level operators of DatasourceProp.tla.               *)
(*                                                                         *)
(* harness/cmd/c18 records one ndjson line per delivery / file event:      *)
(*  new     tr, m (module), mode                                           *)
(*  deliver cls (payload class, decided by the driver from the bytes with  *)
(*          encoding/json), pid (identity of the bytes), desc (tokens of   *)
(*          the valid rules the payload describes), dom, and the observed  *)
(*          err / panic / upd (downstream updates, -1 = not counted) /     *)
(*          after (tokens of module.GetRules())                            *)
(*  fevent  ev (init|write|trunc|renameover|renameaway|remove), the same   *)
(*          payload description, seen (distinct GetRules() states observed *)
(*          while waiting, in order), after (the state it settled in)      *)
(* Many traces are concatenated; "new" starts one.  A mismatch is printed  *)
(* once per trace ("MISMATCH <tr> <line> <json>") and the rest of that     *)
(* trace is skipped ("total" mode, see BUILDING.md).                       *)
(***************************************************************************)
EXTENDS DatasourceProp, TLC, Json

Trace == ndJsonDeserialize("trace.ndjson")

VARIABLES
    l,        \* next line of Trace
    tr,       \* number of the running trace
    cur,      \* tokens in force (follows the OBSERVED state)
    last,     \* pid of the payload handled immediately before ("" = none)
    failed    \* the running trace already mismatched

tvars == <<l, tr, cur, last, failed>>

Ev == Trace[l]
PropOfEv(e) == [cls |-> e.cls, id |-> e.pid, valid |-> SetOf(e.desc), dom |-> e.dom]
OutOfEv(e)  == [err |-> e.err, panic |-> e.panic, upd |-> e.upd, after |-> SetOf(e.after)]

Judge(ok, expected) ==
    IF failed \/ ok THEN failed' = failed
    ELSE /\ failed' = TRUE
         /\ PrintT("MISMATCH " \o ToString(tr) \o " " \o ToString(l) \o " " \o ToJson(expected))

IsEvent(op) == l <= Len(Trace) /\ Ev.op = op /\ l' = l + 1

TNew ==
    /\ IsEvent("new")
    /\ tr' = Ev.tr /\ cur' = {} /\ last' = "" /\ failed' = FALSE

\* what the statement allows after this delivery (for the mismatch report)
ExpDeliver(e) ==
    LET P == PropOfEv(e) IN
    [why |-> IF e.panic THEN "panic escaped"
             ELSE IF ~ClassOK(cur, P, OutOfEv(e)) THEN "class " \o e.cls
             ELSE "identical re-delivery is not a no-op",
     before |-> cur, allowed_after |-> AfterSet(cur, P),
     must_err |-> e.cls \in Undecodable, redelivery |-> (e.pid = last)]

TDeliver ==
    /\ IsEvent("deliver")
    /\ Ev.cls \in Classes
    /\ cur' = SetOf(Ev.after)
    /\ last' = Ev.pid
    /\ tr' = tr
    /\ Judge(DeliverOK(cur, last, PropOfEv(Ev), OutOfEv(Ev)), ExpDeliver(Ev))

\* file events: the error of Handle is not observable through a file datasource
SeenSets(e) == [i \in DOMAIN e.seen |-> SetOf(e.seen[i])]
PropOfFile(e) == IF e.ev \in Gone THEN [cls |-> "Empty", id |-> "", valid |-> {}, dom |-> TRUE] ELSE PropOfEv(e)
ExpFile(e) ==
    LET P == PropOfFile(e) IN
    [why |-> IF e.panic THEN "panic escaped"
             ELSE IF ~FileSafe(cur, e.ev, P, SeenSets(e)) THEN "safety" ELSE "convergence",
     before |-> cur, allowed_final |-> FileFinal(cur, e.ev, P), allowed_meanwhile |-> FileInter(cur, e.ev, P)]

TFile ==
    /\ IsEvent("fevent")
    /\ Ev.ev \in {"init", "write", "trunc", "renameover", "renameaway", "remove"}
    /\ cur' = SetOf(Ev.after)
    /\ last' = ""
    /\ tr' = tr
    /\ Judge(/\ ~Ev.panic
             /\ FileSafe(cur, Ev.ev, PropOfFile(Ev), SeenSets(Ev))
             /\ FileConverged(cur, Ev.ev, PropOfFile(Ev), SetOf(Ev.after)),
             ExpFile(Ev))

\* a hot-spot payload whose rule carries the specific items `items' (described structurally) was delivered: `got' is the
\* decoded SpecificItems map of the rule in force, `probes' the traffic whose argument is the described value
ItemsEventOK(e) ==
    /\ ~e.panic /\ ~e.err /\ e.found
    /\ ItemsOK(e.items, e.got)
    /\ \A k \in DOMAIN e.probes : ItemProbeOK(e.items, e.probes[k])
ExpItems(e) ==
    [why |-> IF e.panic THEN "panic escaped" ELSE IF e.err \/ ~e.found THEN "payload not applied"
             ELSE IF ~ItemsOK(e.items, e.got) THEN "specific items differ from the described ones" ELSE "described value not limited by its own threshold",
     described |-> [i \in DOMAIN e.items |-> [keys |-> DescribedKeys(e.items[i]), thr |-> e.items[i].thr]],
     badprobes |-> SelectSeq(e.probes, LAMBDA p : ~ItemProbeOK(e.items, p))]
TItems ==
    /\ IsEvent("items")
    /\ UNCHANGED <<tr, cur, last>>
    /\ Judge(ItemsEventOK(Ev), ExpItems(Ev))

TInit == l = 1 /\ tr = 0 /\ cur = {} /\ last = "" /\ failed = FALSE
TNext == TNew \/ TDeliver \/ TFile \/ TItems
TSpec == TInit /\ [][TNext]_tvars
=============================================================================
