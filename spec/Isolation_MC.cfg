SPECIFICATION Spec
CONSTANTS
  Res = {1, 2}
  RuleCfgs <- MCCfgs
  Batches <- MCBatches
  MaxReq = 5
  Wrap = FALSE
VIEW view
INVARIANTS TypeOK Iff FirstRuleReported Cap Reusable
PROPERTIES RejectedNeverInflight
CHECK_DEADLOCK FALSE
