SPECIFICATION SpecR
CONSTANTS
  Res = {1, 2}
  RuleCfgs <- MCCfgs
  Batches <- MCBatches
  MaxReq = 5
  Wrap = FALSE
  RelLists <- MCNoRel
  MaxRel = 0
  ClearBug = FALSE
VIEW viewR
INVARIANTS TypeOKR Iff FirstRuleReported CapR Reusable IffR FirstRuleR InForce
PROPERTIES RejectedNeverInflight CapStep ReloadKeepsInflight
CHECK_DEADLOCK FALSE
