----------------------------- MODULE Breaker_MC -----------------------------
(* Bounded instances of Breaker for exhaustive TLC runs and for scenario generation.        *)
(* The rule configuration is chosen in Init from a family built out of small parameter sets *)
(* given in the cfg (cfg files cannot contain records), so one TLC run covers every         *)
(* combination.  Time unit = one tick; geometries are encoded as 10*I + nb.                 *)
EXTENDS Breaker, Json

CONSTANTS
    Fam,          \* 1: one breaker on r1;  2: two breakers on r1;  3: one breaker on r1 and one on r2
    StratSet,     \* strategies
    RatioNums,    \* thresholds of the ratio strategies, in halves   (0, 1, 2  =  0, 1/2, 1)
    CountNums,    \* thresholds of the error-count strategy, in halves (2, 3 = 1, 1.5)
    MinAmts, Timeouts, Geos, ProbeNums

R(s, num, m, to, g, pn) ==
    [strategy |-> s, thr |-> <<num, 2>>, minAmt |-> m, timeout |-> to,
     I |-> g \div 10, nb |-> g % 10, maxRt |-> 1, probeNum |-> pn]

Singles == UNION { { R(s, n, m, to, g, pn) :
                       n \in (IF s = "ecount" THEN CountNums ELSE RatioNums),
                       m \in MinAmts, to \in Timeouts, g \in Geos, pn \in ProbeNums } : s \in StratSet }

MCRuleSets ==
    CASE Fam = 1 -> { [r1 |-> <<x>>] : x \in Singles }
      [] Fam = 2 -> { [r1 |-> <<x, y>>] : x \in Singles, y \in Singles }
      [] Fam = 3 -> { [r1 |-> <<x>>, r2 |-> <<y>>] : x \in Singles, y \in Singles }

\* scenario generation: one line per generated transition
Emit == PrintT(ToJson(h'))
=============================================================================
