SPECIFICATION TSpec
CONSTANTS
  Descs = {}
  Resources = {}
  Tokens = {}
  MaxLen = 0
  Mutant = "none"
CHECK_DEADLOCK FALSE
