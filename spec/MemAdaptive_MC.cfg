SPECIFICATION Spec
CONSTANTS
  Rules <- MCRules
  Mems <- MCMems
  MaxThr = 6
  MaxMem = 8
INVARIANTS Finite EndPoints InRange Monotone ObservableOK
CHECK_DEADLOCK FALSE
