----------------------------- MODULE Throttle_Gen -----------------------------
(* schedule generation: every step of a TLC simulation prints the schedule so far *)
EXTENDS Throttle_MC, Json
Emit == PrintT(ToJson(sched'))
=============================================================================
