SPECIFICATION Spec
CONSTANTS
  Resources = {"r1"}
  Batches = {1}
  Orders = {1, 2}
  PreBehs = {"pass", "panic"}
  RuleBehs = {"pass", "nil", "block", "panic"}
  StatBehs = {"pass", "panic"}
  MaxPre = 1
  MaxRule = 3
  MaxStat = 2
  InitChain <- MCEmptyChain
  InitSlots = 0
  Scripts = {"chain"}
  XHs = {""}
  Inbs <- MCOutbound
  ErrToks <- MCNone
  Steps <- MCNone
  MaxEntries = 2
  MaxLive = 2
  MaxOps = 12
  MaxT = 10
  PBL = 2
  VInt = 4
  PInt = 8
VIEW view
ACTION_CONSTRAINT Phased
INVARIANTS TypeOK ChainSorted OrderOK StatToldOnce BlockErrOK CompletionTold Conservation Gauge Quiescent CompletionOnce CompletedTokens
PROPERTIES BlockErrStable LateCallsInert
CHECK_DEADLOCK FALSE
