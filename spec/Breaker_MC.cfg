SPECIFICATION Spec
CONSTANTS
  RuleSets <- MCRuleSets
  Fam = 1
  StratSet = {"slow", "eratio", "ecount"}
  RatioNums = {0, 1, 2}
  CountNums = {2, 3}
  MinAmts = {1, 2}
  Timeouts = {2}
  Geos = {42}
  ProbeNums = {0, 2}
  Steps = {1, 2}
  MaxT = 5
  MaxReq = 4
  MaxInflight = 2
VIEW view
INVARIANTS TypeOK ListenerPath Sane ProbesSane
PROPERTY Machine
CHECK_DEADLOCK FALSE
