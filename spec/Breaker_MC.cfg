SPECIFICATION Spec
CONSTANTS
  RuleSets <- MCRuleSets
  Fam = 1
  StratSet = {"slow", "eratio", "ecount"}
  RatioNums = {0, 1, 2}
  CountNums = {2, 3}
  MinAmts = {0, 1, 3}
  Timeouts = {1, 3}
  Geos = {21, 42}
  ProbeNums = {0, 1, 2}
  Steps = {1, 2}
  MaxT = 7
  MaxReq = 4
  MaxInflight = 2
VIEW view
INVARIANTS TypeOK ListenerPath Sane ProbesSane
PROPERTY Machine
CHECK_DEADLOCK FALSE
