SPECIFICATION TSpec
CONSTANTS
  Diag = "none"
  RuleSets = {}
  Steps = {}
  MaxT = 0
  MaxReq = 0
  MaxInflight = 0
CHECK_DEADLOCK FALSE
