---------------------------- MODULE RuleStore_MC ----------------------------
(* Bounded instance of RuleStore for exhaustive TLC (property C13), and scenario generation:  *)
(* every generated transition prints the history of operations that leads to it.             *)
EXTENDS RuleStore, Json
\* list-based managers (flow, isolation, hotspot, circuit breaker), system (whole-set only), outlier
MCListBased == [perRes |-> TRUE,  invalid |-> {"I1", "Nil"}, rejects |-> FALSE, ordered |-> TRUE]
MCSystem    == [perRes |-> FALSE, invalid |-> {"I1", "Nil"}, rejects |-> FALSE, ordered |-> FALSE]
MCOutlier   == [perRes |-> TRUE,  invalid |-> {"I1", "Nil"}, rejects |-> TRUE,  ordered |-> TRUE]
MCDescs     == {MCListBased, MCSystem, MCOutlier}
MCDescs1    == {MCListBased}
MCDescsSys  == {MCSystem}
MCDescsOut  == {MCOutlier}
Emit == PrintT(ToJson(h'))
=============================================================================
