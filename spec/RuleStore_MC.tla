---------------------------- MODULE RuleStore_MC ----------------------------
(* Bounded instance of RuleStore for exhaustive TLC (property C13), and scenario generation:  *)
(* every generated transition prints the history of operations that leads to it.             *)
EXTENDS RuleStore, Json
\* list-based managers (flow, isolation, hotspot, circuit breaker), system (whole-set only), outlier
\* near-equal variants: "R1a" / "R1b" differ from "R1" in one field, slightly (and from each other)
MCNear      == [t \in {"R1a", "R1b", "R2a", "R2b", "R3a", "R3b"} |->
                   IF t \in {"R1a", "R1b"} THEN "R1" ELSE IF t \in {"R2a", "R2b"} THEN "R2" ELSE "R3"]
MCListBased == [perRes |-> TRUE,  invalid |-> {"I1", "Nil"}, rejects |-> FALSE, ordered |-> TRUE,  near |-> MCNear, mod |-> "any", params |-> << >>]
MCSystem    == [perRes |-> FALSE, invalid |-> {"I1", "Nil"}, rejects |-> FALSE, ordered |-> FALSE, near |-> MCNear, mod |-> "any", params |-> << >>]
MCOutlier   == [perRes |-> TRUE,  invalid |-> {"I1", "Nil"}, rejects |-> TRUE,  ordered |-> TRUE,  near |-> MCNear, mod |-> "any", params |-> << >>]
MCDescs     == {MCListBased, MCSystem, MCOutlier}
MCDescs1    == {MCListBased}
MCDescsSys  == {MCSystem}
MCDescsOut  == {MCOutlier}

\* PARAMETER SWEEP: descriptors whose tokens P1 / P2 are PARAMETRIC.  P1 ranges over boundary-rich rule records (statistic
\* intervals that are / are not multiples or divisors of the global bucket length, the metric interval and the global
\* interval; bucket counts that divide / do not divide; invalid values), P2 is a plain working rule.  Validity comes from
\* RuleStore!ValidRule, the controller of a valid rule must be buildable (Built) or the rule is dropped.
MCFlowRec(intv, thr, tcs, cb) ==
    [nores |-> FALSE, tcs |-> tcs, cb |-> cb, thr |-> thr, rel |-> 0, ref |-> FALSE, intv |-> intv, wup |-> 10, wcf |-> 0, mq |-> 0,
     lomem |-> 10, himem |-> 5, lowm |-> 1, hiwm |-> 2]
MCIntervals == {0, 1, 499, 500, 700, 1000, 1200, 1600, 1700, 2000, 2500, 3100, 4700, 5000, 9999, 10000, 10001, 20000}
MCFlowRecs  == {MCFlowRec(i, t, s, c) : i \in MCIntervals, t \in {-1000, 2500}, s \in {0, 1}, c \in {0, 1}}
MCBreakerRec(intv, bc, retry, pct) ==
    [nores |-> FALSE, nilrule |-> FALSE, strat |-> 2, retry |-> retry, minreq |-> 1, intv |-> intv, bc |-> bc, maxrt |-> 0, thr |-> 3000,
     probenum |-> 0, pct |-> pct]
MCBreakerRecs == {MCBreakerRec(i, b, r, p) : i \in {0, 999, 1000}, b \in {0, 1, 3, 4, 1000, 2000}, r \in {0, 1000}, p \in {1000, 1001}}
MCSweepOf(mod, rejects, recs, plain) ==
    {[perRes |-> TRUE, invalid |-> {"Nil"}, rejects |-> rejects, ordered |-> TRUE, near |-> MCNear, mod |-> mod,
      params |-> [t \in {"P1", "P2"} |-> IF t = "P1" THEN a ELSE plain]] : a \in recs}
MCPlainFlow    == MCFlowRec(1000, 5000, 0, 0)
MCPlainBreaker == MCBreakerRec(1000, 0, 1000, 1000)
MCSweepFull    == MCSweepOf("flow", FALSE, MCFlowRecs, MCPlainFlow) \cup MCSweepOf("circuitbreaker", FALSE, MCBreakerRecs, MCPlainBreaker)
                      \cup MCSweepOf("outlier", TRUE, MCBreakerRecs, MCPlainBreaker)
\* quick tier: every interval with a Reject, a WarmUp and a Throttling rule, a few invalid ones; every bucket count
MCFlowRecsQ    == {MCFlowRec(i, 2500, sc[1], sc[2]) : i \in MCIntervals, sc \in {<<0, 0>>, <<1, 0>>, <<0, 1>>}}
                      \cup {MCFlowRec(i, -1000, 0, 0) : i \in {1000, 1600}}
MCBreakerRecsQ == {MCBreakerRec(i, b, 1000, 1000) : i \in {999, 1000}, b \in {0, 1, 3, 4, 1000, 2000}}
                      \cup {MCBreakerRec(0, 1, 1000, 1000), MCBreakerRec(1000, 3, 0, 1000), MCBreakerRec(1000, 3, 1000, 1001)}
MCSweep        == MCSweepOf("flow", FALSE, MCFlowRecsQ, MCPlainFlow) \cup MCSweepOf("circuitbreaker", FALSE, MCBreakerRecsQ, MCPlainBreaker)
                      \cup MCSweepOf("outlier", TRUE, MCBreakerRecsQ, MCPlainBreaker)
\* the whole range of statistic intervals / bucket counts (state-independent; checked on a tiny instance)
BuildableSweep ==
    /\ \A i \in 0..20000 : \A s \in {0, 1, 2}, c \in {0, 1} :
           LET r == MCFlowRec(i, 5000, s, c) IN ValidFlow(r) => Buildable("flow", r)
    /\ \A i \in 1..2000, b \in 0..40 :
           LET r == MCBreakerRec(i, b, 1000, 1000) IN ValidBreaker(r) => Buildable("circuitbreaker", r)
Emit == PrintT(ToJson(h'))
=============================================================================
