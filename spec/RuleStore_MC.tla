---------------------------- MODULE RuleStore_MC ----------------------------
(* Bounded instance of RuleStore for exhaustive TLC (property C13), and scenario generation:  *)
(* every generated transition prints the history of operations that leads to it.             *)
EXTENDS RuleStore, Json
\* list-based managers (flow, isolation, hotspot, circuit breaker), system (whole-set only), outlier
\* near-equal variants: "R1a" / "R1b" differ from "R1" in one field, slightly (and from each other)
MCNear      == [t \in {"R1a", "R1b", "R2a", "R2b", "R3a", "R3b"} |->
                   IF t \in {"R1a", "R1b"} THEN "R1" ELSE IF t \in {"R2a", "R2b"} THEN "R2" ELSE "R3"]
MCListBased == [perRes |-> TRUE,  invalid |-> {"I1", "Nil"}, rejects |-> FALSE, ordered |-> TRUE,  near |-> MCNear]
MCSystem    == [perRes |-> FALSE, invalid |-> {"I1", "Nil"}, rejects |-> FALSE, ordered |-> FALSE, near |-> MCNear]
MCOutlier   == [perRes |-> TRUE,  invalid |-> {"I1", "Nil"}, rejects |-> TRUE,  ordered |-> TRUE,  near |-> MCNear]
MCDescs     == {MCListBased, MCSystem, MCOutlier}
MCDescs1    == {MCListBased}
MCDescsSys  == {MCSystem}
MCDescsOut  == {MCOutlier}
Emit == PrintT(ToJson(h'))
=============================================================================
