--------------------------- MODULE HotParamConc_MC ---------------------------
(* Bounded instances of HotParamConc for exhaustive TLC runs and for scenario generation *)
(* (ACTION_CONSTRAINT Emit prints the history leading to every generated transition).    *)
EXTENDS HotParamConc, Json

MCRes == {"A", "B"}
MCOth == {"o"}
MCOth0 == {}
MCValues == {"a", "b", "c"}
\* A: general threshold 1, value a blocked entirely (0), value b may have 2 in flight
MCRules1 == [A |-> [thr |-> 1, items |-> [a |-> 0, b |-> 2]],
             B |-> [thr |-> 2, items |-> << >>]]
\* general threshold 0 with one permitted value; second resource threshold 1
MCRules2 == [A |-> [thr |-> 0, items |-> [c |-> 1]],
             B |-> [thr |-> 1, items |-> [a |-> 2]]]
MCRes1   == {"A"}
MCRules3 == [A |-> [thr |-> 2, items |-> [a |-> 1]]]
\* instances for the concurrent admission path (K >= 1): one resource, two values
MCValues2 == {"a", "b"}
MCValues1 == {"b"}
MCRules4 == [A |-> [thr |-> 2, items |-> [a |-> 1]]]       \* (same table as MCRules3, over MCValues2)
MCRules5 == [A |-> [thr |-> 1, items |-> [b |-> 3]]]
\* instances for the first use of a value (Fresh = TRUE: Lookup / Create / Record are separate steps of up to K callers):
\* MCRules4 / MCRules5 over MCValues2, and two resources with one value each
MCRules6 == [A |-> [thr |-> 1, items |-> << >>], B |-> [thr |-> 2, items |-> << >>]]
\* alternative tables for reloads (Reload puts Alt or Rules in force): thresholds raised / lowered, specific items moved
MCAlt1 == [A |-> [thr |-> 2, items |-> [a |-> 1]],
           B |-> [thr |-> 1, items |-> [b |-> 2]]]
MCAlt3 == [A |-> [thr |-> 1, items |-> [a |-> 2]]]
\* what a rule with a changed selector reads from the arguments of an entry admitted for a value (Remap), per value set
MCRemap3 == [a |-> "b", b |-> "c", c |-> None]
MCRemap2 == [a |-> "b", b |-> None]
MCRemap1 == [b |-> None]
\* where a user slot may panic while a request is served (Points)
MCPoints0 == {"none"}
MCPointsAll == {"none", "chk", "sb", "sa", "cb", "ca"}
MCPointsStat == {"none", "sb", "sa", "cb"}

Emit == PrintT(ToJson(h'))

\* Schedule enumeration (K >= 1): with VIEW hview every history is a state of its own, so TLC generates EVERY
\* interleaving of the check / record / exit steps of MaxOps callers (not one history per abstract state: the real
\* code may keep more state than the design - e.g. which cells exist - so different schedules reaching the same
\* design state are different tests).  NoNone restricts the callers to requests that carry the selected argument.
hview  == vars
NoNone == \A i \in DOMAIN h' : "v" \in DOMAIN h'[i] => h'[i].v # None
=============================================================================
