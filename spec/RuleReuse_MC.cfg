SPECIFICATION Spec
CONSTANTS
  Toks <- MCToks
  StatClass <- MCStat
  Watched = "X"
  MaxLen = 3
  MaxTraffic = 2
  Reuse = "statement"
  TripAge = 1
  Paths = {"whole", "wholeOther", "res"}
  Norm <- MCNorm
  Defaulting = {}
VIEW view
INVARIANTS ReloadInvisible SamePresence ReuseRespected IdentityIsCallerTuple
CHECK_DEADLOCK FALSE
