SPECIFICATION Spec
CONSTANTS
  Toks <- MCToks
  StatClass <- MCStat
  Watched = "X"
  MaxLen = 3
  MaxTraffic = 2
  Reuse = "statement"
VIEW view
INVARIANTS ReloadInvisible SamePresence ReuseRespected
CHECK_DEADLOCK FALSE
