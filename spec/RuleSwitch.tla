------------------------------ MODULE RuleSwitch ------------------------------
(***************************************************************************)
(* Rule switch under live traffic (second sentence of property C15).       *)
(* The rule list of a resource is a list of two rules; version k of the    *)
(* list is <<[k, blocks], [k, passes]>> for even k and the two swapped for *)
(* odd k: exactly one rule of every version blocks every request, so a     *)
(* request decided ENTIRELY by one version is blocked with that version's  *)
(* marker, while a request that saw rules of two versions (or an empty     *)
(* list) can pass.  The loader installs versions 2..K; NR requesters take  *)
(* the read lock, obtain the list, release the lock, then evaluate the two *)
(* rules one after the other.                                              *)
(*   Swap = TRUE : the loader builds a NEW list and swaps the reference    *)
(*                 under the write lock (what the rule managers do)        *)
(*   Swap = FALSE: spec-level mutant - the loader overwrites the cells of  *)
(*                 the list in place (under the write lock), so a request  *)
(*                 that already released the read lock evaluates a mixture *)
(* OldOrNew: every decision is the decision of one version that was        *)
(* current at some instant between the request's invocation and return.    *)
(***************************************************************************)
EXTENDS Integers, Sequences, FiniteSets, TLC

CONSTANTS K, NR, Swap

Blocks(k, pos) == IF k % 2 = 0 THEN pos = 1 ELSE pos = 2
Version(k) == <<[k |-> k, pos |-> 1], [k |-> k, pos |-> 2]>>

(* --algorithm RuleSwitch {
variables
    heap = (1 :> Version(1)),      \* list objects: id -> list of two rule cells
    cur = 1,                       \* the resource's current list object
    lock = 0,                      \* 0 free, -1 writer, n > 0 readers
    seq = 0,
    loads = (1 :> [ls |-> 0, le |-> 0]),
    done = {};                     \* completed requests [inv, ret, pass, marker]

define {
    \* version k may have been current at some instant in (loads[k].ls, loads[k+1].le)
    CurrentDuring(k, inv, ret) ==
        /\ k \in DOMAIN loads /\ loads[k].ls < ret
        /\ (k + 1 \in DOMAIN loads /\ loads[k+1].le # 0) => inv < loads[k+1].le
    OldOrNew == \A r \in done : ~r.pass /\ CurrentDuring(r.marker, r.inv, r.ret)
}

process (loader = 0)
variable k = 2;
{
  l_begin: while (k <= K) {
      seq := seq + 1; loads := loads @@ (k :> [ls |-> seq + 1, le |-> 0]);
  l_lock:  await lock = 0; lock := -1;
  l_w1:    if (Swap) { heap := heap @@ (k :> Version(k)); cur := k; }
           else { heap[cur][1] := [k |-> k, pos |-> 1]; };
  l_w2:    if (~Swap) { heap[cur][2] := [k |-> k, pos |-> 2]; };
  l_unlock: lock := 0; seq := seq + 1; loads[k].le := seq + 1; k := k + 1;
  }
}

process (r \in 1..NR)
variables inv = 0, obj = 0, c1 = [k |-> 0, pos |-> 0];
{
  r_inv:   seq := seq + 1; inv := seq + 1;
  r_lock:  await lock >= 0; lock := lock + 1;
  r_snap:  obj := cur; lock := lock - 1;          \* the list is obtained under the read lock, evaluated outside
  r_rule1: c1 := heap[obj][1];
           if (Blocks(c1.k, c1.pos)) {
               seq := seq + 1; done := done \cup {[inv |-> inv, ret |-> seq + 1, pass |-> FALSE, marker |-> c1.k]}; goto Done; };
  r_rule2: seq := seq + 1;
           with (c2 = heap[obj][2]) {
               done := done \cup {[inv |-> inv, ret |-> seq + 1, pass |-> ~Blocks(c2.k, c2.pos), marker |-> c2.k]};
           };
}
} *)
\* BEGIN TRANSLATION (chksum(pcal) = "66414f0" /\ chksum(tla) = "83075089")
VARIABLES pc, heap, cur, lock, seq, loads, done

(* define statement *)
CurrentDuring(k, inv, ret) ==
    /\ k \in DOMAIN loads /\ loads[k].ls < ret
    /\ (k + 1 \in DOMAIN loads /\ loads[k+1].le # 0) => inv < loads[k+1].le
OldOrNew == \A r \in done : ~r.pass /\ CurrentDuring(r.marker, r.inv, r.ret)

VARIABLES k, inv, obj, c1

vars == << pc, heap, cur, lock, seq, loads, done, k, inv, obj, c1 >>

ProcSet == {0} \cup (1..NR)

Init == (* Global variables *)
        /\ heap = (1 :> Version(1))
        /\ cur = 1
        /\ lock = 0
        /\ seq = 0
        /\ loads = (1 :> [ls |-> 0, le |-> 0])
        /\ done = {}
        (* Process loader *)
        /\ k = 2
        (* Process r *)
        /\ inv = [self \in 1..NR |-> 0]
        /\ obj = [self \in 1..NR |-> 0]
        /\ c1 = [self \in 1..NR |-> [k |-> 0, pos |-> 0]]
        /\ pc = [self \in ProcSet |-> CASE self = 0 -> "l_begin"
                                        [] self \in 1..NR -> "r_inv"]

l_begin == /\ pc[0] = "l_begin"
           /\ IF k <= K
                 THEN /\ seq' = seq + 1
                      /\ loads' = loads @@ (k :> [ls |-> seq' + 1, le |-> 0])
                      /\ pc' = [pc EXCEPT ![0] = "l_lock"]
                 ELSE /\ pc' = [pc EXCEPT ![0] = "Done"]
                      /\ UNCHANGED << seq, loads >>
           /\ UNCHANGED << heap, cur, lock, done, k, inv, obj, c1 >>

l_lock == /\ pc[0] = "l_lock"
          /\ lock = 0
          /\ lock' = -1
          /\ pc' = [pc EXCEPT ![0] = "l_w1"]
          /\ UNCHANGED << heap, cur, seq, loads, done, k, inv, obj, c1 >>

l_w1 == /\ pc[0] = "l_w1"
        /\ IF Swap
              THEN /\ heap' = heap @@ (k :> Version(k))
                   /\ cur' = k
              ELSE /\ heap' = [heap EXCEPT ![cur][1] = [k |-> k, pos |-> 1]]
                   /\ cur' = cur
        /\ pc' = [pc EXCEPT ![0] = "l_w2"]
        /\ UNCHANGED << lock, seq, loads, done, k, inv, obj, c1 >>

l_w2 == /\ pc[0] = "l_w2"
        /\ IF ~Swap
              THEN /\ heap' = [heap EXCEPT ![cur][2] = [k |-> k, pos |-> 2]]
              ELSE /\ TRUE
                   /\ heap' = heap
        /\ pc' = [pc EXCEPT ![0] = "l_unlock"]
        /\ UNCHANGED << cur, lock, seq, loads, done, k, inv, obj, c1 >>

l_unlock == /\ pc[0] = "l_unlock"
            /\ lock' = 0
            /\ seq' = seq + 1
            /\ loads' = [loads EXCEPT ![k].le = seq' + 1]
            /\ k' = k + 1
            /\ pc' = [pc EXCEPT ![0] = "l_begin"]
            /\ UNCHANGED << heap, cur, done, inv, obj, c1 >>

loader == l_begin \/ l_lock \/ l_w1 \/ l_w2 \/ l_unlock

r_inv(self) == /\ pc[self] = "r_inv"
               /\ seq' = seq + 1
               /\ inv' = [inv EXCEPT ![self] = seq' + 1]
               /\ pc' = [pc EXCEPT ![self] = "r_lock"]
               /\ UNCHANGED << heap, cur, lock, loads, done, k, obj, c1 >>

r_lock(self) == /\ pc[self] = "r_lock"
                /\ lock >= 0
                /\ lock' = lock + 1
                /\ pc' = [pc EXCEPT ![self] = "r_snap"]
                /\ UNCHANGED << heap, cur, seq, loads, done, k, inv, obj, c1 >>

r_snap(self) == /\ pc[self] = "r_snap"
                /\ obj' = [obj EXCEPT ![self] = cur]
                /\ lock' = lock - 1
                /\ pc' = [pc EXCEPT ![self] = "r_rule1"]
                /\ UNCHANGED << heap, cur, seq, loads, done, k, inv, c1 >>

r_rule1(self) == /\ pc[self] = "r_rule1"
                 /\ c1' = [c1 EXCEPT ![self] = heap[obj[self]][1]]
                 /\ IF Blocks(c1'[self].k, c1'[self].pos)
                       THEN /\ seq' = seq + 1
                            /\ done' = (done \cup {[inv |-> inv[self], ret |-> seq' + 1, pass |-> FALSE, marker |-> c1'[self].k]})
                            /\ pc' = [pc EXCEPT ![self] = "Done"]
                       ELSE /\ pc' = [pc EXCEPT ![self] = "r_rule2"]
                            /\ UNCHANGED << seq, done >>
                 /\ UNCHANGED << heap, cur, lock, loads, k, inv, obj >>

r_rule2(self) == /\ pc[self] = "r_rule2"
                 /\ seq' = seq + 1
                 /\ LET c2 == heap[obj[self]][2] IN
                      done' = (done \cup {[inv |-> inv[self], ret |-> seq' + 1, pass |-> ~Blocks(c2.k, c2.pos), marker |-> c2.k]})
                 /\ pc' = [pc EXCEPT ![self] = "Done"]
                 /\ UNCHANGED << heap, cur, lock, loads, k, inv, obj, c1 >>

r(self) == r_inv(self) \/ r_lock(self) \/ r_snap(self) \/ r_rule1(self)
              \/ r_rule2(self)

(* Allow infinite stuttering to prevent deadlock on termination. *)
Terminating == /\ \A self \in ProcSet: pc[self] = "Done"
               /\ UNCHANGED vars

Next == loader
           \/ (\E self \in 1..NR: r(self))
           \/ Terminating

Spec == Init /\ [][Next]_vars

Termination == <>(\A self \in ProcSet: pc[self] = "Done")

\* END TRANSLATION 
=============================================================================
