------------------------------ MODULE RuleSwitch ------------------------------
(***************************************************************************)
(* Rule switch under live traffic (second sentence of property C15).       *)
(* The rule list of a resource is a list of two rules; version k of the    *)
(* list is <<[k, blocks], [k, passes]>> for even k and the two swapped for *)
(* odd k: exactly one rule of every version blocks every request, so a     *)
(* request decided ENTIRELY by one version is blocked with that version's  *)
(* marker, while a request that saw rules of two versions (or an empty     *)
(* list) can pass.  The loader installs versions 2..K; NR requesters take  *)
(* the read lock, obtain the list, release the lock, then evaluate the two *)
(* rules one after the other.                                              *)
(*   Swap = TRUE : the loader builds a NEW list and swaps the reference    *)
(*                 under the write lock (what the rule managers do)        *)
(*   Swap = FALSE: spec-level mutant - the loader overwrites the cells of  *)
(*                 the list in place (under the write lock), so a request  *)
(*                 that already released the read lock evaluates a mixture *)
(* OldOrNew: every decision is the decision of one version that was        *)
(* current at some instant between the request's invocation and return.    *)
(*                                                                         *)
(* FIRST USE.  A rule decides by comparing a number kept in the resource's *)
(* STATISTIC OBJECT with its threshold ("admit while count + 1 <= thr"),   *)
(* and every admitted request is counted on the statistic object it was    *)
(* given.  The statistic object of a resource is created ON DEMAND by its  *)
(* first user - a request, or a loader binding a rule to it: look the      *)
(* resource up in the registry (read-locked); on a miss enter the write    *)
(* section, look again, and only if it is still missing create and         *)
(* register a new object.                                                  *)
(*   Fresh = TRUE : the resource has never been seen: no statistic object, *)
(*                  no rules; the loader installs versions 1..K whose      *)
(*                  limiting rule has threshold T + k - 1, racing with the *)
(*                  first requests of the resource.                        *)
(*   Bind = "load": the rule reads the object the LOADER obtained when it  *)
(*                  built the list (flow rules; a later version reuses the *)
(*                  object bound to the version in force)                  *)
(*   Bind = "req" : the rule reads the object the REQUEST was given        *)
(*                  (isolation: concurrency of the request's own node)     *)
(*   Recheck = FALSE: spec-level mutant "two creators both install" - the  *)
(*                  second look inside the write section is skipped, so    *)
(*                  two first users both register an object and the first  *)
(*                  one is orphaned.                                       *)
(* After every racing process has finished, a prober issues P sequential   *)
(* requests.  Enforced: each of them is admitted iff the number of         *)
(* requests admitted so far + 1 <= the threshold of the version in force;  *)
(* StatAgrees: at quiescence the registered statistic object shows exactly *)
(* the admitted requests.                                                  *)
(***************************************************************************)
EXTENDS Integers, Sequences, FiniteSets, TLC

CONSTANTS K, NR, Swap, Fresh, Recheck, Bind, T, P

Inf == 1000                                   \* threshold of a rule that admits everything
Blocks(k, pos) == IF k % 2 = 0 THEN pos = 1 ELSE pos = 2
\* the rule at position pos of version k, reading statistic object st (0 = the request's own object)
Cell(k, pos, st) == [k |-> k, pos |-> pos, stat |-> st,
                     thr |-> IF Fresh THEN (IF pos = 1 THEN T + k - 1 ELSE Inf)
                                      ELSE (IF Blocks(k, pos) THEN 0 ELSE Inf)]
Version(k, st) == <<Cell(k, 1, st), Cell(k, 2, st)>>
\* the threshold enforced by version k as a whole (version 0 = no rules)
Limit(k) == IF k = 0 THEN Inf
            ELSE IF Cell(k, 1, 0).thr < Cell(k, 2, 0).thr THEN Cell(k, 1, 0).thr ELSE Cell(k, 2, 0).thr
First == IF Fresh THEN 0 ELSE 1               \* the version in force before the loader starts
\* the admission rule shared with RuleSwitch_Trace: a rule with threshold thr rejects when n are counted
Rejects(n, thr) == n + 1 > thr
NoCell == [k |-> 0, pos |-> 0, stat |-> 0, thr |-> 0]

(* --algorithm RuleSwitch {
variables
    heap = IF Fresh THEN (0 :> << >>) ELSE (1 :> Version(1, 1)),   \* list objects: id -> list of rule cells
    cur = First,                   \* the resource's current list object
    lock = 0,                      \* 0 free, -1 writer, n > 0 readers
    seq = 0,
    loads = (First :> [ls |-> 0, le |-> 0]),
    done = {},                     \* completed requests [inv, ret, pass, marker]
    reg = IF Fresh THEN 0 ELSE 1,  \* registry: the statistic object registered for the resource (0 = none)
    nn = IF Fresh THEN 0 ELSE 1,   \* statistic objects created so far
    cnt = [i \in 1..(NR + 2) |-> 0],   \* statistic object -> requests counted on it
    admitted = 0,                  \* requests admitted so far (what the statistic SHOULD show)
    probes = << >>;                \* sequential requests after quiescence [pass, before, k]

define {
    \* version k may have been current at some instant in (loads[k].ls, loads[k+1].le)
    CurrentDuring(k, inv, ret) ==
        /\ k \in DOMAIN loads /\ loads[k].ls < ret
        /\ (k + 1 \in DOMAIN loads /\ loads[k+1].le # 0) => inv < loads[k+1].le
    OldOrNew == \A r \in done : ~r.pass /\ CurrentDuring(r.marker, r.inv, r.ret)
    \* does rule cell c reject a request that was given statistic object mine
    CellRejects(c, mine) == Rejects(cnt[IF c.stat = 0 THEN mine ELSE c.stat], c.thr)
    ListAdmits(lst, mine) == \A i \in 1..Len(lst) : ~CellRejects(lst[i], mine)
    Quiescent == \A i \in 0..NR : pc[i] = "Done"
    Enforced == \A i \in 1..Len(probes) : probes[i].pass <=> ~Rejects(probes[i].before, Limit(probes[i].k))
    StatAgrees == Quiescent => (reg # 0 /\ cnt[reg] = admitted)
    OneObject == nn <= 1
}

process (loader = 0)
variables k = First + 1, st = 0;
{
  l_begin: while (k <= K) {
      seq := seq + 1; loads := loads @@ (k :> [ls |-> seq + 1, le |-> 0]);
  l_bind:  \* build the new list outside the rule lock: bind its rules to a statistic object
           if (Bind = "req") { st := 0; }
           else if (Len(heap[cur]) > 0) { st := heap[cur][1].stat; }     \* reuse the object of the list in force
           else { st := reg; };                                           \* first look (read-locked)
           if (Bind = "req" \/ st # 0) { goto l_lock; };
  l_store: if (Recheck /\ reg # 0) { st := reg; }                         \* write section: second look
           else { nn := nn + 1; reg := nn; st := nn; };
  l_lock:  await lock = 0; lock := -1;
  l_w1:    if (Swap) { heap := heap @@ (k :> Version(k, st)); cur := k; }
           else { heap[cur][1] := Cell(k, 1, st); };
  l_w2:    if (~Swap) { heap[cur][2] := Cell(k, 2, st); };
  l_unlock: lock := 0; seq := seq + 1; loads[k].le := seq + 1; k := k + 1;
  }
}

process (r \in 1..NR)
variables inv = 0, obj = 0, c1 = NoCell, mine = 0;
{
  r_inv:   seq := seq + 1; inv := seq + 1;
  r_look:  mine := reg;                           \* first use: look the statistic object up (read-locked)
           if (mine # 0) { goto r_lock; };
  r_store: if (Recheck /\ reg # 0) { mine := reg; }                       \* write section: second look
           else { nn := nn + 1; reg := nn; mine := nn; };
  r_lock:  await lock >= 0; lock := lock + 1;
  r_snap:  obj := cur; lock := lock - 1;          \* the list is obtained under the read lock, evaluated outside
  r_rule1: if (Len(heap[obj]) = 0) { goto r_pass; }
           else {
               c1 := heap[obj][1];
               if (CellRejects(c1, mine)) {
                   seq := seq + 1; done := done \cup {[inv |-> inv, ret |-> seq + 1, pass |-> FALSE, marker |-> c1.k]}; goto Done; };
           };
  r_rule2: if (CellRejects(heap[obj][2], mine)) {
               seq := seq + 1; done := done \cup {[inv |-> inv, ret |-> seq + 1, pass |-> FALSE, marker |-> heap[obj][2].k]}; goto Done; };
  r_pass:  \* admitted: counted on the statistic object the request was given
           cnt[mine] := cnt[mine] + 1; admitted := admitted + 1;
           seq := seq + 1;
           done := done \cup {[inv |-> inv, ret |-> seq + 1, pass |-> TRUE, marker |-> IF Len(heap[obj]) = 0 THEN 0 ELSE heap[obj][2].k]};
}

process (prober = NR + 1)
variable pi = 1;
{
  p_wait:  await Quiescent;
  p_probe: while (pi <= P) {
               \* one sequential request (nothing else runs): registered object, list in force, count
               probes := Append(probes, [pass |-> ListAdmits(heap[cur], reg), before |-> admitted, k |-> IF Len(heap[cur]) = 0 THEN 0 ELSE heap[cur][1].k]);
               if (ListAdmits(heap[cur], reg)) { cnt[reg] := cnt[reg] + 1; admitted := admitted + 1; };
               pi := pi + 1;
           }
}
} *)
\* BEGIN TRANSLATION (chksum(pcal) = "3e297a4c" /\ chksum(tla) = "8ca339d3")
VARIABLES pc, heap, cur, lock, seq, loads, done, reg, nn, cnt, admitted, 
          probes

(* define statement *)
CurrentDuring(k, inv, ret) ==
    /\ k \in DOMAIN loads /\ loads[k].ls < ret
    /\ (k + 1 \in DOMAIN loads /\ loads[k+1].le # 0) => inv < loads[k+1].le
OldOrNew == \A r \in done : ~r.pass /\ CurrentDuring(r.marker, r.inv, r.ret)

CellRejects(c, mine) == Rejects(cnt[IF c.stat = 0 THEN mine ELSE c.stat], c.thr)
ListAdmits(lst, mine) == \A i \in 1..Len(lst) : ~CellRejects(lst[i], mine)
Quiescent == \A i \in 0..NR : pc[i] = "Done"
Enforced == \A i \in 1..Len(probes) : probes[i].pass <=> ~Rejects(probes[i].before, Limit(probes[i].k))
StatAgrees == Quiescent => (reg # 0 /\ cnt[reg] = admitted)
OneObject == nn <= 1

VARIABLES k, st, inv, obj, c1, mine, pi

vars == << pc, heap, cur, lock, seq, loads, done, reg, nn, cnt, admitted, 
           probes, k, st, inv, obj, c1, mine, pi >>

ProcSet == {0} \cup (1..NR) \cup {NR + 1}

Init == (* Global variables *)
        /\ heap = IF Fresh THEN (0 :> << >>) ELSE (1 :> Version(1, 1))
        /\ cur = First
        /\ lock = 0
        /\ seq = 0
        /\ loads = (First :> [ls |-> 0, le |-> 0])
        /\ done = {}
        /\ reg = IF Fresh THEN 0 ELSE 1
        /\ nn = IF Fresh THEN 0 ELSE 1
        /\ cnt = [i \in 1..(NR + 2) |-> 0]
        /\ admitted = 0
        /\ probes = << >>
        (* Process loader *)
        /\ k = First + 1
        /\ st = 0
        (* Process r *)
        /\ inv = [self \in 1..NR |-> 0]
        /\ obj = [self \in 1..NR |-> 0]
        /\ c1 = [self \in 1..NR |-> NoCell]
        /\ mine = [self \in 1..NR |-> 0]
        (* Process prober *)
        /\ pi = 1
        /\ pc = [self \in ProcSet |-> CASE self = 0 -> "l_begin"
                                        [] self \in 1..NR -> "r_inv"
                                        [] self = NR + 1 -> "p_wait"]

l_begin == /\ pc[0] = "l_begin"
           /\ IF k <= K
                 THEN /\ seq' = seq + 1
                      /\ loads' = loads @@ (k :> [ls |-> seq' + 1, le |-> 0])
                      /\ pc' = [pc EXCEPT ![0] = "l_bind"]
                 ELSE /\ pc' = [pc EXCEPT ![0] = "Done"]
                      /\ UNCHANGED << seq, loads >>
           /\ UNCHANGED << heap, cur, lock, done, reg, nn, cnt, admitted, 
                           probes, k, st, inv, obj, c1, mine, pi >>

l_bind == /\ pc[0] = "l_bind"
          /\ IF Bind = "req"
                THEN /\ st' = 0
                ELSE /\ IF Len(heap[cur]) > 0
                           THEN /\ st' = heap[cur][1].stat
                           ELSE /\ st' = reg
          /\ IF Bind = "req" \/ st' # 0
                THEN /\ pc' = [pc EXCEPT ![0] = "l_lock"]
                ELSE /\ pc' = [pc EXCEPT ![0] = "l_store"]
          /\ UNCHANGED << heap, cur, lock, seq, loads, done, reg, nn, cnt, 
                          admitted, probes, k, inv, obj, c1, mine, pi >>

l_store == /\ pc[0] = "l_store"
           /\ IF Recheck /\ reg # 0
                 THEN /\ st' = reg
                      /\ UNCHANGED << reg, nn >>
                 ELSE /\ nn' = nn + 1
                      /\ reg' = nn'
                      /\ st' = nn'
           /\ pc' = [pc EXCEPT ![0] = "l_lock"]
           /\ UNCHANGED << heap, cur, lock, seq, loads, done, cnt, admitted, 
                           probes, k, inv, obj, c1, mine, pi >>

l_lock == /\ pc[0] = "l_lock"
          /\ lock = 0
          /\ lock' = -1
          /\ pc' = [pc EXCEPT ![0] = "l_w1"]
          /\ UNCHANGED << heap, cur, seq, loads, done, reg, nn, cnt, admitted, 
                          probes, k, st, inv, obj, c1, mine, pi >>

l_w1 == /\ pc[0] = "l_w1"
        /\ IF Swap
              THEN /\ heap' = heap @@ (k :> Version(k, st))
                   /\ cur' = k
              ELSE /\ heap' = [heap EXCEPT ![cur][1] = Cell(k, 1, st)]
                   /\ cur' = cur
        /\ pc' = [pc EXCEPT ![0] = "l_w2"]
        /\ UNCHANGED << lock, seq, loads, done, reg, nn, cnt, admitted, probes, 
                        k, st, inv, obj, c1, mine, pi >>

l_w2 == /\ pc[0] = "l_w2"
        /\ IF ~Swap
              THEN /\ heap' = [heap EXCEPT ![cur][2] = Cell(k, 2, st)]
              ELSE /\ TRUE
                   /\ heap' = heap
        /\ pc' = [pc EXCEPT ![0] = "l_unlock"]
        /\ UNCHANGED << cur, lock, seq, loads, done, reg, nn, cnt, admitted, 
                        probes, k, st, inv, obj, c1, mine, pi >>

l_unlock == /\ pc[0] = "l_unlock"
            /\ lock' = 0
            /\ seq' = seq + 1
            /\ loads' = [loads EXCEPT ![k].le = seq' + 1]
            /\ k' = k + 1
            /\ pc' = [pc EXCEPT ![0] = "l_begin"]
            /\ UNCHANGED << heap, cur, done, reg, nn, cnt, admitted, probes, 
                            st, inv, obj, c1, mine, pi >>

loader == l_begin \/ l_bind \/ l_store \/ l_lock \/ l_w1 \/ l_w2
             \/ l_unlock

r_inv(self) == /\ pc[self] = "r_inv"
               /\ seq' = seq + 1
               /\ inv' = [inv EXCEPT ![self] = seq' + 1]
               /\ pc' = [pc EXCEPT ![self] = "r_look"]
               /\ UNCHANGED << heap, cur, lock, loads, done, reg, nn, cnt, 
                               admitted, probes, k, st, obj, c1, mine, pi >>

r_look(self) == /\ pc[self] = "r_look"
                /\ mine' = [mine EXCEPT ![self] = reg]
                /\ IF mine'[self] # 0
                      THEN /\ pc' = [pc EXCEPT ![self] = "r_lock"]
                      ELSE /\ pc' = [pc EXCEPT ![self] = "r_store"]
                /\ UNCHANGED << heap, cur, lock, seq, loads, done, reg, nn, 
                                cnt, admitted, probes, k, st, inv, obj, c1, pi >>

r_store(self) == /\ pc[self] = "r_store"
                 /\ IF Recheck /\ reg # 0
                       THEN /\ mine' = [mine EXCEPT ![self] = reg]
                            /\ UNCHANGED << reg, nn >>
                       ELSE /\ nn' = nn + 1
                            /\ reg' = nn'
                            /\ mine' = [mine EXCEPT ![self] = nn']
                 /\ pc' = [pc EXCEPT ![self] = "r_lock"]
                 /\ UNCHANGED << heap, cur, lock, seq, loads, done, cnt, 
                                 admitted, probes, k, st, inv, obj, c1, pi >>

r_lock(self) == /\ pc[self] = "r_lock"
                /\ lock >= 0
                /\ lock' = lock + 1
                /\ pc' = [pc EXCEPT ![self] = "r_snap"]
                /\ UNCHANGED << heap, cur, seq, loads, done, reg, nn, cnt, 
                                admitted, probes, k, st, inv, obj, c1, mine, 
                                pi >>

r_snap(self) == /\ pc[self] = "r_snap"
                /\ obj' = [obj EXCEPT ![self] = cur]
                /\ lock' = lock - 1
                /\ pc' = [pc EXCEPT ![self] = "r_rule1"]
                /\ UNCHANGED << heap, cur, seq, loads, done, reg, nn, cnt, 
                                admitted, probes, k, st, inv, c1, mine, pi >>

r_rule1(self) == /\ pc[self] = "r_rule1"
                 /\ IF Len(heap[obj[self]]) = 0
                       THEN /\ pc' = [pc EXCEPT ![self] = "r_pass"]
                            /\ UNCHANGED << seq, done, c1 >>
                       ELSE /\ c1' = [c1 EXCEPT ![self] = heap[obj[self]][1]]
                            /\ IF CellRejects(c1'[self], mine[self])
                                  THEN /\ seq' = seq + 1
                                       /\ done' = (done \cup {[inv |-> inv[self], ret |-> seq' + 1, pass |-> FALSE, marker |-> c1'[self].k]})
                                       /\ pc' = [pc EXCEPT ![self] = "Done"]
                                  ELSE /\ pc' = [pc EXCEPT ![self] = "r_rule2"]
                                       /\ UNCHANGED << seq, done >>
                 /\ UNCHANGED << heap, cur, lock, loads, reg, nn, cnt, 
                                 admitted, probes, k, st, inv, obj, mine, pi >>

r_rule2(self) == /\ pc[self] = "r_rule2"
                 /\ IF CellRejects(heap[obj[self]][2], mine[self])
                       THEN /\ seq' = seq + 1
                            /\ done' = (done \cup {[inv |-> inv[self], ret |-> seq' + 1, pass |-> FALSE, marker |-> heap[obj[self]][2].k]})
                            /\ pc' = [pc EXCEPT ![self] = "Done"]
                       ELSE /\ pc' = [pc EXCEPT ![self] = "r_pass"]
                            /\ UNCHANGED << seq, done >>
                 /\ UNCHANGED << heap, cur, lock, loads, reg, nn, cnt, 
                                 admitted, probes, k, st, inv, obj, c1, mine, 
                                 pi >>

r_pass(self) == /\ pc[self] = "r_pass"
                /\ cnt' = [cnt EXCEPT ![mine[self]] = cnt[mine[self]] + 1]
                /\ admitted' = admitted + 1
                /\ seq' = seq + 1
                /\ done' = (done \cup {[inv |-> inv[self], ret |-> seq' + 1, pass |-> TRUE, marker |-> IF Len(heap[obj[self]]) = 0 THEN 0 ELSE heap[obj[self]][2].k]})
                /\ pc' = [pc EXCEPT ![self] = "Done"]
                /\ UNCHANGED << heap, cur, lock, loads, reg, nn, probes, k, st, 
                                inv, obj, c1, mine, pi >>

r(self) == r_inv(self) \/ r_look(self) \/ r_store(self) \/ r_lock(self)
              \/ r_snap(self) \/ r_rule1(self) \/ r_rule2(self)
              \/ r_pass(self)

p_wait == /\ pc[NR + 1] = "p_wait"
          /\ Quiescent
          /\ pc' = [pc EXCEPT ![NR + 1] = "p_probe"]
          /\ UNCHANGED << heap, cur, lock, seq, loads, done, reg, nn, cnt, 
                          admitted, probes, k, st, inv, obj, c1, mine, pi >>

p_probe == /\ pc[NR + 1] = "p_probe"
           /\ IF pi <= P
                 THEN /\ probes' = Append(probes, [pass |-> ListAdmits(heap[cur], reg), before |-> admitted, k |-> IF Len(heap[cur]) = 0 THEN 0 ELSE heap[cur][1].k])
                      /\ IF ListAdmits(heap[cur], reg)
                            THEN /\ cnt' = [cnt EXCEPT ![reg] = cnt[reg] + 1]
                                 /\ admitted' = admitted + 1
                            ELSE /\ TRUE
                                 /\ UNCHANGED << cnt, admitted >>
                      /\ pi' = pi + 1
                      /\ pc' = [pc EXCEPT ![NR + 1] = "p_probe"]
                 ELSE /\ pc' = [pc EXCEPT ![NR + 1] = "Done"]
                      /\ UNCHANGED << cnt, admitted, probes, pi >>
           /\ UNCHANGED << heap, cur, lock, seq, loads, done, reg, nn, k, st, 
                           inv, obj, c1, mine >>

prober == p_wait \/ p_probe

(* Allow infinite stuttering to prevent deadlock on termination. *)
Terminating == /\ \A self \in ProcSet: pc[self] = "Done"
               /\ UNCHANGED vars

Next == loader \/ prober
           \/ (\E self \in 1..NR: r(self))
           \/ Terminating

Spec == Init /\ [][Next]_vars

Termination == <>(\A self \in ProcSet: pc[self] = "Done")

\* END TRANSLATION 
=============================================================================
