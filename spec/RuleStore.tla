------------------------------ MODULE RuleStore ------------------------------
(***************************************************************************)
(* Rule stores of sentinel-golang (core/{flow,isolation,hotspot,           *)
(* circuitbreaker,system,outlier}/rule_manager.go), property C13.          *)
(*                                                                         *)
(* A rule list is a sequence of ELEMENTS <<token, resource>>.  A token     *)
(* stands for the tuple of semantic fields of a rule (the optional ID is   *)
(* ignored by the modules); the conformance driver owns the token ->       *)
(* concrete rule table of each module.  <<"Nil", "-">> is a nil element.   *)
(* The store is generic in a MODULE DESCRIPTOR                             *)
(*     d = [perRes  : the module has a per-resource load,                  *)
(*          invalid : tokens rejected by the module's validity check,      *)
(*          rejects : a per-resource load containing an invalid rule is    *)
(*                    refused with an error (outlier),                     *)
(*          ordered : order inside a resource is observable,               *)
(*          near    : function from NEAR-EQUAL VARIANT tokens to the token *)
(*                    they differ from in exactly ONE field, and there only*)
(*                    slightly (a fractional threshold, +-1 on an integer  *)
(*                    field, a flipped enum)]                              *)
(* The identity of a rule is its FULL field tuple = its token: "R1" and    *)
(* its variant "R1a" are DIFFERENT rules, however close.  Reloading        *)
(* [R1] as [R1a] is not an identical reload, R1a must be in force and be   *)
(* reported afterwards and no controller may stay bound to R1.             *)
(*                                                                         *)
(* Two layers:                                                             *)
(*  - PROPERTY level (pure operators, first part): what the statement of   *)
(*    C13 demands after each operation: `want[r]' = the valid rules of the *)
(*    most recent load of r, in order; which reloads are "identical"; what *)
(*    a probing request must answer.  RuleStore_Trace judges recorded      *)
(*    executions of the real code with exactly these operators.            *)
(*  - DESIGN level (variables raw / enforced / reported and the actions):  *)
(*    the cache of the last accepted raw input used for unchanged-         *)
(*    detection, the grouped whole-set path and the per-resource path.     *)
(*    TLC checks that this design satisfies the property level for all     *)
(*    mixed sequences of whole-set / per-resource loads and clears.        *)
(***************************************************************************)
EXTENDS Integers, Sequences, FiniteSets, TLC

Tok(e)   == e[1]
ResOf(e) == e[2]
NilEl    == <<"Nil", "-">>
All      == "*"                 \* scope of a whole-set operation
None     == << <<"none", "none">> >>   \* "no list" (comparable with lists, equal to none that is ever loaded)

---------------------------------------------------------------------------
(* PROPERTY LEVEL                                                          *)

IsValidEl(d, e)     == Tok(e) \notin d.invalid
Restrict(list, r)   == SelectSeq(list, LAMBDA e : ResOf(e) = r)
\* the valid rules of `list' that name resource r, in order
ValidOf(d, list, r) == SelectSeq(list, LAMBDA e : ResOf(e) = r /\ IsValidEl(d, e))
HasInvalid(d, list) == \E i \in DOMAIN list : ~IsValidEl(d, list[i])

\* rules in force per resource after an APPLIED operation with scope sc (All or a resource)
WantAfter(d, want, sc, list) ==
    [r \in DOMAIN want |-> IF sc = All \/ sc = r THEN ValidOf(d, list, r) ELSE want[r]]

\* lastOf[scope] = the list most recently loaded for exactly that scope with nothing overlapping since
\* (None if there is no such list).  Clears and empty loads leave None: the statement's "identical
\* reload reports unchanged" is demanded for non-empty loads only (clears may report either).
LastAfter(lastOf, sc, list) ==
    LET v == IF list = << >> THEN None ELSE list IN
    [s \in DOMAIN lastOf |-> IF s = sc THEN v
                             ELSE IF sc = All \/ s = All THEN None
                             ELSE lastOf[s]]
Identical(lastOf, sc, list) == list # << >> /\ lastOf[sc] = list

\* near-equal variants: same base token (and, for elements, same resource) but not necessarily the same rule
BaseOf(d, t)    == IF t \in DOMAIN d.near THEN d.near[t] ELSE t
NearEq(d, a, b) == ResOf(a) = ResOf(b) /\ BaseOf(d, Tok(a)) = BaseOf(d, Tok(b))
\* elements of enf that are NOT demanded by w although a near-equal variant of them is: a controller that survived
\* a reload old -> near-equal new (the typical effect of a rule equality that looks at less than the full field tuple)
StaleVariants(d, enf, w) ==
    {enf[i] : i \in {j \in DOMAIN enf : /\ \A k \in DOMAIN w : w[k] # enf[j]
                                        /\ \E k \in DOMAIN w : NearEq(d, w[k], enf[j])}}

\* answers a probing request may get: `blocks' = tokens whose rule blocks that request.
\* The first enforced rule (in list order) that blocks is the one reported, if order is observable.
ProbeAnswers(d, enf, blocks) ==
    LET hits == SelectSeq(enf, LAMBDA e : Tok(e) \in blocks) IN
    IF hits = << >> THEN {"pass"}
    ELSE IF d.ordered THEN {Tok(hits[1])}
    ELSE {Tok(hits[i]) : i \in DOMAIN hits}

\* a probing request whose refusal cannot be attributed to a rule (outlier: node ejected or not): is it refused at all?
ProbeBlocked(enf, blocks) == \E i \in DOMAIN enf : Tok(enf[i]) \in blocks

\* reported list rep equals the enforced list enf (as a multiset where order is not observable)
RECURSIVE CountIn(_, _)
CountIn(s, x) == IF s = << >> THEN 0 ELSE (IF Head(s) = x THEN 1 ELSE 0) + CountIn(Tail(s), x)
SameRules(d, rep, enf) ==
    IF d.ordered THEN rep = enf
    ELSE Len(rep) = Len(enf) /\ \A i \in DOMAIN enf : CountIn(rep, enf[i]) = CountIn(enf, enf[i])

---------------------------------------------------------------------------
(* DESIGN LEVEL                                                            *)

CONSTANTS
    Descs,          \* set of module descriptors to explore
    Resources,      \* resource names
    Tokens,         \* rule tokens used in lists (valid and invalid ones; "Nil" is added)
    MaxLen,         \* bound on the length of a loaded list
    Mutant          \* "none", or the name of a deliberately broken variant (vacuity self-test)

VARIABLES
    d,          \* module descriptor (fixed by Init)
    raw,        \* last accepted raw input: scope key -> list            (partial function)
    enforced,   \* resource -> list of valid elements that govern traffic (partial function)
    reported,   \* what the getters return, same shape
    ret,        \* [changed, err] returned by the last operation
    want,       \* property level: resource -> demanded rules
    lastOf,     \* property level: scope -> last list loaded for it / None
    ident,      \* the last operation was an identical non-empty reload
    h           \* history of operations (scenario for the conformance driver; hidden by VIEW)

vars == <<d, raw, enforced, reported, ret, want, lastOf, ident, h>>
view == <<d, raw, enforced, reported, ret, want, lastOf, ident>>

Scopes   == Resources \cup {All}
Elements == (Tokens \X Resources) \cup {NilEl}
RECURSIVE SeqsUpTo(_, _)
SeqsUpTo(S, n) == IF n = 0 THEN {<< >>}
                  ELSE LET P == SeqsUpTo(S, n - 1) IN P \cup {Append(s, x) : s \in {q \in P : Len(q) = n - 1}, x \in S}
Lists == SeqsUpTo(Elements, MaxLen)

Get(f, r) == IF r \in DOMAIN f THEN f[r] ELSE << >>
Drop(f, r) == [x \in DOMAIN f \ {r} |-> f[x]]
Put(f, r, v) == [x \in DOMAIN f \cup {r} |-> IF x = r THEN v ELSE f[x]]

\* whole-set path: the list is grouped by the resource each rule names (nil elements under "-")
Keys(list)  == {ResOf(list[i]) : i \in DOMAIN list}
Group(list) == [r \in Keys(list) |-> Restrict(list, r)]
\* Controller reuse (buildResourceTrafficShapingController / BuildResourceCircuitBreaker): a rule of the new list that
\* EQUALS the rule an old controller of the resource is bound to keeps that controller - and with it the OLD rule
\* object; every other rule gets a new controller bound to itself.  Rule equality must be the full field tuple, i.e.
\* the token (so that Rebuild(old, new) = new).  Mutant "coarseReuse": the equality ignores the field in which
\* near-equal variants differ (e.g. compares thresholds as integers) - the old controller survives the reload.
CtlEq(old, new) == IF Mutant = "coarseReuse" THEN NearEq(d, old, new) ELSE old = new
RECURSIVE Rebuild(_, _)
Rebuild(old, new) ==
    IF new = << >> THEN << >>
    ELSE LET n == Head(new)
             c == IF \E j \in DOMAIN old : CtlEq(old[j], n) THEN old[CHOOSE j \in DOMAIN old : CtlEq(old[j], n)] ELSE n
         IN  <<c>> \o Rebuild(old, Tail(new))
\* unchanged-detection compares the raw input with the cached one, full field tuples again.  Mutant "coarseUnchanged":
\* the comparison is done with the coarse equality.
RECURSIVE CoarseList(_)
CoarseList(list) == IF list = << >> THEN << >>
                    ELSE << <<BaseOf(d, Tok(Head(list))), ResOf(Head(list))>> >> \o CoarseList(Tail(list))
SameInput(a, b) == IF Mutant = "coarseUnchanged"
                   THEN DOMAIN a = DOMAIN b /\ \A k \in DOMAIN a : CoarseList(a[k]) = CoarseList(b[k])
                   ELSE a = b
EnfOfGroup(g) ==
    LET V(r) == SelectSeq(g[r], LAMBDA e : IsValidEl(d, e)) IN
    [r \in {x \in DOMAIN g : V(x) # << >>} |-> Rebuild(Get(enforced, r), V(r))]
RepOfGroup(g) ==
    LET V(r) == SelectSeq(g[r], LAMBDA e : IsValidEl(d, e)) IN
    [r \in {x \in DOMAIN g : V(x) # << >>} |-> V(r)]

Init ==
    /\ d \in Descs
    /\ raw = << >> /\ enforced = << >> /\ reported = << >>
    /\ ret = [changed |-> FALSE, err |-> FALSE]
    /\ want = [r \in Resources |-> << >>]
    /\ lastOf = [s \in Scopes |-> None]
    /\ ident = FALSE
    /\ h = << >>

Log(op, sc, list) == h' = Append(h, [op |-> op, scope |-> sc, list |-> list])
\* the design's short-cut: nothing is rebuilt.  The property-level variables are ALWAYS updated from the
\* statement (Demand), so TLC checks that the short-cut is sound.
Unchanged == ret' = [changed |-> FALSE, err |-> FALSE] /\ UNCHANGED <<raw, enforced, reported>>
Demand(sc, list) == want' = WantAfter(d, want, sc, list) /\ lastOf' = LastAfter(lastOf, sc, list)

LoadAll(list) ==
    /\ Log("load", All, list)
    /\ ident' = Identical(lastOf, All, list)
    /\ UNCHANGED d
    /\ Demand(All, list)
    /\ LET g == Group(list) IN
       IF SameInput(g, raw) /\ Mutant # "neverUnchanged" THEN Unchanged
       ELSE /\ raw' = g
            /\ enforced' = EnfOfGroup(g)
            /\ reported' = RepOfGroup(g)
            /\ ret' = [changed |-> TRUE, err |-> FALSE]

\* the per-resource path of the list-based managers (a rule naming another resource is skipped)
LoadRes(r, list) ==
    /\ d.perRes
    /\ ~(d.rejects /\ HasInvalid(d, list))
    /\ Log("load", r, list)
    /\ ident' = Identical(lastOf, r, list)
    /\ UNCHANGED d
    /\ Demand(r, list)
    /\ IF list = << >>
       THEN /\ raw' = Drop(raw, r) /\ enforced' = Drop(enforced, r) /\ reported' = Drop(reported, r)
            /\ ret' = [changed |-> TRUE, err |-> FALSE]      \* an empty per-resource load always reports "changed"
       ELSE IF r \in DOMAIN raw /\ SameInput(<<list>>, <<raw[r]>>) THEN Unchanged
       ELSE LET v == ValidOf(d, list, r)
                \* Mutant "rawBuild": controllers are built from the raw list, the getter from the valid one
                e == Rebuild(Get(enforced, r), IF Mutant = "rawBuild" THEN Restrict(list, r) ELSE v)
            IN  /\ raw' = Put(raw, r, list)
                /\ enforced' = IF e = << >> THEN Drop(enforced, r) ELSE Put(enforced, r, e)
                /\ reported' = IF v = << >> THEN Drop(reported, r) ELSE Put(reported, r, v)
                /\ ret' = [changed |-> TRUE, err |-> FALSE]

\* a load that is refused with an error leaves its scope as it was (outlier, per-resource path)
RejectedLoad(r, list) ==
    /\ d.perRes /\ d.rejects /\ HasInvalid(d, list)
    /\ Log("load", r, list)
    /\ ident' = FALSE
    /\ ret' = [changed |-> TRUE, err |-> TRUE]
    /\ UNCHANGED <<d, raw, enforced, reported, want, lastOf>>

ClearAll ==
    /\ Log("clear", All, << >>)
    /\ ident' = FALSE
    /\ UNCHANGED d
    /\ Demand(All, << >>)
    /\ IF raw = << >> THEN Unchanged
       ELSE /\ raw' = << >> /\ reported' = << >>
            /\ enforced' = IF Mutant = "staleClear" THEN enforced ELSE << >>
            /\ ret' = [changed |-> TRUE, err |-> FALSE]

ClearRes(r) ==
    /\ d.perRes
    /\ Log("clear", r, << >>)
    /\ ident' = FALSE
    /\ UNCHANGED d
    /\ raw' = (IF Mutant = "wrongCache" THEN raw ELSE Drop(raw, r))
    /\ enforced' = Drop(enforced, r) /\ reported' = Drop(reported, r)
    /\ ret' = [changed |-> TRUE, err |-> FALSE]
    /\ Demand(r, << >>)

Next ==
    \/ \E list \in Lists : LoadAll(list)
    \/ \E r \in Resources, list \in Lists : LoadRes(r, list) \/ RejectedLoad(r, list)
    \/ ClearAll
    \/ \E r \in Resources : ClearRes(r)

Spec == Init /\ [][Next]_vars

---------------------------------------------------------------------------
(* The property (C13) on the design                                        *)

\* the rules in force are exactly the valid rules of the most recent load of each resource, in order;
\* other resources untouched (want changes only for the affected scope)
EnforcedIsLatestValid == \A r \in Resources : Get(enforced, r) = want[r]
NothingElseEnforced   == DOMAIN enforced \subseteq Resources /\ \A r \in DOMAIN enforced : enforced[r] # << >>
\* invalid rules are never in force
OnlyValidEnforced     == \A r \in DOMAIN enforced : \A i \in DOMAIN enforced[r] : IsValidEl(d, enforced[r][i])
\* the getters return exactly what is enforced
ReportedIsEnforced    == reported = enforced
\* no controller stays bound to a rule that is merely NEAR-EQUAL to the one that was loaded: after a reload old ->
\* near-equal new the new rule governs (implied by EnforcedIsLatestValid; named separately because it is the failure a
\* too coarse rule equality produces, and the trace spec reports it under this name)
NoStaleVariant        == \A r \in DOMAIN enforced : StaleVariants(d, enforced[r], want[r]) = {}
\* an identical (non-empty) reload reports "unchanged"
IdenticalReloadUnchanged == ident => (ret.changed = FALSE /\ ret.err = FALSE)
\* an operation that reports an error leaves everything as it was
ErrorMeansRejected == [][ret'.err => UNCHANGED <<raw, enforced, reported, want>>]_vars

TypeOK == /\ ret \in [changed : BOOLEAN, err : BOOLEAN]
          /\ DOMAIN want = Resources /\ DOMAIN lastOf = Scopes
=============================================================================
