------------------------------ MODULE RuleStore ------------------------------
(***************************************************************************)
(* Rule stores of sentinel-golang (core/{flow,isolation,hotspot,           *)
(* circuitbreaker,system,outlier}/rule_manager.go), property C13.          *)
(*                                                                         *)
(* A rule list is a sequence of ELEMENTS <<token, resource>>.  A token     *)
(* stands for the tuple of semantic fields of a rule (the optional ID is   *)
(* ignored by the modules); the conformance driver owns the token ->       *)
(* concrete rule table of each module.  <<"Nil", "-">> is a nil element.   *)
(* The store is generic in a MODULE DESCRIPTOR                             *)
(*     d = [perRes  : the module has a per-resource load,                  *)
(*          invalid : tokens rejected by the module's validity check,      *)
(*          rejects : a per-resource load containing an invalid rule is    *)
(*                    refused with an error (outlier),                     *)
(*          ordered : order inside a resource is observable,               *)
(*          near    : function from NEAR-EQUAL VARIANT tokens to the token *)
(*                    they differ from in exactly ONE field, and there only*)
(*                    slightly (a fractional threshold, +-1 on an integer  *)
(*                    field, a flipped enum; for a COMPOSITE field - a map *)
(*                    or list such as hotspot SpecificItems - ONE ENTRY:   *)
(*                    a key replaced in a map of the same size, an entry   *)
(*                    added / removed, one value changed, nil vs empty, a  *)
(*                    key of another type with the same spelling),         *)
(*          mod     : name of the module ("flow", "isolation", "hotspot",  *)
(*                    "circuitbreaker", "system", "outlier"; "any" where   *)
(*                    no parametric token is used),                        *)
(*          params  : function from PARAMETRIC tokens ("P1", "P2", ...) to *)
(*                    the RULE RECORD they stand for: the numeric fields   *)
(*                    of the module's rule type (see RULE PARAMETERS)]     *)
(* The identity of a rule is its FULL field tuple = its token: "R1" and    *)
(* its variant "R1a" are DIFFERENT rules, however close.  Reloading        *)
(* [R1] as [R1a] is not an identical reload, R1a must be in force and be   *)
(* reported afterwards and no controller may stay bound to R1.             *)
(*                                                                         *)
(* Two layers:                                                             *)
(*  - PROPERTY level (pure operators, first part): what the statement of   *)
(*    C13 demands after each operation: `want[r]' = the valid rules of the *)
(*    most recent load of r, in order; which reloads are "identical"; what *)
(*    a probing request must answer.  RuleStore_Trace judges recorded      *)
(*    executions of the real code with exactly these operators.            *)
(*  - DESIGN level (variables raw / enforced / reported and the actions):  *)
(*    the cache of the last accepted raw input used for unchanged-         *)
(*    detection, the grouped whole-set path and the per-resource path.     *)
(*    TLC checks that this design satisfies the property level for all     *)
(*    mixed sequences of whole-set / per-resource loads and clears.        *)
(***************************************************************************)
EXTENDS Integers, Sequences, FiniteSets, TLC

Tok(e)   == e[1]
ResOf(e) == e[2]
NilEl    == <<"Nil", "-">>
All      == "*"                 \* scope of a whole-set operation
None     == << <<"none", "none">> >>   \* "no list" (comparable with lists, equal to none that is ever loaded)

---------------------------------------------------------------------------
(* RULE PARAMETERS (property level)                                        *)
(*                                                                         *)
(* The clause "the rules in force are exactly the VALID rules of the most  *)
(* recent load" quantifies over every rule the module's validity check     *)
(* accepts, whatever its numbers.  A parametric token stands for a RULE    *)
(* RECORD: the numeric fields of the module's rule type, integers only     *)
(* (fractional fields in THOUSANDTHS: thr = 2500 is a threshold of 2.5);   *)
(* nores = the Resource field is empty.  ValidRule is the transcription of *)
(* IsValidRule / IsValidSystemRule of each module - it, not the driver,    *)
(* says which rules must be in force.                                      *)
(*   flow     [nores, tcs, cb, thr, rel, ref, intv, wup, wcf, mq,          *)
(*             lomem, himem, lowm, hiwm]                                   *)
(*   isolation[nores, mt, thr]                                             *)
(*   hotspot  [nores, mt, cb, idx, key, thr, burst, dur, cap, mq]          *)
(*   circuitbreaker [nores, strat, retry, minreq, intv, bc, maxrt, thr,    *)
(*             probenum]      outlier = the same + [nilrule, pct]          *)
(*   system   [mt, thr, strat]                                             *)

TotalMemory == 2147483647   \* water marks of the explored rules stay below the host's memory size (assumption)

ValidFlow(r) ==
    /\ ~r.nores
    /\ r.thr >= 0
    /\ r.tcs >= 0
    /\ r.cb >= 0
    /\ r.rel \in {0, 1}                          \* CurrentResource, AssociatedResource
    /\ (r.rel = 1 => r.ref)                      \* an associated resource must be named
    /\ (r.tcs = 1 => r.wup > 0 /\ r.wcf # 1)     \* WarmUp
    /\ (r.tcs = 2 => /\ r.lomem > 0 /\ r.himem > 0 /\ r.himem < r.lomem      \* MemoryAdaptive
                     /\ r.lowm > 0 /\ r.hiwm > 0 /\ r.hiwm <= TotalMemory /\ r.lowm < r.hiwm)
    \* (no clause on intv: EVERY StatIntervalInMs is valid)
ValidIsolation(r) == ~r.nores /\ r.mt = 0 /\ r.thr # 0
ValidHotspot(r) ==
    /\ ~r.nores
    /\ r.thr >= 0 /\ r.mt >= 0 /\ r.cb >= 0
    /\ (r.mt = 1 => r.dur > 0)                   \* QPS (metric types: 0 = Concurrency, 1 = QPS)
    /\ ~(r.idx > 0 /\ r.key)                     \* a positive index and a key exclude each other
    /\ (r.cb = 0 => r.burst >= 0)                \* Reject
    /\ (r.cb = 1 => r.mq >= 0)                   \* Throttling
ValidBreaker(r) ==
    /\ ~r.nores
    /\ r.intv > 0 /\ r.retry > 0 /\ r.thr >= 0
    /\ (r.strat \in {0, 1} => r.thr <= 1000)     \* ratios lie in [0, 1]
    \* (a bucket count that does not divide the interval is valid: it is replaced by 1)
ValidSystem(r)  == r.thr >= 0 /\ r.mt < 5 /\ (r.mt = 4 => r.thr <= 1000)
ValidOutlier(r) == ~r.nilrule /\ r.pct >= 0 /\ r.pct <= 1000 /\ ValidBreaker(r)
ValidRule(mod, r) ==
    CASE mod = "flow"           -> ValidFlow(r)
      [] mod = "isolation"      -> ValidIsolation(r)
      [] mod = "hotspot"        -> ValidHotspot(r)
      [] mod = "circuitbreaker" -> ValidBreaker(r)
      [] mod = "system"         -> ValidSystem(r)
      [] mod = "outlier"        -> ValidOutlier(r)

(* ENFORCEMENT.  A REQUEST PROBE starts on an idle resource (nothing in     *)
(* flight, every statistic window of its rules empty, a parameter value no  *)
(* rule has seen) and sends requests of b units at ONE instant, holding     *)
(* every admitted one until the probe ends.  Verdict = what a rule with     *)
(* exactly these parameters says to the next request: "refuse", "admit", or *)
(* "free" where this model does not determine it (warm-up between cold and  *)
(* warm, queueing behind an earlier queued request, BBR).                   *)
(*   g   = admitted by ALL rules so far: [units, flight]                    *)
(*   s   = let pass by THIS rule so far: [n, units, ahead, q]               *)
(*   env = system metrics during the probe: [load, cpu (thousandths), mem]  *)
G0 == [units |-> 0, flight |-> 0]
S0 == [n |-> 0, units |-> 0, ahead |-> 0, q |-> FALSE]
Crisp(c) == IF c THEN "refuse" ELSE "admit"

\* tokens a flow rule allows per statistic interval, thousandths; -1 = not determined here
FlowLimit(r, env) ==
    CASE r.tcs = 0 -> r.thr
      [] r.tcs = 2 -> IF env.mem <= r.lowm THEN r.lomem * 1000 ELSE IF env.mem >= r.hiwm THEN r.himem * 1000 ELSE -1
      [] OTHER     -> -1
ColdFactor(r)  == IF r.wcf <= 1 THEN 3 ELSE r.wcf
\* a warm-up rule whose token bucket is not degenerate allows between thr / cold factor (cold) and thr (warm)
WarmHealthy(r) == r.wup * (r.thr \div 1000) >= 1 + ColdFactor(r)
VFlow(r, env, g, s, b) ==
    \* what the rule's statistic has counted in this probe: the resource's own admitted units - except that a rule on an
    \* ASSOCIATED resource reads that resource's statistic (no traffic in a probe) when it shares the global statistic
    \* and its own traffic when it got a standalone one: between 0 and g.units
    LET lo == IF r.rel = 1 THEN 0 ELSE g.units
        hi == g.units
        T  == FlowLimit(r, env)
        I  == IF r.intv = 0 THEN 1000 ELSE r.intv
    IN  IF r.cb = 0 THEN                              \* Reject: the sum over the statistic interval may not exceed the limit
            IF r.tcs = 1 THEN IF WarmHealthy(r) /\ (lo + b) * 1000 > r.thr THEN "refuse"
                              ELSE IF hi + b + 1 <= r.thr \div (ColdFactor(r) * 1000) THEN "admit" ELSE "free"
            ELSE IF T < 0 THEN "free"
            ELSE IF (lo + b) * 1000 > T THEN "refuse" ELSE IF (hi + b) * 1000 <= T THEN "admit" ELSE "free"
        ELSE                                          \* Throttling: one request per interval * b / limit, queueing up to mq ms
            IF r.tcs = 1 THEN IF WarmHealthy(r) /\ b * 1000 > r.thr THEN "refuse" ELSE "free"
            ELSE IF T < 0 THEN "free"
            ELSE IF T = 0 \/ b * 1000 > T THEN "refuse"
            ELSE IF s.n = 0 THEN "admit"
            ELSE IF s.q \/ b > 100 THEN "free"
            ELSE LET w == (b * 1000 * I) \div T IN     \* whole ms the request would have to wait
                 IF w >= r.mq + 1 THEN "refuse" ELSE IF w + 1 <= r.mq THEN "admit" ELSE "free"
VIsolation(r, g, b) == Crisp(g.flight + b > r.thr)
HotWait(r, s, b) == s.ahead + (b * r.dur * 1000) \div r.thr
VHotspot(r, g, s, b) ==
    IF r.mt = 0 THEN Crisp(g.flight + 1 > r.thr)                      \* concurrency per parameter value
    ELSE IF r.thr <= 0 THEN "refuse"
    ELSE IF r.cb = 0 THEN Crisp(s.units + b > r.thr + r.burst)        \* token bucket of thr + burst
    ELSE IF s.n = 0 THEN "admit"                                      \* pacing: thr per dur seconds, queueing below mq ms
    ELSE Crisp(~(HotWait(r, s, b) <= 0 \/ HotWait(r, s, b) < r.mq))
VSystem(r, env, g) ==
    CASE r.mt = 0 -> IF env.load > r.thr THEN (IF r.strat = 1 THEN "free" ELSE "refuse") ELSE "admit"
      [] r.mt = 1 -> Crisp(r.thr = 0)                                 \* no completed request in the window: average RT 0
      [] r.mt = 2 -> Crisp(g.flight * 1000 >= r.thr)
      [] r.mt = 3 -> Crisp(g.units * 1000 >= r.thr)
      [] OTHER    -> IF env.cpu > r.thr THEN (IF r.strat = 1 THEN "free" ELSE "refuse") ELSE "admit"
Verdict(mod, r, env, g, s, b) ==
    CASE mod = "flow"      -> VFlow(r, env, g, s, b)
      [] mod = "isolation" -> VIsolation(r, g, b)
      [] mod = "hotspot"   -> VHotspot(r, g, s, b)
      [] mod = "system"    -> VSystem(r, env, g)
      [] OTHER             -> "free"
\* the rule's own state after it let a request of b units pass
PassBy(mod, r, s, b) ==
    [n |-> s.n + 1, units |-> s.units + b,
     ahead |-> IF mod = "hotspot" /\ r.mt = 1 /\ r.cb = 1 /\ r.thr > 0 /\ s.n > 0 THEN HotWait(r, s, b) ELSE 0,
     q |-> s.n >= 1]

\* A COMPLETION PROBE: n requests in flight together on an idle resource complete at one instant after rt ms, the last
\* `fails' of them with an error.  A breaker rule with these parameters trips iff at some completion i the request count
\* has reached MinRequestAmount and its ratio / count has reached the threshold ("enough failed completions -> open").
Trips(r, n, fails, rt) ==
    \E i \in 1..n :
        /\ i >= r.minreq
        /\ LET errs == IF i > n - fails THEN i - (n - fails) ELSE 0
               slow == IF rt > r.maxrt THEN i ELSE 0
           IN  CASE r.strat = 0 -> slow * 1000 >= r.thr * i
                 [] r.strat = 1 -> errs * 1000 >= r.thr * i
                 [] OTHER       -> errs * 1000 >= r.thr
\* outlier: the failing node (one of `nodes') is ejected iff its breaker tripped and the ejection quota allows one node
Ejects(r, n, fails, rt, nodes) == Trips(r, n, fails, rt) /\ (nodes * r.pct) \div 1000 >= 1

---------------------------------------------------------------------------
(* PROPERTY LEVEL                                                          *)

\* a token is valid unless the driver's table says it is not (I1.., Nil); a PARAMETRIC token is valid iff the module's own
\* validity predicate - transcribed below, ValidRule - accepts its rule record
IsParam(d, t)       == t \in DOMAIN d.params
IsValidEl(d, e)     == /\ Tok(e) \notin d.invalid
                       /\ IsParam(d, Tok(e)) => ValidRule(d.mod, d.params[Tok(e)])
Restrict(list, r)   == SelectSeq(list, LAMBDA e : ResOf(e) = r)
\* the valid rules of `list' that name resource r, in order
ValidOf(d, list, r) == SelectSeq(list, LAMBDA e : ResOf(e) = r /\ IsValidEl(d, e))
HasInvalid(d, list) == \E i \in DOMAIN list : ~IsValidEl(d, list[i])

\* rules in force per resource after an APPLIED operation with scope sc (All or a resource)
WantAfter(d, want, sc, list) ==
    [r \in DOMAIN want |-> IF sc = All \/ sc = r THEN ValidOf(d, list, r) ELSE want[r]]

\* lastOf[scope] = the list most recently loaded for exactly that scope with nothing overlapping since
\* (None if there is no such list).  Clears and empty loads leave None: the statement's "identical
\* reload reports unchanged" is demanded for non-empty loads only (clears may report either).
LastAfter(lastOf, sc, list) ==
    LET v == IF list = << >> THEN None ELSE list IN
    [s \in DOMAIN lastOf |-> IF s = sc THEN v
                             ELSE IF sc = All \/ s = All THEN None
                             ELSE lastOf[s]]
Identical(lastOf, sc, list) == list # << >> /\ lastOf[sc] = list

\* near-equal variants: same base token (and, for elements, same resource) but not necessarily the same rule
BaseOf(d, t)    == IF t \in DOMAIN d.near THEN d.near[t] ELSE t
NearEq(d, a, b) == ResOf(a) = ResOf(b) /\ BaseOf(d, Tok(a)) = BaseOf(d, Tok(b))
\* elements of enf that are NOT demanded by w although a near-equal variant of them is: a controller that survived
\* a reload old -> near-equal new (the typical effect of a rule equality that looks at less than the full field tuple)
StaleVariants(d, enf, w) ==
    {enf[i] : i \in {j \in DOMAIN enf : /\ \A k \in DOMAIN w : w[k] # enf[j]
                                        /\ \E k \in DOMAIN w : NearEq(d, w[k], enf[j])}}

\* answers a probing request may get: `blocks' = tokens whose rule blocks that request.
\* The first enforced rule (in list order) that blocks is the one reported, if order is observable.
ProbeAnswers(d, enf, blocks) ==
    LET hits == SelectSeq(enf, LAMBDA e : Tok(e) \in blocks) IN
    IF hits = << >> THEN {"pass"}
    ELSE IF d.ordered THEN {Tok(hits[1])}
    ELSE {Tok(hits[i]) : i \in DOMAIN hits}

\* a probing request whose refusal cannot be attributed to a rule (outlier: node ejected or not): is it refused at all?
ProbeBlocked(enf, blocks) == \E i \in DOMAIN enf : Tok(enf[i]) \in blocks

\* reported list rep equals the enforced list enf (as a multiset where order is not observable)
RECURSIVE CountIn(_, _)
CountIn(s, x) == IF s = << >> THEN 0 ELSE (IF Head(s) = x THEN 1 ELSE 0) + CountIn(Tail(s), x)
SameRules(d, rep, enf) ==
    IF d.ordered THEN rep = enf
    ELSE Len(rep) = Len(enf) /\ \A i \in DOMAIN enf : CountIn(rep, enf[i]) = CountIn(enf, enf[i])

---------------------------------------------------------------------------
(* DESIGN LEVEL                                                            *)

CONSTANTS
    Descs,          \* set of module descriptors to explore
    Resources,      \* resource names
    Tokens,         \* rule tokens used in lists (valid and invalid ones; "Nil" is added)
    MaxLen,         \* bound on the length of a loaded list
    Mutant          \* "none", or the name of a deliberately broken variant (vacuity self-test): rawBuild, staleClear,
                    \* wrongCache, neverUnchanged, coarseReuse, coarseUnchanged, naiveSampleCount, keepBucketCount, unstableGroup

VARIABLES
    d,          \* module descriptor (fixed by Init)
    raw,        \* last accepted raw input: scope key -> list            (partial function)
    enforced,   \* resource -> list of valid elements that govern traffic (partial function)
    reported,   \* what the getters return, same shape
    ret,        \* [changed, err] returned by the last operation
    want,       \* property level: resource -> demanded rules
    lastOf,     \* property level: scope -> last list loaded for it / None
    ident,      \* the last operation was an identical non-empty reload
    h           \* history of operations (scenario for the conformance driver; hidden by VIEW)

vars == <<d, raw, enforced, reported, ret, want, lastOf, ident, h>>
view == <<d, raw, enforced, reported, ret, want, lastOf, ident>>

Scopes   == Resources \cup {All}
Elements == (Tokens \X Resources) \cup {NilEl}
RECURSIVE SeqsUpTo(_, _)
SeqsUpTo(S, n) == IF n = 0 THEN {<< >>}
                  ELSE LET P == SeqsUpTo(S, n - 1) IN P \cup {Append(s, x) : s \in {q \in P : Len(q) = n - 1}, x \in S}
Lists == SeqsUpTo(Elements, MaxLen)

Get(f, r) == IF r \in DOMAIN f THEN f[r] ELSE << >>
Drop(f, r) == [x \in DOMAIN f \ {r} |-> f[x]]
Put(f, r, v) == [x \in DOMAIN f \cup {r} |-> IF x = r THEN v ELSE f[x]]

\* whole-set path: the list is grouped by the resource each rule names (nil elements under "-")
Keys(list)  == {ResOf(list[i]) : i \in DOMAIN list}
\* The grouping must be STABLE: the rules of a resource keep the order they have in the loaded list (the statement's "in
\* order": the getters list them so, and the first rule in order that objects is the one a refusal names).  Mutant
\* "unstableGroup": rules that share a resource come out in another order (e.g. grouping by an unstable sort).
\* NOTE on bounds: the model-checked instances hold at most 2..3 elements per list; the order clause is the same sequence
\* equality for any length, and LARGE lists (13..40 rules over 2..5 resources, where e.g. a sort switches algorithm) are
\* judged at trace level with the same operators (ValidOf / WantAfter / SameRules / ReqWalk: checks/C13.py family (h)).
RECURSIVE Reverse(_)
Reverse(q) == IF q = << >> THEN q ELSE Append(Reverse(Tail(q)), Head(q))
Group(list) == [r \in Keys(list) |-> IF Mutant = "unstableGroup" THEN Reverse(Restrict(list, r)) ELSE Restrict(list, r)]
\* Controller reuse (buildResourceTrafficShapingController / BuildResourceCircuitBreaker): a rule of the new list that
\* EQUALS the rule an old controller of the resource is bound to keeps that controller - and with it the OLD rule
\* object; every other rule gets a new controller bound to itself.  Rule equality must be the full field tuple, i.e.
\* the token (so that Rebuild(old, new) = new).  Mutant "coarseReuse": the equality ignores the field in which
\* near-equal variants differ (e.g. compares thresholds as integers) - the old controller survives the reload.
CtlEq(old, new) == IF Mutant = "coarseReuse" THEN NearEq(d, old, new) ELSE old = new
RECURSIVE Rebuild(_, _)
Rebuild(old, new) ==
    IF new = << >> THEN << >>
    ELSE LET n == Head(new)
             c == IF \E j \in DOMAIN old : CtlEq(old[j], n) THEN old[CHOOSE j \in DOMAIN old : CtlEq(old[j], n)] ELSE n
         IN  <<c>> \o Rebuild(old, Tail(new))
\* unchanged-detection compares the raw input with the cached one, full field tuples again.  Mutant "coarseUnchanged":
\* the comparison is done with the coarse equality.
RECURSIVE CoarseList(_)
CoarseList(list) == IF list = << >> THEN << >>
                    ELSE << <<BaseOf(d, Tok(Head(list))), ResOf(Head(list))>> >> \o CoarseList(Tail(list))
SameInput(a, b) == IF Mutant = "coarseUnchanged"
                   THEN DOMAIN a = DOMAIN b /\ \A k \in DOMAIN a : CoarseList(a[k]) = CoarseList(b[k])
                   ELSE a = b
\* BUILDING THE CONTROLLER of a valid rule derives internal quantities from the rule's numbers; a rule whose controller
\* cannot be built is logged and SKIPPED (neither enforced nor reported, the load still returns (true, nil)) - so the
\* derivation must succeed for EVERY rule the validity predicate accepts (invariant EveryValidRuleBuildable).
\*  - flow (generateStatFor): a Reject / WarmUp rule reads a statistic of intv ms.  intv = 0 or the metric interval: the
\*    resource's default metric.  Otherwise a sample count is chosen and checked against the global statistic
\*    (GlobalIntervalMs split into buckets of GlobalBucketMs): "reuse" the global one, build a "standalone" one, or
\*    "illegal" (sample count does not divide the interval) = error.  The sample count is intv / bucket ONLY when the
\*    interval is a multiple of the bucket length, else 1.  Mutant "naiveSampleCount": that guard is dropped.
\*  - circuit breaker / outlier (getRuleStatSlidingWindowBucketCount): a bucket count that is 0 or does not divide the
\*    interval is replaced by 1 (the leap array needs interval % buckets = 0).  Mutant "keepBucketCount": it is kept.
GlobalBucketMs   == 500
GlobalIntervalMs == 10000
MetricIntervalMs == 1000
FlowSampleCount(intv) ==
    IF Mutant = "naiveSampleCount"
    THEN (IF intv \div GlobalBucketMs = 0 \/ intv > GlobalIntervalMs THEN 1 ELSE intv \div GlobalBucketMs)
    ELSE IF intv > GlobalIntervalMs \/ intv < GlobalBucketMs THEN 1
         ELSE IF intv % GlobalBucketMs = 0 THEN intv \div GlobalBucketMs ELSE 1
ReuseCheck(sc, intv) ==
    IF intv = 0 \/ sc = 0 \/ intv % sc # 0 THEN "illegal"
    ELSE IF GlobalIntervalMs % intv # 0 \/ (intv \div sc) % GlobalBucketMs # 0 THEN "standalone" ELSE "reuse"
FlowStatPlan(r) ==
    IF ~(r.tcs = 1 \/ r.cb = 0) THEN "none"
    ELSE IF r.intv = 0 \/ r.intv = MetricIntervalMs THEN "default"
    ELSE ReuseCheck(FlowSampleCount(r.intv), r.intv)
BreakerBuckets(r) ==
    IF Mutant = "keepBucketCount" THEN (IF r.bc = 0 THEN 1 ELSE r.bc)
    ELSE IF r.bc = 0 \/ r.intv % r.bc # 0 THEN 1 ELSE r.bc
Buildable(mod, r) ==
    CASE mod = "flow" -> FlowStatPlan(r) # "illegal"
      [] mod \in {"circuitbreaker", "outlier"} -> r.intv % BreakerBuckets(r) = 0
      [] OTHER -> TRUE
Built(e)      == ~IsParam(d, Tok(e)) \/ Buildable(d.mod, d.params[Tok(e)])
ValidBuilt(s) == SelectSeq(s, LAMBDA e : IsValidEl(d, e) /\ Built(e))

EnfOfGroup(g) ==
    LET V(r) == ValidBuilt(g[r]) IN
    [r \in {x \in DOMAIN g : V(x) # << >>} |-> Rebuild(Get(enforced, r), V(r))]
RepOfGroup(g) ==
    LET V(r) == ValidBuilt(g[r]) IN
    [r \in {x \in DOMAIN g : V(x) # << >>} |-> V(r)]

Init ==
    /\ d \in Descs
    /\ raw = << >> /\ enforced = << >> /\ reported = << >>
    /\ ret = [changed |-> FALSE, err |-> FALSE]
    /\ want = [r \in Resources |-> << >>]
    /\ lastOf = [s \in Scopes |-> None]
    /\ ident = FALSE
    /\ h = << >>

Log(op, sc, list) == h' = Append(h, [op |-> op, scope |-> sc, list |-> list])
\* the design's short-cut: nothing is rebuilt.  The property-level variables are ALWAYS updated from the
\* statement (Demand), so TLC checks that the short-cut is sound.
Unchanged == ret' = [changed |-> FALSE, err |-> FALSE] /\ UNCHANGED <<raw, enforced, reported>>
Demand(sc, list) == want' = WantAfter(d, want, sc, list) /\ lastOf' = LastAfter(lastOf, sc, list)

LoadAll(list) ==
    /\ Log("load", All, list)
    /\ ident' = Identical(lastOf, All, list)
    /\ UNCHANGED d
    /\ Demand(All, list)
    /\ LET g == Group(list) IN
       IF SameInput(g, raw) /\ Mutant # "neverUnchanged" THEN Unchanged
       ELSE /\ raw' = g
            /\ enforced' = EnfOfGroup(g)
            /\ reported' = RepOfGroup(g)
            /\ ret' = [changed |-> TRUE, err |-> FALSE]

\* the per-resource path of the list-based managers (a rule naming another resource is skipped)
LoadRes(r, list) ==
    /\ d.perRes
    /\ ~(d.rejects /\ HasInvalid(d, list))
    /\ Log("load", r, list)
    /\ ident' = Identical(lastOf, r, list)
    /\ UNCHANGED d
    /\ Demand(r, list)
    /\ IF list = << >>
       THEN /\ raw' = Drop(raw, r) /\ enforced' = Drop(enforced, r) /\ reported' = Drop(reported, r)
            /\ ret' = [changed |-> TRUE, err |-> FALSE]      \* an empty per-resource load always reports "changed"
       ELSE IF r \in DOMAIN raw /\ SameInput(<<list>>, <<raw[r]>>) THEN Unchanged
       ELSE LET v == ValidBuilt(Restrict(list, r))
                \* Mutant "rawBuild": controllers are built from the raw list, the getter from the valid one
                e == Rebuild(Get(enforced, r), IF Mutant = "rawBuild" THEN Restrict(list, r) ELSE v)
            IN  /\ raw' = Put(raw, r, list)
                /\ enforced' = IF e = << >> THEN Drop(enforced, r) ELSE Put(enforced, r, e)
                /\ reported' = IF v = << >> THEN Drop(reported, r) ELSE Put(reported, r, v)
                /\ ret' = [changed |-> TRUE, err |-> FALSE]

\* a load that is refused with an error leaves its scope as it was (outlier, per-resource path)
RejectedLoad(r, list) ==
    /\ d.perRes /\ d.rejects /\ HasInvalid(d, list)
    /\ Log("load", r, list)
    /\ ident' = FALSE
    /\ ret' = [changed |-> TRUE, err |-> TRUE]
    /\ UNCHANGED <<d, raw, enforced, reported, want, lastOf>>

ClearAll ==
    /\ Log("clear", All, << >>)
    /\ ident' = FALSE
    /\ UNCHANGED d
    /\ Demand(All, << >>)
    /\ IF raw = << >> THEN Unchanged
       ELSE /\ raw' = << >> /\ reported' = << >>
            /\ enforced' = IF Mutant = "staleClear" THEN enforced ELSE << >>
            /\ ret' = [changed |-> TRUE, err |-> FALSE]

ClearRes(r) ==
    /\ d.perRes
    /\ Log("clear", r, << >>)
    /\ ident' = FALSE
    /\ UNCHANGED d
    /\ raw' = (IF Mutant = "wrongCache" THEN raw ELSE Drop(raw, r))
    /\ enforced' = Drop(enforced, r) /\ reported' = Drop(reported, r)
    /\ ret' = [changed |-> TRUE, err |-> FALSE]
    /\ Demand(r, << >>)

Next ==
    \/ \E list \in Lists : LoadAll(list)
    \/ \E r \in Resources, list \in Lists : LoadRes(r, list) \/ RejectedLoad(r, list)
    \/ ClearAll
    \/ \E r \in Resources : ClearRes(r)

Spec == Init /\ [][Next]_vars

---------------------------------------------------------------------------
(* The property (C13) on the design                                        *)

\* the rules in force are exactly the valid rules of the most recent load of each resource, in order;
\* other resources untouched (want changes only for the affected scope)
EnforcedIsLatestValid == \A r \in Resources : Get(enforced, r) = want[r]
NothingElseEnforced   == DOMAIN enforced \subseteq Resources /\ \A r \in DOMAIN enforced : enforced[r] # << >>
\* invalid rules are never in force
OnlyValidEnforced     == \A r \in DOMAIN enforced : \A i \in DOMAIN enforced[r] : IsValidEl(d, enforced[r][i])
\* the getters return exactly what is enforced
ReportedIsEnforced    == reported = enforced
\* no controller stays bound to a rule that is merely NEAR-EQUAL to the one that was loaded: after a reload old ->
\* near-equal new the new rule governs (implied by EnforcedIsLatestValid; named separately because it is the failure a
\* too coarse rule equality produces, and the trace spec reports it under this name)
NoStaleVariant        == \A r \in DOMAIN enforced : StaleVariants(d, enforced[r], want[r]) = {}
\* an identical (non-empty) reload reports "unchanged"
IdenticalReloadUnchanged == ident => (ret.changed = FALSE /\ ret.err = FALSE)
\* an operation that reports an error leaves everything as it was
ErrorMeansRejected == [][ret'.err => UNCHANGED <<raw, enforced, reported, want>>]_vars

\* the controller of every rule the validity predicate accepts can be built (else a valid rule is silently dropped)
EveryValidRuleBuildable ==
    \A t \in DOMAIN d.params : ValidRule(d.mod, d.params[t]) => Buildable(d.mod, d.params[t])

TypeOK == /\ ret \in [changed : BOOLEAN, err : BOOLEAN]
          /\ DOMAIN want = Resources /\ DOMAIN lastOf = Scopes
=============================================================================
