-------------------------- MODULE WindowConc_Trace --------------------------
(***************************************************************************)
(* Property C09 judged on operation-level traces of the REAL lock-free     *)
(* sliding window, produced by the goroutine gate (harness/cmd/c09):       *)
(*   inv(p, kind, ev, ts, n)  ret(p, val, now)  step(p, at)  tick  end     *)
(* (ev = the statistic recorded into / read: a counter event kind, "conc", *)
(* "minrt", "maxconc" - the clauses of the property are per statistic).    *)
(* The trace is a total order (one goroutine runs at a time).  A step that *)
(* resumes from la.setstart / la.reset is a roll-over of the slot selected *)
(* by that goroutine's time stamp; it marks every OTHER pending add on the *)
(* same slot (and every other pending read) as "overlapping a roll-over".  At the end of a trace the      *)
(* operators of WindowConcProp decide NoInvention and ExactWhenNoOverlap.  *)
(***************************************************************************)
EXTENDS WindowConcProp, Sequences, TLC, Json

Trace == ndJsonDeserialize("trace.ndjson")
VARIABLES l, g, seq, ops, pend, failed
tvars == <<l, g, seq, ops, pend, failed>>
Ev == Trace[l]
IsEvent(op) == l <= Len(Trace) /\ Ev.op = op /\ l' = l + 1
Procs == 1..8
None == [kind |-> "none"]
Idx(t) == (t \div g.bl) % g.n

Judge(ok, expected) ==
    IF failed \/ ok THEN failed' = failed
    ELSE /\ failed' = TRUE
         /\ PrintT("MISMATCH " \o ToString(g.tr) \o " " \o ToString(l) \o " " \o ToJson(expected))

TNew ==
    /\ IsEvent("new")
    /\ g' = [tr |-> Ev.tr, n |-> Ev.n, bl |-> Ev.bl, maxrt |-> Ev.maxrt]
    /\ seq' = 0 /\ ops' = {} /\ pend' = [p \in Procs |-> None] /\ failed' = FALSE

TInv ==
    /\ IsEvent("inv")
    /\ seq' = seq + 1
    /\ pend' = [pend EXCEPT ![Ev.p] = [kind |-> Ev.kind, ev |-> Ev.ev, ts |-> Ev.ts, n |-> Ev.n, inv |-> seq + 1, ret |-> 0,
                                       retNow |-> 0, val |-> 0, over |-> FALSE]]
    /\ UNCHANGED <<g, ops, failed>>

TRet ==
    /\ IsEvent("ret")
    /\ seq' = seq + 1
    /\ ops' = ops \cup {[pend[Ev.p] EXCEPT !.ret = seq + 1, !.retNow = Ev.now, !.val = Ev.val]}
    /\ pend' = [pend EXCEPT ![Ev.p] = None]
    /\ UNCHANGED <<g, failed>>

TStep ==
    /\ IsEvent("step")
    /\ pend' = IF Ev.at \in {"la.setstart", "la.reset"} /\ pend[Ev.p].kind # "none"
               THEN [q \in Procs |-> IF q # Ev.p /\ ((pend[q].kind = "add" /\ Idx(pend[q].ts) = Idx(pend[Ev.p].ts))
                                                      \/ pend[q].kind = "read")
                                     THEN [pend[q] EXCEPT !.over = TRUE] ELSE pend[q]]
               ELSE pend
    /\ UNCHANGED <<g, seq, ops, failed>>

TTick == IsEvent("tick") /\ UNCHANGED <<g, seq, ops, pend, failed>>

\* recorders and readers must terminate
TStuck == IsEvent("stuck") /\ Judge(FALSE, [terminated |-> FALSE]) /\ UNCHANGED <<g, seq, ops, pend>>

TEnd ==
    /\ IsEvent("end")
    /\ LET all == ops \cup { pend[p] : p \in { q \in Procs : pend[q].kind # "none" } } IN
       Judge(NoInvention(all, g.n, g.bl, g.maxrt) /\ ExactWhenNoOverlap(all, g.n, g.bl, g.maxrt),
             [noinvention |-> NoInvention(all, g.n, g.bl, g.maxrt), exact |-> ExactWhenNoOverlap(all, g.n, g.bl, g.maxrt),
              clean |-> Clean(all), invented |-> Invented(all, g.n, g.bl, g.maxrt), inexact |-> Inexact(all, g.n, g.bl, g.maxrt),
              ops |-> all])
    /\ UNCHANGED <<g, seq, ops, pend>>

TInit == l = 1 /\ g = [tr |-> 0, n |-> 1, bl |-> 1, maxrt |-> 1] /\ seq = 0 /\ ops = {} /\ pend = [p \in Procs |-> None] /\ failed = FALSE
TNext == TNew \/ TInv \/ TRet \/ TStep \/ TTick \/ TStuck \/ TEnd
TSpec == TInit /\ [][TNext]_tvars
=============================================================================
