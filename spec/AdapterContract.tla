--------------------------- MODULE AdapterContract ---------------------------
(***************************************************************************)
(* The entry contract of a framework adapter (pkg/adapters), property C19. *)
(* A middleware / interceptor / wrapper handles one request as             *)
(*                                                                         *)
(*   EntryAsked -> Blocked  -> Fallback (configured one, or the default    *)
(*                             rejection)  /\ handler NOT invoked          *)
(*              |  Admitted -> Handler exactly once                        *)
(*                          -> (ok | error, traced | panic)                *)
(*                          -> Exit exactly once                           *)
(*                                                                         *)
(* PART 1 - the contract as an automaton over the observable events of ONE *)
(* request (pure operators; reused verbatim by AdapterContract_Trace to    *)
(* judge executions of the real adapters):                                 *)
(*   "pass" / "block"     Sentinel admitted / rejected the entry           *)
(*   "handler"            the wrapped handler was invoked                  *)
(*   "complete"           the entry was exited, no error traced            *)
(*   "complete-err"       the entry was exited with a traced error         *)
(*   "fallback"           the configured block fallback was invoked        *)
(*   "reject"             the adapter's default rejection was produced     *)
(* The class of a request says what the driver arranged:                   *)
(*   wraps    the entry point wraps a handler (FALSE: micro's stream       *)
(*            wrapper, which only decorates a stream)                      *)
(*   errsig   the framework hands the handler's error to the middleware    *)
(*            (handler types that return an error); without it there is    *)
(*            nothing the adapter could trace                              *)
(*   fb       "custom" (a block fallback is configured) | "default"        *)
(*   outcome  "ok" | "err" | "panic"   what the handler does when invoked  *)
(*                                                                         *)
(* PART 2 - a small design model: K requests run concurrently through an   *)
(* adapter written the way the contract demands (entry, early return on    *)
(* block, deferred exit, trace on error); Sentinel's decision, the handler *)
(* outcome and the interleaving are free.  Invariants: every finished      *)
(* request's event log is accepted by the automaton of part 1, the         *)
(* in-flight gauge equals the number of admitted, not yet exited requests  *)
(* and returns to 0.  Mut selects deliberately broken adapters (vacuity).   *)
(***************************************************************************)
EXTENDS Integers, Sequences, FiniteSets, TLC

Outcomes == {"ok", "err", "panic"}

---------------------------------------------------------------------------
(* PART 1: the automaton *)

Start == "start"
Bad   == "bad"
Accepting == {"exited", "answered"}

\* which flavour of completion the contract allows
ComplOK(e, cls) ==
    CASE cls.outcome = "ok"                  -> e = "complete"
      [] cls.outcome = "err" /\ cls.errsig   -> e = "complete-err"
      [] OTHER                               -> e \in {"complete", "complete-err"}   \* panic; error invisible to the adapter

Step(ph, e, cls) ==
    CASE ph = Start      /\ e = "pass"                         -> "admitted"
      [] ph = Start      /\ e = "block"                        -> "blocked"
      [] ph = "admitted" /\ e = "handler" /\ cls.wraps         -> "running"
      [] ph = "admitted" /\ ~cls.wraps /\ e = "complete"       -> "exited"
      [] ph = "running"  /\ ComplOK(e, cls)                    -> "exited"
      [] ph = "blocked"  /\ e = "fallback" /\ cls.fb = "custom"   -> "answered"
      [] ph = "blocked"  /\ e = "reject"   /\ cls.fb = "default"  -> "answered"
      [] OTHER                                                 -> Bad

RECURSIVE Run(_, _, _)
Run(ph, evs, cls) == IF evs = << >> THEN ph ELSE Run(Step(ph, Head(evs), cls), Tail(evs), cls)

\* the whole event log of a finished request honours the contract
Accepts(evs, cls) == Run(Start, evs, cls) \in Accepting
\* a prefix of such a log (request still in flight)
Viable(evs, cls)  == Run(Start, evs, cls) # Bad

Count(evs, e) == Cardinality({ i \in DOMAIN evs : evs[i] = e })
Admitted(evs) == Count(evs, "pass") > 0
Exits(evs)    == Count(evs, "complete") + Count(evs, "complete-err")

\* the first thing that is wrong with a log (diagnostics for the trace validator; "" = nothing)
Diagnose(evs, cls) ==
    CASE Count(evs, "pass") + Count(evs, "block") = 0                    -> "no-entry-asked"
      [] Count(evs, "block") > 0 /\ Count(evs, "handler") > 0            -> "handler-invoked-when-blocked"
      [] Count(evs, "block") > 0 /\ cls.fb = "custom" /\ Count(evs, "fallback") = 0  -> "configured-fallback-not-produced"
      [] Count(evs, "block") > 0 /\ cls.fb = "default" /\ Count(evs, "reject") = 0   -> "default-rejection-not-produced"
      [] Admitted(evs) /\ cls.wraps /\ Count(evs, "handler") = 0         -> "handler-not-invoked"
      [] Count(evs, "handler") > 1                                       -> "handler-invoked-twice"
      [] Admitted(evs) /\ Exits(evs) = 0                                 -> "entry-never-exited"
      [] Exits(evs) > 1                                                  -> "entry-exited-twice"
      [] Admitted(evs) /\ cls.wraps /\ cls.outcome = "err" /\ cls.errsig /\ Count(evs, "complete-err") = 0
                                                                         -> "handler-error-not-traced"
      [] Admitted(evs) /\ cls.outcome = "ok" /\ Count(evs, "complete-err") > 0 -> "error-traced-without-error"
      [] ~Accepts(evs, cls)                                              -> "wrong-order"
      [] OTHER                                                           -> ""

---------------------------------------------------------------------------
(* PART 2: the design model *)

CONSTANTS
    K,        \* number of concurrent requests
    Classes,  \* set of [wraps, errsig, fb] the requests are drawn from
    Mut       \* "none" | "no-defer" | "handler-when-blocked" | "double-exit" | "no-trace" | "no-fallback"

VARIABLES
    pc,       \* request -> program counter of the adapter code
    cls,      \* request -> class (with the handler outcome)
    log,      \* request -> observable events so far
    conc      \* Sentinel's in-flight gauge of the resource

vars == <<pc, cls, log, conc>>
Reqs == 1..K

Init ==
    /\ pc = [r \in Reqs |-> "ask"]
    /\ cls \in [Reqs -> { [wraps |-> c.wraps, errsig |-> c.errsig, fb |-> c.fb, outcome |-> o] : c \in Classes, o \in Outcomes }]
    /\ log = [r \in Reqs |-> << >>]
    /\ conc = 0

Emit(r, e) == log' = [log EXCEPT ![r] = Append(@, e)]
Goto(r, l) == pc' = [pc EXCEPT ![r] = l]

\* entry, blockErr := sentinel.Entry(...)
Ask(r) ==
    /\ pc[r] = "ask"
    /\ \/ /\ Emit(r, "pass") /\ conc' = conc + 1 /\ Goto(r, IF cls[r].wraps THEN "call" ELSE "exit")
       \/ /\ Emit(r, "block") /\ conc' = conc /\ Goto(r, "blocked")
    /\ UNCHANGED cls

\* if blockErr != nil { fallback or default rejection; return }
OnBlock(r) ==
    /\ pc[r] = "blocked"
    /\ IF Mut = "no-fallback" THEN UNCHANGED log
       ELSE Emit(r, IF cls[r].fb = "custom" THEN "fallback" ELSE "reject")
    /\ Goto(r, IF Mut = "handler-when-blocked" THEN "call" ELSE "done")
    /\ UNCHANGED <<cls, conc>>

\* defer entry.Exit(); err := next(...)
Call(r) ==
    /\ pc[r] = "call"
    /\ Emit(r, "handler")
    /\ Goto(r, CASE cls[r].outcome = "panic" -> IF Mut = "no-defer" THEN "done" ELSE "exit"   \* without defer a panic skips Exit
                 [] Count(log[r], "block") > 0 -> "done"                                       \* (broken variant only)
                 [] OTHER -> "exit")
    /\ UNCHANGED <<cls, conc>>

\* if err != nil { TraceError }; (deferred) entry.Exit()
Exit(r) ==
    /\ pc[r] = "exit"
    /\ LET traced == cls[r].wraps /\ cls[r].outcome = "err" /\ cls[r].errsig /\ Mut # "no-trace" IN
       Emit(r, IF traced THEN "complete-err" ELSE "complete")
    /\ conc' = conc - 1
    /\ Goto(r, IF Mut = "double-exit" /\ Exits(log[r]) = 0 THEN "exit" ELSE "done")
    /\ UNCHANGED cls

Next == \E r \in Reqs : Ask(r) \/ OnBlock(r) \/ Call(r) \/ Exit(r)
Spec == Init /\ [][Next]_vars

Done(r) == pc[r] = "done"
InFlight == { r \in Reqs : Admitted(log[r]) /\ Exits(log[r]) = 0 /\ ~Done(r) }

TypeOK == /\ \A r \in Reqs : pc[r] \in {"ask", "blocked", "call", "exit", "done"}
          /\ conc \in -K..K
\* every finished request honoured the contract; every running one can still do so
ContractHonoured == \A r \in Reqs : IF Done(r) THEN Accepts(log[r], cls[r]) ELSE Viable(log[r], cls[r])
\* the gauge counts exactly the admitted requests that have not exited, and returns to zero
GaugeExact    == conc = Cardinality(InFlight)
GaugeReturns  == (\A r \in Reqs : Done(r)) => conc = 0
\* the clauses one by one (so that a counterexample names the clause)
NoHandlerWhenBlocked == \A r \in Reqs : Count(log[r], "block") > 0 => Count(log[r], "handler") = 0
HandlerOnce   == \A r \in Reqs : Count(log[r], "handler") <= 1 /\ (Done(r) /\ Admitted(log[r]) /\ cls[r].wraps => Count(log[r], "handler") = 1)
ExitOnce      == \A r \in Reqs : Exits(log[r]) <= 1 /\ (Done(r) /\ Admitted(log[r]) => Exits(log[r]) = 1)
ErrorTraced   == \A r \in Reqs : (Done(r) /\ Admitted(log[r]) /\ cls[r].wraps /\ cls[r].outcome = "err" /\ cls[r].errsig)
                                    => Count(log[r], "complete-err") = 1
FallbackProduced == \A r \in Reqs : (Done(r) /\ Count(log[r], "block") > 0)
                                    => Count(log[r], IF cls[r].fb = "custom" THEN "fallback" ELSE "reject") = 1
=============================================================================
