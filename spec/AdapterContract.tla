--------------------------- MODULE AdapterContract ---------------------------
(***************************************************************************)
(* The entry contract of a framework adapter (pkg/adapters), property C19. *)
(* A middleware / interceptor / wrapper handles one request as             *)
(*                                                                         *)
(*   EntryAsked -> Blocked  -> Fallback (configured one, or the default    *)
(*                             rejection)  /\ handler NOT invoked          *)
(*              |  Admitted -> Handler exactly once                        *)
(*                          -> (ok | error, traced | panic)                *)
(*                          -> Exit exactly once                           *)
(*                                                                         *)
(* PART 1 - the contract as an automaton over the observable events of ONE *)
(* request (pure operators; reused verbatim by AdapterContract_Trace to    *)
(* judge executions of the real adapters):                                 *)
(*   "pass" / "block"     Sentinel admitted / rejected the entry           *)
(*   "handler"            the wrapped handler was invoked                  *)
(*   "complete"           the entry was exited, no error traced            *)
(*   "complete-err"       the entry was exited with a traced error         *)
(*   "fallback"           the configured block fallback was invoked        *)
(*   "reject"             the adapter's default rejection was produced     *)
(* The class of a request says what the driver arranged:                   *)
(*   wraps    the entry point wraps a handler (FALSE: micro's stream       *)
(*            wrapper, which only decorates a stream)                      *)
(*   errsig   the framework hands the handler's error to the middleware    *)
(*            (handler types that return an error); without it there is    *)
(*            nothing the adapter could trace                              *)
(*   fb       "custom" (a block fallback is configured) | "default"        *)
(*   outcome  "ok" | "err" | "panic"   what the handler does when invoked  *)
(*   layer    where an error of the wrapped call arises ("node" unless     *)
(*            outcome = "err").  For a client-side entry point the         *)
(*            "handler" is the WHOLE downstream call, and the framework    *)
(*            can fail it at several layers: "pre" = before a node is      *)
(*            called (service unknown to the registry, no node available,  *)
(*            context already cancelled / past its deadline, backoff       *)
(*            hook), "node" = by the selected node / the handler itself,   *)
(*            "post" = after the node returned (retry hook).  THE CONTRACT *)
(*            DOES NOT DEPEND ON THE LAYER: any error the wrapped call     *)
(*            returns to the adapter is traced on the entry, which is      *)
(*            exited exactly once (ComplOK below never reads cls.layer)    *)
(*   side     "server" | "client"  what the entry point IS (its API): a    *)
(*            server-side middleware / interceptor / handler wrapper       *)
(*            guards INBOUND traffic, a client-side interceptor / wrapper  *)
(*            guards OUTBOUND calls.  Only inbound traffic is subject to   *)
(*            system (adaptive) protection and counted on the global       *)
(*            inbound node (property C07)                                  *)
(*   flow     a resource rule that rejects the request is loaded on the    *)
(*            request's resource                                           *)
(*   sys      "none" (no system rule loaded) | "slack" (loaded, not        *)
(*            violated) | "violated" (a loaded system rule is violated at  *)
(*            the moment the entry is asked)                               *)
(* The DECISION is part of the contract where the arrangement fixes it:    *)
(*   a request through a server-side entry point is subject to system      *)
(*   protection - blocked, with block type "system", iff a loaded system   *)
(*   rule is violated; a call through a client-side entry point never is;  *)
(*   without a rejecting resource rule nothing else blocks.  With a        *)
(*   rejecting resource rule (flow) the decision stays free: the resource  *)
(*   name the adapter derives is not part of the statement.                *)
(*                                                                         *)
(* PART 2 - a small design model: K requests run concurrently through an   *)
(* adapter written the way the contract demands (entry, early return on    *)
(* block, deferred exit, trace on error); Sentinel's decision, the handler *)
(* outcome and the interleaving are free.  Invariants: every finished      *)
(* request's event log is accepted by the automaton of part 1, the         *)
(* in-flight gauge equals the number of admitted, not yet exited requests  *)
(* and returns to 0.  Mut selects deliberately broken adapters (vacuity).   *)
(***************************************************************************)
EXTENDS Integers, Sequences, FiniteSets, TLC

Outcomes == {"ok", "err", "panic"}
Sides    == {"server", "client"}
Layers   == {"pre", "node", "post"}
\* a class is well formed: only an error has a layer other than the handler ("node") itself
LayerOK(cls) == cls.layer \in Layers /\ (cls.layer # "node" => cls.outcome = "err")
SysStates == {"none", "slack", "violated"}

\* the decision the contract fixes for a request of class cls
MustBlock(cls) == cls.side = "server" /\ cls.sys = "violated"     \* system protection guards inbound traffic ...
MustAdmit(cls) == ~MustBlock(cls) /\ ~cls.flow                     \* ... and nothing but inbound traffic
\* the block type a block of such a request must carry (the system check precedes the resource rules)
BlockKind(cls) == IF MustBlock(cls) THEN "system" ELSE "flow"
\* what an admitted, not yet exited request of this class adds to the gauge of the global inbound node
InboundShare(cls) == IF cls.side = "server" THEN 1 ELSE 0

---------------------------------------------------------------------------
(* PART 1: the automaton *)

Start == "start"
Bad   == "bad"
Accepting == {"exited", "answered"}

\* which flavour of completion the contract allows (whatever the layer the error comes from)
ComplOK(e, cls) ==
    CASE cls.outcome = "ok"                  -> e = "complete"
      [] cls.outcome = "err" /\ cls.errsig   -> e = "complete-err"
      [] OTHER                               -> e \in {"complete", "complete-err"}   \* panic; error invisible to the adapter

Step(ph, e, cls) ==
    CASE ph = Start      /\ e = "pass"  /\ ~MustBlock(cls)     -> "admitted"
      [] ph = Start      /\ e = "block" /\ ~MustAdmit(cls)     -> "blocked"
      [] ph = "admitted" /\ e = "handler" /\ cls.wraps         -> "running"
      [] ph = "admitted" /\ ~cls.wraps /\ e = "complete"       -> "exited"
      [] ph = "running"  /\ ComplOK(e, cls)                    -> "exited"
      [] ph = "blocked"  /\ e = "fallback" /\ cls.fb = "custom"   -> "answered"
      [] ph = "blocked"  /\ e = "reject"   /\ cls.fb = "default"  -> "answered"
      [] OTHER                                                 -> Bad

RECURSIVE Run(_, _, _)
Run(ph, evs, cls) == IF evs = << >> THEN ph ELSE Run(Step(ph, Head(evs), cls), Tail(evs), cls)

\* the whole event log of a finished request honours the contract
Accepts(evs, cls) == Run(Start, evs, cls) \in Accepting
\* a prefix of such a log (request still in flight)
Viable(evs, cls)  == Run(Start, evs, cls) # Bad

Count(evs, e) == Cardinality({ i \in DOMAIN evs : evs[i] = e })
Admitted(evs) == Count(evs, "pass") > 0
Exits(evs)    == Count(evs, "complete") + Count(evs, "complete-err")
\* the block type recorded with the block event (kind; "" = no block seen) is the one the contract demands
KindOK(evs, kind, cls) == IF Count(evs, "block") > 0 THEN kind = BlockKind(cls) ELSE kind = ""

\* the first thing that is wrong with a log (diagnostics for the trace validator; "" = nothing)
Diagnose(evs, cls) ==
    CASE Count(evs, "pass") + Count(evs, "block") = 0                    -> "no-entry-asked"
      [] MustBlock(cls) /\ Count(evs, "pass") > 0                         -> "server-request-admitted-despite-violated-system-rule"
      [] MustAdmit(cls) /\ Count(evs, "block") > 0 /\ cls.sys = "violated" -> "client-call-blocked-by-system-protection"
      [] MustAdmit(cls) /\ Count(evs, "block") > 0                        -> "blocked-without-a-violated-rule"
      [] Count(evs, "block") > 0 /\ Count(evs, "handler") > 0            -> "handler-invoked-when-blocked"
      [] Count(evs, "block") > 0 /\ cls.fb = "custom" /\ Count(evs, "fallback") = 0  -> "configured-fallback-not-produced"
      [] Count(evs, "block") > 0 /\ cls.fb = "default" /\ Count(evs, "reject") = 0   -> "default-rejection-not-produced"
      [] Admitted(evs) /\ cls.wraps /\ Count(evs, "handler") = 0         -> "handler-not-invoked"
      [] Count(evs, "handler") > 1                                       -> "handler-invoked-twice"
      [] Admitted(evs) /\ Exits(evs) = 0                                 -> "entry-never-exited"
      [] Exits(evs) > 1                                                  -> "entry-exited-twice"
      [] Admitted(evs) /\ cls.wraps /\ cls.outcome = "err" /\ cls.errsig /\ Count(evs, "complete-err") = 0
                                                                         -> "handler-error-not-traced"
      [] Admitted(evs) /\ cls.outcome = "ok" /\ Count(evs, "complete-err") > 0 -> "error-traced-without-error"
      [] ~Accepts(evs, cls)                                              -> "wrong-order"
      [] OTHER                                                           -> ""

---------------------------------------------------------------------------
(* PART 2: the design model *)

CONSTANTS
    K,        \* number of concurrent requests
    Classes,  \* set of [wraps, errsig, fb, side] the requests are drawn from
    Limits,   \* system rules explored: "inbound requests in flight through this adapter < limit", i.e. the headroom that
              \* the rule leaves once the other inbound traffic of the process is subtracted: 0 = violated whatever the
              \* adapter does (others hold the gauge at the threshold; InboundQPS < 0), -1 = no system rule loaded
    Mut       \* "none" | "no-defer" | "handler-when-blocked" | "double-exit" | "no-trace" | "no-fallback"
              \* | "server-as-outbound" | "client-as-inbound" | "trace-in-node-wrapper"

VARIABLES
    pc,       \* request -> program counter of the adapter code
    cls,      \* request -> class (with the handler outcome; flow / sys are fixed when the entry is asked)
    log,      \* request -> observable events so far
    conc,     \* Sentinel's in-flight gauge of the resource
    limit,    \* the loaded system rule: inbound concurrency < limit (-1: none)
    inb,      \* Sentinel's in-flight gauge of the global inbound node
    kind      \* request -> block type carried by its block event ("" = none)

vars == <<pc, cls, log, conc, limit, inb, kind>>
Reqs == 1..K

\* layers are explored where they can make a difference: a client-side entry point that wraps a (layered) downstream call
\* whose error the framework hands back to the adapter
Explored(x) == LayerOK(x) /\ (x.layer # "node" => (x.side = "client" /\ x.wraps /\ x.errsig))

Init ==
    /\ pc = [r \in Reqs |-> "ask"]
    /\ cls \in [Reqs -> { x \in { [wraps |-> c.wraps, errsig |-> c.errsig, fb |-> c.fb, side |-> c.side, outcome |-> ol[1], layer |-> ol[2],
                                   flow |-> FALSE, sys |-> "none"] : c \in Classes, ol \in Outcomes \X Layers } : Explored(x) }]
    /\ log = [r \in Reqs |-> << >>]
    /\ conc = 0
    /\ limit \in Limits
    /\ inb = 0
    /\ kind = [r \in Reqs |-> ""]

Emit(r, e) == log' = [log EXCEPT ![r] = Append(@, e)]
Goto(r, l) == pc' = [pc EXCEPT ![r] = l]

\* the traffic type the adapter hands to sentinel.Entry: the side of the entry point (WithTrafficType)
AsksInbound(r) == CASE Mut = "server-as-outbound" -> FALSE      \* e.g. the option is dropped: api.EntryOptions defaults to Outbound
                    [] Mut = "client-as-inbound"  -> TRUE
                    [] OTHER                      -> cls[r].side = "server"
\* the state of system protection right now
SysNow == IF limit < 0 THEN "none" ELSE IF inb >= limit THEN "violated" ELSE "slack"

\* entry, blockErr := sentinel.Entry(resource, WithTrafficType(side), ...)
\* Sentinel: the system check (inbound entries only) precedes the resource rules; f = a resource rule rejects the request
Ask(r) ==
    /\ pc[r] = "ask"
    /\ \E f \in BOOLEAN :
         LET sysblk == AsksInbound(r) /\ SysNow = "violated" IN
         /\ cls' = [cls EXCEPT ![r].flow = f, ![r].sys = SysNow]
         /\ IF sysblk \/ f
            THEN /\ Emit(r, "block") /\ conc' = conc /\ inb' = inb /\ Goto(r, "blocked")
                 /\ kind' = [kind EXCEPT ![r] = IF sysblk THEN "system" ELSE "flow"]
            ELSE /\ Emit(r, "pass") /\ conc' = conc + 1 /\ Goto(r, IF cls[r].wraps THEN "call" ELSE "exit")
                 /\ inb' = inb + (IF AsksInbound(r) THEN 1 ELSE 0)
                 /\ UNCHANGED kind
    /\ UNCHANGED limit

\* if blockErr != nil { fallback or default rejection; return }
OnBlock(r) ==
    /\ pc[r] = "blocked"
    /\ IF Mut = "no-fallback" THEN UNCHANGED log
       ELSE Emit(r, IF cls[r].fb = "custom" THEN "fallback" ELSE "reject")
    /\ Goto(r, IF Mut = "handler-when-blocked" THEN "call" ELSE "done")
    /\ UNCHANGED <<cls, conc, limit, inb, kind>>

\* defer entry.Exit(); err := next(...)
Call(r) ==
    /\ pc[r] = "call"
    /\ Emit(r, "handler")
    /\ Goto(r, CASE cls[r].outcome = "panic" -> IF Mut = "no-defer" THEN "done" ELSE "exit"   \* without defer a panic skips Exit
                 [] Count(log[r], "block") > 0 -> "done"                                       \* (broken variant only)
                 [] OTHER -> "exit")
    /\ UNCHANGED <<cls, conc, limit, inb, kind>>

\* if err != nil { TraceError }; (deferred) entry.Exit()
\* err is what the wrapped call RETURNED, whatever layer produced it; the broken design "trace-in-node-wrapper" hands the
\* tracing to a hook the framework runs around the per-node call only, so errors of the other layers never reach it
Exit(r) ==
    /\ pc[r] = "exit"
    /\ LET traced == /\ cls[r].wraps /\ cls[r].outcome = "err" /\ cls[r].errsig /\ Mut # "no-trace"
                     /\ (Mut = "trace-in-node-wrapper" => cls[r].layer = "node") IN
       Emit(r, IF traced THEN "complete-err" ELSE "complete")
    /\ conc' = conc - 1
    /\ inb' = inb - (IF AsksInbound(r) THEN 1 ELSE 0)
    /\ Goto(r, IF Mut = "double-exit" /\ Exits(log[r]) = 0 THEN "exit" ELSE "done")
    /\ UNCHANGED <<cls, limit, kind>>

Next == \E r \in Reqs : Ask(r) \/ OnBlock(r) \/ Call(r) \/ Exit(r)
Spec == Init /\ [][Next]_vars

Done(r) == pc[r] = "done"
Asked(r) == pc[r] # "ask"
InFlight == { r \in Reqs : Admitted(log[r]) /\ Exits(log[r]) = 0 /\ ~Done(r) }
RECURSIVE SumShare(_)
SumShare(S) == IF S = {} THEN 0 ELSE LET r == CHOOSE x \in S : TRUE IN InboundShare(cls[r]) + SumShare(S \ {r})

TypeOK == /\ \A r \in Reqs : pc[r] \in {"ask", "blocked", "call", "exit", "done"}
          /\ conc \in -K..K
          /\ inb \in -K..K
          /\ limit \in Limits
          /\ \A r \in Reqs : kind[r] \in {"", "flow", "system"} /\ cls[r].sys \in SysStates /\ cls[r].side \in Sides /\ LayerOK(cls[r])
\* every finished request honoured the contract (decision and block type included); every running one can still do so
ContractHonoured == \A r \in Reqs : /\ IF Done(r) THEN Accepts(log[r], cls[r]) ELSE Viable(log[r], cls[r])
                                    /\ Asked(r) => KindOK(log[r], kind[r], cls[r])
\* the gauge counts exactly the admitted requests that have not exited, and returns to zero
GaugeExact    == conc = Cardinality(InFlight)
GaugeReturns  == (\A r \in Reqs : Done(r)) => conc = 0 /\ inb = 0
\* the clauses one by one (so that a counterexample names the clause)
NoHandlerWhenBlocked == \A r \in Reqs : Count(log[r], "block") > 0 => Count(log[r], "handler") = 0
HandlerOnce   == \A r \in Reqs : Count(log[r], "handler") <= 1 /\ (Done(r) /\ Admitted(log[r]) /\ cls[r].wraps => Count(log[r], "handler") = 1)
ExitOnce      == \A r \in Reqs : Exits(log[r]) <= 1 /\ (Done(r) /\ Admitted(log[r]) => Exits(log[r]) = 1)
ErrorTraced   == \A r \in Reqs : (Done(r) /\ Admitted(log[r]) /\ cls[r].wraps /\ cls[r].outcome = "err" /\ cls[r].errsig)
                                    => Count(log[r], "complete-err") = 1
FallbackProduced == \A r \in Reqs : (Done(r) /\ Count(log[r], "block") > 0)
                                    => Count(log[r], IF cls[r].fb = "custom" THEN "fallback" ELSE "reject") = 1
\* a request through a server-side entry point is subject to system protection ...
SystemProtects == \A r \in Reqs : (Asked(r) /\ cls[r].side = "server" /\ cls[r].sys = "violated")
                                    => Count(log[r], "block") = 1 /\ Count(log[r], "pass") = 0 /\ kind[r] = "system"
\* ... a call through a client-side entry point never is
ClientNeverSystemBlocked == \A r \in Reqs : cls[r].side = "client" => kind[r] # "system"
\* nothing is blocked without a cause: a violated system rule (server side) or a rejecting resource rule
BlockHasCause == \A r \in Reqs : Count(log[r], "block") > 0 => (cls[r].flow \/ (cls[r].side = "server" /\ cls[r].sys = "violated"))
\* the global inbound gauge counts exactly the in-flight requests of server-side entry points
InboundExact  == inb = SumShare(InFlight)
=============================================================================
