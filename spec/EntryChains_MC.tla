---------------------------- MODULE EntryChains_MC ----------------------------
(* Bounded instances of EntryChains (several chains alive at once) for exhaustive TLC runs, the spec-level     *)
(* mutant "two chains share their slot lists" and scenario generation (one scenario per generated transition). *)
EXTENDS EntryChains, Json

\* what api.BuildDefaultSlotChain() yields, abstractly: one built-in slot per kind (id 0: passes, does not record)
\* with an order value in the middle of the range AddSlot may use, so that user slots go in front of it and behind it
MCDefaultChain == [pre  |-> << [ord |-> 2, id |-> 0, beh |-> "real"] >>,
                   rule |-> << [ord |-> 2, id |-> 0, beh |-> "pass"] >>,
                   stat |-> << [ord |-> 2, id |-> 0, beh |-> "real"] >>]
MCNone == {}

Emit == PrintT(ToJson(h'))
=============================================================================
