------------------------ MODULE AdapterContract_Trace ------------------------
(***************************************************************************)
(* Validation of executions of the real framework adapters against the     *)
(* contract automaton of AdapterContract (property C19).                   *)
(*                                                                         *)
(* The per-adapter drivers (adapters/<name>/driver_test.go, run inside a   *)
(* scratch copy of each adapter module against the working tree of the     *)
(* core) send {admitted, blocked} x {handler ok, error, panic} through     *)
(* every exported entry point and record ONE ndjson line per request:      *)
(*   op "req", tr, adapter, ep (entry point), variant (options used),      *)
(*   cls = [wraps, errsig, fb, outcome]  what the driver arranged,         *)
(*   events   the observable events in order: pass / block / complete /    *)
(*            complete-err from a recording StatSlot on the global slot    *)
(*            chain (or, for entry points that build a private chain,      *)
(*            from snapshots of the resource's statistic node), handler /  *)
(*            fallback from the driver's own handler and fallback          *)
(*            functions, reject when the response is the adapter's         *)
(*            documented default rejection,                                *)
(*   conc     the in-flight gauge of the resource after the request,       *)
(*   escaped  a panic left the middleware.                                 *)
(* Every line is a trace of its own ("total" mode: a mismatch is printed,  *)
(* validation goes on).  A request honours the contract iff the automaton  *)
(* accepts its event log, the gauge is back to 0, and no panic left the    *)
(* middleware that the handler did not raise.                              *)
(***************************************************************************)
EXTENDS AdapterContract, Json

Trace == ndJsonDeserialize("trace.ndjson")

VARIABLE l
tvars == <<l>>
unused == <<pc, cls, log, conc>>

Ev == Trace[l]

Why(e) == LET d == Diagnose(e.events, e.cls) IN
          IF d # "" THEN d
          ELSE IF e.conc # 0 THEN "gauge-not-back-to-zero"
          ELSE IF e.escaped /\ e.cls.outcome # "panic" THEN "panic-escaped-the-adapter"
          ELSE ""

Judge(ok, expected) ==
    IF ok THEN TRUE
    ELSE PrintT("MISMATCH " \o ToString(Ev.tr) \o " " \o ToString(l) \o " " \o ToJson(expected))

TReq ==
    /\ l <= Len(Trace) /\ Ev.op = "req" /\ l' = l + 1
    /\ Judge(/\ Accepts(Ev.events, Ev.cls)
             /\ Ev.conc = 0
             /\ Ev.escaped => Ev.cls.outcome = "panic",
             [why |-> Why(Ev), adapter |-> Ev.adapter, ep |-> Ev.ep, variant |-> Ev.variant])
    /\ UNCHANGED unused

TInit == l = 1 /\ pc = << >> /\ cls = << >> /\ log = << >> /\ conc = 0
TSpec == TInit /\ [][TReq]_<<l, pc, cls, log, conc>>
=============================================================================
