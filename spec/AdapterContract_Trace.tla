------------------------ MODULE AdapterContract_Trace ------------------------
(***************************************************************************)
(* Validation of executions of the real framework adapters against the     *)
(* contract automaton of AdapterContract (property C19).                   *)
(*                                                                         *)
(* The per-adapter drivers (adapters/<name>/driver_test.go, run inside a   *)
(* scratch copy of each adapter module against the working tree of the     *)
(* core) send {admitted, blocked} x {handler ok, error, panic} through     *)
(* every exported entry point and record ONE ndjson line per request:      *)
(*   op "req", tr, adapter, ep (entry point), variant (options used),      *)
(*   cls = [wraps, errsig, fb, outcome, layer, side, flow, sys]  what the  *)
(*            driver arranged: layer = where the error of the wrapped call *)
(*            arises (client side: the downstream call fails before a node *)
(*            is called / at the node / in a retry hook; the driver's name *)
(*            of the exact place is in field oc), side = what the entry point is (server / client),  *)
(*            flow = a flow rule with threshold 0 sits on the resource the *)
(*            request is meant to hit, sys = "violated" (a system rule is  *)
(*            loaded and violated while the request is sent: Concurrency 1 *)
(*            with one inbound entry held by the driver, or InboundQPS 0;  *)
(*            the driver confirms it with a direct inbound probe entry) |  *)
(*            "slack" (Concurrency 1000 loaded, not violated) | "none",    *)
(*   events   the observable events in order: pass / block / complete /    *)
(*            complete-err from a recording StatSlot on the global slot    *)
(*            chain (or, for entry points that build a private chain,      *)
(*            from snapshots of the resource's statistic node), handler /  *)
(*            fallback from the driver's own handler and fallback          *)
(*            functions, reject when the response is the adapter's         *)
(*            documented default rejection,                                *)
(*   btype    block type carried by the BlockError of the block event:     *)
(*            "flow" | "system" | other | "" (no block seen); src = "node" *)
(*            (private slot chain, observed through the statistic node):   *)
(*            the BlockError is not observable, btype is not judged,       *)
(*   conc     the in-flight gauge of the resource after the request,       *)
(*   inb      the gauge of the global inbound node after the request,      *)
(*            relative to its value before the request was sent,           *)
(*   inbh     the same gauge as the handler saw it (-1: handler not run),  *)
(*   escaped  a panic left the middleware.                                 *)
(* Every line is a trace of its own ("total" mode: a mismatch is printed,  *)
(* validation goes on).  A request honours the contract iff the automaton  *)
(* accepts its event log (which includes the decision where the class      *)
(* fixes it: server side blocked iff a system rule is violated, client side *)
(* never), a block carries the block type the contract demands, the gauges *)
(* are back to 0, the handler of an admitted request saw the inbound gauge *)
(* raised by InboundShare (1 server side, 0 client side), and no panic     *)
(* left the middleware that the handler did not raise.                     *)
(***************************************************************************)
EXTENDS AdapterContract, Json

Trace == ndJsonDeserialize("trace.ndjson")

VARIABLE l
tvars == <<l>>
unused == <<pc, cls, log, conc, limit, inb, kind>>

Ev == Trace[l]

\* the block type is observable only through the recording slot of the global chain
BTypeOK(e) == e.src = "node" \/ KindOK(e.events, e.btype, e.cls)
\* inbound accounting: while the handler of an admitted request runs the request is (server) / is not (client) in flight
\* on the global inbound node; afterwards the node is back where it was
InbOK(e) == /\ e.inb = 0
            /\ (Admitted(e.events) /\ e.inbh # -1) => e.inbh = InboundShare(e.cls)

Why(e) == LET d == Diagnose(e.events, e.cls) IN
          IF ~LayerOK(e.cls) THEN "malformed-class"
          ELSE IF d # "" THEN d
          ELSE IF ~BTypeOK(e) THEN "wrong-block-type"
          ELSE IF e.conc # 0 THEN "gauge-not-back-to-zero"
          ELSE IF Admitted(e.events) /\ e.inbh # -1 /\ e.inbh # InboundShare(e.cls) THEN
                   (IF e.cls.side = "server" THEN "server-request-not-counted-as-inbound" ELSE "client-call-counted-as-inbound")
          ELSE IF e.inb # 0 THEN "inbound-gauge-not-back"
          ELSE IF e.escaped /\ e.cls.outcome # "panic" THEN "panic-escaped-the-adapter"
          ELSE ""

Judge(ok, expected) ==
    IF ok THEN TRUE
    ELSE PrintT("MISMATCH " \o ToString(Ev.tr) \o " " \o ToString(l) \o " " \o ToJson(expected))

TReq ==
    /\ l <= Len(Trace) /\ Ev.op = "req" /\ l' = l + 1
    /\ Judge(/\ LayerOK(Ev.cls)
             /\ Accepts(Ev.events, Ev.cls)
             /\ BTypeOK(Ev)
             /\ Ev.conc = 0
             /\ InbOK(Ev)
             /\ Ev.escaped => Ev.cls.outcome = "panic",
             [why |-> Why(Ev), adapter |-> Ev.adapter, ep |-> Ev.ep, variant |-> Ev.variant])
    /\ UNCHANGED unused

TInit == l = 1 /\ pc = << >> /\ cls = << >> /\ log = << >> /\ conc = 0 /\ limit = 0 /\ inb = 0 /\ kind = << >>
TSpec == TInit /\ [][TReq]_<<l, pc, cls, log, conc, limit, inb, kind>>
=============================================================================
