---------------------------- MODULE Throttle_Trace ----------------------------
(***************************************************************************)
(* Property C10 judged on request-level traces of the REAL throttling      *)
(* checker (harness/cmd/c10):                                              *)
(*   new(tr, maxq, tol, si [, tn, td] [, rule])                            *)
(*   reload(si, maxq [, tn, td] [, rule])                                  *)
(*   inv(p, arr, b [, tn, td | mem])   ret(p, res, w)  step  tick  end     *)
(* in the total order of the execution.                                    *)
(* The parameters of the rule in force are STATE of this spec (`cur'):     *)
(* `new' carries the rule loaded first, every `reload' (flow.LoadRules /   *)
(* LoadRulesOfResource returned) the rule that replaces it and starts a    *)
(* new epoch.  An invocation is recorded with the epoch, the statistic     *)
(* interval and the queueing limit in force at that moment and with the    *)
(* THRESHOLD IN FORCE FOR THAT REQUEST: the fraction tn/td handed to the   *)
(* check when the event carries one (direct DoCheck calls: the argument of *)
(* the call), for a MemoryAdaptive rule the value the spec derives from    *)
(* the memory usage `mem' published before the request                     *)
(* (ThrottleProp!MemThr on the rule in force), otherwise the threshold of  *)
(* the rule in force.  The spacing owed by a request is computed by the    *)
(* spec from those (ThrottleProp!Iv).  At the end of a trace the operators *)
(* of ThrottleProp decide Spacing, BoundedWait and NoSpuriousReject (with  *)
(* the trace's float slack `tol'); what is owed across a reload is stated  *)
(* in ThrottleProp.                                                        *)
(***************************************************************************)
EXTENDS ThrottleProp, Sequences, TLC, Json

Trace == ndJsonDeserialize("trace.ndjson")
VARIABLES l, g, cur, seq, reqs, pend, failed
tvars == <<l, g, cur, seq, reqs, pend, failed>>
Ev == Trace[l]
IsEvent(op) == l <= Len(Trace) /\ Ev.op = op /\ l' = l + 1
Procs == 1..64
None == [id |-> 0]
NoRule == [low |-> 0, high |-> 0, lwm |-> 0, hwm |-> 0]

Judge(ok, expected) ==
    IF failed \/ ok THEN failed' = failed
    ELSE /\ failed' = TRUE
         /\ PrintT("MISMATCH " \o ToString(g.tr) \o " " \o ToString(l) \o " " \o ToJson(expected))

\* the rule an event loads; fields it does not carry keep the value of `old'
RuleOf(e, old, epoch) ==
    [ep |-> epoch, si |-> e.si, maxq |-> e.maxq,
     tn |-> IF "tn" \in DOMAIN e THEN e.tn ELSE old.tn, td |-> IF "td" \in DOMAIN e THEN e.td ELSE old.td,
     rule |-> IF "rule" \in DOMAIN e
              THEN [low |-> e.rule.low, high |-> e.rule.high, lwm |-> e.rule.lwm, hwm |-> e.rule.hwm]
              ELSE old.rule]
Cur0 == [ep |-> 0, si |-> 1, maxq |-> 0, tn |-> 0, td |-> 1, rule |-> NoRule]

TNew ==
    /\ IsEvent("new")
    /\ g' = [tr |-> Ev.tr, tol |-> Ev.tol]
    /\ cur' = RuleOf(Ev, Cur0, 0)
    /\ seq' = 0 /\ reqs' = {} /\ pend' = [p \in Procs |-> None] /\ failed' = FALSE

\* a rule reload returned: from now on every arriving request is owed the parameters it carries
TReload ==
    /\ IsEvent("reload")
    /\ cur' = RuleOf(Ev, cur, cur.ep + 1)
    /\ UNCHANGED <<g, seq, reqs, pend, failed>>

\* the threshold in force for the request being invoked
ThrOf(e) == IF "mem" \in DOMAIN e THEN MemThr(cur.rule, e.mem)
            ELSE IF "tn" \in DOMAIN e THEN <<e.tn, e.td>> ELSE <<cur.tn, cur.td>>

TInv ==
    /\ IsEvent("inv")
    /\ seq' = seq + 1
    /\ pend' = [pend EXCEPT ![Ev.p] = [id |-> Ev.p, arr |-> Ev.arr, b |-> Ev.b, tn |-> ThrOf(Ev)[1], td |-> ThrOf(Ev)[2],
                                       si |-> cur.si, mq |-> cur.maxq, g |-> cur.ep,
                                       res |-> "pending", w |-> 0, inv |-> seq + 1, ret |-> 0]]
    /\ UNCHANGED <<g, cur, reqs, failed>>

TRet ==
    /\ IsEvent("ret")
    /\ seq' = seq + 1
    /\ reqs' = reqs \cup {[pend[Ev.p] EXCEPT !.res = Ev.res, !.w = Ev.w, !.ret = seq + 1]}
    /\ pend' = [pend EXCEPT ![Ev.p] = None]
    /\ UNCHANGED <<g, cur, failed>>

TStep == IsEvent("step") /\ UNCHANGED <<g, cur, seq, reqs, pend, failed>>
TTick == IsEvent("tick") /\ UNCHANGED <<g, cur, seq, reqs, pend, failed>>

\* what the spec holds each request to (reported with a rejected trace)
Owes(rs) == { [id |-> r.id, g |-> r.g, iv |-> Iv(r), mq |-> r.mq, big |-> Big(r)] : r \in rs }

TEnd ==
    /\ IsEvent("end")
    /\ Judge(Spacing(reqs) /\ BoundedWait(reqs) /\ NoSpuriousReject(reqs, g.tol),
             [spacing |-> Spacing(reqs), boundedwait |-> BoundedWait(reqs),
              nospurious |-> NoSpuriousReject(reqs, g.tol), owes |-> Owes(reqs), reqs |-> reqs])
    /\ UNCHANGED <<g, cur, seq, reqs, pend>>

TInit == l = 1 /\ g = [tr |-> 0, tol |-> 0] /\ cur = Cur0 /\ seq = 0 /\ reqs = {}
         /\ pend = [p \in Procs |-> None] /\ failed = FALSE
TNext == TNew \/ TReload \/ TInv \/ TRet \/ TStep \/ TTick \/ TEnd
TSpec == TInit /\ [][TNext]_tvars
=============================================================================
