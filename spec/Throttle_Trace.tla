---------------------------- MODULE Throttle_Trace ----------------------------
(***************************************************************************)
(* Property C10 judged on request-level traces of the REAL throttling      *)
(* checker (harness/cmd/c10):                                              *)
(*   new(tr, maxq, tol, si [, rule])  inv(p, arr, b, tn, td | mem)         *)
(*   ret(p, res, w)  step  tick  end                                       *)
(* in the total order of the execution.  Every invocation carries the      *)
(* batch and the THRESHOLD IN FORCE FOR THAT REQUEST: either the fraction  *)
(* tn/td handed to the check (Direct rule: the rule's threshold; direct    *)
(* DoCheck calls: the argument of the call), or - for a MemoryAdaptive     *)
(* rule - the memory usage `mem' published before the request, from which  *)
(* the spec derives the threshold (ThrottleProp!MemThr).  The spacing owed *)
(* by a request is computed by the spec from that threshold and the        *)
(* statistic interval `si' of the trace (ThrottleProp!Iv).  At the end of  *)
(* a trace the operators of ThrottleProp decide Spacing, BoundedWait and   *)
(* NoSpuriousReject (with the trace's float slack `tol').                  *)
(***************************************************************************)
EXTENDS ThrottleProp, Sequences, TLC, Json

Trace == ndJsonDeserialize("trace.ndjson")
VARIABLES l, g, seq, reqs, pend, failed
tvars == <<l, g, seq, reqs, pend, failed>>
Ev == Trace[l]
IsEvent(op) == l <= Len(Trace) /\ Ev.op = op /\ l' = l + 1
Procs == 1..64
None == [id |-> 0]
NoRule == [low |-> 0, high |-> 0, lwm |-> 0, hwm |-> 0]

Judge(ok, expected) ==
    IF failed \/ ok THEN failed' = failed
    ELSE /\ failed' = TRUE
         /\ PrintT("MISMATCH " \o ToString(g.tr) \o " " \o ToString(l) \o " " \o ToJson(expected))

TNew ==
    /\ IsEvent("new")
    /\ g' = [tr |-> Ev.tr, maxq |-> Ev.maxq, tol |-> Ev.tol, si |-> Ev.si,
             rule |-> IF "rule" \in DOMAIN Ev
                      THEN [low |-> Ev.rule.low, high |-> Ev.rule.high, lwm |-> Ev.rule.lwm, hwm |-> Ev.rule.hwm]
                      ELSE NoRule]
    /\ seq' = 0 /\ reqs' = {} /\ pend' = [p \in Procs |-> None] /\ failed' = FALSE

\* the threshold in force for the request being invoked
ThrOf(e) == IF "mem" \in DOMAIN e THEN MemThr(g.rule, e.mem) ELSE <<e.tn, e.td>>

TInv ==
    /\ IsEvent("inv")
    /\ seq' = seq + 1
    /\ pend' = [pend EXCEPT ![Ev.p] = [id |-> Ev.p, arr |-> Ev.arr, b |-> Ev.b, tn |-> ThrOf(Ev)[1], td |-> ThrOf(Ev)[2],
                                       res |-> "pending", w |-> 0, inv |-> seq + 1, ret |-> 0]]
    /\ UNCHANGED <<g, reqs, failed>>

TRet ==
    /\ IsEvent("ret")
    /\ seq' = seq + 1
    /\ reqs' = reqs \cup {[pend[Ev.p] EXCEPT !.res = Ev.res, !.w = Ev.w, !.ret = seq + 1]}
    /\ pend' = [pend EXCEPT ![Ev.p] = None]
    /\ UNCHANGED <<g, failed>>

TStep == IsEvent("step") /\ UNCHANGED <<g, seq, reqs, pend, failed>>
TTick == IsEvent("tick") /\ UNCHANGED <<g, seq, reqs, pend, failed>>

\* what the spec holds each request to (reported with a rejected trace)
Owes(rs, si) == { [id |-> r.id, iv |-> Iv(r, si), big |-> Big(r)] : r \in rs }

TEnd ==
    /\ IsEvent("end")
    /\ Judge(Spacing(reqs, g.si) /\ BoundedWait(reqs, g.maxq) /\ NoSpuriousReject(reqs, g.si, g.maxq, g.tol),
             [spacing |-> Spacing(reqs, g.si), boundedwait |-> BoundedWait(reqs, g.maxq),
              nospurious |-> NoSpuriousReject(reqs, g.si, g.maxq, g.tol), owes |-> Owes(reqs, g.si), reqs |-> reqs])
    /\ UNCHANGED <<g, seq, reqs, pend>>

TInit == l = 1 /\ g = [tr |-> 0, maxq |-> 0, tol |-> 0, si |-> 1, rule |-> NoRule] /\ seq = 0 /\ reqs = {}
         /\ pend = [p \in Procs |-> None] /\ failed = FALSE
TNext == TNew \/ TInv \/ TRet \/ TStep \/ TTick \/ TEnd
TSpec == TInit /\ [][TNext]_tvars
=============================================================================
