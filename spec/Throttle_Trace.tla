---------------------------- MODULE Throttle_Trace ----------------------------
(***************************************************************************)
(* Property C10 judged on request-level traces of the REAL throttling      *)
(* checker (harness/cmd/c10): inv(p, arr, iv, big)  ret(p, res, w)  step   *)
(* tick  end, in the total order of the execution.  At the end of a trace  *)
(* the operators of ThrottleProp decide Spacing, BoundedWait and           *)
(* NoSpuriousReject (with the trace's float slack `tol').                  *)
(***************************************************************************)
EXTENDS ThrottleProp, Sequences, TLC, Json

Trace == ndJsonDeserialize("trace.ndjson")
VARIABLES l, g, seq, reqs, pend, failed
tvars == <<l, g, seq, reqs, pend, failed>>
Ev == Trace[l]
IsEvent(op) == l <= Len(Trace) /\ Ev.op = op /\ l' = l + 1
Procs == 1..64
None == [id |-> 0]

Judge(ok, expected) ==
    IF failed \/ ok THEN failed' = failed
    ELSE /\ failed' = TRUE
         /\ PrintT("MISMATCH " \o ToString(g.tr) \o " " \o ToString(l) \o " " \o ToJson(expected))

TNew ==
    /\ IsEvent("new")
    /\ g' = [tr |-> Ev.tr, maxq |-> Ev.maxq, tol |-> Ev.tol]
    /\ seq' = 0 /\ reqs' = {} /\ pend' = [p \in Procs |-> None] /\ failed' = FALSE

TInv ==
    /\ IsEvent("inv")
    /\ seq' = seq + 1
    /\ pend' = [pend EXCEPT ![Ev.p] = [id |-> Ev.p, arr |-> Ev.arr, iv |-> Ev.iv, res |-> "pending", w |-> 0,
                                       inv |-> seq + 1, ret |-> 0, big |-> Ev.big]]
    /\ UNCHANGED <<g, reqs, failed>>

TRet ==
    /\ IsEvent("ret")
    /\ seq' = seq + 1
    /\ reqs' = reqs \cup {[pend[Ev.p] EXCEPT !.res = Ev.res, !.w = Ev.w, !.ret = seq + 1]}
    /\ pend' = [pend EXCEPT ![Ev.p] = None]
    /\ UNCHANGED <<g, failed>>

TStep == IsEvent("step") /\ UNCHANGED <<g, seq, reqs, pend, failed>>
TTick == IsEvent("tick") /\ UNCHANGED <<g, seq, reqs, pend, failed>>

TEnd ==
    /\ IsEvent("end")
    /\ Judge(Spacing(reqs) /\ BoundedWait(reqs, g.maxq) /\ NoSpuriousReject(reqs, g.maxq, g.tol),
             [spacing |-> Spacing(reqs), boundedwait |-> BoundedWait(reqs, g.maxq),
              nospurious |-> NoSpuriousReject(reqs, g.maxq, g.tol), reqs |-> reqs])
    /\ UNCHANGED <<g, seq, reqs, pend>>

TInit == l = 1 /\ g = [tr |-> 0, maxq |-> 0, tol |-> 0] /\ seq = 0 /\ reqs = {} /\ pend = [p \in Procs |-> None] /\ failed = FALSE
TNext == TNew \/ TInv \/ TRet \/ TStep \/ TTick \/ TEnd
TSpec == TInit /\ [][TNext]_tvars
=============================================================================
