---------------------------- MODULE Throttle_Trace ----------------------------
(***************************************************************************)
(* Property C10 judged on request-level traces of the REAL throttling      *)
(* checker (harness/cmd/c10):                                              *)
(*   new(tr, maxq, tol, si [, tn, td] [, rule])                            *)
(*   reload(si, maxq [, tn, td] [, rule])                                  *)
(*   inv(p, arr, b [, tn, td | mem])   ret(p, res, w)  step  tick  end     *)
(* in the total order of the execution.                                    *)
(* The parameters of the rule in force are STATE of this spec (`cur'):     *)
(* `new' carries the rule loaded first, every `reload' (flow.LoadRules /   *)
(* LoadRulesOfResource returned) the rule that replaces it and starts a    *)
(* new epoch.  An invocation is recorded with the epoch, the statistic     *)
(* interval and the queueing limit in force at that moment and with the    *)
(* THRESHOLD IN FORCE FOR THAT REQUEST: the fraction tn/td handed to the   *)
(* check when the event carries one (direct DoCheck calls: the argument of *)
(* the call), for a MemoryAdaptive rule the value the spec derives from    *)
(* the memory usage `mem' published before the request                     *)
(* (ThrottleProp!MemThr on the rule in force), otherwise the threshold of  *)
(* the rule in force.  The spacing owed by a request is computed by the    *)
(* spec from those (ThrottleProp!Iv).  At the end of a trace the operators *)
(* of ThrottleProp decide Spacing, BoundedWait and NoSpuriousReject (with  *)
(* the trace's float slack `tol'); what is owed across a reload is stated  *)
(* in ThrottleProp.                                                        *)
(*                                                                         *)
(* SEVERAL THROTTLING RULES ON ONE RESOURCE (sequential callers through    *)
(* api.Entry under the advancing virtual clock) are traces of their own:   *)
(*   newl(tr, tol, list = <<[si, maxq, tn, td], ...>>)   the rules in list *)
(*                                                        order            *)
(*   invl(p, arr, b)    retl(p, res, w, by)    endl                        *)
(* w = the TOTAL the request was made to sleep (sum of the Sleep calls of  *)
(* that api.Entry call - before it passed or before it was rejected),      *)
(* by = position in the list of the rule the rejection names (0: none).    *)
(* On every return ThrottleProp!Attribute turns the observable into one    *)
(* record per rule the request reached (instant it got there = arrival +   *)
(* the waits attributed to the rules in front); `endl' judges the clauses  *)
(* PER RULE over those records (ListSpacing / ListBoundedWait /            *)
(* ListNoSpurious / ListRejectOK).                                         *)
(***************************************************************************)
EXTENDS ThrottleProp, Sequences, TLC, Json

Trace == ndJsonDeserialize("trace.ndjson")
VARIABLES l, g, cur, seq, reqs, pend, failed,
          lst       \* traces with a list of rules: [rules, obs, recs, q] - the rules in list order, the request-level
                    \* observables, recs[j] = records attributed to rule j, q = the request in flight
tvars == <<l, g, cur, seq, reqs, pend, failed, lst>>
NoList == [rules |-> << >>, obs |-> {}, recs |-> << >>, q |-> [id |-> 0]]
Ev == Trace[l]
IsEvent(op) == l <= Len(Trace) /\ Ev.op = op /\ l' = l + 1
Procs == 1..64
None == [id |-> 0]
NoRule == [low |-> 0, high |-> 0, lwm |-> 0, hwm |-> 0]

Judge(ok, expected) ==
    IF failed \/ ok THEN failed' = failed
    ELSE /\ failed' = TRUE
         /\ PrintT("MISMATCH " \o ToString(g.tr) \o " " \o ToString(l) \o " " \o ToJson(expected))

\* the rule an event loads; fields it does not carry keep the value of `old'
RuleOf(e, old, epoch) ==
    [ep |-> epoch, si |-> e.si, maxq |-> e.maxq,
     tn |-> IF "tn" \in DOMAIN e THEN e.tn ELSE old.tn, td |-> IF "td" \in DOMAIN e THEN e.td ELSE old.td,
     rule |-> IF "rule" \in DOMAIN e
              THEN [low |-> e.rule.low, high |-> e.rule.high, lwm |-> e.rule.lwm, hwm |-> e.rule.hwm]
              ELSE old.rule]
Cur0 == [ep |-> 0, si |-> 1, maxq |-> 0, tn |-> 0, td |-> 1, rule |-> NoRule]

TNew ==
    /\ IsEvent("new")
    /\ g' = [tr |-> Ev.tr, tol |-> Ev.tol]
    /\ cur' = RuleOf(Ev, Cur0, 0)
    /\ seq' = 0 /\ reqs' = {} /\ pend' = [p \in Procs |-> None] /\ failed' = FALSE /\ lst' = NoList

\* a rule reload returned: from now on every arriving request is owed the parameters it carries
TReload ==
    /\ IsEvent("reload")
    /\ cur' = RuleOf(Ev, cur, cur.ep + 1)
    /\ UNCHANGED <<g, seq, reqs, pend, failed, lst>>

\* the threshold in force for the request being invoked
ThrOf(e) == IF "mem" \in DOMAIN e THEN MemThr(cur.rule, e.mem)
            ELSE IF "tn" \in DOMAIN e THEN <<e.tn, e.td>> ELSE <<cur.tn, cur.td>>

TInv ==
    /\ IsEvent("inv")
    /\ seq' = seq + 1
    /\ pend' = [pend EXCEPT ![Ev.p] = [id |-> Ev.p, arr |-> Ev.arr, b |-> Ev.b, tn |-> ThrOf(Ev)[1], td |-> ThrOf(Ev)[2],
                                       si |-> cur.si, mq |-> cur.maxq, g |-> cur.ep,
                                       res |-> "pending", w |-> 0, inv |-> seq + 1, ret |-> 0]]
    /\ UNCHANGED <<g, cur, reqs, failed, lst>>

TRet ==
    /\ IsEvent("ret")
    /\ seq' = seq + 1
    /\ reqs' = reqs \cup {[pend[Ev.p] EXCEPT !.res = Ev.res, !.w = Ev.w, !.ret = seq + 1]}
    /\ pend' = [pend EXCEPT ![Ev.p] = None]
    /\ UNCHANGED <<g, cur, failed, lst>>

TStep == IsEvent("step") /\ UNCHANGED <<g, cur, seq, reqs, pend, failed, lst>>
TTick == IsEvent("tick") /\ UNCHANGED <<g, cur, seq, reqs, pend, failed, lst>>

\* what the spec holds each request to (reported with a rejected trace)
Owes(rs) == { [id |-> r.id, g |-> r.g, iv |-> Iv(r), mq |-> r.mq, big |-> Big(r)] : r \in rs }

TEnd ==
    /\ IsEvent("end")
    /\ Judge(Spacing(reqs) /\ BoundedWait(reqs) /\ NoSpuriousReject(reqs, g.tol),
             [spacing |-> Spacing(reqs), boundedwait |-> BoundedWait(reqs),
              nospurious |-> NoSpuriousReject(reqs, g.tol), owes |-> Owes(reqs), reqs |-> reqs])
    /\ UNCHANGED <<g, cur, seq, reqs, pend, lst>>

\* ---- several throttling rules on one resource --------------------------------------------------------------
TNewL ==
    /\ IsEvent("newl")
    /\ g' = [tr |-> Ev.tr, tol |-> Ev.tol]
    /\ lst' = [rules |-> [j \in 1..Len(Ev.list) |-> [si |-> Ev.list[j].si, mq |-> Ev.list[j].maxq, tn |-> Ev.list[j].tn, td |-> Ev.list[j].td]],
               obs |-> {}, recs |-> [j \in 1..Len(Ev.list) |-> {}], q |-> [id |-> 0]]
    /\ cur' = Cur0 /\ seq' = 0 /\ reqs' = {} /\ pend' = [p \in Procs |-> None] /\ failed' = FALSE

TInvL ==
    /\ IsEvent("invl")
    /\ seq' = seq + 1
    /\ lst' = [lst EXCEPT !.q = [id |-> Ev.p, arr |-> Ev.arr, b |-> Ev.b, res |-> "pending", w |-> 0, by |-> 0, inv |-> seq + 1, ret |-> 0]]
    /\ UNCHANGED <<g, cur, reqs, pend, failed>>

\* the call returned: attribute the total wait to the rules the request reached
TRetL ==
    /\ IsEvent("retl")
    /\ seq' = seq + 1
    /\ LET q == [lst.q EXCEPT !.res = Ev.res, !.w = Ev.w, !.by = Ev.by, !.ret = seq + 1]
       IN lst' = [lst EXCEPT !.obs = @ \cup {q}, !.recs = Attribute(lst.rules, lst.recs, q, 1, q.arr, q.w), !.q = [id |-> 0]]
    /\ UNCHANGED <<g, cur, reqs, pend, failed>>

\* what the spec made of each request at each rule (reported with a rejected trace)
AtRules(recs) == [j \in DOMAIN recs |-> { [id |-> r.id, at |-> r.arr, w |-> r.w, res |-> r.res, iv |-> Iv(r), mq |-> r.mq] : r \in recs[j] }]

\* pairs of requests a rule admitted closer together than the later one is owed (reported with a rejected trace)
TooClose(recs) == UNION { { [rule |-> j, a |-> a.id, passa |-> PassT(a), b |-> b.id, passb |-> PassT(b), owed |-> Iv(b)] :
                            <<a, b>> \in { x \in Paced(recs[j]) \X Paced(recs[j]) :
                                           /\ x[1].id # x[2].id /\ PassT(x[1]) <= PassT(x[2])
                                           /\ PassT(x[2]) - PassT(x[1]) < Iv(x[2]) /\ ~(PassT(x[1]) - PassT(x[2]) >= Iv(x[1])) } }
                          : j \in DOMAIN recs }

\* requests a rule let through although it had to make them wait beyond its limit (reported with a rejected trace)
OverLimit(recs, tol) == UNION { { [rule |-> j, id |-> r.id, at |-> r.arr, w |-> r.w, mq |-> r.mq] :
                                  r \in { x \in Admitted(recs[j]) : x.w < 0 \/ x.w > x.mq + (j - 1) * tol } } : j \in DOMAIN recs }

TEndL ==
    /\ IsEvent("endl")
    /\ Judge(/\ ListSpacing(lst.recs) /\ ListBoundedWait(lst.recs, g.tol) /\ ListNoSpurious(lst.recs, g.tol)
             /\ ListRejectOK(lst.obs, lst.rules, g.tol),
             [spacing |-> [j \in DOMAIN lst.recs |-> Spacing(lst.recs[j])],
              boundedwait |-> ListBoundedWait(lst.recs, g.tol),
              nospurious |-> [j \in DOMAIN lst.recs |-> NoSpuriousReject(lst.recs[j], j * g.tol)],
              rejectok |-> ListRejectOK(lst.obs, lst.rules, g.tol), tooclose |-> TooClose(lst.recs), overlimit |-> OverLimit(lst.recs, g.tol), atrules |-> AtRules(lst.recs)])
    /\ UNCHANGED <<g, cur, seq, reqs, pend, lst>>

TInit == l = 1 /\ g = [tr |-> 0, tol |-> 0] /\ cur = Cur0 /\ seq = 0 /\ reqs = {}
         /\ pend = [p \in Procs |-> None] /\ failed = FALSE /\ lst = NoList
TNext == TNew \/ TReload \/ TInv \/ TRet \/ TStep \/ TTick \/ TEnd \/ TNewL \/ TInvL \/ TRetL \/ TEndL
TSpec == TInit /\ [][TNext]_tvars
=============================================================================
