---------------------------- MODULE Sentinel_Trace ----------------------------
(***************************************************************************)
(* Executions of the real library with flow, isolation, hot-parameter and  *)
(* circuit-breaker rules loaded on ONE resource at the same time, through  *)
(* the default global slot chain (harness/cmd/c21), judged against the     *)
(* composition of SentinelOps: for every Entry the decision and the block  *)
(* type must be those of the first blocking slot in chain order, computed  *)
(* from the state that only ADMITTED requests have shaped.                 *)
(***************************************************************************)
EXTENDS SentinelOps, Sequences, TLC, Json

Trace == ndJsonDeserialize("trace.ndjson")
VARIABLES l, S, R, tr, failed
tvars == <<l, S, R, tr, failed>>
Ev == Trace[l]
IsEvent(op) == l <= Len(Trace) /\ Ev.op = op /\ l' = l + 1

Judge(ok, expected) ==
    IF failed \/ ok THEN failed' = failed
    ELSE /\ failed' = TRUE
         /\ PrintT("MISMATCH " \o ToString(tr) \o " " \o ToString(l) \o " " \o ToJson(expected))

TNew ==
    /\ IsEvent("new")
    /\ tr' = Ev.tr /\ R' = Ev.rules /\ S' = InitState(Ev.t0) /\ failed' = FALSE

TEnter ==
    /\ IsEvent("enter")
    /\ LET d == Decide(S, R, Ev.b, Ev.arg) IN
       /\ Judge(Ev.ok = d.ok /\ Ev.bt = d.bt,
                [expected |-> d, window |-> RefSum(S.ref, 1, S.now, 2, "pass"), live |-> Cardinality(S.live),
                 liveForArg |-> Cardinality(LiveFor(S, Ev.arg)), breaker |-> S.cb, now |-> S.now])
       \* the abstract state follows what the spec says (a mismatch ends the judgement of this trace anyway)
       /\ S' = AfterEntry(S, R, Ev.id, Ev.b, Ev.arg)
    /\ UNCHANGED <<R, tr>>

TExit ==
    /\ IsEvent("exit")
    /\ S' = IF \E e \in S.live : e.id = Ev.id THEN AfterExit(S, R, Ev.id, Ev.err) ELSE S
    /\ UNCHANGED <<R, tr, failed>>

TTick ==
    /\ IsEvent("tick")
    /\ S' = AfterTick(S, Ev.d)
    /\ UNCHANGED <<R, tr, failed>>

TInit == l = 1 /\ S = InitState(1) /\ R = [flow |-> -1, iso |-> -1, hot |-> -1, cbE |-> -1, cbTO |-> 1] /\ tr = 0 /\ failed = FALSE
TNext == TNew \/ TEnter \/ TExit \/ TTick
TSpec == TInit /\ [][TNext]_tvars
=============================================================================
