---------------------------- MODULE Sentinel_Trace ----------------------------
(***************************************************************************)
(* Executions of the real library through the default global slot chain    *)
(* (harness/cmd/c21, public API only): one or two resources, each with its *)
(* own flow, isolation, hot-parameter concurrency, hot-parameter QPS and   *)
(* circuit-breaker rules, system rules on the global inbound node, inbound *)
(* and outbound entries, reloads of every module in the middle of the      *)
(* history, completions with and without an error (Exit(WithError) /       *)
(* api.TraceError), late and repeated calls on completed entries.          *)
(* Judged against the composition of SentinelOps ("total mode"): for EVERY *)
(* Entry the decision and the block type must be those of the first        *)
(* blocking slot in chain order under the rules in force, computed from    *)
(* the state that the earlier operations have shaped; after every Entry /  *)
(* Exit / late call the in-flight gauges of the global inbound node        *)
(* (recorded as the difference to its value at the start of the trace) and *)
(* of the resource must be the ones the composition keeps; at the end of a *)
(* trace (every entry exited) all gauges are back where they started.      *)
(***************************************************************************)
EXTENDS SentinelOps, TLC, Json

Trace == ndJsonDeserialize("trace.ndjson")
VARIABLES l, S, R, tr, failed
tvars == <<l, S, R, tr, failed>>
Ev == Trace[l]
IsEvent(op) == l <= Len(Trace) /\ Ev.op = op /\ l' = l + 1

Judge(ok, expected) ==
    IF failed \/ ok THEN failed' = failed
    ELSE /\ failed' = TRUE
         /\ PrintT("MISMATCH " \o ToString(tr) \o " " \o ToString(l) \o " " \o ToJson(expected))

Diag(r) == [window |-> Window(S.res[r].ref, S.now), live |-> Cardinality(S.res[r].live), hcnt |-> S.res[r].hcnt,
            tokens |-> S.res[r].hk, filled |-> S.res[r].ht, breaker |-> S.res[r].cb, now |-> S.now,
            inboundGauge |-> S.ic, inboundWindow |-> Window(S.iref, S.now), rules |-> R.res[r], sys |-> R.sys]

TNew ==
    /\ IsEvent("new")
    /\ tr' = Ev.tr /\ R' = Ev.rules /\ S' = InitState(Ev.t0, DOMAIN Ev.rules.res) /\ failed' = FALSE

TEnter ==
    /\ IsEvent("enter")
    /\ LET q  == [b |-> Ev.b, arg |-> Ev.arg, ty |-> Ev.ty]
           d  == Decide(S, R, Ev.r, q)
           S2 == AfterEntry(S, R, Ev.r, Ev.id, q)
       IN
       /\ Judge(Ev.ok = d.ok /\ Ev.bt = d.bt /\ Ev.gi = S2.ic /\ Ev.gr = S2.res[Ev.r].rc,
                [expected |-> d, gi |-> S2.ic, gr |-> S2.res[Ev.r].rc, state |-> Diag(Ev.r)])
       \* the abstract state follows what the spec says (a mismatch ends the judgement of this trace anyway)
       /\ S' = S2
    /\ UNCHANGED <<R, tr>>

TExit ==
    /\ IsEvent("exit")
    /\ LET S2 == IF IsLive(S, Ev.r, Ev.id) THEN AfterExit(S, R, Ev.r, Ev.id, Ev.err) ELSE S IN
       /\ Judge(Ev.gi = S2.ic /\ Ev.gr = S2.res[Ev.r].rc, [gi |-> S2.ic, gr |-> S2.res[Ev.r].rc])
       /\ S' = S2
    /\ UNCHANGED <<R, tr>>

TTrace ==
    /\ IsEvent("trace")
    /\ S' = AfterTrace(S, Ev.r, Ev.id)
    /\ UNCHANGED <<R, tr, failed>>

\* a call on an entry that has already completed: nothing may move
TLate ==
    /\ IsEvent("late")
    /\ Judge(Ev.gi = S.ic /\ Ev.gr = S.res[Ev.r].rc, [gi |-> S.ic, gr |-> S.res[Ev.r].rc])
    /\ UNCHANGED <<S, R, tr>>

TTick ==
    /\ IsEvent("tick")
    /\ S' = AfterTick(S, Ev.d)
    /\ UNCHANGED <<R, tr, failed>>

TReload ==
    /\ IsEvent("reload")
    /\ S' = AfterReload(S, R, Ev.r, Ev.mod, Ev.val)
    /\ R' = NewRules(R, Ev.r, Ev.mod, Ev.val)
    /\ UNCHANGED <<tr, failed>>

\* the driver has exited every entry that was still open: every gauge is back at its starting value
TEnd ==
    /\ IsEvent("end")
    /\ Judge(Ev.gi = 0 /\ \A i \in DOMAIN Ev.gr : Ev.gr[i] = 0, [gi |-> 0, open |-> { e.id : e \in UNION { S.res[r].live : r \in DOMAIN S.res } }])
    /\ UNCHANGED <<S, R, tr>>

TInit == l = 1 /\ S = InitState(1, {1}) /\ R = [sys |-> NoSys, res |-> <<NoRule>>] /\ tr = 0 /\ failed = FALSE
TNext == TNew \/ TEnter \/ TExit \/ TTrace \/ TLate \/ TTick \/ TReload \/ TEnd
TSpec == TInit /\ [][TNext]_tvars
=============================================================================
