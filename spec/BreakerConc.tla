---------------------------- MODULE BreakerConc ----------------------------
(***************************************************************************)
(* Circuit breaker of sentinel-golang at the grain of its atomic accesses  *)
(* (property C12).  One breaker (error-count strategy, threshold Thr,      *)
(* minimum request amount MinAmt, retry timeout Timeout, probe number      *)
(* ProbeNum), NC client goroutines each performing Entry (TryPass) and, if *)
(* admitted, Exit (OnRequestComplete with its scripted error flag), and a  *)
(* clock.  Every label is a yield point of the real code (util/vhook):     *)
(*   cb.get  cb.deadline.load  cb.cas  cb.deadline.store  cb.probe.add     *)
(*   cb.probe.reset  cb.notify                                             *)
(* so a TLC behaviour is a schedule that the goroutine gate can force on   *)
(* the real breaker, and `sched' (hidden by VIEW) records who moved.       *)
(***************************************************************************)
EXTENDS Integers, Sequences, FiniteSets, TLC

CONSTANTS NC,        \* number of clients
          Errs,      \* client -> BOOLEAN: does its request fail
          Timeout, ProbeNum, Thr, MinAmt, MaxT,
          InitOpen,  \* TRUE: the breaker starts Open (opened at time 1, deadline 1+Timeout)
          DlFirst    \* TRUE: the retry deadline is stored BEFORE the swap to Open (the code after
                     \* "fix: publish the retry deadline before the state swap"); FALSE: the order of the
                     \* pinned tree (swap, then store) - kept as a spec-level mutant whose counterexample
                     \* is replayed on the real code

Clients == 1..NC

(* --algorithm BreakerConc {
variables
    state = IF InitOpen THEN "O" ELSE "C",
    retryAt = IF InitOpen THEN 1 + Timeout ELSE 0,
    probes = 0,
    tot = IF InitOpen THEN MinAmt ELSE 0, errs = IF InitOpen THEN Thr ELSE 0,
    now = 1,
    listen = << >>,            \* listener callbacks in call order: <<from, to, who>>
    \* ghosts
    openedAt = IF InitOpen THEN 1 ELSE 0,   \* time of the latest transition to Open
    epoch = 0,                 \* number of passages to HalfOpen
    admittedIn = [e \in 0..(2*NC) |-> 0],   \* requests admitted in half-open epoch e
    pubAt = IF InitOpen THEN 1 ELSE -1,     \* instant at which the opener published the deadline of this opening (-1: not yet)
    early = FALSE,             \* some probe compared the deadline before openedAt + Timeout, and the reason:
    earlyStale = FALSE,        \*   its compare is older than the latest re-opening (ABA on the state word)
    earlyStalled = FALSE,      \*   it honoured the published deadline, but the opener was stalled >= Timeout before the swap
    earlyPub = FALSE,          \*   neither: it saw Open together with a deadline not published for this opening
    ntrans = 0,                \* number of successful state swaps
    sched = << >>;

define {
    \* NoEarlyProbe is the property as stated.  With two separate words (state, deadline) it can only hold
    \* when the opener is not stalled for a whole retry timeout between publishing the deadline and swapping
    \* the state; NoEarlyProbePub is what the fixed code guarantees under EVERY interleaving: a probe is
    \* never admitted before (instant the deadline of this opening was published) + Timeout.
    \* Two further residues of the two-word design remain under EVERY order of the two stores; they are
    \* leads that are replayed on the real code (known findings), not part of what the fixed code guarantees:
    \*   stale   - TryPass compares the deadline, is parked, another goroutine probes, fails and re-opens,
    \*             and the parked goroutine's swap Open->HalfOpen still succeeds (ABA)
    \*   stalled - the opener is parked for a whole Timeout between publishing the deadline and its swap
    NoEarlyProbe    == ~early
    NoEarlyProbePub == ~earlyPub
    NoStaleEarly    == ~earlyStale
    NoStalledEarly  == ~earlyStalled
    ExclusiveProbe == ProbeNum = 0 => \A e \in 1..(2*NC) : admittedIn[e] <= 1
    \* every successful swap is reported exactly once (checked when everybody is done)
    ReportedOnce   == (\A c \in Clients : pc[c] = "Done") => Len(listen) = ntrans
}

macro Note() { sched := Append(sched, self); }

process (c \in Clients)
variables cur = "C", arrived = FALSE, tread = 0, admitted = FALSE, won = FALSE, pub = -1, nread = 0;
{
  en_start: \* (goroutine start) Entry() runs up to the first yield point of TryPass
    Note();
  \* ---------------- TryPass
  tp_get:   \* cb.get
    cur := state; Note();
    if (cur = "C") { admitted := TRUE; goto ex_start; }
    else if (cur = "H") {
        if (ProbeNum > 0) { admitted := TRUE; admittedIn[epoch] := admittedIn[epoch] + 1; goto ex_start; }
        else { goto Done; }
    };
  tp_dl:    \* cb.deadline.load
    arrived := now >= retryAt; tread := now; nread := ntrans; Note();
    if (~arrived) { goto Done; };
  tp_cas:   \* cb.cas (Open -> HalfOpen)
    Note();
    if (state = "O") {
        if (tread < openedAt + Timeout) {
            early := TRUE;
            if (nread # ntrans) { earlyStale := TRUE; }
            else if (pubAt >= 0 /\ tread >= pubAt + Timeout) { earlyStalled := TRUE; }
            else { earlyPub := TRUE; };
        };
        state := "H"; ntrans := ntrans + 1;
        admittedIn[epoch + 1] := admittedIn[epoch + 1] + 1;
        epoch := epoch + 1;
    } else { goto Done; };
  tp_notify: \* cb.notify
    listen := Append(listen, <<"O", "H", self>>); admitted := TRUE; Note(); goto ex_start;
  \* ---------------- Exit -> OnRequestComplete
  ex_start: \* drv.exit: Exit() is called; the window counters are updated before the first cb.get
    tot := tot + 1; errs := errs + (IF Errs[self] THEN 1 ELSE 0); Note();
  oc_get:   \* cb.get
    cur := state; Note();
    if (cur = "O") { goto Done; }
    else if (cur = "H") {
        if (Errs[self]) { goto ho_cas; } else { goto pr_add; };
    } else {
        if (tot < MinAmt \/ errs < Thr) { goto Done; };
    };
  oc_get2:  \* cb.get (re-read before opening)
    cur := state; Note();
    if (cur = "C") { if (DlFirst) { goto co_dl1; } else { goto co_cas; } }
    else if (cur = "H") { goto ho_cas; } else { goto Done; };
  \* fromClosedToOpen, fixed order: deadline, swap, notify
  co_dl1:   \* cb.deadline.store
    retryAt := now + Timeout; pub := now; Note();
  co_cas1:  \* cb.cas
    Note();
    if (state = "C") { state := "O"; ntrans := ntrans + 1; openedAt := now; pubAt := pub; goto co_notify; } else { goto Done; };
  \* fromClosedToOpen, pinned order: swap, deadline, notify
  co_cas:   \* cb.cas
    Note();
    if (state = "C") { state := "O"; ntrans := ntrans + 1; openedAt := now; pubAt := -1; } else { goto Done; };
  co_dl:    \* cb.deadline.store
    retryAt := now + Timeout; pubAt := now; Note();
  co_notify: \* cb.notify
    listen := Append(listen, <<"C", "O", self>>); Note(); goto Done;
  \* fromHalfOpenToOpen
  ho_cas:   \* (DlFirst: cb.deadline.store, else cb.cas)
    Note();
    if (DlFirst) { retryAt := now + Timeout; pub := now; goto ho_cas1; }
    else if (state = "H") { state := "O"; ntrans := ntrans + 1; openedAt := now; pubAt := -1; } else { goto Done; };
  ho_reset: \* cb.probe.reset
    probes := 0; Note();
  ho_dl:    \* cb.deadline.store
    retryAt := now + Timeout; pubAt := now; Note();
  ho_notify: \* cb.notify
    listen := Append(listen, <<"H", "O", self>>); Note(); goto Done;
  ho_cas1:  \* cb.cas (fixed order)
    Note();
    if (state = "H") { state := "O"; ntrans := ntrans + 1; openedAt := now; pubAt := pub; } else { goto Done; };
  ho_reset1: \* cb.probe.reset
    probes := 0; Note(); goto ho_notify;
  \* successful probe
  pr_add:   \* cb.probe.add
    probes := probes + 1; Note();
    if (~(ProbeNum = 0 \/ probes >= ProbeNum)) { goto Done; };
  hc_cas:   \* cb.cas (HalfOpen -> Closed)
    Note();
    if (state = "H") { state := "C"; ntrans := ntrans + 1; } else { goto hc_resetm; };
  hc_reset: \* cb.probe.reset
    probes := 0; Note();
  hc_notify: \* cb.notify
    listen := Append(listen, <<"H", "C", self>>); Note();
  hc_resetm: \* resetMetric (no yield point inside)
    tot := 0; errs := 0;
}

process (clock = 0)
{
  tick: while (now < MaxT) { now := now + 1; sched := Append(sched, 0); }
}
} *)
\* BEGIN TRANSLATION (chksum(pcal) = "42d2dc19" /\ chksum(tla) = "fdad686")
VARIABLES pc, state, retryAt, probes, tot, errs, now, listen, openedAt, epoch, 
          admittedIn, pubAt, early, earlyStale, earlyStalled, earlyPub, 
          ntrans, sched

(* define statement *)
NoEarlyProbe    == ~early
NoEarlyProbePub == ~earlyPub
NoStaleEarly    == ~earlyStale
NoStalledEarly  == ~earlyStalled
ExclusiveProbe == ProbeNum = 0 => \A e \in 1..(2*NC) : admittedIn[e] <= 1

ReportedOnce   == (\A c \in Clients : pc[c] = "Done") => Len(listen) = ntrans

VARIABLES cur, arrived, tread, admitted, won, pub, nread

vars == << pc, state, retryAt, probes, tot, errs, now, listen, openedAt, 
           epoch, admittedIn, pubAt, early, earlyStale, earlyStalled, 
           earlyPub, ntrans, sched, cur, arrived, tread, admitted, won, pub, 
           nread >>

ProcSet == (Clients) \cup {0}

Init == (* Global variables *)
        /\ state = IF InitOpen THEN "O" ELSE "C"
        /\ retryAt = IF InitOpen THEN 1 + Timeout ELSE 0
        /\ probes = 0
        /\ tot = IF InitOpen THEN MinAmt ELSE 0
        /\ errs = IF InitOpen THEN Thr ELSE 0
        /\ now = 1
        /\ listen = << >>
        /\ openedAt = IF InitOpen THEN 1 ELSE 0
        /\ epoch = 0
        /\ admittedIn = [e \in 0..(2*NC) |-> 0]
        /\ pubAt = IF InitOpen THEN 1 ELSE -1
        /\ early = FALSE
        /\ earlyStale = FALSE
        /\ earlyStalled = FALSE
        /\ earlyPub = FALSE
        /\ ntrans = 0
        /\ sched = << >>
        (* Process c *)
        /\ cur = [self \in Clients |-> "C"]
        /\ arrived = [self \in Clients |-> FALSE]
        /\ tread = [self \in Clients |-> 0]
        /\ admitted = [self \in Clients |-> FALSE]
        /\ won = [self \in Clients |-> FALSE]
        /\ pub = [self \in Clients |-> -1]
        /\ nread = [self \in Clients |-> 0]
        /\ pc = [self \in ProcSet |-> CASE self \in Clients -> "en_start"
                                        [] self = 0 -> "tick"]

en_start(self) == /\ pc[self] = "en_start"
                  /\ sched' = Append(sched, self)
                  /\ pc' = [pc EXCEPT ![self] = "tp_get"]
                  /\ UNCHANGED << state, retryAt, probes, tot, errs, now, 
                                  listen, openedAt, epoch, admittedIn, pubAt, 
                                  early, earlyStale, earlyStalled, earlyPub, 
                                  ntrans, cur, arrived, tread, admitted, won, 
                                  pub, nread >>

tp_get(self) == /\ pc[self] = "tp_get"
                /\ cur' = [cur EXCEPT ![self] = state]
                /\ sched' = Append(sched, self)
                /\ IF cur'[self] = "C"
                      THEN /\ admitted' = [admitted EXCEPT ![self] = TRUE]
                           /\ pc' = [pc EXCEPT ![self] = "ex_start"]
                           /\ UNCHANGED admittedIn
                      ELSE /\ IF cur'[self] = "H"
                                 THEN /\ IF ProbeNum > 0
                                            THEN /\ admitted' = [admitted EXCEPT ![self] = TRUE]
                                                 /\ admittedIn' = [admittedIn EXCEPT ![epoch] = admittedIn[epoch] + 1]
                                                 /\ pc' = [pc EXCEPT ![self] = "ex_start"]
                                            ELSE /\ pc' = [pc EXCEPT ![self] = "Done"]
                                                 /\ UNCHANGED << admittedIn, 
                                                                 admitted >>
                                 ELSE /\ pc' = [pc EXCEPT ![self] = "tp_dl"]
                                      /\ UNCHANGED << admittedIn, admitted >>
                /\ UNCHANGED << state, retryAt, probes, tot, errs, now, listen, 
                                openedAt, epoch, pubAt, early, earlyStale, 
                                earlyStalled, earlyPub, ntrans, arrived, tread, 
                                won, pub, nread >>

tp_dl(self) == /\ pc[self] = "tp_dl"
               /\ arrived' = [arrived EXCEPT ![self] = now >= retryAt]
               /\ tread' = [tread EXCEPT ![self] = now]
               /\ nread' = [nread EXCEPT ![self] = ntrans]
               /\ sched' = Append(sched, self)
               /\ IF ~arrived'[self]
                     THEN /\ pc' = [pc EXCEPT ![self] = "Done"]
                     ELSE /\ pc' = [pc EXCEPT ![self] = "tp_cas"]
               /\ UNCHANGED << state, retryAt, probes, tot, errs, now, listen, 
                               openedAt, epoch, admittedIn, pubAt, early, 
                               earlyStale, earlyStalled, earlyPub, ntrans, cur, 
                               admitted, won, pub >>

tp_cas(self) == /\ pc[self] = "tp_cas"
                /\ sched' = Append(sched, self)
                /\ IF state = "O"
                      THEN /\ IF tread[self] < openedAt + Timeout
                                 THEN /\ early' = TRUE
                                      /\ IF nread[self] # ntrans
                                            THEN /\ earlyStale' = TRUE
                                                 /\ UNCHANGED << earlyStalled, 
                                                                 earlyPub >>
                                            ELSE /\ IF pubAt >= 0 /\ tread[self] >= pubAt + Timeout
                                                       THEN /\ earlyStalled' = TRUE
                                                            /\ UNCHANGED earlyPub
                                                       ELSE /\ earlyPub' = TRUE
                                                            /\ UNCHANGED earlyStalled
                                                 /\ UNCHANGED earlyStale
                                 ELSE /\ TRUE
                                      /\ UNCHANGED << early, earlyStale, 
                                                      earlyStalled, earlyPub >>
                           /\ state' = "H"
                           /\ ntrans' = ntrans + 1
                           /\ admittedIn' = [admittedIn EXCEPT ![epoch + 1] = admittedIn[epoch + 1] + 1]
                           /\ epoch' = epoch + 1
                           /\ pc' = [pc EXCEPT ![self] = "tp_notify"]
                      ELSE /\ pc' = [pc EXCEPT ![self] = "Done"]
                           /\ UNCHANGED << state, epoch, admittedIn, early, 
                                           earlyStale, earlyStalled, earlyPub, 
                                           ntrans >>
                /\ UNCHANGED << retryAt, probes, tot, errs, now, listen, 
                                openedAt, pubAt, cur, arrived, tread, admitted, 
                                won, pub, nread >>

tp_notify(self) == /\ pc[self] = "tp_notify"
                   /\ listen' = Append(listen, <<"O", "H", self>>)
                   /\ admitted' = [admitted EXCEPT ![self] = TRUE]
                   /\ sched' = Append(sched, self)
                   /\ pc' = [pc EXCEPT ![self] = "ex_start"]
                   /\ UNCHANGED << state, retryAt, probes, tot, errs, now, 
                                   openedAt, epoch, admittedIn, pubAt, early, 
                                   earlyStale, earlyStalled, earlyPub, ntrans, 
                                   cur, arrived, tread, won, pub, nread >>

ex_start(self) == /\ pc[self] = "ex_start"
                  /\ tot' = tot + 1
                  /\ errs' = errs + (IF Errs[self] THEN 1 ELSE 0)
                  /\ sched' = Append(sched, self)
                  /\ pc' = [pc EXCEPT ![self] = "oc_get"]
                  /\ UNCHANGED << state, retryAt, probes, now, listen, 
                                  openedAt, epoch, admittedIn, pubAt, early, 
                                  earlyStale, earlyStalled, earlyPub, ntrans, 
                                  cur, arrived, tread, admitted, won, pub, 
                                  nread >>

oc_get(self) == /\ pc[self] = "oc_get"
                /\ cur' = [cur EXCEPT ![self] = state]
                /\ sched' = Append(sched, self)
                /\ IF cur'[self] = "O"
                      THEN /\ pc' = [pc EXCEPT ![self] = "Done"]
                      ELSE /\ IF cur'[self] = "H"
                                 THEN /\ IF Errs[self]
                                            THEN /\ pc' = [pc EXCEPT ![self] = "ho_cas"]
                                            ELSE /\ pc' = [pc EXCEPT ![self] = "pr_add"]
                                 ELSE /\ IF tot < MinAmt \/ errs < Thr
                                            THEN /\ pc' = [pc EXCEPT ![self] = "Done"]
                                            ELSE /\ pc' = [pc EXCEPT ![self] = "oc_get2"]
                /\ UNCHANGED << state, retryAt, probes, tot, errs, now, listen, 
                                openedAt, epoch, admittedIn, pubAt, early, 
                                earlyStale, earlyStalled, earlyPub, ntrans, 
                                arrived, tread, admitted, won, pub, nread >>

oc_get2(self) == /\ pc[self] = "oc_get2"
                 /\ cur' = [cur EXCEPT ![self] = state]
                 /\ sched' = Append(sched, self)
                 /\ IF cur'[self] = "C"
                       THEN /\ IF DlFirst
                                  THEN /\ pc' = [pc EXCEPT ![self] = "co_dl1"]
                                  ELSE /\ pc' = [pc EXCEPT ![self] = "co_cas"]
                       ELSE /\ IF cur'[self] = "H"
                                  THEN /\ pc' = [pc EXCEPT ![self] = "ho_cas"]
                                  ELSE /\ pc' = [pc EXCEPT ![self] = "Done"]
                 /\ UNCHANGED << state, retryAt, probes, tot, errs, now, 
                                 listen, openedAt, epoch, admittedIn, pubAt, 
                                 early, earlyStale, earlyStalled, earlyPub, 
                                 ntrans, arrived, tread, admitted, won, pub, 
                                 nread >>

co_dl1(self) == /\ pc[self] = "co_dl1"
                /\ retryAt' = now + Timeout
                /\ pub' = [pub EXCEPT ![self] = now]
                /\ sched' = Append(sched, self)
                /\ pc' = [pc EXCEPT ![self] = "co_cas1"]
                /\ UNCHANGED << state, probes, tot, errs, now, listen, 
                                openedAt, epoch, admittedIn, pubAt, early, 
                                earlyStale, earlyStalled, earlyPub, ntrans, 
                                cur, arrived, tread, admitted, won, nread >>

co_cas1(self) == /\ pc[self] = "co_cas1"
                 /\ sched' = Append(sched, self)
                 /\ IF state = "C"
                       THEN /\ state' = "O"
                            /\ ntrans' = ntrans + 1
                            /\ openedAt' = now
                            /\ pubAt' = pub[self]
                            /\ pc' = [pc EXCEPT ![self] = "co_notify"]
                       ELSE /\ pc' = [pc EXCEPT ![self] = "Done"]
                            /\ UNCHANGED << state, openedAt, pubAt, ntrans >>
                 /\ UNCHANGED << retryAt, probes, tot, errs, now, listen, 
                                 epoch, admittedIn, early, earlyStale, 
                                 earlyStalled, earlyPub, cur, arrived, tread, 
                                 admitted, won, pub, nread >>

co_cas(self) == /\ pc[self] = "co_cas"
                /\ sched' = Append(sched, self)
                /\ IF state = "C"
                      THEN /\ state' = "O"
                           /\ ntrans' = ntrans + 1
                           /\ openedAt' = now
                           /\ pubAt' = -1
                           /\ pc' = [pc EXCEPT ![self] = "co_dl"]
                      ELSE /\ pc' = [pc EXCEPT ![self] = "Done"]
                           /\ UNCHANGED << state, openedAt, pubAt, ntrans >>
                /\ UNCHANGED << retryAt, probes, tot, errs, now, listen, epoch, 
                                admittedIn, early, earlyStale, earlyStalled, 
                                earlyPub, cur, arrived, tread, admitted, won, 
                                pub, nread >>

co_dl(self) == /\ pc[self] = "co_dl"
               /\ retryAt' = now + Timeout
               /\ pubAt' = now
               /\ sched' = Append(sched, self)
               /\ pc' = [pc EXCEPT ![self] = "co_notify"]
               /\ UNCHANGED << state, probes, tot, errs, now, listen, openedAt, 
                               epoch, admittedIn, early, earlyStale, 
                               earlyStalled, earlyPub, ntrans, cur, arrived, 
                               tread, admitted, won, pub, nread >>

co_notify(self) == /\ pc[self] = "co_notify"
                   /\ listen' = Append(listen, <<"C", "O", self>>)
                   /\ sched' = Append(sched, self)
                   /\ pc' = [pc EXCEPT ![self] = "Done"]
                   /\ UNCHANGED << state, retryAt, probes, tot, errs, now, 
                                   openedAt, epoch, admittedIn, pubAt, early, 
                                   earlyStale, earlyStalled, earlyPub, ntrans, 
                                   cur, arrived, tread, admitted, won, pub, 
                                   nread >>

ho_cas(self) == /\ pc[self] = "ho_cas"
                /\ sched' = Append(sched, self)
                /\ IF DlFirst
                      THEN /\ retryAt' = now + Timeout
                           /\ pub' = [pub EXCEPT ![self] = now]
                           /\ pc' = [pc EXCEPT ![self] = "ho_cas1"]
                           /\ UNCHANGED << state, openedAt, pubAt, ntrans >>
                      ELSE /\ IF state = "H"
                                 THEN /\ state' = "O"
                                      /\ ntrans' = ntrans + 1
                                      /\ openedAt' = now
                                      /\ pubAt' = -1
                                      /\ pc' = [pc EXCEPT ![self] = "ho_reset"]
                                 ELSE /\ pc' = [pc EXCEPT ![self] = "Done"]
                                      /\ UNCHANGED << state, openedAt, pubAt, 
                                                      ntrans >>
                           /\ UNCHANGED << retryAt, pub >>
                /\ UNCHANGED << probes, tot, errs, now, listen, epoch, 
                                admittedIn, early, earlyStale, earlyStalled, 
                                earlyPub, cur, arrived, tread, admitted, won, 
                                nread >>

ho_reset(self) == /\ pc[self] = "ho_reset"
                  /\ probes' = 0
                  /\ sched' = Append(sched, self)
                  /\ pc' = [pc EXCEPT ![self] = "ho_dl"]
                  /\ UNCHANGED << state, retryAt, tot, errs, now, listen, 
                                  openedAt, epoch, admittedIn, pubAt, early, 
                                  earlyStale, earlyStalled, earlyPub, ntrans, 
                                  cur, arrived, tread, admitted, won, pub, 
                                  nread >>

ho_dl(self) == /\ pc[self] = "ho_dl"
               /\ retryAt' = now + Timeout
               /\ pubAt' = now
               /\ sched' = Append(sched, self)
               /\ pc' = [pc EXCEPT ![self] = "ho_notify"]
               /\ UNCHANGED << state, probes, tot, errs, now, listen, openedAt, 
                               epoch, admittedIn, early, earlyStale, 
                               earlyStalled, earlyPub, ntrans, cur, arrived, 
                               tread, admitted, won, pub, nread >>

ho_notify(self) == /\ pc[self] = "ho_notify"
                   /\ listen' = Append(listen, <<"H", "O", self>>)
                   /\ sched' = Append(sched, self)
                   /\ pc' = [pc EXCEPT ![self] = "Done"]
                   /\ UNCHANGED << state, retryAt, probes, tot, errs, now, 
                                   openedAt, epoch, admittedIn, pubAt, early, 
                                   earlyStale, earlyStalled, earlyPub, ntrans, 
                                   cur, arrived, tread, admitted, won, pub, 
                                   nread >>

ho_cas1(self) == /\ pc[self] = "ho_cas1"
                 /\ sched' = Append(sched, self)
                 /\ IF state = "H"
                       THEN /\ state' = "O"
                            /\ ntrans' = ntrans + 1
                            /\ openedAt' = now
                            /\ pubAt' = pub[self]
                            /\ pc' = [pc EXCEPT ![self] = "ho_reset1"]
                       ELSE /\ pc' = [pc EXCEPT ![self] = "Done"]
                            /\ UNCHANGED << state, openedAt, pubAt, ntrans >>
                 /\ UNCHANGED << retryAt, probes, tot, errs, now, listen, 
                                 epoch, admittedIn, early, earlyStale, 
                                 earlyStalled, earlyPub, cur, arrived, tread, 
                                 admitted, won, pub, nread >>

ho_reset1(self) == /\ pc[self] = "ho_reset1"
                   /\ probes' = 0
                   /\ sched' = Append(sched, self)
                   /\ pc' = [pc EXCEPT ![self] = "ho_notify"]
                   /\ UNCHANGED << state, retryAt, tot, errs, now, listen, 
                                   openedAt, epoch, admittedIn, pubAt, early, 
                                   earlyStale, earlyStalled, earlyPub, ntrans, 
                                   cur, arrived, tread, admitted, won, pub, 
                                   nread >>

pr_add(self) == /\ pc[self] = "pr_add"
                /\ probes' = probes + 1
                /\ sched' = Append(sched, self)
                /\ IF ~(ProbeNum = 0 \/ probes' >= ProbeNum)
                      THEN /\ pc' = [pc EXCEPT ![self] = "Done"]
                      ELSE /\ pc' = [pc EXCEPT ![self] = "hc_cas"]
                /\ UNCHANGED << state, retryAt, tot, errs, now, listen, 
                                openedAt, epoch, admittedIn, pubAt, early, 
                                earlyStale, earlyStalled, earlyPub, ntrans, 
                                cur, arrived, tread, admitted, won, pub, nread >>

hc_cas(self) == /\ pc[self] = "hc_cas"
                /\ sched' = Append(sched, self)
                /\ IF state = "H"
                      THEN /\ state' = "C"
                           /\ ntrans' = ntrans + 1
                           /\ pc' = [pc EXCEPT ![self] = "hc_reset"]
                      ELSE /\ pc' = [pc EXCEPT ![self] = "hc_resetm"]
                           /\ UNCHANGED << state, ntrans >>
                /\ UNCHANGED << retryAt, probes, tot, errs, now, listen, 
                                openedAt, epoch, admittedIn, pubAt, early, 
                                earlyStale, earlyStalled, earlyPub, cur, 
                                arrived, tread, admitted, won, pub, nread >>

hc_reset(self) == /\ pc[self] = "hc_reset"
                  /\ probes' = 0
                  /\ sched' = Append(sched, self)
                  /\ pc' = [pc EXCEPT ![self] = "hc_notify"]
                  /\ UNCHANGED << state, retryAt, tot, errs, now, listen, 
                                  openedAt, epoch, admittedIn, pubAt, early, 
                                  earlyStale, earlyStalled, earlyPub, ntrans, 
                                  cur, arrived, tread, admitted, won, pub, 
                                  nread >>

hc_notify(self) == /\ pc[self] = "hc_notify"
                   /\ listen' = Append(listen, <<"H", "C", self>>)
                   /\ sched' = Append(sched, self)
                   /\ pc' = [pc EXCEPT ![self] = "hc_resetm"]
                   /\ UNCHANGED << state, retryAt, probes, tot, errs, now, 
                                   openedAt, epoch, admittedIn, pubAt, early, 
                                   earlyStale, earlyStalled, earlyPub, ntrans, 
                                   cur, arrived, tread, admitted, won, pub, 
                                   nread >>

hc_resetm(self) == /\ pc[self] = "hc_resetm"
                   /\ tot' = 0
                   /\ errs' = 0
                   /\ pc' = [pc EXCEPT ![self] = "Done"]
                   /\ UNCHANGED << state, retryAt, probes, now, listen, 
                                   openedAt, epoch, admittedIn, pubAt, early, 
                                   earlyStale, earlyStalled, earlyPub, ntrans, 
                                   sched, cur, arrived, tread, admitted, won, 
                                   pub, nread >>

c(self) == en_start(self) \/ tp_get(self) \/ tp_dl(self) \/ tp_cas(self)
              \/ tp_notify(self) \/ ex_start(self) \/ oc_get(self)
              \/ oc_get2(self) \/ co_dl1(self) \/ co_cas1(self)
              \/ co_cas(self) \/ co_dl(self) \/ co_notify(self)
              \/ ho_cas(self) \/ ho_reset(self) \/ ho_dl(self)
              \/ ho_notify(self) \/ ho_cas1(self) \/ ho_reset1(self)
              \/ pr_add(self) \/ hc_cas(self) \/ hc_reset(self)
              \/ hc_notify(self) \/ hc_resetm(self)

tick == /\ pc[0] = "tick"
        /\ IF now < MaxT
              THEN /\ now' = now + 1
                   /\ sched' = Append(sched, 0)
                   /\ pc' = [pc EXCEPT ![0] = "tick"]
              ELSE /\ pc' = [pc EXCEPT ![0] = "Done"]
                   /\ UNCHANGED << now, sched >>
        /\ UNCHANGED << state, retryAt, probes, tot, errs, listen, openedAt, 
                        epoch, admittedIn, pubAt, early, earlyStale, 
                        earlyStalled, earlyPub, ntrans, cur, arrived, tread, 
                        admitted, won, pub, nread >>

clock == tick

(* Allow infinite stuttering to prevent deadlock on termination. *)
Terminating == /\ \A self \in ProcSet: pc[self] = "Done"
               /\ UNCHANGED vars

Next == clock
           \/ (\E self \in Clients: c(self))
           \/ Terminating

Spec == Init /\ [][Next]_vars

Termination == <>(\A self \in ProcSet: pc[self] = "Done")

\* END TRANSLATION 
 
 
 
 
=============================================================================
