---------------------------- MODULE HotParamConc ----------------------------
(***************************************************************************)
(* Hot-parameter CONCURRENCY rules of sentinel-golang (core/hotspot),      *)
(* property C06.                                                           *)
(*                                                                         *)
(* Property level: for every ruled resource r and argument value v,        *)
(* inflight[r][v] is the SET of entries admitted for v and not yet exited. *)
(* A request for v is admitted iff |inflight[r][v]| < thr(r, v) (specific  *)
(* item or general threshold); the entry REMEMBERS the value it was        *)
(* admitted with, and its exit releases exactly that value - not whatever  *)
(* an argument list says at exit time.  Requests without the selected      *)
(* argument, and entries on resources without a rule, are never limited.   *)
(*                                                                         *)
(* Implementation-shaped layer: one integer cell cnt[r][v] per value       *)
(* (ParamsMetric.ConcurrencyCounter): the check compares cnt+1 with the    *)
(* threshold, the statistic slot increments on pass and decrements on      *)
(* completion for the value of the entry.  With Alias = TRUE the decrement *)
(* uses the value of the most recent request carrying arguments (what the  *)
(* code does when Input.Args aliases the pooled options): a deliberately   *)
(* broken variant used to show that the invariants are not vacuous.        *)
(*                                                                         *)
(* TLC checks: Conserved (inflight = true live entries per value),         *)
(* CounterOK (the cell equals |inflight|), Capped, ZeroAfterDrain, and     *)
(* that the cell-based decision equals the set-based one (DecisionOK).     *)
(***************************************************************************)
EXTENDS HotParamArgs, FiniteSets, TLC

CONSTANTS
    Res,        \* resources with a concurrency rule
    Oth,        \* resources without any hotspot rule (their entries carry arguments, too)
    Values,     \* argument values
    Rules,      \* [Res -> [thr : Nat, items : [subset of Values -> Nat]]]
    MaxLive,    \* bound on simultaneously live entries
    MaxOps,     \* bound on the number of requests
    Alias       \* FALSE: the design.  TRUE: broken variant (exit keyed by the latest arguments)

VARIABLES
    live,       \* id -> [res, v] of every live (admitted, not exited) entry
    inflight,   \* [Res -> [Values -> SUBSET ids]]
    cnt,        \* implementation: [Res -> [Values -> Int]]
    lastv,      \* value carried by the most recent request (any resource)
    nid,        \* number of requests so far (ids are 1..nid)
    dec,        \* [prop, impl] decisions of the last request (property level / cell based)
    h           \* history (scenario for the conformance driver; hidden by VIEW)

vars == <<live, inflight, cnt, lastv, nid, dec, h>>
view == <<live, inflight, cnt, lastv, dec>>

Thr(r, v) == ThrOf(Rules[r].items, Rules[r].thr, v)

\* ---------------------------------------------------------------------------
\* property-level admission predicate
Admit(infl, r, v) == v = None \/ Cardinality(infl[r][v]) < Thr(r, v)
\* implementation: performCheckingForConcurrencyMetric (concurrency := cell + 1; pass iff <= threshold)
ImplAdmit(c, r, v) == v = None \/ c[r][v] + 1 <= Thr(r, v)

Init ==
    /\ live = << >>
    /\ inflight = [r \in Res |-> [v \in Values |-> {}]]
    /\ cnt = [r \in Res |-> [v \in Values |-> 0]]
    /\ lastv = None
    /\ nid = 0
    /\ dec = [prop |-> TRUE, impl |-> TRUE]
    /\ h = << >>

\* a request on a ruled resource; v = None: the selected argument is missing
Request(r, v) ==
    /\ nid < MaxOps
    /\ nid' = nid + 1
    /\ dec' = [prop |-> Admit(inflight, r, v), impl |-> ImplAdmit(cnt, r, v)]
    /\ lastv' = IF v # None THEN v ELSE lastv
    /\ IF Admit(inflight, r, v) /\ Cardinality(DOMAIN live) < MaxLive
         THEN /\ live' = live @@ ((nid + 1) :> [res |-> r, v |-> v])
              /\ inflight' = IF v = None THEN inflight ELSE [inflight EXCEPT ![r][v] = @ \cup {nid + 1}]
              /\ cnt' = IF v = None THEN cnt ELSE [cnt EXCEPT ![r][v] = @ + 1]
              /\ h' = Append(h, [op |-> "req", id |-> nid + 1, res |-> r, v |-> v])
         ELSE /\ ~Admit(inflight, r, v)        \* (the MaxLive bound only prunes the model)
              /\ UNCHANGED <<live, inflight, cnt>>
              /\ h' = Append(h, [op |-> "req", id |-> nid + 1, res |-> r, v |-> v])

\* an entry on a resource without a rule: always admitted, occupies nothing, but its arguments
\* pass through the same pooled option objects
Other(o, v) ==
    /\ nid < MaxOps
    /\ Cardinality(DOMAIN live) < MaxLive
    /\ nid' = nid + 1
    /\ live' = live @@ ((nid + 1) :> [res |-> o, v |-> v])
    /\ lastv' = IF v # None THEN v ELSE lastv
    /\ dec' = [prop |-> TRUE, impl |-> TRUE]
    /\ h' = Append(h, [op |-> "req", id |-> nid + 1, res |-> o, v |-> v])
    /\ UNCHANGED <<inflight, cnt>>

Exit(id) ==
    /\ id \in DOMAIN live
    /\ LET e == live[id]
           \* the value the implementation-shaped layer releases
           iv == IF Alias /\ e.v # None THEN lastv ELSE e.v
       IN  /\ live' = [i \in DOMAIN live \ {id} |-> live[i]]
           /\ inflight' = IF e.res \in Res /\ e.v # None
                            THEN [inflight EXCEPT ![e.res][e.v] = @ \ {id}] ELSE inflight
           /\ cnt' = IF e.res \in Res /\ iv # None
                            THEN [cnt EXCEPT ![e.res][iv] = @ - 1] ELSE cnt
    /\ h' = Append(h, [op |-> "exit", id |-> id])
    /\ UNCHANGED <<lastv, nid, dec>>

Next ==
    \/ \E r \in Res, v \in Values \cup {None} : Request(r, v)
    \/ \E o \in Oth, v \in Values : Other(o, v)
    \/ \E id \in DOMAIN live : Exit(id)

Spec == Init /\ [][Next]_vars

\* ---------------------------------------------------------------------------
\* Properties

LiveFor(r, v) == { id \in DOMAIN live : live[id].res = r /\ live[id].v = v }

\* the per-value in-flight figure always equals the true set of live entries for that value
Conserved == \A r \in Res, v \in Values : inflight[r][v] = LiveFor(r, v)
\* ... and so does the integer cell of the implementation
CounterOK == \A r \in Res, v \in Values : cnt[r][v] = Cardinality(LiveFor(r, v))
\* never more live entries for a value than its threshold
Capped    == \A r \in Res, v \in Values : Cardinality(LiveFor(r, v)) <= Thr(r, v)
\* returns to zero when everything has exited
ZeroAfterDrain == (DOMAIN live = {}) => \A r \in Res, v \in Values : inflight[r][v] = {} /\ cnt[r][v] = 0
\* the cell-based decision is the property-level decision
DecisionOK == dec.prop = dec.impl

TypeOK == nid \in 0..MaxOps /\ DOMAIN live \subseteq 1..MaxOps
=============================================================================
