---------------------------- MODULE HotParamConc ----------------------------
(***************************************************************************)
(* Hot-parameter CONCURRENCY rules of sentinel-golang (core/hotspot),      *)
(* property C06.                                                           *)
(*                                                                         *)
(* Property level: for every ruled resource r and argument value v,        *)
(* inflight[r][v] is the SET of entries admitted for v and not yet exited. *)
(* A request for v is admitted iff |inflight[r][v]| < thr(r, v) (specific  *)
(* item or general threshold); the entry REMEMBERS the value it was        *)
(* admitted with, and its exit releases exactly that value - not whatever  *)
(* an argument list says at exit time.  Requests without the selected      *)
(* argument, and entries on resources without a rule, are never limited.   *)
(*                                                                         *)
(* Implementation-shaped layer: one integer cell cnt[r][v] per value       *)
(* (ParamsMetric.ConcurrencyCounter): the check compares cnt+1 with the    *)
(* threshold, the statistic slot increments on pass and decrements on      *)
(* completion for the value of the entry.  With Alias = TRUE the decrement *)
(* uses the value of the most recent request carrying arguments (what the  *)
(* code does when Input.Args aliases the pooled options): a deliberately   *)
(* broken variant used to show that the invariants are not vacuous.        *)
(*                                                                         *)
(* TLC checks: Conserved (inflight = true live entries per value),         *)
(* CounterOK (the cell equals |inflight|), Capped, ZeroAfterDrain, and     *)
(* that the cell-based decision equals the set-based one (DecisionOK).     *)
(*                                                                         *)
(* Concurrent admission (K >= 1).  In the code the admission of a request  *)
(* is NOT one step: the rule-check slot reads the cell and decides, and    *)
(* only later the statistic slot records the admitted entry (cell + 1);    *)
(* between the two (yield point "chain.checked" of the slot chain) other   *)
(* callers may check, record and EXIT.  With K >= 1 the spec has that      *)
(* grain: Check(r, v) parks a caller with its decision in `pend',          *)
(* Record(id) makes it a live entry (or drops a refused one), Exit is a    *)
(* separate action as before, and at most K callers are inside the         *)
(* admission path at any time (the atomic Request counts as one while it   *)
(* runs).  What the design guarantees at this grain:                       *)
(*   - an entry is counted from the moment it is recorded until its exit,  *)
(*     whatever happened between its check and its record: Conserved and   *)
(*     CounterOK hold in EVERY state (so at quiescence exactly             *)
(*     thr - live further entries are admitted);                           *)
(*   - K callers that all saw room may all be admitted: the cap can be     *)
(*     overshot by at most K - 1 (Capped, PendCapped) and by no more.      *)
(* K = 0 is the sequential design (admission is one step).                 *)
(* DropZero = TRUE is a second deliberately broken variant: the exit that  *)
(* brings a cell to zero removes the cell from the cache and the record    *)
(* step skips a missing cell - a caller parked between check and record    *)
(* is then never counted (violates CounterOK only when K >= 1).            *)
(*                                                                         *)
(* First use of a value (Fresh = TRUE).  The counter of a value does not   *)
(* exist before the value is first requested: it is created ON DEMAND by   *)
(* the first caller.  At the finest grain the admission path of a caller   *)
(* is then three steps, and up to K callers may be anywhere inside it:     *)
(*   Lookup(r, v)   look the value up (shared lock): hit or miss;          *)
(*   Create(id)     on a miss take the exclusive lock and install a fresh  *)
(*                  counter UNLESS THE VALUE HAS ONE BY NOW (re-check),    *)
(*                  read the counter, decide; the caller is then parked    *)
(*                  exactly like after Check;                              *)
(*   Record(id)     as before.                                             *)
(* (Request and Check do lookup + create in one step: the cache's          *)
(* AddIfAbsent under one exclusive lock is that refinement.)  What the     *)
(* design guarantees: a value never gets a second counter object           *)
(* (OneObject: `made' counts the objects installed per value), hence the   *)
(* unit recorded by an earlier first caller is never orphaned: CounterOK / *)
(* Conserved / ZeroAfterDrain hold in every state, in particular the       *)
(* figure equals the live entries at quiescence.                           *)
(* BothInstall = TRUE is the third deliberately broken variant: Create     *)
(* installs without the re-check ("both creators install"): the later      *)
(* install replaces the counter on which the earlier caller was already    *)
(* recorded; violates OneObject and CounterOK for K >= 2 and is invisible  *)
(* for K <= 1 (no two callers between lookup and record).                  *)
(*                                                                         *)
(* Reload (MaxReloads >= 1).  The rule of a resource can be REPLACED while *)
(* entries are in flight: Reload(r, a, fresh) puts the table Alt (a=TRUE)  *)
(* or Rules (a=FALSE) in force for r.  `fresh' says whether a statistic    *)
(* parameter of the rule changed (cache capacity, or the rule was removed  *)
(* and added again):                                                       *)
(*   fresh = FALSE  (identical or merely modified rule - new thresholds):  *)
(*                  the counters are KEPT (the clause of property C14);    *)
(*                  the new thresholds apply to the same figures;          *)
(*   fresh = TRUE   the new rule starts counting from the reload (`base'). *)
(* What C06 demands after a changing reload: every entry still releases    *)
(* exactly the unit IT occupied.  An entry admitted BEFORE the reload      *)
(* occupied a unit of the old rule's figure; whether it also counts        *)
(* against the new rule is left open by the statement, so two designs are  *)
(* admissible and both are checked: CountOld = FALSE (the new counters     *)
(* start at zero; the exit of an earlier entry releases its unit on the    *)
(* old counters, which nobody reads any more - it must NOT touch the new   *)
(* ones) and CountOld = TRUE (the figures are carried over).  The          *)
(* design-independent demand is FigureInRange:                             *)
(*     |live entries for v admitted since the reload|                      *)
(*         <= figure used for v  <=  |all live entries for v|              *)
(* in every state; Conserved / CounterOK state the exact figure of each    *)
(* design; Capped bounds the entries admitted under the rule in force.     *)
(* Every live entry is stamped with the rule version `ver' it was admitted *)
(* under.  ExitCurrent = TRUE is the fourth deliberately broken variant    *)
(* (with CountOld = FALSE): the exit releases on whatever counter is       *)
(* current for the value - an earlier entry lowers the figure of entries   *)
(* admitted after the reload; violates FigureInRange, CounterOK,           *)
(* ZeroAfterDrain (the figure ends below zero) and DecisionOK.             *)
(* A reload may also change the SELECTOR of the rule (sel = TRUE: another  *)
(* position / attachment key; not a statistic parameter, the counters are  *)
(* kept): the value the rule in force would now read from the arguments of *)
(* an entry already in flight (`now', remapped by the constant Remap) is   *)
(* no longer the value the entry was admitted with.  The entry occupies a  *)
(* unit of the value it was ADMITTED with and releases that one; the       *)
(* ExitCurrent variant re-reads the arguments at the exit and releases the *)
(* unit of `now' (violates CounterOK and FigureInRange even without fresh  *)
(* counters).                                                              *)
(* Reloads are taken between admissions (no caller inside the admission    *)
(* path): a bound of the model.                                            *)
(*                                                                         *)
(* Other slots that fail (Points).  The hot-parameter slots share the slot *)
(* chain with other slots - the library's and the user's - and the chain   *)
(* is FAIL-OPEN: a panic in any slot never reaches the caller, the request *)
(* is admitted.  A request carries the point pp at which a user slot       *)
(* panics while it is served:                                              *)
(*   none  nobody panics                                                   *)
(*   chk   a rule-check slot in front of the hot-parameter check: the      *)
(*         request is admitted without having been checked or counted      *)
(*   sb    a statistic slot in FRONT of the hot-parameter statistic slot,  *)
(*         when told "passed": admitted (if the check passed), NOT counted *)
(*   sa    a statistic slot BEHIND it, when told "passed": admitted and    *)
(*         already counted                                                 *)
(*   cb / ca  a statistic slot in front of / behind it, when told          *)
(*         "completed" (at the exit of a normally admitted, counted entry) *)
(* C06 at this level: an entry that was counted for v (live[id].c)         *)
(* occupies exactly one unit from then until it is exited and releases     *)
(* exactly that unit then - whatever other slots did; an entry that was    *)
(* admitted without being counted releases nothing.  So the figure is the  *)
(* number of live entries that were COUNTED: LiveFor ranges over those,    *)
(* and every invariant above reads as before.                              *)
(* Broken variants: SkipAll = TRUE ("every recovered panic on the way in   *)
(* skips the completion": also an sa entry, which WAS counted, never       *)
(* releases) and CompAbort = TRUE ("a panic of an earlier slot at the exit *)
(* ends the completion": a cb entry never releases); both violate          *)
(* CounterOK / ZeroAfterDrain and pass when Points = {"none"}.             *)
(***************************************************************************)
EXTENDS HotParamArgs, FiniteSets, TLC

CONSTANTS
    Res,        \* resources with a concurrency rule
    Oth,        \* resources without any hotspot rule (their entries carry arguments, too)
    Values,     \* argument values
    Rules,      \* [Res -> [thr : Nat, items : [subset of Values -> Nat]]]
    MaxLive,    \* bound on simultaneously live entries
    MaxOps,     \* bound on the number of requests
    Alias,      \* FALSE: the design.  TRUE: broken variant (exit keyed by the latest arguments)
    K,          \* 0: admission is one step.  K >= 1: check and record are separate steps, at most K callers in between
    DropZero,   \* FALSE: the design.  TRUE: broken variant (a cell that returns to zero is removed; record skips a missing cell)
    Fresh,      \* FALSE: every value has its cell from the start.  TRUE: cells are created on demand (Lookup / Create are steps, K >= 1)
    BothInstall,\* FALSE: the design.  TRUE: broken variant (Create installs a counter without re-checking that the value still has none)
    Alt,        \* the alternative rule table (same shape as Rules) a reload can put in force
    MaxReloads, \* bound on the number of reloads (0: the rules never change)
    CountOld,   \* design choice after a reload with fresh counters: FALSE = the new rule counts from zero, TRUE = figures carried over
    ExitCurrent,\* FALSE: the design.  TRUE: broken variant (an exit releases on the counter that is current, whoever was counted there,
                \* for the value the rule in force reads from the arguments at that moment)
    Remap,      \* [Values -> Values \cup {None}]: what a rule with a changed selector reads from the arguments of an entry admitted for v
    Points,     \* the points at which a user slot may panic while a request is served: subset of {"none","chk","sb","sa","cb","ca"}
    SkipAll,    \* FALSE: the design.  TRUE: broken variant (an entry let through after ANY recovered panic is never completed)
    CompAbort   \* FALSE: the design.  TRUE: broken variant (a panic of an earlier statistic slot at the exit ends the completion)

VARIABLES
    live,       \* id -> [res, v, ver, now, c, pp] of every live (admitted, not exited) entry (now: the value the rule in force reads
                \* today; c: it was counted for v; pp: where a user slot panics / panicked for it)
    inflight,   \* [Res -> [Values -> SUBSET ids]]
    cnt,        \* implementation: [Res -> [Values -> Int]]
    lastv,      \* value carried by the most recent request (any resource)
    nid,        \* number of requests so far (ids are 1..nid)
    dec,        \* [prop, impl] decisions of the last request (property level / cell based)
    pend,       \* id -> [res, v, prop, impl]: callers that have checked and not yet recorded (K >= 1)
    has,        \* [Res -> SUBSET Values]: values whose cell is present in the cache (changes only when DropZero or Fresh)
    look,       \* id -> [res, v, hit]: callers that have looked the value up and not yet created / read its cell (Fresh, K >= 1)
    made,       \* [Res -> [Values -> Nat]]: number of counter objects installed for the value so far
    alt,        \* [Res -> BOOLEAN]: the table in force for the resource (FALSE: Rules, TRUE: Alt)
    ver,        \* [Res -> Nat]: version of the rule in force (number of changing reloads of the resource)
    base,       \* [Res -> Nat]: the version with which the counters in use started (last reload with fresh counters)
    nrel,       \* number of reloads so far
    h           \* history (scenario for the conformance driver; hidden by VIEW)

vars == <<live, inflight, cnt, lastv, nid, dec, pend, has, look, made, alt, ver, base, nrel, h>>
view == <<live, inflight, cnt, lastv, dec, pend, has, look, made, alt, ver, base, nrel>>

Table(r)  == IF alt[r] THEN Alt[r] ELSE Rules[r]
Thr(r, v) == ThrOf(Table(r).items, Table(r).thr, v)

\* ---------------------------------------------------------------------------
\* property-level admission predicate
Admit(infl, r, v) == v = None \/ Cardinality(infl[r][v]) < Thr(r, v)
\* implementation: performCheckingForConcurrencyMetric (concurrency := cell + 1; pass iff <= threshold)
ImplAdmit(c, r, v) == v = None \/ c[r][v] + 1 <= Thr(r, v)

Init ==
    /\ live = << >>
    /\ inflight = [r \in Res |-> [v \in Values |-> {}]]
    /\ cnt = [r \in Res |-> [v \in Values |-> 0]]
    /\ lastv = None
    /\ nid = 0
    /\ dec = [prop |-> TRUE, impl |-> TRUE]
    /\ pend = << >>
    /\ has = [r \in Res |-> IF Fresh THEN {} ELSE Values]
    /\ look = << >>
    /\ made = [r \in Res |-> [v \in Values |-> IF Fresh THEN 0 ELSE 1]]
    /\ alt = [r \in Res |-> FALSE]
    /\ ver = [r \in Res |-> 0]
    /\ base = [r \in Res |-> 0]
    /\ nrel = 0
    /\ h = << >>

\* room for one more caller inside the admission path
Room == K = 0 \/ Cardinality(DOMAIN pend) + Cardinality(DOMAIN look) < K
InUse == Cardinality(DOMAIN live) + Cardinality(DOMAIN pend) + Cardinality(DOMAIN look)
\* the check step creates a missing cell (AddIfAbsent); only the DropZero variant and first use (Fresh) ever miss one
Touch(r, v) == IF (DropZero \/ Fresh) /\ v # None THEN [has EXCEPT ![r] = @ \cup {v}] ELSE has
\* ... and that is one more counter object for the value (counted for on-demand creation only)
Made(r, v)  == IF Fresh /\ v # None /\ v \notin has[r] THEN [made EXCEPT ![r][v] = @ + 1] ELSE made

\* a request on a ruled resource; v = None: the selected argument is missing
\* pp: the point at which a user slot panics while this request is served (see the header)
Request(r, v, pp) ==
    /\ nid < MaxOps
    /\ Room
    /\ UNCHANGED <<pend, look>>
    /\ has' = IF pp = "chk" THEN has ELSE Touch(r, v)
    /\ made' = IF pp = "chk" THEN made ELSE Made(r, v)
    /\ nid' = nid + 1
    /\ LET adm == pp = "chk" \/ Admit(inflight, r, v)              \* fail-open: the check never ran
           c   == v # None /\ pp \notin {"chk", "sb"}               \* the hot-parameter statistic slot was told "passed"
       IN  /\ dec' = [prop |-> adm, impl |-> pp = "chk" \/ ImplAdmit(cnt, r, v)]
           /\ IF adm /\ InUse < MaxLive
                THEN /\ live' = live @@ ((nid + 1) :> [res |-> r, v |-> v, ver |-> ver[r], now |-> v, c |-> c, pp |-> pp])
                     /\ inflight' = IF c THEN [inflight EXCEPT ![r][v] = @ \cup {nid + 1}] ELSE inflight
                     /\ cnt' = IF c THEN [cnt EXCEPT ![r][v] = @ + 1] ELSE cnt
                ELSE /\ ~adm                      \* (the MaxLive bound only prunes the model)
                     /\ UNCHANGED <<live, inflight, cnt>>
    /\ lastv' = IF v # None THEN v ELSE lastv
    /\ h' = Append(h, [op |-> "req", id |-> nid + 1, res |-> r, v |-> v, pp |-> pp])
    /\ UNCHANGED <<alt, ver, base, nrel>>

\* an entry on a resource without a rule: always admitted, occupies nothing, but its arguments
\* pass through the same pooled option objects
Other(o, v) ==
    /\ nid < MaxOps
    /\ InUse < MaxLive
    /\ nid' = nid + 1
    /\ live' = live @@ ((nid + 1) :> [res |-> o, v |-> v, ver |-> 0, now |-> v, c |-> FALSE, pp |-> "none"])
    /\ lastv' = IF v # None THEN v ELSE lastv
    /\ dec' = [prop |-> TRUE, impl |-> TRUE]
    /\ h' = Append(h, [op |-> "req", id |-> nid + 1, res |-> o, v |-> v, pp |-> "none"])
    /\ UNCHANGED <<inflight, cnt, pend, has, look, made, alt, ver, base, nrel>>

\* K >= 1, first half of the admission path (rule-check slot): the caller reads the cell, decides, and is parked
\* with its decision before the statistic slot ("chain.checked")
\* (a caller whose rule-check slot panics never gets here: pp # "chk")
Check(r, v, pp) ==
    /\ K >= 1 /\ Room
    /\ pp # "chk"
    /\ nid < MaxOps
    /\ InUse < MaxLive                        \* (prunes the model only)
    /\ nid' = nid + 1
    /\ dec' = [prop |-> Admit(inflight, r, v), impl |-> ImplAdmit(cnt, r, v)]
    /\ pend' = pend @@ ((nid + 1) :> [res |-> r, v |-> v, prop |-> Admit(inflight, r, v), impl |-> ImplAdmit(cnt, r, v), pp |-> pp])
    /\ has' = Touch(r, v)
    /\ made' = Made(r, v)
    /\ lastv' = IF v # None THEN v ELSE lastv
    /\ h' = Append(h, [op |-> "chk", id |-> nid + 1, res |-> r, v |-> v, pp |-> pp])
    /\ UNCHANGED <<live, inflight, cnt, look, alt, ver, base, nrel>>

\* Fresh, K >= 1: the admission path at its finest grain.  First step: the caller looks the value up (shared lock) and
\* learns whether the value has a counter NOW; it may be overtaken by any other caller before its next step
Lookup(r, v) ==
    /\ Fresh /\ K >= 1 /\ Room
    /\ v # None
    /\ nid < MaxOps
    /\ InUse < MaxLive                        \* (prunes the model only)
    /\ nid' = nid + 1
    /\ look' = look @@ ((nid + 1) :> [res |-> r, v |-> v, hit |-> v \in has[r]])
    /\ lastv' = v
    /\ h' = Append(h, [op |-> "look", id |-> nid + 1, res |-> r, v |-> v])
    /\ UNCHANGED <<live, inflight, cnt, dec, pend, has, made, alt, ver, base, nrel>>

\* second step: a caller that missed takes the exclusive lock and installs a fresh counter (zero) - in the design only if
\* the value STILL has none (the re-check); then every caller reads the value's counter and decides, and is parked before
\* the statistic slot exactly as after Check.  BothInstall: the miss is trusted, the counter in place is replaced.
Create(id) ==
    /\ id \in DOMAIN look
    /\ LET p       == look[id]
           install == ~p.hit /\ (BothInstall \/ p.v \notin has[p.res])
           cnt2    == IF install THEN [cnt EXCEPT ![p.res][p.v] = 0] ELSE cnt      \* a new object counts from zero
       IN  /\ look' = [i \in DOMAIN look \ {id} |-> look[i]]
           /\ has' = [has EXCEPT ![p.res] = @ \cup {p.v}]
           /\ made' = IF install THEN [made EXCEPT ![p.res][p.v] = @ + 1] ELSE made
           /\ cnt' = cnt2
           /\ dec' = [prop |-> Admit(inflight, p.res, p.v), impl |-> ImplAdmit(cnt2, p.res, p.v)]
           /\ pend' = pend @@ (id :> [res |-> p.res, v |-> p.v, prop |-> Admit(inflight, p.res, p.v), impl |-> ImplAdmit(cnt2, p.res, p.v), pp |-> "none"])
    /\ h' = Append(h, [op |-> "crt", id |-> id])
    /\ UNCHANGED <<live, inflight, lastv, nid, alt, ver, base, nrel>>

\* second half (statistic slot): an admitted caller becomes a live entry and is counted - for the value it was
\* checked with, whatever happened to the other entries of that value in between; a refused one just leaves
Record(id) ==
    /\ id \in DOMAIN pend
    /\ LET p == pend[id] IN
        /\ pend' = [i \in DOMAIN pend \ {id} |-> pend[i]]
        /\ IF p.prop
             THEN /\ live' = live @@ (id :> [res |-> p.res, v |-> p.v, ver |-> ver[p.res], now |-> p.v,
                                             c |-> (p.v # None /\ p.pp # "sb"), pp |-> p.pp])
                  /\ inflight' = IF p.v = None \/ p.pp = "sb" THEN inflight ELSE [inflight EXCEPT ![p.res][p.v] = @ \cup {id}]
                  /\ cnt' = IF p.v = None \/ p.pp = "sb" \/ p.v \notin has[p.res] THEN cnt ELSE [cnt EXCEPT ![p.res][p.v] = @ + 1]
             ELSE UNCHANGED <<live, inflight, cnt>>
    /\ h' = Append(h, [op |-> "rec", id |-> id])
    /\ UNCHANGED <<lastv, nid, dec, has, look, made, alt, ver, base, nrel>>

Exit(id) ==
    /\ id \in DOMAIN live
    /\ LET e == live[id]
           \* the value the implementation-shaped layer releases
           iv == IF Alias /\ e.v # None THEN lastv ELSE IF ExitCurrent THEN e.now ELSE e.v
           \* is the entry counted on the counters in use?  (an entry admitted before a reload with fresh counters occupies a unit of
           \* the OLD counters unless the design carries the figures over; its exit releases THAT unit.)  ExitCurrent: never asked
           mine == e.res \notin Res \/ CountOld \/ ExitCurrent \/ e.ver >= base[e.res]
           \* the hot-parameter statistic slot is told "completed" for every entry it was told "passed" for - whatever other slots do
           \* (the broken variants: never for an entry let through after a panic / not when an earlier slot panics at the exit)
           told == e.res \notin Res \/ (e.c /\ ~(SkipAll /\ e.pp = "sa") /\ ~(CompAbort /\ e.pp = "cb"))
       IN  /\ live' = [i \in DOMAIN live \ {id} |-> live[i]]
           /\ inflight' = IF e.res \in Res /\ e.v # None
                            THEN [inflight EXCEPT ![e.res][e.v] = @ \ {id}] ELSE inflight
           /\ cnt' = IF e.res \in Res /\ mine /\ told /\ iv # None /\ iv \in has[e.res]
                            THEN [cnt EXCEPT ![e.res][iv] = IF DropZero /\ @ - 1 <= 0 THEN 0 ELSE @ - 1] ELSE cnt
           /\ has' = IF DropZero /\ e.res \in Res /\ mine /\ told /\ iv # None /\ iv \in has[e.res] /\ cnt[e.res][iv] - 1 <= 0
                            THEN [has EXCEPT ![e.res] = @ \ {iv}] ELSE has
    /\ h' = Append(h, [op |-> "exit", id |-> id])
    /\ UNCHANGED <<lastv, nid, dec, pend, look, made, alt, ver, base, nrel>>

\* the rule of resource r is replaced while entries are in flight (see the header): table a in force from now on; fresh = a
\* statistic parameter changed, the counters in use from now on are new ones; sel = the selector changed (counters kept)
Reload(r, a, fresh, sel) ==
    /\ nrel < MaxReloads
    /\ pend = << >> /\ look = << >>
    /\ nrel' = nrel + 1
    /\ alt' = [alt EXCEPT ![r] = a]
    /\ ver' = IF a # alt[r] \/ fresh \/ sel THEN [ver EXCEPT ![r] = @ + 1] ELSE ver
    /\ live' = IF sel THEN [id \in DOMAIN live |-> IF live[id].res = r /\ live[id].now # None
                                                    THEN [live[id] EXCEPT !.now = Remap[@]] ELSE live[id]]
                     ELSE live
    /\ base' = IF fresh THEN [base EXCEPT ![r] = ver'[r]] ELSE base
    /\ IF fresh /\ ~CountOld
         THEN /\ inflight' = [inflight EXCEPT ![r] = [v \in Values |-> {}]]
              /\ cnt' = [cnt EXCEPT ![r] = [v \in Values |-> 0]]
              /\ has' = [has EXCEPT ![r] = IF Fresh THEN {} ELSE Values]
              /\ made' = [made EXCEPT ![r] = [v \in Values |-> IF Fresh THEN 0 ELSE 1]]
         ELSE UNCHANGED <<inflight, cnt, has, made>>
    /\ h' = Append(h, [op |-> "reload", res |-> r, alt |-> a, fresh |-> fresh, sel |-> sel])
    /\ UNCHANGED <<lastv, nid, dec, pend, look>>

Next ==
    \/ \E r \in Res, v \in Values \cup {None}, pp \in Points : Request(r, v, pp)
    \/ \E o \in Oth, v \in Values : Other(o, v)
    \/ \E r \in Res, v \in Values \cup {None}, pp \in Points : Check(r, v, pp)
    \/ \E r \in Res, v \in Values : Lookup(r, v)
    \/ \E id \in DOMAIN look : Create(id)
    \/ \E id \in DOMAIN pend : Record(id)
    \/ \E id \in DOMAIN live : Exit(id)
    \/ \E r \in Res, a \in BOOLEAN, fresh \in BOOLEAN, sel \in BOOLEAN : Reload(r, a, fresh, sel)

Spec == Init /\ [][Next]_vars

\* ---------------------------------------------------------------------------
\* Properties

\* the live entries that were counted for v (an entry let through without the hot-parameter statistic slot having been told is
\* live, but occupies no unit)
LiveFor(r, v) == { id \in DOMAIN live : live[id].res = r /\ live[id].v = v /\ live[id].c }

\* ... those admitted since the counters in use started (= all of them as long as no reload brought fresh counters)
LiveSince(r, v) == { id \in LiveFor(r, v) : live[id].ver >= base[r] }
\* ... those admitted under the rule version in force (= all of them as long as the rule was never changed)
LiveCur(r, v)   == { id \in LiveFor(r, v) : live[id].ver = ver[r] }
\* the entries the figure in use stands for, per design (see the header)
Counted(r, v)   == IF CountOld THEN LiveFor(r, v) ELSE LiveSince(r, v)

\* the per-value in-flight figure always equals the true set of live entries for that value
Conserved == \A r \in Res, v \in Values : inflight[r][v] = Counted(r, v)
\* ... and so does the integer cell of the implementation
CounterOK == \A r \in Res, v \in Values : cnt[r][v] = Cardinality(Counted(r, v))
\* what the statement demands whatever the design does with earlier entries at a reload: nobody but the entries admitted since
\* the reload can lower the figure, and it never exceeds the live entries
FigureInRange == \A r \in Res, v \in Values :
                    Cardinality(LiveSince(r, v)) <= cnt[r][v] /\ cnt[r][v] <= Cardinality(LiveFor(r, v))
\* never more live entries for a value than its threshold - plus, with K callers inside the admission path at a
\* time, the K - 1 others that saw room at the same moment (K <= 1: exactly the threshold)
Slack     == IF K > 1 THEN K - 1 ELSE 0
\* (entries admitted under the rule in force: a reload may lower a threshold below the entries already in flight)
Capped    == \A r \in Res, v \in Values : Cardinality(LiveCur(r, v)) <= Thr(r, v) + Slack
\* ... counting the admitted callers that are still parked before their record step as well
PassedFor(r, v) == { id \in DOMAIN pend : pend[id].res = r /\ pend[id].v = v /\ pend[id].prop }
PendCapped == \A r \in Res, v \in Values :
                 Cardinality(LiveCur(r, v)) + Cardinality(PassedFor(r, v)) <= Thr(r, v) + Slack
\* NOT an invariant for K >= 2 (TLC must find the overshoot: it shows that the callers really overlap in the model)
CappedStrict == \A r \in Res, v \in Values : Cardinality(LiveCur(r, v)) <= Thr(r, v)
\* returns to zero when everything has exited
ZeroAfterDrain == (DOMAIN live = {}) => \A r \in Res, v \in Values : inflight[r][v] = {} /\ cnt[r][v] = 0
\* the cell-based decision is the property-level decision
DecisionOK == dec.prop = dec.impl
\* on-demand creation: a value gets ONE counter object, however many callers missed it at the same time (a cache that never
\* drops a cell: DropZero = FALSE), and it has one exactly when some caller created it
OneObject == \A r \in Res, v \in Values : made[r][v] <= 1 /\ (DropZero \/ (made[r][v] = 1 <=> v \in has[r]))

TypeOK == /\ nrel \in 0..MaxReloads /\ \A r \in Res : base[r] <= ver[r] /\ ver[r] <= nrel
          /\ nid \in 0..MaxOps /\ DOMAIN live \subseteq 1..MaxOps /\ DOMAIN pend \subseteq 1..MaxOps
          /\ DOMAIN look \subseteq 1..MaxOps
          /\ DOMAIN live \cap DOMAIN pend = {} /\ DOMAIN live \cap DOMAIN look = {} /\ DOMAIN pend \cap DOMAIN look = {}
          /\ Cardinality(DOMAIN pend) + Cardinality(DOMAIN look) <= K
=============================================================================
