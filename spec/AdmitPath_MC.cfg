SPECIFICATION Spec
CONSTANTS
  K = 3
  Mode = "qps"
  Ts <- MCTsQps
  W0s = {0, 1, 2}
  Bs = {0, 1, 2}
INVARIANTS TypeOK Bound NoSpurious Conserved Sequential
CHECK_DEADLOCK FALSE
