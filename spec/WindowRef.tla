----------------------------- MODULE WindowRef -----------------------------
(***************************************************************************)
(* Property-level reference for sliding-window statistics (C08): pure      *)
(* operators over a reference function                                     *)
(*     ref : bucketStart -> [sum : [kind -> Nat], minrt : Nat, maxc : Nat] *)
(* which holds, per parent bucket that received an event, the totals of    *)
(* those events.  Every read a user can perform is *defined* here as an    *)
(* aggregate over the bucket-aligned window ending at the current bucket.  *)
(* Used by Window (design-level model checking against the circular array) *)
(* by Window_Trace (validation of executions of the real code) and by every*)
(* other module that needs "tokens in the aligned window".                 *)
(***************************************************************************)
EXTENDS Integers, Sequences, FiniteSets

MaxRt == 60000          \* base.DefaultStatisticMaxRt: min-RT of an empty bucket

Align(t, bl) == t - (t % bl)
Min2(a, b)   == IF a < b THEN a ELSE b
Max2(a, b)   == IF a > b THEN a ELSE b

(* A view of vn buckets spanning vi is constructible over a parent of pn buckets spanning pi *)
(* only if it tiles the parent buckets exactly.                                              *)
Tiles(vn, vi, pn, pi) ==
    /\ vn > 0 /\ vi > 0 /\ vi % vn = 0
    /\ pn > 0 /\ pi > 0 /\ pi % pn = 0
    /\ (vi \div vn) % (pi \div pn) = 0      \* a view bucket is a whole number of parent buckets
    /\ vi <= pi                             \* the array retains the whole view window
\* what CheckValidityForReuseStatistic accepts (stronger: the view interval divides the parent's)
CodeAccepts(vn, vi, pn, pi) == Tiles(vn, vi, pn, pi) /\ pi % vi = 0

\* starts of the reference buckets in the aligned window of length I ending at the bucket of time t
WinStarts(ref, pbl, t, I) ==
    { s \in DOMAIN ref : s >= Align(t, pbl) - I + pbl /\ s <= Align(t, pbl) }

RECURSIVE SumOver(_, _, _)
SumOver(ref, S, k) == IF S = {} THEN 0
                      ELSE LET s == CHOOSE x \in S : TRUE IN ref[s].sum[k] + SumOver(ref, S \ {s}, k)
RECURSIVE MinOver(_, _)
MinOver(ref, S) == IF S = {} THEN MaxRt
                   ELSE LET s == CHOOSE x \in S : TRUE IN Min2(ref[s].minrt, MinOver(ref, S \ {s}))
RECURSIVE MaxCOver(_, _)
MaxCOver(ref, S) == IF S = {} THEN 0
                    ELSE LET s == CHOOSE x \in S : TRUE IN Max2(ref[s].maxc, MaxCOver(ref, S \ {s}))
RECURSIVE MaxBOver(_, _, _)
MaxBOver(ref, S, k) == IF S = {} THEN 0
                       ELSE LET s == CHOOSE x \in S : TRUE IN Max2(ref[s].sum[k], MaxBOver(ref, S \ {s}, k))

RefSum(ref, pbl, t, I, k)  == SumOver(ref, WinStarts(ref, pbl, t, I), k)
RefMinRt(ref, pbl, t, I)   == MinOver(ref, WinStarts(ref, pbl, t, I))
RefMaxC(ref, pbl, t, I)    == MaxCOver(ref, WinStarts(ref, pbl, t, I))
RefMaxB(ref, pbl, t, I, k) == MaxBOver(ref, WinStarts(ref, pbl, t, I), k)
\* previous-window read of a view with bucket length vbl: the same window one view bucket earlier
RefPrevSum(ref, pbl, t, vbl, I, k) == IF t < vbl THEN 0 ELSE RefSum(ref, pbl, t - vbl, I, k)
\* buckets of the whole-array window (length pint) whose start satisfies lo <= start < hi
RefCond(ref, pbl, pint, t, lo, hi) == { s \in WinStarts(ref, pbl, t, pint) : s >= lo /\ s < hi }

\* per-second metric items built from those buckets (sec = length of a second in time units)
RefItems(ref, pbl, pint, t, lo, hi, sec) ==
    LET B    == RefCond(ref, pbl, pint, t, lo, hi)
        Secs == { Align(s, sec) : s \in B }
        Of(S) == { s \in B : Align(s, sec) = S }
        Item(S) == LET c == SumOver(ref, Of(S), "complete")  r == SumOver(ref, Of(S), "rt") IN
                   [ts |-> S,
                    pass |-> SumOver(ref, Of(S), "pass"),   block |-> SumOver(ref, Of(S), "block"),
                    error |-> SumOver(ref, Of(S), "error"), complete |-> c,
                    avgrt |-> IF c > 0 THEN r \div c ELSE r,
                    conc |-> MaxCOver(ref, Of(S))]
        NonZero(it) == it.pass + it.block + it.error + it.complete + it.avgrt + it.conc > 0
    IN  { it \in { Item(S) : S \in Secs } : NonZero(it) }

\* recording one event of kind k / amount n at time t
RefAdd(ref, Kinds, pbl, t, k, n) ==
    LET bs  == Align(t, pbl)
        old == IF bs \in DOMAIN ref THEN ref[bs]
               ELSE [sum |-> [x \in Kinds |-> 0], minrt |-> MaxRt, maxc |-> 0]
        new == [old EXCEPT !.sum[k] = @ + n, !.minrt = IF k = "rt" THEN Min2(@, n) ELSE @]
    IN  [s \in DOMAIN ref \cup {bs} |-> IF s = bs THEN new ELSE ref[s]]
\* recording a concurrency sample c at time t
RefConc(ref, Kinds, pbl, t, c) ==
    LET bs  == Align(t, pbl)
        old == IF bs \in DOMAIN ref THEN ref[bs]
               ELSE [sum |-> [x \in Kinds |-> 0], minrt |-> MaxRt, maxc |-> 0]
    IN  [s \in DOMAIN ref \cup {bs} |-> IF s = bs THEN [old EXCEPT !.maxc = Max2(@, c)] ELSE ref[s]]
\* drop reference buckets that no read at time >= t can reach any more (keeps states canonical)
Prune(ref, pbl, pint, t) == [s \in { x \in DOMAIN ref : x >= Align(t, pbl) - pint - pbl } |-> ref[s]]
=============================================================================
