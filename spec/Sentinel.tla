------------------------------- MODULE Sentinel -------------------------------
(***************************************************************************)
(* Bounded model of the composed default chain (see SentinelOps): every    *)
(* caps / breaker clause of the single-module properties must survive the  *)
(* composition, and the composition itself has clauses of its own.         *)
(*                                                                         *)
(* Operations: Enter (resource, batch, argument, inbound / outbound),      *)
(* Exit (plain or with an error; via Exit(WithError) or api.TraceError     *)
(* just before the Exit - a label of the history, the meaning is the       *)
(* same), TraceE (an error reported on an entry that stays open), Late     *)
(* (Exit / Exit(WithError) / TraceError on an entry that has already       *)
(* completed: changes nothing), Tick, Reload (the rule(s) of one module of *)
(* one resource, or the system rules, replaced in the middle of the        *)
(* history; via = whole-set or per-resource load call: a label).           *)
(*                                                                         *)
(* The invariants speak about the SETS of live entries; the operators of   *)
(* SentinelOps decide from the gauges the code reads.                      *)
(*  GaugeConserved   inbound gauge = live inbound entries of all           *)
(*                   resources; resource gauge = live entries              *)
(*  HotConserved     units in use for a value = live entries admitted for  *)
(*                   it on the counters in use (C06 FigureInRange, exact)  *)
(*  IsoCap, HotCap, FlowCap, SysCap, HqRange   the single-module caps (for *)
(*                   a rule that has not been replaced; after a reload the *)
(*                   entries in flight may exceed a lowered threshold)     *)
(*  ChainExact       every request gets the verdict of the FIRST slot, in  *)
(*                   the order system, flow, isolation, hotspot, breaker,  *)
(*                   whose rule IN FORCE is violated by the figures of the *)
(*                   moment (sets of live entries, windows, token cells,   *)
(*                   breaker state); admitted iff there is none            *)
(*  SystemFirst      an inbound request that violates a system rule is     *)
(*                   blocked with type system whatever the other modules   *)
(*                   say; an outbound request never is                     *)
(*  ReloadRespected  an admitted request satisfies every rule in force at  *)
(*                   that moment (not the rules loaded earlier)            *)
(*  BreakerQuiet     nothing is admitted while the breaker is open before  *)
(*                   its deadline or half-open                             *)
(*  BlockedInvisible a blocked request changes nothing - except the token  *)
(*                   cells of the hot-parameter QPS rule when it is the    *)
(*                   BREAKER that refuses it (the hotspot slot was passed) *)
(*  Independence     an operation on one resource leaves the state of the  *)
(*                   others untouched; IndependentDecision: the verdict    *)
(*                   for a resource is the verdict it would get if the     *)
(*                   other resources had never been used (the state of the *)
(*                   global inbound node apart)                            *)
(*  ReloadKeeps      a reload moves no gauge, window or live entry; an     *)
(*                   unchanged breaker rule keeps its breaker, a changed   *)
(*                   one starts Closed; hot-parameter counters survive a   *)
(*                   mere change of threshold                              *)
(* Mutants (constant Mut): deliberately broken compositions; TLC must      *)
(* reject every one of them (checks/COMPOSE.py).                           *)
(***************************************************************************)
EXTENDS SentinelOps, TLC

CONSTANTS Res,        \* resources
          Rules,      \* set of rule records to explore (chosen in Init)
          Reloads,    \* set of [r, mod, val]: the reloads that may happen (r = 0 for mod = "sys")
          Args, Batches, Types, Steps, MaxOps, MaxT, MaxRel,
          WithTrace,  \* TraceE as an action of its own
          WithLate,   \* Late calls
          Mut         \* "none" = the design

V == CASE Mut = "none"          -> Design
       [] Mut = "sysAfterFlow"  -> [Design EXCEPT !.order = <<"flow", "system", "isolation", "hotspot", "breaker">>]
       [] Mut = "hotBeforeFlow" -> [Design EXCEPT !.order = <<"system", "hotspot", "flow", "isolation", "breaker">>]
       [] Mut = "sysOutbound"   -> [Design EXCEPT !.sysOut = TRUE]
       [] Mut = "isoReset"      -> [Design EXCEPT !.isoReset = TRUE]
       [] Mut = "blockedCounts" -> [Design EXCEPT !.blockedCounts = TRUE]
       [] Mut = "exitCurrent"   -> [Design EXCEPT !.exitCurrent = TRUE]
       [] Mut = "cbForget"      -> [Design EXCEPT !.cbForget = TRUE]
       [] Mut = "shared"        -> [Design EXCEPT !.shared = TRUE]

VARIABLES S, R, nid, nrel, touched, h
vars == <<S, R, nid, nrel, touched, h>>
view == <<S, R, nid, nrel, touched>>

Init == /\ R \in Rules /\ S = InitState(1, Res) /\ nid = 0 /\ nrel = 0 /\ touched = {}
        /\ h = << [op |-> "new", rules |-> R] >>

Enter(r, q) ==
    /\ nid < MaxOps
    /\ LET d == DecideV(V, S, R, r, q) IN
       h' = Append(h, [op |-> "enter", r |-> r, id |-> nid + 1, b |-> q.b, arg |-> q.arg, ty |-> q.ty, ok |-> d.ok, bt |-> d.bt])
    /\ S' = AfterEntryV(V, S, R, r, nid + 1, q)
    /\ nid' = nid + 1
    /\ UNCHANGED <<R, nrel, touched>>

Exit(r, e, err, via) ==
    /\ S' = AfterExitV(V, S, R, r, e.id, err)
    /\ h' = Append(h, [op |-> "exit", r |-> r, id |-> e.id, err |-> err, via |-> via])
    /\ UNCHANGED <<R, nid, nrel, touched>>

TraceE(r, e) ==
    /\ WithTrace /\ ~e.err
    /\ S' = AfterTrace(S, r, e.id)
    /\ h' = Append(h, [op |-> "trace", r |-> r, id |-> e.id])
    /\ UNCHANGED <<R, nid, nrel, touched>>

Late(id, how) ==
    /\ WithLate /\ \A r \in Res : ~IsLive(S, r, id)
    /\ h' = Append(h, [op |-> "late", id |-> id, how |-> how])
    /\ UNCHANGED <<S, R, nid, nrel, touched>>

Tick(d) ==
    /\ S.now + d <= MaxT
    /\ S' = AfterTick(S, d)
    /\ h' = Append(h, [op |-> "tick", d |-> d])
    /\ UNCHANGED <<R, nid, nrel, touched>>

Reload(x, via) ==
    /\ nrel < MaxRel
    /\ R' = NewRules(R, x.r, x.mod, x.val)
    /\ S' = AfterReloadV(V, S, R, x.r, x.mod, x.val)
    /\ nrel' = nrel + 1 /\ touched' = touched \cup {<<x.r, x.mod>>}
    /\ h' = Append(h, [op |-> "reload", r |-> x.r, mod |-> x.mod, val |-> x.val, via |-> via])
    /\ UNCHANGED nid

Reqs == [b : Batches, arg : Args, ty : Types]
Next == \/ \E r \in Res, q \in Reqs : Enter(r, q)
        \* (how the error of a completion is reported is a label: alternate, so that no transition is generated twice)
        \/ \E r \in Res : \E e \in S.res[r].live : \/ Exit(r, e, FALSE, "exit")
                                                   \/ Exit(r, e, TRUE, IF (e.id + S.now) % 2 = 0 THEN "trace" ELSE "exit")
                                                   \/ TraceE(r, e)
        \/ \E id \in 1..nid, how \in {"exit", "exiterr", "trace"} : Late(id, how)
        \/ \E d \in Steps : Tick(d)
        \/ \E x \in Reloads : Reload(x, IF (nid + nrel) % 2 = 0 THEN "res" ELSE "all")
Spec == Init /\ [][Next]_vars

(***************************************************************************)
(* state invariants                                                        *)
(***************************************************************************)
InLive == Cardinality(UNION { { <<r, e.id>> : e \in { x \in S.res[r].live : x.inb } } : r \in Res })
Counted(X, a) == { e \in X.live : e.arg = a /\ e.hc }
Fresh(r, mod) == <<r, mod>> \notin touched
MaxB == CHOOSE b \in Batches : \A c \in Batches : c <= b

GaugeConserved == S.ic = InLive /\ \A r \in Res : S.res[r].rc = Cardinality(S.res[r].live)
HotConserved   == \A r \in Res : /\ DOMAIN S.res[r].hcnt \subseteq Args \ {"none"}
                                 /\ \A a \in Args \ {"none"} : Get(S.res[r].hcnt, a) = Cardinality(Counted(S.res[r], a))
IsoCap  == \A r \in Res : (R.res[r].iso >= 0 /\ Fresh(r, "iso")) => Cardinality(S.res[r].live) <= R.res[r].iso
HotCap  == \A r \in Res : (R.res[r].hot >= 0 /\ Fresh(r, "hot")) =>
               \A a \in Args \ {"none"} : Cardinality(LiveFor(S.res[r], a)) <= R.res[r].hot
FlowCap == \A r \in Res : (R.res[r].flow >= 0 /\ Fresh(r, "flow")) => Window(S.res[r].ref, S.now) <= R.res[r].flow
SysCap  == Fresh(0, "sys") =>
             /\ R.sys.conc >= 0 => InLive <= R.sys.conc
             /\ R.sys.qps >= 0 => Window(S.iref, S.now) <= (IF R.sys.qps = 0 THEN 0 ELSE R.sys.qps - 1 + MaxB)
HqRange == \A r \in Res : \A a \in DOMAIN S.res[r].hk :
               /\ S.res[r].hk[a] >= 0
               /\ (R.res[r].hq >= 0 /\ Fresh(r, "hq")) => S.res[r].hk[a] <= R.res[r].hq + R.res[r].hqB
\* the verdict for r does not depend on what happened on the other resources (the global inbound node apart)
Alone(r) == [S EXCEPT !.res = [x \in Res |-> IF x = r THEN @[x] ELSE InitRes]]
IndependentDecision == \A r \in Res, q \in Reqs : DecideV(V, S, R, r, q) = DecideV(V, Alone(r), R, r, q)

(***************************************************************************)
(* action properties; o = the operation of the step (last record of h')    *)
(***************************************************************************)
o == h'[Len(h')]
\* is the rule in force violated by the figures of the moment (pre-state)?  From the sets of live entries.
PSys   == o.ty = "in" /\ (\/ R.sys.conc >= 0 /\ InLive >= R.sys.conc
                          \/ R.sys.qps >= 0 /\ Window(S.iref, S.now) >= R.sys.qps)
PFlow  == LET RR == R.res[o.r] IN RR.flow >= 0 /\ Window(S.res[o.r].ref, S.now) + o.b > RR.flow
PIso   == LET RR == R.res[o.r] IN RR.iso >= 0 /\ Cardinality(S.res[o.r].live) + o.b > RR.iso
PHotC  == LET RR == R.res[o.r] IN RR.hot >= 0 /\ o.arg # "none" /\ Cardinality(Counted(S.res[o.r], o.arg)) + 1 > RR.hot
PHotQ  == LET RR == R.res[o.r]  X == S.res[o.r] IN
          RR.hq >= 0 /\ o.arg # "none" /\ ~HQ!RejectStep(HqCf(RR), AsCache(X.ht), AsCache(X.hk), o.arg, o.b, S.now * TickMs).ok
PHot   == PHotC \/ PHotQ
PCb    == CbBlocks(S.res[o.r], R.res[o.r], S.now)
FirstBlocker == IF PSys THEN "system" ELSE IF PFlow THEN "flow" ELSE IF PIso THEN "isolation"
                ELSE IF PHot THEN "hotspot" ELSE IF PCb THEN "breaker" ELSE "none"

ChainExact      == [][o.op = "enter" => (o.bt = FirstBlocker /\ o.ok = (FirstBlocker = "none"))]_vars
SystemFirst     == [][o.op = "enter" => /\ PSys => (~o.ok /\ o.bt = "system")
                                        /\ o.bt = "system" => PSys
                                        /\ o.ty = "out" => o.bt # "system"]_vars
ReloadRespected == [][(o.op = "enter" /\ o.ok) => ~(PSys \/ PFlow \/ PIso \/ PHot \/ PCb)]_vars
BreakerQuiet    == [][(o.op = "enter" /\ o.ok) => ~PCb]_vars
BlockedInvisible == [][(o.op = "enter" /\ ~o.ok) =>
                        /\ S' = [S EXCEPT !.res[o.r].ht = S'.res[o.r].ht, !.res[o.r].hk = S'.res[o.r].hk]
                        /\ o.bt # "breaker" => S' = S]_vars
Independence    == [][(o.op \in {"enter", "exit", "trace"} \/ (o.op = "reload" /\ o.mod # "sys")) =>
                        \A x \in Res \ {o.r} : S'.res[x] = S.res[x]]_vars
Ids(X) == { e.id : e \in X.live }
Plain(X) == { [e EXCEPT !.hc = FALSE] : e \in X.live }
ReloadKeeps     == [][o.op = "reload" =>
                        /\ S'.ic = S.ic /\ S'.iref = S.iref /\ S'.now = S.now
                        /\ \A x \in Res : /\ S'.res[x].rc = S.res[x].rc /\ S'.res[x].ref = S.res[x].ref
                                          /\ Plain(S'.res[x]) = Plain(S.res[x])
                        /\ o.mod # "sys" =>
                             LET RR == R.res[o.r]  X == S.res[o.r]  Y == S'.res[o.r] IN
                             /\ (o.mod # "cb" \/ (RR.cbE = o.val.cbE /\ RR.cbTO = o.val.cbTO)) => Y.cb = X.cb
                             /\ (o.mod = "cb" /\ ~(RR.cbE = o.val.cbE /\ RR.cbTO = o.val.cbTO)) => Y.cb.st = "C"
                             /\ (o.mod # "hot" \/ (RR.hot >= 0 /\ o.val.v >= 0)) => (Y.hcnt = X.hcnt /\ Y.live = X.live)
                             /\ (o.mod # "hq" \/ (RR.hq >= 0 /\ o.val.hq >= 0 /\ RR.hqD = o.val.hqD)) => (Y.ht = X.ht /\ Y.hk = X.hk)]_vars
=============================================================================
