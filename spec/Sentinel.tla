------------------------------- MODULE Sentinel -------------------------------
(* Bounded model of the composed chain (see SentinelOps): every caps / breaker clause of the single-module *)
(* properties must survive the composition.                                                                *)
EXTENDS SentinelOps, Sequences, TLC

CONSTANTS Rules,      \* set of rule records to explore (chosen in Init)
          Args, Batches, Steps, MaxOps, MaxT

VARIABLES S, R, nid, nops, last, h
vars == <<S, R, nid, nops, last, h>>
view == <<S, R, nid, nops, last>>

Init == /\ R \in Rules /\ S = InitState(1) /\ nid = 0 /\ nops = 0
        /\ last = [ok |-> TRUE, bt |-> "none", probe |-> FALSE]
        /\ h = << [op |-> "new", rules |-> R] >>

Enter(b, arg) ==
    /\ nops < MaxOps
    /\ LET d == Decide(S, R, b, arg) IN
       /\ last' = [ok |-> d.ok, bt |-> d.bt, probe |-> d.ok /\ CbProbes(S, R)]
       /\ S' = AfterEntry(S, R, nid + 1, b, arg)
    /\ nid' = nid + 1 /\ nops' = nops + 1
    /\ h' = Append(h, [op |-> "enter", id |-> nid + 1, b |-> b, arg |-> arg])
    /\ UNCHANGED R

Exit(e, err) ==
    /\ S' = AfterExit(S, R, e.id, err)
    /\ last' = [ok |-> TRUE, bt |-> "none", probe |-> FALSE]
    /\ h' = Append(h, [op |-> "exit", id |-> e.id, err |-> err])
    /\ UNCHANGED <<R, nid, nops>>

Tick(d) ==
    /\ S.now + d <= MaxT
    /\ S' = AfterTick(S, d)
    /\ last' = [ok |-> TRUE, bt |-> "none", probe |-> FALSE]
    /\ h' = Append(h, [op |-> "tick", d |-> d])
    /\ UNCHANGED <<R, nid, nops>>

Next == \/ \E b \in Batches, a \in Args : Enter(b, a)
        \/ \E e \in S.live, err \in BOOLEAN : Exit(e, err)
        \/ \E d \in Steps : Tick(d)
Spec == Init /\ [][Next]_vars

\* the single-module caps survive the composition
IsoCap   == R.iso >= 0 => Cardinality(S.live) <= (IF R.iso > 0 THEN R.iso ELSE 0)
HotCap   == R.hot >= 0 => \A a \in Args \ {"none"} : Cardinality(LiveFor(S, a)) <= R.hot
FlowCap  == R.flow >= 0 => RefSum(S.ref, 1, S.now, 2, "pass") <= R.flow
\* while the breaker is open and the retry timeout has not elapsed nothing is admitted; half-open admits nothing but the probe
BreakerQuiet == [][(S'.live # S.live /\ Cardinality(S'.live) > Cardinality(S.live)) =>
                      (R.cbE < 0 \/ S.cb.st = "C" \/ (S.cb.st = "O" /\ S.now >= S.cb.retryAt))]_vars
\* short-circuit: a request rejected by an earlier slot is not the breaker's probe and consumes nothing anywhere
BlockedInvisible == [][(last'.ok = FALSE /\ nid' = nid + 1) => S' = S]_vars
=============================================================================
