SPECIFICATION Spec
CONSTANTS
  ValidToks <- MCValid
  InvalidToks <- MCInvalid
  MaxLen = 2
  MaxOps = 3
  Mutant = "none"
  WithFile = FALSE
VIEW view
INVARIANTS TypeOK HandledOK OnlyValid FileCaughtUp WatchKept
CHECK_DEADLOCK FALSE
