--------------------------- MODULE RuleReuse_Shapes ---------------------------
(* The reload shapes handed to the metamorphic driver (C14), computed by TLC from the operators of RuleReuse:   *)
(* every (old list, new list) with 1 watched rule X + <= 2 other rules, the others added / removed / replaced   *)
(* by a rule with the same statistic parameters / duplicated / reordered, X possibly duplicated ("erase"), and  *)
(* every X -> Xm modification next to <= 2 rules with other statistic parameters ("fromstart").  For each shape *)
(* TLC says whether the reload must be invisible (inv), whether copies of X are added (dup), the reuse relation *)
(* of the statement (stmt) and what the greedy algorithm of the pinned code would do (greedy), and for every    *)
(* load path whether the entry point's unchanged-detection ignores the reload (skip): the driver is free to     *)
(* choose the entry point of the initial load and of the reload independently (paths are a parameter of each    *)
(* Reload action of RuleReuse), a skipped reload never reaches the reuse algorithm.                             *)
EXTENDS RuleReuse_MC
OldErase == {s \in SeqsUpTo({"X", "S1", "S2", "N1", "N2"}, 3) : Count(s, "X") = 1}
NewErase == {s \in SeqsUpTo({"X", "S1", "S2", "N1", "N2"}, 3) : Count(s, "X") \in {1, 2}}
OldMod   == {s \in SeqsUpTo({"X", "N1", "N2"}, 3) : Count(s, "X") = 1}
NewMod   == {s \in SeqsUpTo({"Xm", "N1", "N2"}, 3) : Count(s, "Xm") = 1}
Shapes   == {<<"erase", o, nw>> : o \in OldErase, nw \in NewErase} \cup {<<"fromstart", o, nw>> : o \in OldMod, nw \in NewMod}
ShapeRec(s) == [mode |-> s[1], old |-> s[2], new |-> s[3],
                inv |-> Unchanged(s[2], s[3], "X"), dup |-> Duplicated(s[2], s[3], "X"),
                stmt |-> ReuseStatement(StatClass, s[2], s[3]), greedy |-> Match("greedy", s[2], s[3]),
                skip |-> [p \in AllPaths |-> Skipped(p, s[2], s[3])]]
ShInit == /\ h \in {<<s>> : s \in Shapes}
          /\ P = << >> /\ Sh = << >> /\ n = 0 /\ ok = TRUE /\ kept = 0
ShNext == UNCHANGED vars
ShSpec == ShInit /\ [][ShNext]_vars
ShPrint == PrintT(ToJson(ShapeRec(h[1])))
=============================================================================
