----------------------------- MODULE SystemGate -----------------------------
(***************************************************************************)
(* Design-level model of the system-protection stage (property C07).       *)
(*                                                                         *)
(* One public call = one action:                                           *)
(*   Enter(ty, b)   api.Entry(res, WithTrafficType(ty), WithBatchCount(b))  *)
(*                  (the resource is irrelevant to the gate: the driver     *)
(*                  spreads the requests over several resources)           *)
(*   Exit(e, werr)      e.Exit() / e.Exit(WithError(err)) of an admitted   *)
(*                      entry: THE completion of e                         *)
(*   TraceErr(e)        api.TraceError(e, err) on an open entry: the later *)
(*                      completion of e carries the error                  *)
(*   Late(a)            Exit(WithError) / TraceError on an entry that has  *)
(*                      already completed: changes nothing                 *)
(*   Tick(d)            the clock advances                                 *)
(*   SetLoad / SetCpu   a new system sample arrives                        *)
(* The rule list is chosen once per behaviour (Init), out of RuleLists.    *)
(*                                                                         *)
(* The gate itself is SystemGateOps!MustBlock, evaluated on the inbound    *)
(* aggregate `ref` (a WindowRef reference) and the gauge `conc`.  What TLC *)
(* checks here is that this bookkeeping means what the statement says: the *)
(* quantities the predicate reads are compared in every reachable state    *)
(* with FIRST-PRINCIPLES definitions over the plain history `adm` of       *)
(* admitted entries ("inbound tokens admitted in the current and the       *)
(* previous half second", "entries admitted and not yet exited", ...), and *)
(* the structural consequences of the statement are invariants (outbound   *)
(* never blocked, blocked iff some rule violated, reported rule violated,  *)
(* a BBR rule is never stricter than its plain twin, unsampled load / cpu  *)
(* never blocks, blocked requests leave the aggregate untouched).          *)
(*                                                                         *)
(* An entry completes in one of three ways - plain Exit, Exit with an      *)
(* error, TraceError followed by Exit - and the first-principles readings  *)
(* (HCompl, HRtSum, HAvgRt, HMinRt, HPeak, HConc) range over EVERY         *)
(* completed entry of the history, whatever way it completed; only HErr    *)
(* looks at the error flag.  CompleteUpd is the bookkeeping of a           *)
(* completion; SystemGate_MC overrides it with mutants (error completions  *)
(* that skip the RT / the completion count) to show that AvgRtOK, MinRtOK, *)
(* PeakOK are not vacuous with respect to the way an entry completes.      *)
(***************************************************************************)
EXTENDS SystemGateOps, TLC

CONSTANTS
    RuleLists,  \* set of rule lists (sequences of [mt, num, den, bbr])
    Batches,    \* batch counts
    Steps,      \* clock advances (ms)
    Samples,    \* load / cpu readings (rationals [num, den]; -1/1 = not sampled)
    MaxOps,     \* bound on the number of Enter actions
    MaxOpen,    \* bound on simultaneously open entries
    MaxSets,    \* bound on the number of load / cpu sample changes after Init
    MaxTicks,   \* bound on the number of clock advances
    MaxTraced,  \* bound on the number of open entries carrying a TraceError at the same time
    ExitKinds,  \* ways Exit may be called: subset of BOOLEAN (TRUE = Exit(WithError(err)))
    LateKinds   \* calls explored on completed entries: subset of {"exit", "trace"}

VARIABLES
    now,    \* current time (ms, > 0)
    rules,  \* loaded rule list
    ref,    \* inbound aggregate (WindowRef reference)
    conc,   \* inbound in-flight gauge
    open,   \* admitted entries not yet exited: [id, ty, b, start, terr] (terr: TraceError was called on it)
    adm,    \* first-principles history: admitted entries [id, ty, b, tin, tout, err] (tout = -1: open;
            \* err: completed with an error), pruned
    nid,    \* next entry id
    load, cpu,
    nset,   \* number of sample changes so far
    ntick,  \* number of clock advances so far
    last,   \* outcome of the last Enter: [ty, blocked, viol (set of violated rule indices), same (aggregate untouched)]
    h       \* history of operations (scenario for the conformance driver; hidden by VIEW)

vars == <<now, rules, ref, conc, open, adm, nid, load, cpu, nset, ntick, last, h>>
view == <<now, rules, ref, conc, open, adm, nid, load, cpu, nset, ntick, last>>

NoSample == [num |-> -1, den |-> 1]
NoLast   == [ty |-> "none", blocked |-> FALSE, viol |-> {}, same |-> TRUE]

Init ==
    /\ now = 1000
    /\ rules \in RuleLists
    /\ ref = << >> /\ conc = 0 /\ open = {} /\ adm = {} /\ nid = 1
    \* the readings present when the first request arrives (only distinguished when some rule reads them)
    /\ load \in (IF \E i \in DOMAIN rules : rules[i].mt = "load" THEN Samples ELSE {NoSample})
    /\ cpu  \in (IF \E i \in DOMAIN rules : rules[i].mt = "cpu"  THEN Samples ELSE {NoSample})
    /\ nset = 0 /\ ntick = 0
    /\ last = NoLast
    /\ h = << [op |-> "new", rules |-> rules],
              [op |-> "load", num |-> load.num, den |-> load.den], [op |-> "cpu", num |-> cpu.num, den |-> cpu.den] >>

Viol == ViolatedIdx(rules, ref, now, conc, load, cpu)

Enter(ty, b) ==
    /\ nid <= MaxOps
    /\ LET blocked == MustBlock(ty, rules, ref, now, conc, load, cpu) IN
       IF blocked
         THEN /\ UNCHANGED <<ref, conc, open, adm>>
              /\ last' = [ty |-> ty, blocked |-> TRUE, viol |-> Viol, same |-> TRUE]
         ELSE \* an admitted outbound entry leaves nothing behind that the gate reads: it is not tracked
              \* (the conformance driver still exits it, at a random later point)
              /\ IF ty = "in"
                   THEN /\ Cardinality(open) < MaxOpen
                        /\ open' = open \cup {[id |-> nid, ty |-> ty, b |-> b, start |-> now, terr |-> FALSE]}
                        /\ adm'  = adm \cup {[id |-> nid, ty |-> ty, b |-> b, tin |-> now, tout |-> -1, err |-> FALSE]}
                        /\ ref' = OnPass(ref, now, b) /\ conc' = conc + 1
                   ELSE UNCHANGED <<ref, conc, open, adm>>
              /\ last' = [ty |-> ty, blocked |-> FALSE, viol |-> Viol, same |-> (ty = "out")]
    /\ nid' = nid + 1
    /\ h' = Append(h, [op |-> "enter", id |-> nid, ty |-> ty, b |-> b])
    /\ UNCHANGED <<now, rules, load, cpu, nset, ntick>>

\* bookkeeping of one completion (overridden by the spec-level mutants of SystemGate_MC)
CompleteUpd(r, t, rt, b, err) == OnCompleteE(r, t, rt, b, err)

\* the completion of e: plain (werr = FALSE, no TraceError before), or carrying an error - passed to Exit (werr) or
\* recorded earlier on the open entry by TraceError (e.terr)
Exit(e, werr) ==
    /\ e \in open
    /\ open' = open \ {e}
    /\ LET err == werr \/ e.terr IN
       /\ adm' = { IF a.id = e.id THEN [a EXCEPT !.tout = now, !.err = err] ELSE a : a \in adm }
       /\ IF e.ty = "in" THEN ref' = CompleteUpd(ref, now, now - e.start, e.b, err) /\ conc' = conc - 1
                         ELSE UNCHANGED <<ref, conc>>
    /\ last' = NoLast
    /\ h' = Append(h, [op |-> "exit", id |-> e.id, err |-> werr])
    /\ UNCHANGED <<now, rules, nid, load, cpu, nset, ntick>>

\* api.TraceError on an open entry: nothing the gate reads changes now; the completion will carry the error
TraceErr(e) ==
    /\ e \in open /\ ~e.terr
    /\ Cardinality({ x \in open : x.terr }) < MaxTraced
    /\ open' = (open \ {e}) \cup {[e EXCEPT !.terr = TRUE]}
    /\ last' = NoLast
    /\ h' = Append(h, [op |-> "trace", id |-> e.id])
    /\ UNCHANGED <<now, rules, ref, conc, adm, nid, load, cpu, nset, ntick>>

\* Exit(WithError) / TraceError on an entry that has already completed: an entry completes ONCE, nothing changes
\* (a stuttering step of `view`; it only extends the scenario h)
Late(a, how) ==
    /\ a \in adm /\ a.tout # -1
    /\ h' = Append(h, [op |-> "late", id |-> a.id, how |-> how])
    /\ UNCHANGED <<now, rules, ref, conc, open, adm, nid, load, cpu, nset, ntick, last>>

\* an entry of the plain history that can still matter: open, or admitted / completed inside the 1 s view
InView(t, at) == at >= 0 /\ Align(at, GPBL) >= Align(t, GPBL) - GVI + GPBL
Tick(d) ==
    /\ ntick < MaxTicks
    /\ now' = now + d /\ ntick' = ntick + 1
    /\ ref' = GPrune(ref, now')
    /\ adm' = { a \in adm : a.tout = -1 \/ InView(now', a.tin) \/ InView(now', a.tout) }
    /\ last' = NoLast
    /\ h' = Append(h, [op |-> "tick", d |-> d])
    /\ UNCHANGED <<rules, conc, open, nid, load, cpu, nset>>

SetLoad(v) ==
    /\ v # load /\ nset < MaxSets
    /\ load' = v /\ last' = NoLast /\ nset' = nset + 1
    /\ h' = Append(h, [op |-> "load", num |-> v.num, den |-> v.den])
    /\ UNCHANGED <<now, rules, ref, conc, open, adm, nid, cpu, ntick>>
SetCpu(v) ==
    /\ v # cpu /\ nset < MaxSets
    /\ cpu' = v /\ last' = NoLast /\ nset' = nset + 1
    /\ h' = Append(h, [op |-> "cpu", num |-> v.num, den |-> v.den])
    /\ UNCHANGED <<now, rules, ref, conc, open, adm, nid, load, ntick>>

\* load / cpu samples only matter when a rule reads them
HasMt(m) == \E i \in DOMAIN rules : rules[i].mt = m

Next ==
    \/ \E ty \in {"in", "out"}, b \in Batches : Enter(ty, b)
    \/ \E e \in open, werr \in ExitKinds : Exit(e, werr)
    \/ \E e \in open : TraceErr(e)
    \/ \E a \in adm, how \in LateKinds : Late(a, how)
    \/ \E d \in Steps : Tick(d)
    \/ \E v \in Samples : HasMt("load") /\ SetLoad(v)
    \/ \E v \in Samples : HasMt("cpu") /\ SetCpu(v)

Spec == Init /\ [][Next]_vars

---------------------------------------------------------------------------
(* First-principles readings of the statement over the plain history.      *)

RECURSIVE SumFn(_)
SumFn(f) == IF DOMAIN f = {} THEN 0
            ELSE LET x == CHOOSE y \in DOMAIN f : TRUE IN f[x] + SumFn([y \in DOMAIN f \ {x} |-> f[y]])

Inb        == { a \in adm : a.ty = "in" }
AdmittedIn == { a \in Inb : InView(now, a.tin) }          \* admitted in this or the previous half second
DoneIn     == { a \in Inb : InView(now, a.tout) }         \* completed in this or the previous half second
HQps       == SumFn([a \in AdmittedIn |-> a.b])
HCompl     == SumFn([a \in DoneIn |-> a.b])
HRtSum     == SumFn([a \in DoneIn |-> a.tout - a.tin])
HErr       == SumFn([a \in { x \in DoneIn : x.err } |-> a.b])    \* ... of which with an error
HAvgRt     == IF HCompl > 0 THEN HRtSum \div HCompl ELSE 0
HMinRt     == IF DoneIn = {} THEN MaxRt
              ELSE LET m == CHOOSE x \in { a.tout - a.tin : a \in DoneIn } : \A a \in DoneIn : x <= a.tout - a.tin
                   IN  Max2(1, Min2(m, MaxRt))
HalfOf(a)  == Align(a.tout, GPBL)
HPeak      == LET per(s) == SumFn([a \in { x \in DoneIn : HalfOf(x) = s } |-> a.b])
                  halves == { HalfOf(a) : a \in DoneIn }
              IN  IF halves = {} THEN 0
                  ELSE 2 * (CHOOSE m \in { per(s) : s \in halves } : \A s \in halves : per(s) <= m)
HConc      == Cardinality({ a \in Inb : a.tout = -1 })

TypeOK ==
    /\ now > 0 /\ conc \in Nat /\ nid \in Nat
    /\ \A e \in open : e.start <= now /\ e.b > 0 /\ e.terr \in BOOLEAN
    /\ \A a \in adm : a.err \in BOOLEAN /\ (a.tout = -1 => ~a.err)
    /\ last.viol \subseteq DOMAIN rules

\* the bookkeeping the gate reads means what the statement says
QpsOK   == Qps(ref, now) = HQps
\* (every completion counts, with its response time, whether or not it carried an error)
AvgRtOK == AvgRt(ref, now) = HAvgRt /\ Completes(ref, now) = HCompl /\ RtSum(ref, now) = HRtSum
MinRtOK == MinRt(ref, now) = HMinRt
PeakOK  == Peak(ref, now) = HPeak
ConcOK  == conc = HConc /\ conc = Cardinality({ e \in open : e.ty = "in" })
\* the error kind holds exactly the completions that carried an error - a subset of the completions
ErrOK   == Errors(ref, now) = HErr /\ Errors(ref, now) <= Completes(ref, now)

\* structural consequences of the statement
OutboundNeverBlocked == last.ty = "out" => ~last.blocked
BlockedIffViolated   == last.ty = "in" => (last.blocked <=> last.viol # {})
NoRuleNoBlock        == rules = << >> => ~last.blocked
BlockedLeavesNoTrace == last.blocked => last.same
\* a BBR rule is never stricter than the same rule without the adaptive strategy
BBRWeaker ==
    \A i \in DOMAIN rules :
        Violated(rules[i], ref, now, conc, load, cpu) => Violated([rules[i] EXCEPT !.bbr = FALSE], ref, now, conc, load, cpu)
\* an unsampled (-1) load / cpu reading never blocks, whatever the trigger
UnsampledNeverBlocks ==
    \A i \in DOMAIN rules :
        /\ (rules[i].mt = "load" /\ load = NoSample) => ~Violated(rules[i], ref, now, conc, load, cpu)
        /\ (rules[i].mt = "cpu"  /\ cpu  = NoSample) => ~Violated(rules[i], ref, now, conc, load, cpu)
\* the capacity estimate never sheds a lone in-flight request (documented deviation, see SystemGateOps)
LoneRequestNeverShed == conc <= 1 => ~OverCapacity(conc, ref, now)
=============================================================================
