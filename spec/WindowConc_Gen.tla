---------------------------- MODULE WindowConc_Gen ----------------------------
(* schedule generation: every step of a TLC simulation prints the schedule so far *)
EXTENDS WindowConc_MC, Json
Emit == PrintT(ToJson(sched'))
=============================================================================
