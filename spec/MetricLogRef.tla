----------------------------- MODULE MetricLogRef -----------------------------
(***************************************************************************)
(* Metric log of sentinel-golang (core/log/metric): writer, retention,     *)
(* index files and searcher (property C17) - the pure operators.  They are *)
(* used by MetricLog (bounded design model, exhaustive TLC) and by         *)
(* MetricLog_Trace (validation of executions of the real code).            *)
(*                                                                         *)
(* Two layers:                                                             *)
(*                                                                         *)
(*  - PROPERTY level: what a user may expect from a search.  The retained  *)
(*    files hold, in order, a suffix of the accepted items (`written');    *)
(*    FindRange(b,e,res) = the matching sub-sequence of the retained items,*)
(*    FindFrom(b,n) = a prefix of the retained items with second >= b that *)
(*    holds at least n of them and is extended at most to the end of the   *)
(*    second of the n-th; both ordered, duplicate-free and independent of  *)
(*    what the searcher was asked before.  |files| <= MaxFiles.  After a   *)
(*    cut of the last data / index file: the result is still a             *)
(*    sub-sequence of the un-cut answer (only written items) and holds     *)
(*    every item whose line and index entry lie wholly before the cut.     *)
(*    These operators (RefRange, RefFrom, RangeOK, FromOK, MustItems) are  *)
(*    what recorded executions of the real code are judged against in      *)
(*    MetricLog_Trace.                                                     *)
(*                                                                         *)
(*  - IMPLEMENTATION-SHAPED layer: index entries per file exactly as the   *)
(*    writer writes them (one entry per NEW second, written into the       *)
(*    current file before a day roll; none for the creation second; none   *)
(*    for a second that continues after a size roll), the retention        *)
(*    arithmetic, and the searcher algorithm (position cache, index scan   *)
(*    from the cached position, walk over the following files, the two     *)
(*    line readers).  Four documented switches (`fx') select the repaired  *)
(*    variants of four places where the pinned code deviates from the      *)
(*    property; fx = {} is the pinned code.                                *)
(*                                                                         *)
(* Units.  Offsets and sizes are in "width units": every line has a width  *)
(* `w' (bytes in the trace spec, 1 in the model-checked instances, where   *)
(* the driver uses fixed-width lines so that bytes = W * lines).  An index *)
(* position is counted in entries (16 bytes each in the real file).        *)
(***************************************************************************)
EXTENDS Integers, Sequences, FiniteSets, TLC

Last(s)  == s[Len(s)]
MinS(S)  == CHOOSE x \in S : \A y \in S : x <= y
MaxS(S)  == CHOOSE x \in S : \A y \in S : x >= y

AllFixes == {"cache", "offreset", "headidx", "torn"}
(* "cache"    getOffsetStartAndFileIdx starts at the cached file (pinned code: at the first      *)
(*            file that is NOT the cached one)                                                     *)
(* "offreset" the cached index position is used for the cached file only (pinned code: also      *)
(*            for every following file)                                                            *)
(* "headidx"  the writer puts an index entry at the head of every file: whenever the second is   *)
(*            new OR the current file is still empty, and after the day roll (pinned code: only  *)
(*            for a new second, before the day roll - so never for the creation second and never *)
(*            for a second that continues in a new file)                                          *)
(* "torn"     an unterminated last line is ignored (pinned code: parsed, and accepted as soon as  *)
(*            it has 8 fields)                                                                    *)

---------------------------------------------------------------------------
(* PROPERTY LEVEL                                                          *)
(* A file is a record with (at least) `lines' (sequence of items) and      *)
(* `idx' (sequence of entries [sec, off, ..]); an item has (at least)      *)
(* `sec' and `res'.  Items of one history are pairwise different.          *)

RECURSIVE Flatten(_)
Flatten(fs) == IF fs = << >> THEN << >> ELSE Flatten(SubSeq(fs, 1, Len(fs) - 1)) \o Last(fs).lines

Match(it, b, e, res) == it.sec >= b /\ it.sec <= e /\ (res = "" \/ it.res = res)
RefRange(its, b, e, res) == SelectSeq(its, LAMBDA it : Match(it, b, e, res))
RefFrom(its, b)          == SelectSeq(its, LAMBDA it : it.sec >= b)

Pos(R, x)  == IF \E i \in 1..Len(R) : R[i] = x THEN CHOOSE i \in 1..Len(R) : R[i] = x ELSE 0
Has(P, x)  == \E i \in 1..Len(P) : P[i] = x
\* P is R with some items left out: only items of R, in the order of R, none twice
SubseqOf(P, R) == \A i \in 1..Len(P) : Pos(R, P[i]) > 0 /\ (i > 1 => Pos(R, P[i-1]) < Pos(R, P[i]))

\* time-range search: answer P, un-cut reference R, items M (sub-sequence of R) that must be present
RangeMissing(P, M) == { i \in 1..Len(M) : ~Has(P, M[i]) }
RangeOK(P, R, M)   == SubseqOf(P, R) /\ RangeMissing(P, M) = {}

\* search from a time with a line limit n: a must-item may only be absent because n items precede it;
\* beyond the n-th item the answer may only complete the second of the n-th item
FromMissing(P, R, M, n) ==
    { i \in 1..Len(M) : ~Has(P, M[i])
                        /\ Cardinality({ j \in 1..Len(P) : Pos(R, P[j]) < Pos(R, M[i]) }) < n }
FromLimitOK(P, n) == \A j \in 1..Len(P) : j > n => (n >= 1 /\ P[j].sec = P[n].sec)
FromOK(P, R, M, n) == SubseqOf(P, R) /\ FromMissing(P, R, M, n) = {} /\ FromLimitOK(P, n)

HasEntry(idx, s) == \E j \in 1..Len(idx) : idx[j].sec = s
RECURSIVE PickIdx(_, _, _)
PickIdx(s, i, K) == IF i > Len(s) THEN << >>
                    ELSE (IF i \in K THEN <<s[i]>> ELSE << >>) \o PickIdx(s, i + 1, K)

\* fs = the files before the cut; the last data file keeps its first dk lines, its index file the
\* first ik entries.  An item must still be found if its line is kept and the index entry of its
\* second (if its own file has one at all) is kept.
MustItems(fs, dk, ik) ==
    LET n  == Len(fs)
        lf == fs[n]
        kept == SubSeq(lf.idx, 1, ik)
        Keep == { i \in 1..Len(lf.lines) :
                    i <= dk /\ (HasEntry(lf.idx, lf.lines[i].sec) => HasEntry(kept, lf.lines[i].sec)) }
    IN  Flatten(SubSeq(fs, 1, n - 1)) \o PickIdx(lf.lines, 1, Keep)

---------------------------------------------------------------------------
(* IMPLEMENTATION-SHAPED LAYER: the writer                                 *)
(* file = [day, n, lines, idx]: named <base>.<date of day>[.n]             *)
(* item = [sec, res, w, tag, ..]; entry = [sec, off, kind]                 *)

RECURSIVE SumW(_)
SumW(ls)      == IF ls = << >> THEN 0 ELSE ls[1].w + SumW(Tail(ls))
Size(f)       == SumW(f.lines)
StartOf(f, i) == SumW(SubSeq(f.lines, 1, i - 1))
\* index of the first line that starts at or after offset off (Len+1: end of file)
FirstAt(f, off) == LET S == { i \in 1..Len(f.lines) : StartOf(f, i) >= off } IN
                   IF S = {} THEN Len(f.lines) + 1 ELSE MinS(S)
Aligned(f, off) == off >= Size(f) \/ \E i \in 1..Len(f.lines) : StartOf(f, i) = off

FileId(f)         == <<f.day, f.n>>
EmptyFile(day, n) == [day |-> day, n |-> n, lines |-> << >>, idx |-> << >>]
DayOf(sec, dl)    == sec \div dl

\* rollToNextFile: nextFileNameOfTime (number after the last existing file of that date), then
\* removeDeprecatedFiles (drop the oldest len - max + 1), then create the new pair of files
Roll(fs, day, mf) ==
    LET same == { i \in 1..Len(fs) : fs[i].day = day }
        n    == IF same = {} THEN 0 ELSE fs[MaxS(same)].n + 1
        drop == Len(fs) - mf + 1
        keep == IF drop > 0 THEN SubSeq(fs, drop + 1, Len(fs)) ELSE fs
    IN  Append(keep, EmptyFile(day, n))

AddIdx(fs, sec) == [fs EXCEPT ![Len(fs)].idx = Append(@, [sec |-> sec, off |-> Size(Last(fs)), kind |-> "full"])]

\* Write(ts, items): mf = max file amount, ms = max single size, dl = seconds per day
DoWrite(fs, latest, sec, its, mf, ms, dl, fx) ==
    IF its = << >> \/ sec < latest THEN [files |-> fs, latest |-> latest]
    ELSE
    LET newsec == sec > latest
        newday == newsec /\ DayOf(sec, dl) > DayOf(latest, dl)
        f1 == IF "headidx" \in fx
                THEN LET r == IF newday THEN Roll(fs, DayOf(sec, dl), mf) ELSE fs IN
                     IF newsec \/ Last(r).lines = << >> THEN AddIdx(r, sec) ELSE r
                ELSE LET a == IF newsec THEN AddIdx(fs, sec) ELSE fs IN
                     IF newday THEN Roll(a, DayOf(sec, dl), mf) ELSE a
        f2 == [f1 EXCEPT ![Len(f1)].lines = @ \o its]
        f3 == IF Size(Last(f2)) >= ms THEN Roll(f2, DayOf(sec, dl), mf) ELSE f2
    IN  [files |-> f3, latest |-> IF newsec THEN sec ELSE latest]

---------------------------------------------------------------------------
(* IMPLEMENTATION-SHAPED LAYER: the searcher                               *)
(* cache = [file, pos, sec]: file id (<< >> = none), position in its index *)
(* (entries), second of the entry at that position                         *)

EmptyCache == [file |-> << >>, pos |-> 0, sec |-> 0]

\* findOffsetToStart: scan the index from entry position p for the first second >= b.
\* A torn last entry ("nosec": second incomplete, "nooff": offset incomplete) is a read error.
RECURSIVE IdxScan(_, _, _)
IdxScan(idx, p, b) ==
    IF p >= Len(idx) THEN [kind |-> "notfound"]
    ELSE LET en == idx[p + 1] IN
         IF en.kind = "nosec" THEN [kind |-> "err"]
         ELSE IF en.kind = "nooff" THEN [kind |-> "err"]
         ELSE IF en.sec >= b THEN [kind |-> "found", off |-> en.off, pos |-> p, sec |-> en.sec]
         ELSE IdxScan(idx, p + 1, b)

\* isPositionInTimeFor
CacheOk(fs, c, b) ==
    /\ b >= c.sec
    /\ c.file # << >>
    /\ \E i \in 1..Len(fs) : /\ FileId(fs[i]) = c.file
                             /\ c.pos < Len(fs[i].idx)
                             /\ fs[i].idx[c.pos + 1].kind # "nosec"
                             /\ fs[i].idx[c.pos + 1].sec = c.sec

\* getOffsetStartAndFileIdx
StartOfSearch(fs, c, b, fx) ==
    IF ~CacheOk(fs, c, b) THEN [i |-> 1, p |-> 0]
    ELSE IF "cache" \in fx
      THEN [i |-> CHOOSE j \in 1..Len(fs) : FileId(fs[j]) = c.file, p |-> c.pos]
      ELSE LET S == { j \in 1..Len(fs) : FileId(fs[j]) # c.file } IN
           IF S = {} THEN [i |-> 1, p |-> 0] ELSE [i |-> MinS(S), p |-> c.pos]

\* the loop of searchOffsetAndRead: every call of findOffsetToStart first clears the cache
RECURSIVE Loc(_, _, _, _, _)
Loc(fs, i, p, b, fx) ==
    IF i > Len(fs) THEN [i |-> 0, off |-> 0, cache |-> EmptyCache]
    ELSE LET r == IdxScan(fs[i].idx, p, b) IN
         IF r.kind = "found"
           THEN [i |-> i, off |-> r.off, cache |-> [file |-> FileId(fs[i]), pos |-> r.pos, sec |-> r.sec]]
           ELSE Loc(fs, i + 1, IF "offreset" \in fx THEN 0 ELSE p, b, fx)
Locate(fs, c, b, fx) == LET s == StartOfSearch(fs, c, b, fx) IN Loc(fs, s.i, s.p, b, fx)

\* lines as the reader sees them.  Only the last line of a cut file carries a tag other than "ok":
\* "garbage" does not parse (skipped), "bogus" parses as an item that was never written, "nonl" is a
\* complete line without its line break (parses as the written item).
Vis(f, fx)  == IF "torn" \in fx THEN SelectSeq(f.lines, LAMBDA it : it.tag = "ok") ELSE f.lines
Parsed(it)  == IF it.tag = "nonl" THEN [it EXCEPT !.tag = "ok"] ELSE it

\* ReadMetricsByEndTime from line k of file i
RECURSIVE RR(_, _, _, _, _, _, _, _)
RR(fs, i, k, b, e, res, fx, acc) ==
    IF i > Len(fs) THEN acc
    ELSE LET ls == Vis(fs[i], fx) IN
         IF k > Len(ls) THEN RR(fs, i + 1, 1, b, e, res, fx, acc)
         ELSE LET it == ls[k] IN
              IF it.tag = "garbage" THEN RR(fs, i, k + 1, b, e, res, fx, acc)
              ELSE IF it.sec < b \/ it.sec > e THEN acc
              ELSE RR(fs, i, k + 1, b, e, res, fx,
                      IF res = "" \/ it.res = res THEN Append(acc, Parsed(it)) ELSE acc)

\* ReadMetrics from line k of file i with line limit n
RECURSIVE RF(_, _, _, _, _, _)
RF(fs, i, k, n, fx, acc) ==
    IF i > Len(fs) THEN acc
    ELSE LET ls == Vis(fs[i], fx) IN
         IF k > Len(ls) THEN (IF Len(acc) < n THEN RF(fs, i + 1, 1, n, fx, acc) ELSE acc)
         ELSE LET it == ls[k]
                  lastSec == IF acc = << >> THEN 0 ELSE Last(acc).sec IN
              IF it.tag = "garbage" THEN RF(fs, i, k + 1, n, fx, acc)
              ELSE IF Len(acc) >= n /\ it.sec # lastSec THEN acc
              ELSE RF(fs, i, k + 1, n, fx, Append(acc, Parsed(it)))

\* a query q = [op |-> "find", b, e, res] or [op |-> "from", b, n]
ImplFind(fs, c, q, fx) ==
    LET loc == Locate(fs, c, q.b, fx) IN
    [items |-> IF loc.i = 0 THEN << >>
               ELSE IF q.op = "find" THEN RR(fs, loc.i, FirstAt(fs[loc.i], loc.off), q.b, q.e, q.res, fx, << >>)
               ELSE RF(fs, loc.i, FirstAt(fs[loc.i], loc.off), q.n, fx, << >>),
     cache |-> loc.cache,
     exact |-> loc.i = 0 \/ Aligned(fs[loc.i], loc.off)]

=============================================================================
