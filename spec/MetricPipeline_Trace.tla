------------------------- MODULE MetricPipeline_Trace -------------------------
(* Executions of the real metric pipeline (harness/cmd/c22) judged against MetricPipelineOps: what the searcher finally *)
(* returns for the scenario's resources must be exactly the per-second items the aggregations covered - each once, with   *)
(* the true totals of that second.                                                                                        *)
EXTENDS MetricPipelineOps, Sequences, TLC, Json

Trace == ndJsonDeserialize("trace.ndjson")
Res == {"a", "b"}
VARIABLES l, P, tr, failed
tvars == <<l, P, tr, failed>>
Ev == Trace[l]
IsEvent(op) == l <= Len(Trace) /\ Ev.op = op /\ l' = l + 1
Fresh(t, lf) == [now |-> t, ref |-> [r \in Res |-> << >>], infl |-> [r \in Res |-> 0], ent |-> << >>, lastFetch |-> lf, logged |-> {}]

Judge(ok, expected) ==
    IF failed \/ ok THEN failed' = failed
    ELSE /\ failed' = TRUE
         /\ PrintT("MISMATCH " \o ToString(tr) \o " " \o ToString(l) \o " " \o ToJson(expected))

TNew   == IsEvent("new") /\ tr' = Ev.tr /\ P' = Fresh(Ev.t, Ev.lf) /\ failed' = FALSE
TEnter == /\ IsEvent("enter")
          /\ P' = IF Ev.ok THEN OnPass(P, Ev.id, Ev.res, Ev.b) ELSE OnBlock(P, Ev.res, Ev.b)
          /\ UNCHANGED <<tr, failed>>
TExit  == /\ IsEvent("exit")
          /\ P' = IF Ev.id \in DOMAIN P.ent THEN OnExit(P, Ev.id, Ev.err) ELSE P
          /\ UNCHANGED <<tr, failed>>
TTick  == IsEvent("tick") /\ Ev.t >= P.now /\ P' = OnTick(P, Ev.t) /\ UNCHANGED <<tr, failed>>
TAgg   == IsEvent("agg") /\ P' = OnAggregate(P, Res) /\ UNCHANGED <<tr, failed>>
TFinal == /\ IsEvent("final")
          /\ UNCHANGED <<P, tr>>
          /\ Judge({ Ev.items[i] : i \in DOMAIN Ev.items } = P.logged /\ Len(Ev.items) = Cardinality(P.logged), P.logged)

TInit == l = 1 /\ P = Fresh(1, 0) /\ tr = 0 /\ failed = FALSE
TNext == TNew \/ TEnter \/ TExit \/ TTick \/ TAgg \/ TFinal
TSpec == TInit /\ [][TNext]_tvars
=============================================================================
