--------------------------- MODULE SystemGate_MC ---------------------------
(* Bounded instance of SystemGate for exhaustive TLC runs and scenario generation. *)
EXTENDS SystemGate, Json

CONSTANTS MaxRules,     \* rule lists = all subsets of the universe with at most MaxRules rules
          Triggers      \* trigger values (integers) of the universe

R(mt, n, d, bbr) == [mt |-> mt, num |-> n, den |-> d, bbr |-> bbr]
\* the five metric types x both strategies (the strategy is only read for load / cpu).
\* avg-RT triggers are scaled to the response times the model can produce (multiples of 250 ms);
\* cpu triggers are fractions of 1 (a cpu trigger above 1 is not a valid rule).
Universe ==
    { R("qps", n, 1, FALSE) : n \in Triggers } \cup { R("conc", n, 1, FALSE) : n \in Triggers }
    \cup { R("rt", 250 * n, 1, FALSE) : n \in Triggers }
    \cup { R("load", n, 1, b) : n \in Triggers, b \in BOOLEAN }
    \cup { R("cpu", n, 4, b) : n \in Triggers, b \in BOOLEAN }

RECURSIVE SetToSeq(_)
SetToSeq(S) == IF S = {} THEN << >> ELSE LET x == CHOOSE y \in S : TRUE IN <<x>> \o SetToSeq(S \ {x})

RECURSIVE SubsUpTo(_)
SubsUpTo(k) == IF k = 0 THEN {{}} ELSE LET P == SubsUpTo(k - 1) IN P \cup { S \cup {x} : S \in P, x \in Universe }
MCRuleLists == { SetToSeq(S) : S \in SubsUpTo(MaxRules) }
\* readings: not sampled, below / equal / above the middle trigger (load scale and cpu scale share the set)
MCSamples == { [num |-> -1, den |-> 1], [num |-> 0, den |-> 1], [num |-> 1, den |-> 4], [num |-> 1, den |-> 2],
               [num |-> 1, den |-> 1], [num |-> 3, den |-> 2] }

\* --- lemmas quantified over the whole rule universe and every reading, evaluated in every reachable state of the ---
\* --- aggregate (with no rule loaded every request is admitted, so these states include all states reachable with rules) ---
Q == Readings(ref, now, conc)
Hi == [num |-> 3, den |-> 2]
AllBBRWeaker ==
    \A q \in {Q} :   \* (a bound variable is evaluated once; a LET definition would be re-evaluated at every use)
    \A r \in Universe, l \in MCSamples :
        ViolatedQ(r, q, l, l) => ViolatedQ([r EXCEPT !.bbr = FALSE], q, l, l)
AllUnsampledNeverBlocks ==
    \A q \in {Q} :   \* (a bound variable is evaluated once; a LET definition would be re-evaluated at every use)
    \A r \in Universe, x \in MCSamples :
        /\ r.mt = "load" => ~ViolatedQ(r, q, NoSample, x)
        /\ r.mt = "cpu"  => ~ViolatedQ(r, q, x, NoSample)
\* a trigger that is reached stays reached when the trigger is lowered (monotone in the trigger)
AllMonotoneInTrigger ==
    \A q \in {Q} :   \* (a bound variable is evaluated once; a LET definition would be re-evaluated at every use)
    \A r \in Universe, l \in MCSamples :
        (ViolatedQ(r, q, l, l) /\ r.num > 0) => ViolatedQ([r EXCEPT !.num = 0], q, l, l)

\* hand-picked multi-rule lists for the run that chooses the rule list in Init
MCMulti == { <<R("qps", 2, 1, FALSE), R("conc", 2, 1, FALSE)>>,
             <<R("load", 1, 1, TRUE), R("rt", 250, 1, FALSE)>>,
             <<R("cpu", 2, 4, TRUE), R("load", 1, 1, FALSE), R("qps", 5, 1, FALSE)>>,
             <<R("conc", 1, 1, FALSE), R("cpu", 1, 4, FALSE)>>,
             <<R("load", 0, 1, TRUE), R("cpu", 0, 4, TRUE)>> }
MCRuleListsPlus == MCRuleLists \cup MCMulti

\* --- spec-level mutants of the completion bookkeeping (cfg: CompleteUpd <- Mut...): each must be rejected ---
\* "failed invocations do not pollute the RT statistics": a completion with an error skips the response time
MutErrSkipsRt(r, t, rt, b, err) ==
    IF err THEN RefAdd(RefAdd(r, GKinds, GPBL, t, "complete", b), GKinds, GPBL, t, "error", b)
           ELSE OnComplete(r, t, rt, b)
\* a completion with an error is counted as an error only (not as a completion)
MutErrSkipsComplete(r, t, rt, b, err) ==
    IF err THEN RefAdd(RefAdd(r, GKinds, GPBL, t, "rt", rt), GKinds, GPBL, t, "error", b)
           ELSE OnComplete(r, t, rt, b)
\* the error flag of a completion is lost (ErrOK)
MutErrDropped(r, t, rt, b, err) == OnComplete(r, t, rt, b)

Emit == PrintT(ToJson(h'))
=============================================================================
