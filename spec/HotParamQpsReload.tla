------------------------- MODULE HotParamQpsReload -------------------------
(***************************************************************************)
(* Hot-parameter QPS rules REPLACED UNDER TRAFFIC, several rules on one    *)
(* resource that select DIFFERENT arguments (property C05; reject mode).   *)
(*                                                                         *)
(* A request carries two arguments <<x, y>>; a rule [sel, T] meters the    *)
(* value of ITS selected argument (sel = 0: x, sel = 1: y) with threshold  *)
(* T per duration.  The rules in force are consulted in order; the first   *)
(* one that refuses blocks the request (later ones are not consulted).     *)
(*                                                                         *)
(* PROPERTY level: every rule in force keeps its OWN books.  After a       *)
(* reload a rule either keeps the books of a rule it replaces (same        *)
(* statistic parameters - all rules here) or starts fresh; which one is    *)
(* not prescribed, so per rule the property-level history `last' (time of  *)
(* the previous request that may have been charged to the rule, per value) *)
(* becomes at a reload the pointwise LATEST over all old rules (the        *)
(* candidate under which the value has been idle for the shortest time).   *)
(* E3 per rule: the rule never refuses a value that has been idle for      *)
(* longer than the duration under that history (never seen = for ever) a   *)
(* batch within the rule's threshold.  Two rules never share books         *)
(* (OwnBooks): otherwise a value is charged across rules.                  *)
(*                                                                         *)
(* ALGORITHM level: books are objects (`books[id]' = the time / token LRU  *)
(* pair of a ParamsMetric, HotParamQpsOps part 2), every controller holds  *)
(* an id.  Reload = buildResourceTrafficShapingController: pass 1 reserves *)
(* the old controller of every unchanged rule, pass 2 gives every changed  *)
(* rule the books of the first old controller left (all are statistic-     *)
(* reusable here) and REMOVES it from the candidates, else fresh books.    *)
(* Mutant "keepcandidate": the taken controller stays a candidate.         *)
(***************************************************************************)
EXTENDS HotParamQpsOps, TLC

CONSTANTS
    Values,     \* parameter values (both argument positions)
    RuleSets,   \* the rule lists that can be loaded: sequences of [sel, T]
    D, B,       \* duration (ms), burst - statistic parameters shared by all rules
    Batches, Steps, MaxT, MaxOps,
    Mutant      \* "" | "keepcandidate"

VARIABLES
    now,
    rules,      \* in force: sequence of [sel, T, book]
    books,      \* [id -> [tc, kc]]
    nid,        \* next fresh book id
    last,       \* property level: sequence (per rule in force) of [Values -> time, -1 = never]
    dec,        \* last decision
    nreload, nops,
    h

vars == <<now, rules, books, nid, last, dec, nreload, nops, h>>
view == <<now, rules, books, last, dec, nreload>>

CfOf(r) == [mode |-> "reject", T |-> r.T, B |-> B, D |-> D, MQ |-> 0, items |-> << >>, cap |-> 100]
Arg(r, x, y) == IF r.sel = 0 THEN x ELSE y
NoDec == [ok |-> TRUE, blk |-> 0, e3 |-> FALSE]

Max2(a, b) == IF a >= b THEN a ELSE b
RECURSIVE MaxOver(_, _)
MaxOver(ls, v) == IF ls = << >> THEN -1 ELSE Max2(Head(ls)[v], MaxOver(Tail(ls), v))
Remove(s, j) == SubSeq(s, 1, j - 1) \o SubSeq(s, j + 1, Len(s))

\* ---- algorithm: buildResourceTrafficShapingController -------------------------------------------------
\* pass 1: eq[i] = book of the old controller whose rule Equals new[i] (-1 if none); those controllers leave the candidates
RECURSIVE Pass1(_, _, _)
Pass1(new, cands, eq) ==
    IF new = << >> THEN [eq |-> eq, cands |-> cands]
    ELSE LET r == Head(new)
             js == { j \in DOMAIN cands : cands[j].sel = r.sel /\ cands[j].T = r.T }
         IN  IF js = {} THEN Pass1(Tail(new), cands, Append(eq, -1))
             ELSE LET j == CHOOSE j \in js : \A k \in js : j <= k IN
                  Pass1(Tail(new), Remove(cands, j), Append(eq, cands[j].book))
\* pass 2: a changed rule takes the books of the first candidate left (removed afterwards), else fresh books
RECURSIVE Pass2(_, _, _, _, _)
Pass2(new, eq, cands, acc, id) ==
    IF new = << >> THEN [rules |-> acc, nid |-> id]
    ELSE LET r == Head(new) IN
         IF Head(eq) >= 0 THEN Pass2(Tail(new), Tail(eq), cands, Append(acc, [sel |-> r.sel, T |-> r.T, book |-> Head(eq)]), id)
         ELSE IF cands # << >>
           THEN Pass2(Tail(new), Tail(eq), IF Mutant = "keepcandidate" THEN cands ELSE Tail(cands),
                      Append(acc, [sel |-> r.sel, T |-> r.T, book |-> cands[1].book]), id)
           ELSE Pass2(Tail(new), Tail(eq), cands, Append(acc, [sel |-> r.sel, T |-> r.T, book |-> id]), id + 1)
Build(new, old, id) == LET p == Pass1(new, old, << >>) IN Pass2(new, p.eq, p.cands, << >>, id)

\* ---- algorithm: one request through the rules in order ------------------------------------------------
RECURSIVE Consult(_, _, _, _, _, _)
Consult(i, bk, x, y, b, t) ==
    IF i > Len(rules) THEN [ok |-> TRUE, blk |-> 0, books |-> bk]
    ELSE LET r  == rules[i]
             s  == RejectStep(CfOf(r), bk[r.book].tc, bk[r.book].kc, Arg(r, x, y), b, t)
             b2 == [bk EXCEPT ![r.book] = [tc |-> s.tc, kc |-> s.kc]]
         IN  IF s.ok THEN Consult(i + 1, b2, x, y, b, t) ELSE [ok |-> FALSE, blk |-> i, books |-> b2]

Init ==
    /\ now = 0 /\ rules = << >> /\ books = << >> /\ nid = 1 /\ last = << >>
    /\ dec = NoDec /\ nreload = 0 /\ nops = 0 /\ h = << >>

Reload(new) ==
    /\ nreload < 2 /\ nops < MaxOps
    /\ (nreload = 0) = (rules = << >>)
    /\ LET bd == Build(new, rules, nid)
           used == { bd.rules[i].book : i \in DOMAIN bd.rules } IN
       /\ rules' = bd.rules
       /\ nid' = bd.nid
       /\ books' = [id \in used |-> IF id \in DOMAIN books THEN books[id] ELSE [tc |-> EmptyCache, kc |-> EmptyCache]]
       /\ last' = [i \in DOMAIN new |-> [v \in Values |-> MaxOver(last, v)]]
    /\ dec' = NoDec
    /\ nreload' = nreload + 1 /\ nops' = nops + 1
    /\ h' = Append(h, [op |-> "mreload", t |-> now, rules |-> new])
    /\ UNCHANGED now

Request(x, y, b) ==
    /\ nops < MaxOps /\ rules # << >>
    /\ LET c == Consult(1, books, x, y, b, now) IN
       /\ books' = c.books
       /\ dec' = [ok |-> c.ok, blk |-> c.blk,
                  e3 |-> c.blk > 0 /\ E3Premise(CfOf(rules[c.blk]), Arg(rules[c.blk], x, y), last[c.blk][Arg(rules[c.blk], x, y)], now, b)]
       \* any rule may have been charged (rules behind the refusing one are not consulted: setting their `last' only asks less)
       /\ last' = [i \in DOMAIN last |-> [last[i] EXCEPT ![Arg(rules[i], x, y)] = now]]
    /\ nops' = nops + 1
    /\ h' = Append(h, [op |-> "mreq", t |-> now, x |-> x, y |-> y, b |-> b])
    /\ UNCHANGED <<now, rules, nid, nreload>>

Tick(d) == now + d <= MaxT /\ now' = now + d /\ UNCHANGED <<rules, books, nid, last, dec, nreload, nops, h>>

Next ==
    \/ \E rs \in RuleSets : Reload(rs)
    \/ \E x \in Values, y \in Values, b \in Batches : Request(x, y, b)
    \/ \E d \in Steps : Tick(d)
Spec == Init /\ [][Next]_vars

---------------------------------------------------------------------------
\* two rules in force never share books
OwnBooks == \A i \in DOMAIN rules, j \in DOMAIN rules : i # j => rules[i].book # rules[j].book
\* per rule: a value idle for longer than the duration (for that rule) is granted a batch up to the rule's threshold
E3OK == dec.e3 => dec.ok
TypeOK == now \in 0..MaxT /\ nops \in 0..MaxOps /\ Len(last) = Len(rules)
=============================================================================
