----------------------------- MODULE SentinelOps -----------------------------
(***************************************************************************)
(* Composition of the rule modules in the default slot chain of            *)
(* sentinel-golang (growth item 1 of DESIGN section 4): one resource       *)
(* guarded at the same time by a reject-mode flow rule (default statistic  *)
(* window), an isolation rule, a hot-parameter concurrency rule on         *)
(* argument 0 and an error-count circuit breaker.  The rule-check slots    *)
(* run in the order flow -> isolation -> hotspot -> circuit breaker; the   *)
(* first one that blocks determines the block type and NO later slot runs  *)
(* (so a request rejected by the flow rule is not the breaker's probe);    *)
(* only admitted requests are counted by any module.                       *)
(*                                                                         *)
(* Pure operators over a state record                                      *)
(*   S = [now, ref, live, cb]                                              *)
(* ref  : WindowRef reference of admitted tokens (one bucket = one tick of *)
(*        500 ms; the flow rule reads the 2-bucket window)                 *)
(* live : set of [id, arg] - admitted, not yet exited entries              *)
(* cb   : [st, retryAt, tot, err] of the breaker (single statistic bucket  *)
(*        that does not expire within a scenario, probe number 0)          *)
(* and a rule record R = [flow, iso, hot, cbE, cbTO] (-1: no such rule).   *)
(* Used by Sentinel (model checking) and Sentinel_Trace (real executions). *)
(***************************************************************************)
EXTENDS WindowRef

LiveFor(S, arg) == { e \in S.live : e.arg = arg }

FlowBlocks(S, R, b) == R.flow >= 0 /\ RefSum(S.ref, 1, S.now, 2, "pass") + b > R.flow
IsoBlocks(S, R, b)  == R.iso >= 0 /\ Cardinality(S.live) + b > R.iso
HotBlocks(S, R, arg) == R.hot >= 0 /\ arg # "none" /\ Cardinality(LiveFor(S, arg)) + 1 > R.hot
CbBlocks(S, R)      == R.cbE >= 0 /\ (S.cb.st = "H" \/ (S.cb.st = "O" /\ S.now < S.cb.retryAt))
CbProbes(S, R)      == R.cbE >= 0 /\ S.cb.st = "O" /\ S.now >= S.cb.retryAt

\* the decision of the whole chain: [ok, bt]
Decide(S, R, b, arg) ==
    IF FlowBlocks(S, R, b) THEN [ok |-> FALSE, bt |-> "flow"]
    ELSE IF IsoBlocks(S, R, b) THEN [ok |-> FALSE, bt |-> "isolation"]
    ELSE IF HotBlocks(S, R, arg) THEN [ok |-> FALSE, bt |-> "hotspot"]
    ELSE IF CbBlocks(S, R) THEN [ok |-> FALSE, bt |-> "breaker"]
    ELSE [ok |-> TRUE, bt |-> "none"]

\* state after Entry(id, b, arg)
AfterEntry(S, R, id, b, arg) ==
    IF ~Decide(S, R, b, arg).ok THEN S               \* a blocked request leaves every module untouched
    ELSE [S EXCEPT !.ref = RefAdd(S.ref, {"pass"}, 1, S.now, "pass", b),
                   !.live = @ \cup {[id |-> id, arg |-> arg]},
                   !.cb = IF CbProbes(S, R) THEN [@ EXCEPT !.st = "H"] ELSE @]

\* state after Exit(id) of an admitted entry, err = the request failed
AfterExit(S, R, id, err) ==
    LET c0 == S.cb
        c1 == [c0 EXCEPT !.tot = @ + 1, !.err = @ + (IF err THEN 1 ELSE 0)]
        c2 == IF R.cbE < 0 THEN c0
              ELSE IF c1.st = "O" THEN c1
              ELSE IF c1.st = "H" THEN (IF err THEN [c1 EXCEPT !.st = "O", !.retryAt = S.now + R.cbTO]
                                        ELSE [st |-> "C", retryAt |-> c1.retryAt, tot |-> 0, err |-> 0])
              ELSE IF c1.tot >= 1 /\ c1.err >= R.cbE THEN [c1 EXCEPT !.st = "O", !.retryAt = S.now + R.cbTO]
              ELSE c1
    IN  [S EXCEPT !.live = { e \in @ : e.id # id }, !.cb = c2]

AfterTick(S, d) == [S EXCEPT !.now = @ + d, !.ref = Prune(@, 1, 2, S.now + d)]

InitState(t0) == [now |-> t0, ref |-> << >>, live |-> {}, cb |-> [st |-> "C", retryAt |-> 0, tot |-> 0, err |-> 0]]
=============================================================================
