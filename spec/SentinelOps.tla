----------------------------- MODULE SentinelOps -----------------------------
(***************************************************************************)
(* Composition of the rule modules in the default global slot chain of     *)
(* sentinel-golang (growth item 1 of DESIGN section 4).                    *)
(*                                                                         *)
(* Several resources, each guarded at the same time by                     *)
(*   - a reject-mode flow rule on the default statistic window,            *)
(*   - an isolation (concurrency) rule,                                    *)
(*   - a hot-parameter CONCURRENCY rule on argument 0,                     *)
(*   - a hot-parameter QPS rule in reject mode on argument 0 (token bucket *)
(*     per value: the operators of HotParamQpsOps are REUSED, instantiated *)
(*     as HQ; thresholds, burst and duration are rule parameters; the      *)
(*     parameter cache is far from its capacity here, so only the stored   *)
(*     cells matter - their recency order is not part of the state),       *)
(*   - an error-count circuit breaker (minimum amount 1, probe number 0,   *)
(*     one statistic bucket that does not expire within a scenario),       *)
(* and, in front of them, the SYSTEM rules of the whole process            *)
(* (system.Concurrency and system.InboundQPS) on the global inbound node.  *)
(*                                                                         *)
(* The rule-check slots run in the order                                   *)
(*     system -> flow -> isolation -> hotspot -> circuit breaker;          *)
(* the first one that blocks determines the block type and NO later slot   *)
(* runs.  Only admitted requests are counted by any module, with ONE       *)
(* exception that is the design of the code: the token bucket of a         *)
(* hot-parameter QPS rule is charged when the hotspot slot is PASSED, so a *)
(* request that passes it and is then refused by the circuit breaker has   *)
(* spent its tokens (nothing else).  System rules gate INBOUND entries     *)
(* only; an outbound entry is never system-blocked and is not counted on   *)
(* the inbound node.                                                       *)
(*                                                                         *)
(* Pure operators over a state record                                      *)
(*   S = [now, ic, iref, res]                                              *)
(* now  : time in ticks of 500 ms                                          *)
(* ic   : in-flight gauge of the global inbound node                       *)
(* iref : WindowRef reference of the tokens of admitted INBOUND entries    *)
(* res  : resource -> [ref, rc, live, hcnt, ht, hk, cb]                    *)
(*   ref  : WindowRef reference of admitted tokens (bucket = one tick; the *)
(*          flow rule reads the 2-bucket window)                           *)
(*   rc   : in-flight gauge of the resource (read by the isolation rule)   *)
(*   live : set of [id, arg, inb, hc, err] - admitted, not yet exited;     *)
(*          hc = the entry occupies a unit of the hot-parameter counters   *)
(*          NOW in use (it was counted on them when it was admitted);      *)
(*          err = an error was reported on it (api.TraceError)             *)
(*   hcnt : value -> units in use on the hot-parameter counters (absent =  *)
(*          0)                                                             *)
(*   ht, hk : value -> time of the last refill / remaining tokens of the   *)
(*          hot-parameter QPS rule                                         *)
(*   cb   : [st, retryAt, tot, err] of the breaker                         *)
(* and a rule record                                                       *)
(*   R = [sys |-> [conc, qps], res |-> resource -> [flow, iso, hot, hq,    *)
(*        hqB, hqD, cbE, cbTO]]       (-1: no such rule; hqD in seconds)   *)
(* The gauges ic / rc / hcnt are what the code reads; that they equal the  *)
(* sets of live entries is an invariant of Sentinel.tla.                   *)
(*                                                                         *)
(* A variant record V selects the design (Design) or a deliberately broken *)
(* composition (the mutants of Sentinel.tla); Sentinel_Trace uses Design.  *)
(* Used by Sentinel (model checking) and Sentinel_Trace (real executions). *)
(***************************************************************************)
EXTENDS WindowRef

HQ == INSTANCE HotParamQpsOps

TickMs == 500
DefaultOrder == <<"system", "flow", "isolation", "hotspot", "breaker">>
Design == [order |-> DefaultOrder, sysOut |-> FALSE, isoReset |-> FALSE, blockedCounts |-> FALSE,
           exitCurrent |-> FALSE, cbForget |-> FALSE, shared |-> FALSE]

\* small finite maps value -> Int, absent = 0, kept canonical (no zero cells)
Get(f, v) == IF v \in DOMAIN f THEN f[v] ELSE 0
Upd(f, v, x) ==
    LET D == IF x = 0 THEN DOMAIN f \ {v} ELSE DOMAIN f \cup {v} IN
    IF D = {} THEN << >> ELSE [y \in D |-> IF y = v THEN x ELSE f[y]]

NoCb == [st |-> "C", retryAt |-> 0, tot |-> 0, err |-> 0]
InitRes == [ref |-> << >>, rc |-> 0, live |-> {}, hcnt |-> << >>, ht |-> << >>, hk |-> << >>, cb |-> NoCb]
InitState(t0, RS) == [now |-> t0, ic |-> 0, iref |-> << >>, res |-> [r \in RS |-> InitRes]]
NoRule == [flow |-> -1, iso |-> -1, hot |-> -1, hq |-> -1, hqB |-> 0, hqD |-> 1, cbE |-> -1, cbTO |-> 1]
NoSys == [conc |-> -1, qps |-> -1]

LiveFor(X, arg) == { e \in X.live : e.arg = arg }
Window(ref, now) == RefSum(ref, 1, now, 2, "pass")

(***************************************************************************)
(* the slots                                                               *)
(***************************************************************************)
SysViolated(S, R) == \/ R.sys.conc >= 0 /\ S.ic >= R.sys.conc
                     \/ R.sys.qps >= 0 /\ Window(S.iref, S.now) >= R.sys.qps
SysBlocks(V, S, R, ty) == (ty = "in" \/ V.sysOut) /\ SysViolated(S, R)
FlowBlocks(X, RR, now, b) == RR.flow >= 0 /\ Window(X.ref, now) + b > RR.flow
IsoBlocks(X, RR, b)  == RR.iso >= 0 /\ X.rc + b > RR.iso
\* units in use for a value: the counters of the resource's own rule (broken variant: one counter for all resources)
RECURSIVE SumCnt(_, _, _)
SumCnt(S, RS, arg) == IF RS = {} THEN 0 ELSE LET r == CHOOSE x \in RS : TRUE IN Get(S.res[r].hcnt, arg) + SumCnt(S, RS \ {r}, arg)
HotFigure(V, S, r, arg) == IF V.shared THEN SumCnt(S, DOMAIN S.res, arg) ELSE Get(S.res[r].hcnt, arg)
HotConcBlocks(V, S, RR, r, arg) == RR.hot >= 0 /\ arg # "none" /\ HotFigure(V, S, r, arg) + 1 > RR.hot
CbBlocks(X, RR, now) == RR.cbE >= 0 /\ (X.cb.st = "H" \/ (X.cb.st = "O" /\ now < X.cb.retryAt))
CbProbes(X, RR, now) == RR.cbE >= 0 /\ X.cb.st = "O" /\ now >= X.cb.retryAt

\* the hot-parameter QPS rule as a configuration of HotParamQpsOps; the cache of the rule never fills up here
HqCf(RR) == [mode |-> "reject", T |-> RR.hq, B |-> RR.hqB, D |-> RR.hqD * 1000, MQ |-> 0, items |-> << >>, cap |-> HQ!LibCapBase]
AsCache(cells) == [ord |-> << >>, val |-> cells, pos |-> [y \in DOMAIN cells |-> 0], size |-> Cardinality(DOMAIN cells)]
\* the hotspot slot: the concurrency rule is consulted first, then the QPS rule (which charges its bucket when it passes)
HotStep(V, ht, hk, S, RR, r, now, b, arg) ==
    IF arg = "none" THEN [blocked |-> FALSE, ht |-> ht, hk |-> hk]
    ELSE IF HotConcBlocks(V, S, RR, r, arg) THEN [blocked |-> TRUE, ht |-> ht, hk |-> hk]
    ELSE IF RR.hq < 0 THEN [blocked |-> FALSE, ht |-> ht, hk |-> hk]
    ELSE LET st == HQ!RejectStep(HqCf(RR), AsCache(ht), AsCache(hk), arg, b, now * TickMs)
         IN  [blocked |-> ~st.ok, ht |-> st.tc.val, hk |-> st.kc.val]

\* walk the rule-check slots in the given order; result [ok, bt, ht, hk] (ht / hk: the token cells after the checks)
RECURSIVE Walk(_, _, _, _, _, _, _, _)
Walk(V, order, S, R, r, q, ht, hk) ==
    LET X == S.res[r]  RR == R.res[r] IN
    IF order = << >> THEN [ok |-> TRUE, bt |-> "none", ht |-> ht, hk |-> hk]
    ELSE LET s == Head(order) IN
         IF s = "hotspot"
           THEN LET hs == HotStep(V, ht, hk, S, RR, r, S.now, q.b, q.arg) IN
                IF hs.blocked THEN [ok |-> FALSE, bt |-> s, ht |-> hs.ht, hk |-> hs.hk]
                ELSE Walk(V, Tail(order), S, R, r, q, hs.ht, hs.hk)
         ELSE IF \/ s = "system" /\ SysBlocks(V, S, R, q.ty)
                 \/ s = "flow" /\ FlowBlocks(X, RR, S.now, q.b)
                 \/ s = "isolation" /\ IsoBlocks(X, RR, q.b)
                 \/ s = "breaker" /\ CbBlocks(X, RR, S.now)
           THEN [ok |-> FALSE, bt |-> s, ht |-> ht, hk |-> hk]
           ELSE Walk(V, Tail(order), S, R, r, q, ht, hk)

\* a request q = [b, arg, ty] on resource r
ChainV(V, S, R, r, q) == Walk(V, V.order, S, R, r, q, S.res[r].ht, S.res[r].hk)
DecideV(V, S, R, r, q) == LET c == ChainV(V, S, R, r, q) IN [ok |-> c.ok, bt |-> c.bt]
Decide(S, R, r, q) == DecideV(Design, S, R, r, q)

(***************************************************************************)
(* the operations                                                          *)
(***************************************************************************)
\* state after Entry(id) of request q on r
AfterEntryV(V, S, R, r, id, q) ==
    LET c == ChainV(V, S, R, r, q)
        X == S.res[r]  RR == R.res[r]
        counted == RR.hot >= 0 /\ q.arg # "none"
        \* what the check phase leaves behind whatever the outcome
        Xc == [X EXCEPT !.ht = c.ht, !.hk = c.hk,
                        !.hcnt = IF V.blockedCounts /\ ~c.ok /\ counted THEN Upd(@, q.arg, Get(@, q.arg) + 1) ELSE @]
    IN
    IF ~c.ok THEN [S EXCEPT !.res[r] = Xc]
    ELSE [S EXCEPT !.ic   = IF q.ty = "in" THEN @ + 1 ELSE @,
                   !.iref = IF q.ty = "in" THEN RefAdd(@, {"pass"}, 1, S.now, "pass", q.b) ELSE @,
                   !.res[r] = [Xc EXCEPT !.ref  = RefAdd(@, {"pass"}, 1, S.now, "pass", q.b),
                                         !.rc   = @ + 1,
                                         !.live = @ \cup {[id |-> id, arg |-> q.arg, inb |-> q.ty = "in", hc |-> counted, err |-> FALSE]},
                                         !.hcnt = IF counted THEN Upd(@, q.arg, Get(@, q.arg) + 1) ELSE @,
                                         !.cb   = IF CbProbes(X, RR, S.now) THEN [@ EXCEPT !.st = "H"] ELSE @]]
AfterEntry(S, R, r, id, q) == AfterEntryV(Design, S, R, r, id, q)

IsLive(S, r, id) == \E e \in S.res[r].live : e.id = id
EntryOf(S, r, id) == CHOOSE e \in S.res[r].live : e.id = id

\* an error is reported on a live entry (api.TraceError / SetError)
AfterTrace(S, r, id) ==
    IF ~IsLive(S, r, id) THEN S
    ELSE [S EXCEPT !.res[r].live = { IF e.id = id THEN [e EXCEPT !.err = TRUE] ELSE e : e \in @ }]

\* THE completion of a live entry; xerr = the Exit call carries an error.  (Any call on an entry that has completed
\* changes nothing: there is no operator for it.)
AfterExitV(V, S, R, r, id, xerr) ==
    LET X == S.res[r]  RR == R.res[r]
        e == EntryOf(S, r, id)
        err == e.err \/ xerr
        c0 == X.cb
        c1 == [c0 EXCEPT !.tot = @ + 1, !.err = @ + (IF err THEN 1 ELSE 0)]
        c2 == IF RR.cbE < 0 THEN c0
              ELSE IF c1.st = "O" THEN c1
              ELSE IF c1.st = "H" THEN (IF err THEN [c1 EXCEPT !.st = "O", !.retryAt = S.now + RR.cbTO]
                                        ELSE NoCb)
              ELSE IF c1.tot >= 1 /\ c1.err >= RR.cbE THEN [c1 EXCEPT !.st = "O", !.retryAt = S.now + RR.cbTO]
              ELSE c1
        \* the entry releases exactly the unit it occupies (the broken variant: whatever counter is current)
        rel == IF V.exitCurrent THEN RR.hot >= 0 /\ e.arg # "none" ELSE e.hc
    IN  [S EXCEPT !.ic = IF e.inb THEN @ - 1 ELSE @,
                  !.res[r] = [X EXCEPT !.rc = @ - 1, !.live = @ \ {e}, !.cb = c2,
                                       !.hcnt = IF rel THEN Upd(@, e.arg, Get(@, e.arg) - 1) ELSE @]]
AfterExit(S, R, r, id, xerr) == AfterExitV(Design, S, R, r, id, xerr)

AfterTick(S, d) ==
    [S EXCEPT !.now = @ + d, !.iref = Prune(@, 1, 2, S.now + d),
              !.res = [r \in DOMAIN @ |-> [@[r] EXCEPT !.ref = Prune(@, 1, 2, S.now + d)]]]

\* A reload replaces the rule(s) of ONE module for one resource (mod = "sys": the system rules of the process, r is
\* ignored).  val: flow / iso / hot [v], hq [hq, hqB, hqD], cb [cbE, cbTO], sys [conc, qps].
NewRules(R, r, mod, val) ==
    CASE mod = "sys"  -> [R EXCEPT !.sys = val]
      [] mod = "flow" -> [R EXCEPT !.res[r].flow = val.v]
      [] mod = "iso"  -> [R EXCEPT !.res[r].iso = val.v]
      [] mod = "hot"  -> [R EXCEPT !.res[r].hot = val.v]
      [] mod = "hq"   -> [R EXCEPT !.res[r].hq = val.hq, !.res[r].hqB = val.hqB, !.res[r].hqD = val.hqD]
      [] mod = "cb"   -> [R EXCEPT !.res[r].cbE = val.cbE, !.res[r].cbTO = val.cbTO]

\* What a reload does to the runtime state.  Entries in flight keep occupying what they occupy:
\*  flow / isolation / system rules read the statistics of the resource / of the process - untouched;
\*  hot-parameter concurrency: a rule whose threshold merely changes keeps its counters; a rule that was absent
\*    starts new counters at zero, and the entries in flight do not occupy units of THOSE (hc := FALSE): they
\*    will not release any either;
\*  hot-parameter QPS: the buckets are kept unless the rule was absent or its duration changes;
\*  breaker: an unchanged rule keeps its breaker (state, deadline, counters); a changed one starts Closed on the
\*    same counters; a rule that was absent starts from scratch.
AfterReloadV(V, S, R, r, mod, val) ==
    IF mod \in {"sys", "flow"} THEN S
    ELSE LET X == S.res[r]  RR == R.res[r] IN
    CASE mod = "iso" -> IF V.isoReset THEN [S EXCEPT !.res[r].rc = 0] ELSE S
      [] mod = "hot" -> IF RR.hot >= 0 /\ val.v >= 0 THEN S
                        ELSE [S EXCEPT !.res[r].hcnt = << >>,
                                       !.res[r].live = { [e EXCEPT !.hc = FALSE] : e \in @ }]
      [] mod = "hq"  -> IF RR.hq >= 0 /\ val.hq >= 0 /\ RR.hqD = val.hqD THEN S
                        ELSE [S EXCEPT !.res[r].ht = << >>, !.res[r].hk = << >>]
      [] mod = "cb"  -> IF RR.cbE = val.cbE /\ RR.cbTO = val.cbTO /\ ~V.cbForget THEN S
                        ELSE IF RR.cbE >= 0 /\ val.cbE >= 0 /\ ~V.cbForget
                               THEN [S EXCEPT !.res[r].cb = [NoCb EXCEPT !.tot = X.cb.tot, !.err = X.cb.err]]
                        ELSE [S EXCEPT !.res[r].cb = NoCb]
AfterReload(S, R, r, mod, val) == AfterReloadV(Design, S, R, r, mod, val)
=============================================================================
