------------------------ MODULE BreakerConcReload_MC ------------------------
EXTENDS BreakerConcReload, Json
MCErrs == [i \in Clients |-> i % 2 = 1]      \* odd clients fail
MCErrsAll == [i \in Clients |-> TRUE]
\* everything except the schedule history; the listener log only matters through its length
view == <<svc, word, state, retryAt, probes, tot, errs, now, Len(listen), openedAt, pubAt, epoch, admittedIn, ntrans, ost, illegal,
          early, earlyStale, earlyStalled, earlyPub, reloaded, pc, ob, cur, arrived, tread, admitted, pub, nread, stot, serrs>>
\* schedule generation: every step of a TLC simulation prints the schedule so far
Emit == PrintT(ToJson(sched'))
=============================================================================
