------------------------------ MODULE MetricLog ------------------------------
(***************************************************************************)
(* Bounded design model of the metric log (property C17): a writer, its    *)
(* retained files with their index files, ONE long-lived searcher with its *)
(* position cache, and a truncation of the last data / index file.         *)
(* All operators (property level and implementation-shaped layer) are in   *)
(* MetricLogRef.  TLC checks in every reachable state and for EVERY query  *)
(* that the answer of the implementation-shaped searcher - fresh, and with *)
(* whatever cache the earlier queries left behind - is the answer the      *)
(* property demands.  With Fixes = {} (the pinned code) this is violated;  *)
(* such design-level counterexamples are leads that the check replays on   *)
(* the real code (DESIGN section 6).  With Fixes = AllFixes it holds.      *)
(***************************************************************************)
EXTENDS MetricLogRef

---------------------------------------------------------------------------
(* The bounded design model                                                *)

CONSTANTS
    MaxFiles,     \* retention: maximum number of data files
    MaxSize,      \* roll threshold (width units; all widths are 1 here, so: lines)
    DayLen,       \* seconds per day
    CreateSecs,   \* seconds at which the writer may be created
    MaxSec,       \* largest second
    Batches,      \* the item batches of one Write: sequences of resource names
    MaxWrites, MaxQueries,
    Fixes,        \* subset of AllFixes: the variant of the implementation layer
    WithCut,      \* BOOLEAN: explore truncation of the last data / index file
    CreateSecWrites \* BOOLEAN: writes stamped with the creation second are explored

VARIABLES
    t0,           \* second at which the writer was created (never changes)
    files,        \* retained files, oldest first
    latest,       \* latestOpSec
    cnt,          \* items accepted so far in second `latest' (makes item identities canonical)
    cache,        \* position cache of the one long-lived searcher
    orig,         \* << >>, or the files as they were before the cut
    cutk,         \* [dk, ik]: whole lines / whole entries of the last file kept by the cut
    nw, nq,       \* operation counters (bounds)
    written,      \* history: every accepted item, in order          (hidden by VIEW)
    h             \* history of operations = scenario for the driver  (hidden by VIEW)

vars == <<t0, files, latest, cnt, cache, orig, cutk, nw, nq, written, h>>
view == <<t0, files, latest, cnt, cache, orig, cutk, nw, nq>>

Queries ==
    [op : {"find"}, b : 1..(MaxSec + 1), e : 1..MaxSec, res : {"", "r1"}]
    \cup [op : {"from"}, b : 1..(MaxSec + 1), n : 0..3]
QOK(q) == q.op = "find" => q.e >= q.b \/ q.e = 1
\* the searcher's state after a query depends on q.b only: two representatives per begin second
QueryActs == { q \in Queries : IF q.op = "find" THEN q.e = MaxSec /\ q.res = "" ELSE q.n = 2 }

Init ==
    /\ t0 \in CreateSecs /\ latest = t0
    /\ files = << EmptyFile(DayOf(latest, DayLen), 0) >>
    /\ cnt = 0 /\ cache = EmptyCache /\ orig = << >> /\ cutk = [dk |-> 0, ik |-> 0]
    /\ nw = 0 /\ nq = 0 /\ written = << >>
    /\ h = << [op |-> "new", t0 |-> latest, maxfiles |-> MaxFiles, maxlines |-> MaxSize, daylen |-> DayLen] >>

Items(sec, batch) ==
    LET base == IF sec = latest THEN cnt ELSE 0
        len  == IF batch[2] = "-" THEN 1 ELSE 2 IN
    [i \in 1..len |-> [sec |-> sec, res |-> batch[i], k |-> base + i, w |-> 1, tag |-> "ok"]]

Write(sec, batch) ==
    /\ orig = << >> /\ nw < MaxWrites
    /\ sec >= 1 /\ sec <= MaxSec
    /\ CreateSecWrites \/ sec > t0 \/ sec < latest
    /\ LET its == Items(sec, batch)
           r   == DoWrite(files, latest, sec, its, MaxFiles, MaxSize, DayLen, Fixes) IN
       /\ files' = r.files /\ latest' = r.latest
       /\ cnt' = IF sec < latest THEN cnt ELSE IF sec = latest THEN cnt + Len(its) ELSE Len(its)
       /\ written' = IF sec < latest THEN written ELSE written \o its
    /\ nw' = nw + 1
    /\ h' = Append(h, [op |-> "write", sec |-> sec, res |-> batch])
    /\ UNCHANGED <<t0, cache, orig, cutk, nq>>

Query(q) ==
    /\ nq < MaxQueries /\ QOK(q)
    /\ cache' = ImplFind(files, cache, q, Fixes).cache
    /\ nq' = nq + 1
    /\ h' = Append(h, q)
    /\ UNCHANGED <<t0, files, latest, cnt, orig, cutk, nw, written>>

\* truncation of the last data file after dk whole lines (+ a torn piece of the next line of class dt)
\* and of its index file after ik whole entries (+ a torn piece of the next entry of class it)
Cut(dk, dt, ik, it) ==
    /\ WithCut /\ orig = << >> /\ nw > 0
    /\ LET lf == Last(files) IN
       /\ dk \in 0..Len(lf.lines) /\ ik \in 0..Len(lf.idx)
       /\ dt # "none" => dk < Len(lf.lines)
       /\ it # "none" => ik < Len(lf.idx)
       /\ dk < Len(lf.lines) \/ ik < Len(lf.idx)
       /\ files' = [files EXCEPT ![Len(files)] =
             [@ EXCEPT !.lines = SubSeq(lf.lines, 1, dk) \o (IF dt = "none" THEN << >> ELSE << [lf.lines[dk+1] EXCEPT !.tag = dt] >>),
                       !.idx   = SubSeq(lf.idx, 1, ik) \o (IF it = "none" THEN << >> ELSE << [lf.idx[ik+1] EXCEPT !.kind = it] >>)]]
    /\ orig' = files
    /\ cutk' = [dk |-> dk, ik |-> ik]
    /\ h' = Append(h, [op |-> "cut", dk |-> dk, dt |-> dt, ik |-> ik, it |-> it])
    /\ UNCHANGED <<t0, latest, cnt, cache, nw, nq, written>>

Next ==
    \/ \E sec \in {latest - 1, latest, latest + 1, latest + 2}, batch \in Batches : Write(sec, batch)
    \/ \E q \in QueryActs : Query(q)
    \/ \E dk \in 0..(2 * MaxSize), ik \in 0..(2 * MaxSize),
          dt \in {"none", "garbage", "bogus", "nonl"}, it \in {"none", "nosec", "nooff"} : Cut(dk, dt, ik, it)

Spec == Init /\ [][Next]_vars

---------------------------------------------------------------------------
(* Properties                                                              *)

Pre     == IF orig = << >> THEN files ELSE orig
RAll    == Flatten(Pre)
MAll    == IF orig = << >> THEN RAll ELSE MustItems(orig, cutk.dk, cutk.ik)

AnswerOK2(c, q, ra, ma) ==
    LET P == ImplFind(files, c, q, Fixes).items IN
    IF q.op = "find" THEN RangeOK(P, RefRange(ra, q.b, q.e, q.res), RefRange(ma, q.b, q.e, q.res))
                     ELSE FromOK(P, RefFrom(ra, q.b), RefFrom(ma, q.b), q.n)
AnswerOK(c, q) == AnswerOK2(c, q, RAll, MAll)

\* every search of a fresh searcher gives the answer the property demands
FreshOK  == LET ra == RAll  ma == MAll IN \A q \in Queries : QOK(q) => AnswerOK2(EmptyCache, q, ra, ma)
\* ... and so does every search of the long-lived searcher, whatever it was asked before
CachedOK == cache = EmptyCache \/ LET ra == RAll  ma == MAll IN \A q \in Queries : QOK(q) => AnswerOK2(cache, q, ra, ma)
\* (while nothing is cut both together say: the answer does not depend on the earlier queries)
CacheIndependent ==
    orig = << >> => \A q \in Queries : QOK(q) => ImplFind(files, cache, q, Fixes).items = ImplFind(files, EmptyCache, q, Fixes).items
BoundOK  == Len(files) <= MaxFiles /\ Len(files) >= 1
\* the retained files hold a suffix of the accepted items
RetainedOK == orig = << >> =>
    LET r == Flatten(files) IN Len(r) <= Len(written) /\ r = SubSeq(written, Len(written) - Len(r) + 1, Len(written))
TypeOK   == latest >= 1 /\ nw \in 0..MaxWrites /\ nq \in 0..MaxQueries
=============================================================================
