SPECIFICATION Spec
CONSTANTS
  RuleLists <- MCRuleLists
  Samples <- MCSamples
  Batches = {1, 4}
  Steps = {250, 500, 1000}
  MaxOps = 3
  MaxOpen = 2
  MaxSets = 0
  MaxTicks = 2
  MaxTraced = 2
  ExitKinds = {FALSE, TRUE}
  LateKinds = {"exit", "trace"}
  MaxRules = 0
  Triggers = {0, 1, 2}
VIEW view
INVARIANTS TypeOK QpsOK AvgRtOK MinRtOK PeakOK ConcOK ErrOK LoneRequestNeverShed AllBBRWeaker AllUnsampledNeverBlocks AllMonotoneInTrigger
CHECK_DEADLOCK FALSE
