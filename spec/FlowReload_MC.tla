---------------------------- MODULE FlowReload_MC ----------------------------
(* Bounded instances of FlowReload.  One tick = 500 ms (B = 1): interval 0  *)
(* = view of the resource statistic, 3 = standalone window of 3 x 500 ms,   *)
(* 4 = reused 2000 ms view.                                                 *)
EXTENDS FlowReload, Json

R(res, n, d, I) == [res |-> res, T |-> <<n, d>>, I |-> I, ref |-> 0]
\* single rules and pairs of distinct rules over a standalone and a view window
MCOne == { << R(1, n, 1, I) >> : n \in {1, 2, 3}, I \in {0, 3} }
MCTwo == { << R(1, n1, 1, 3), R(1, n2, 1, I2) >> : n1 \in {1, 2}, n2 \in {2, 3}, I2 \in {0, 3} } \ { << R(1, 2, 1, 3), R(1, 2, 1, 3) >> }
MCRel == MCOne \cup MCTwo
MCRelGen == { << R(1, n, 1, 3) >> : n \in {1, 2} } \cup { << R(1, 1, 1, 3), R(1, 3, 1, I2) >> : I2 \in {0, 3} } \cup { << R(1, 2, 1, 0) >> }
MCSteps == {1, 2, 3}
Emit == PrintT(ToJson(h'))
=============================================================================
