SPECIFICATION Spec
CONSTANTS
  RuleLists <- MCRuleListsPlus
  Samples <- MCSamples
  Batches = {1, 4}
  Steps = {250, 1000}
  MaxOps = 2
  MaxOpen = 2
  MaxSets = 1
  MaxTicks = 2
  MaxTraced = 0
  ExitKinds = {FALSE}
  LateKinds = {}
  MaxRules = 1
  Triggers = {0, 1, 2}
VIEW view
INVARIANTS TypeOK ConcOK OutboundNeverBlocked BlockedIffViolated NoRuleNoBlock
  BlockedLeavesNoTrace BBRWeaker UnsampledNeverBlocks LoneRequestNeverShed
CHECK_DEADLOCK FALSE
