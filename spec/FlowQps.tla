------------------------------- MODULE FlowQps -------------------------------
(***************************************************************************)
(* Reject-mode QPS flow rules of sentinel-golang (core/flow), property C02.*)
(*                                                                         *)
(* PROPERTY LEVEL.  adm[res] is the reference of the tokens admitted for   *)
(* resource res, kept per tick (WindowRef with bucket length 1).  The      *)
(* tokens "already admitted in the current bucket-aligned statistic        *)
(* window" of a rule with interval I whose statistic has buckets of length *)
(* bl are                                                                  *)
(*     AlignedSum(adm[counted resource], bl, now, I)                       *)
(*   = the WindowRef sum over [Align(now,bl) - I + bl, Align(now,bl) + bl) *)
(* and a request of batch b is admitted iff for EVERY rule of its resource *)
(* (in list order; the first failing rule is the one reported)             *)
(*     AlignedSum + b <= T        (T rational, compared exactly).          *)
(* A rule counts its own resource, an associated rule (ref # 0) counts the *)
(* referenced resource.  Only admitted requests are added to adm.          *)
(*                                                                         *)
(* The bucket length is not fixed by the property ("bucket-aligned"); the  *)
(* design model uses the geometry the library derives from the interval    *)
(* (GeometryFor, a transcription of flow.generateStatFor), FlowQps_Trace   *)
(* accepts any divisor of I.                                               *)
(*                                                                         *)
(* DESIGN MODEL.  Request uses ImplDecision, which for Mut = "none" is the *)
(* property-level Decision; the other values of Mut are deliberately       *)
(* broken designs (">=" compare, quota consumed by rejected requests, an   *)
(* associated rule reading its own resource).  TLC checks Iff, Cap,        *)
(* NoQuotaForRejected and FirstRuleReported; the broken variants must      *)
(* violate them (vacuity self-test of the invariants).                     *)
(***************************************************************************)
EXTENDS WindowRef, AdmitOps, TLC

CONSTANTS
    Res,        \* resources: small integers
    RuleCfgs,   \* set of rule lists; rule = [res, T, I, ref]: T = <<num, den>>, I = 0 means default,
                \*   ref = 0 (own resource) or the referenced resource
    B,          \* bucket length of the per-resource global statistic, in ticks   (500 ms)
    GN,         \* number of buckets of the global statistic                      (20)
    Batches,    \* batch counts of a request
    Steps,      \* clock increments
    MaxT,       \* bound on the clock
    MaxOps,     \* bound on the number of requests
    Mut         \* "none" | "ge" | "countblocked" | "own"

VARIABLES
    now,        \* current time
    rules,      \* the rule list in force (loaded before any traffic)
    adm,        \* [Res -> per-tick reference of admitted tokens]
    last,       \* the last decision and what the property demanded for it
    nops,       \* number of requests so far
    h           \* history of operations = scenario for the conformance driver (hidden by VIEW)

vars == <<now, rules, adm, last, nops, h>>
view == <<now, rules, adm, last, nops>>

PassKinds == {"pass"}
DefI == 2 * B           \* default statistic interval of a resource  (1000 ms, 2 buckets)
G    == GN * B          \* interval of the global statistic          (10 000 ms)

---------------------------------------------------------------------------
(* geometry of the statistic window the library binds to a rule with       *)
(* StatIntervalInMs = I   (transcription of flow.generateStatFor)          *)
GeometryFor(I) ==
    IF I = 0 \/ I = DefI                        THEN [bl |-> B, I |-> DefI]   \* the resource's default metric
    ELSE IF I >= B /\ I <= G /\ I % B = 0       THEN [bl |-> B, I |-> I]      \* I/B buckets of the global length
    ELSE                                             [bl |-> I, I |-> I]      \* one bucket spanning the interval
\* the window is a read-only view of the resource's global statistic (otherwise the rule owns a standalone window)
ReusesGlobal(I) == I = 0 \/ I = DefI \/ (I >= B /\ I <= G /\ I % B = 0 /\ G % I = 0)

---------------------------------------------------------------------------
(* property-level operators (shared with FlowQps_Trace)                    *)

\* tokens recorded in ref (per tick) inside the bl-aligned window of length I that contains time t
AlignedSum(ref, bl, t, I) == RefSum(ref, 1, Align(t, bl) + bl - 1, I, "pass")
\* recording an admitted batch
Admit(ref, t, b) == IF b = 0 THEN ref ELSE RefAdd(ref, PassKinds, 1, t, "pass", b)

Counted(r)         == IF r.ref = 0 THEN r.res ELSE r.ref
RuleSum(r, a, t)   == LET g == GeometryFor(r.I) IN AlignedSum(a[Counted(r)], g.bl, t, g.I)
RulesOf(rs, res)   == { i \in 1..Len(rs) : rs[i].res = res }
Blocking(rs, a, t, res, b) == { i \in RulesOf(rs, res) : Exceeds(RuleSum(rs[i], a, t), b, rs[i].T) }
ShouldAdmit(rs, a, t, res, b) == Blocking(rs, a, t, res, b) = {}
Decision(rs, a, t, res, b) ==
    LET S == Blocking(rs, a, t, res, b) IN
    IF S = {} THEN [ok |-> TRUE, rule |-> 0, val |-> 0]
    ELSE [ok |-> FALSE, rule |-> MinOf(S), val |-> RuleSum(rs[MinOf(S)], a, t)]

---------------------------------------------------------------------------
(* design model                                                            *)

MutSum(r, a, t) == IF Mut = "own" THEN LET g == GeometryFor(r.I) IN AlignedSum(a[r.res], g.bl, t, g.I)
                   ELSE RuleSum(r, a, t)
MutExceeds(s, b, T) == IF Mut = "ge" THEN ExceedsGe(s, b, T) ELSE Exceeds(s, b, T)
ImplDecision(rs, a, t, res, b) ==
    LET S == { i \in RulesOf(rs, res) : MutExceeds(MutSum(rs[i], a, t), b, rs[i].T) } IN
    IF S = {} THEN [ok |-> TRUE, rule |-> 0, val |-> 0]
    ELSE [ok |-> FALSE, rule |-> MinOf(S), val |-> MutSum(rs[MinOf(S)], a, t)]

NoLast == [res |-> 0, b |-> 0, ok |-> TRUE, rule |-> 0, val |-> 0, want |-> [ok |-> TRUE, rule |-> 0, val |-> 0]]

Init ==
    /\ now = 1
    /\ rules \in RuleCfgs
    /\ adm = [r \in Res |-> << >>]
    /\ last = NoLast
    /\ nops = 0
    /\ h = << [op |-> "new", t |-> now, rules |-> rules] >>

Request(res, b) ==
    /\ nops < MaxOps
    /\ LET d == ImplDecision(rules, adm, now, res, b) IN
       /\ last' = [res |-> res, b |-> b, ok |-> d.ok, rule |-> d.rule, val |-> d.val,
                   want |-> Decision(rules, adm, now, res, b)]
       /\ adm' = IF d.ok \/ Mut = "countblocked" THEN [adm EXCEPT ![res] = Admit(@, now, b)] ELSE adm
    /\ nops' = nops + 1
    /\ h' = Append(h, [op |-> "req", res |-> res, b |-> b])
    /\ UNCHANGED <<now, rules>>

MaxI == MaxOr0({ GeometryFor(rules[i].I).I : i \in 1..Len(rules) })
Tick(d) ==
    /\ now + d <= MaxT
    /\ now' = now + d
    \* admissions older than the longest window can never be read again
    /\ adm' = [r \in Res |-> Prune(adm[r], 1, MaxI, now + d)]
    /\ last' = NoLast
    /\ h' = Append(h, [op |-> "tick", d |-> d])
    /\ UNCHANGED <<rules, nops>>

Next ==
    \/ \E res \in Res, b \in Batches : Request(res, b)
    \/ \E d \in Steps : Tick(d)

Spec == Init /\ [][Next]_vars

---------------------------------------------------------------------------
(* the property                                                            *)

\* admitted iff window + batch <= T for every rule; the reported rule/value are those of the first failing rule
Iff               == last.ok = last.want.ok
FirstRuleReported == (~last.ok /\ ~last.want.ok) => (last.rule = last.want.rule /\ last.val = last.want.val)

\* in every aligned window the admitted tokens of the rule's own resource never exceed T
\* (every aligned window is the current window of some reachable state: the clock moves in single ticks too)
Cap == \A i \in 1..Len(rules) :
           rules[i].ref = 0 => ~Exceeds(RuleSum(rules[i], adm, now), 0, rules[i].T)

\* rejected requests do not consume quota
NoQuotaForRejected == [][(nops' = nops + 1 /\ ~last'.ok) => adm' = adm]_vars
\* admitted requests are recorded with exactly their batch
AdmittedRecorded   == [][(nops' = nops + 1 /\ last'.ok) =>
                            adm' = [adm EXCEPT ![last'.res] = Admit(@, now, last'.b)]]_vars

TypeOK == now > 0 /\ nops \in 0..MaxOps
=============================================================================
