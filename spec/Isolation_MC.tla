---------------------------- MODULE Isolation_MC ----------------------------
(* Bounded instances of Isolation.  2^31 = <<32768, 0>>, 2^32 - 1 = UMax32. *)
EXTENDS Isolation, Json

R(res, N) == [res |-> res, N |-> N]
Small  == {USmall(1), USmall(2), USmall(3)}
Ns     == Small \cup {UMax32, U(32768, 0), U(65535, 65534)}
\* one rule, two rules on the same resource (either order), rules on two resources
MCCfgs == { << R(1, N) >> : N \in Ns }
          \cup { << R(1, N1), R(1, N2) >> : N1 \in Small \cup {UMax32}, N2 \in Small }
          \cup { << R(1, N1), R(2, N2) >> : N1 \in {USmall(1), USmall(2)}, N2 \in {USmall(1), UMax32} }
MCBatches   == {USmall(0), USmall(1), USmall(2), U(32768, 0), UMax32, U(65535, 65534)}
MCBatchesNZ == MCBatches \ {USmall(0)}
\* smaller instance for scenario generation (one scenario per transition)
MCGenCfgs == { << R(1, N) >> : N \in {USmall(1), USmall(2), UMax32} }
             \cup { << R(1, USmall(3)), R(1, USmall(2)) >>, << R(1, USmall(1)), R(2, USmall(2)) >> }
MCGenBatches == {USmall(0), USmall(1), USmall(2), U(32768, 0), UMax32}
Emit == PrintT(ToJson(h'))

---------------------------------------------------------------------------
(* Bounded instance WITH reloads.  force = the rules the PROPERTY demands   *)
(* to be in force (the valid rules of the latest push of every resource),   *)
(* kept next to the rules the design enforces; wantR = what the property    *)
(* demands of the last request under force.  MaxRel = 0 is the instance     *)
(* without reloads (same state space as Isolation!Spec).                    *)
CONSTANTS
    RelLists,   \* raw rule lists a reload may push
    MaxRel,     \* bound on the number of reloads
    ClearBug    \* BOOLEAN: broken design "clearing a resource without valid rules uncaps the others"
VARIABLES force, nrel, wantR

varsR == <<rules, inflight, nreq, last, h, force, nrel, wantR>>
viewR == <<rules, inflight, nreq, last, force, nrel, wantR>>
NoWant == [ok |-> TRUE, N |-> USmall(0)]

InitR == Init /\ force = rules /\ nrel = 0 /\ wantR = NoWant

RequestR(res, b) ==
    /\ Request(res, b)
    /\ LET d == Decision(force, Cardinality(inflight[res]), res, b) IN
       wantR' = [ok |-> d.ok, N |-> IF d.ok THEN USmall(0) ELSE force[d.rule].N]
    /\ UNCHANGED <<force, nrel>>

ExitR(res, id) == Exit(res, id) /\ wantR' = NoWant /\ UNCHANGED <<force, nrel>>

ReloadR(via, r, raw) ==
    /\ nrel < MaxRel
    /\ Reload(via, r, raw, ClearBug)
    /\ force' = InForceAfter(force, via, r, raw, MaxOf(Res))
    /\ nrel' = nrel + 1
    /\ wantR' = NoWant

NextR ==
    \/ \E res \in Res, b \in Batches : RequestR(res, b)
    \/ \E res \in Res : \E id \in inflight[res] : ExitR(res, id)
    \/ \E raw \in RelLists : ReloadR("all", 0, raw)
    \/ \E r \in Res, raw \in RelLists : ReloadR("res", r, raw)
    \/ \E r \in Res : ReloadR("clear", r, << >>)
    \/ ReloadR("clearall", 0, << >>)

SpecR == InitR /\ [][NextR]_varsR

\* the decision of every request follows the rules in force, and the reported rule is the first failing one of them
\* (identified by its threshold)
IffR       == last.ok = wantR.ok
FirstRuleR == (~last.ok /\ ~wantR.ok) => rules[last.rule].N = wantR.N
\* the rules the design enforces are the valid rules of the latest push of every resource
InForce    == rules = force
\* the absolute cap holds as long as no rule list was replaced (afterwards: Isolation!CapStep)
CapR       == nrel = 0 => Cap
\* entries in flight survive a reload
ReloadKeepsInflight == [][nrel' # nrel => (inflight' = inflight /\ nreq' = nreq)]_varsR
TypeOKR    == TypeOK /\ nrel \in 0..MaxRel

RR(res, N, mt) == [res |-> res, N |-> N, mt |-> mt]
Z == USmall(0)
MCNoRel == {}
MCRelLists == { << >>,
    << RR(1, USmall(1), 0) >>, << RR(1, USmall(2), 0) >>, << RR(2, USmall(1), 0) >>,
    << RR(1, Z, 0) >>, << RR(2, Z, 0) >>, << RR(2, USmall(1), 1) >>,
    << RR(1, USmall(2), 0), RR(2, Z, 0) >>, << RR(1, Z, 0), RR(2, USmall(1), 0) >>,
    << RR(1, USmall(1), 0), RR(2, USmall(2), 0) >>,
    << RR(0, USmall(1), 0), RR(1, UMax32, 0) >>,
    << RR(1, Z, 0), RR(1, USmall(2), 0), RR(1, USmall(1), 0) >> }
MCRelCfgs == { << R(1, USmall(1)) >>, << R(1, USmall(2)), R(2, USmall(1)) >>, << R(1, USmall(3)), R(1, USmall(2)) >> }
MCRelBatches == {USmall(0), USmall(1), USmall(2), UMax32}
\* scenario generation (one scenario per transition)
MCGenRelLists == { << RR(1, USmall(1), 0) >>, << RR(2, Z, 0) >>, << RR(1, USmall(2), 0), RR(2, Z, 0) >>,
                   << RR(1, Z, 0), RR(2, USmall(1), 0) >>, << RR(2, USmall(2), 1), RR(1, USmall(2), 0), RR(1, USmall(1), 0) >> }
MCGenRelCfgs == { << R(1, USmall(1)) >>, << R(1, USmall(2)), R(2, USmall(1)) >> }
MCGenRelBatches == {USmall(1), USmall(2)}
=============================================================================
