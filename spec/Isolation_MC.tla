---------------------------- MODULE Isolation_MC ----------------------------
(* Bounded instances of Isolation.  2^31 = <<32768, 0>>, 2^32 - 1 = UMax32. *)
EXTENDS Isolation, Json

R(res, N) == [res |-> res, N |-> N]
Small  == {USmall(1), USmall(2), USmall(3)}
Ns     == Small \cup {UMax32, U(32768, 0), U(65535, 65534)}
\* one rule, two rules on the same resource (either order), rules on two resources
MCCfgs == { << R(1, N) >> : N \in Ns }
          \cup { << R(1, N1), R(1, N2) >> : N1 \in Small \cup {UMax32}, N2 \in Small }
          \cup { << R(1, N1), R(2, N2) >> : N1 \in {USmall(1), USmall(2)}, N2 \in {USmall(1), UMax32} }
MCBatches   == {USmall(0), USmall(1), USmall(2), U(32768, 0), UMax32, U(65535, 65534)}
MCBatchesNZ == MCBatches \ {USmall(0)}
\* smaller instance for scenario generation (one scenario per transition)
MCGenCfgs == { << R(1, N) >> : N \in {USmall(1), USmall(2), UMax32} }
             \cup { << R(1, USmall(3)), R(1, USmall(2)) >>, << R(1, USmall(1)), R(2, USmall(2)) >> }
MCGenBatches == {USmall(0), USmall(1), USmall(2), U(32768, 0), UMax32}
Emit == PrintT(ToJson(h'))
=============================================================================
