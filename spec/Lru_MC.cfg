SPECIFICATION MCSpec
CONSTANTS
  Keys <- MCKeys
  Vals = {1, 2}
  Caps = {1, 2, 3}
  NonPos <- None
  Mutant = "none"
VIEW view
INVARIANTS TypeOK SizeBound KeysDistinct
PROPERTIES NoSpuriousEviction OldestFirst AbsentMeansAbsent AddStores KeysOrder Accounted ReadsValue ContainsRight ResizeExact
CHECK_DEADLOCK FALSE
